#!/bin/bash
# Offline setup: build the harness binaries once (checks rebuild incrementally anyway).
set -e
cd "$(dirname "$0")"
exec ./check --setup
