#!/bin/bash
# tools/sweep.sh [tier] [seed]  — runs every registered check on the current tree and prints one line each.
TIER="${1:-quick}"; SEED="${2:-1}"
cd /verif
for id in $(jq -r '.checks[].property_id' MANIFEST.json); do
  OUT=$(./check $id --tier $TIER --seed $SEED 2>&1); RC=$?
  echo "$id exit=$RC $(echo "$OUT" | grep '^SUMMARY' | sed 's/SUMMARY property=[A-Z0-9]* //')"
  [ $RC -ne 0 ] && echo "$OUT" | grep -E "^(VIOLATION|HARNESS|  signature)" | head -6
done
