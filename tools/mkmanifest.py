#!/usr/bin/env python3
"""Regenerates /verif/MANIFEST.json from the table below (keeps it schema-valid at all times)."""
import json, os, subprocess
V = os.path.dirname(os.path.dirname(os.path.abspath(__file__)))
props = [json.loads(l) for l in open(os.path.join(V, 'properties.jsonl'))]

CHECKS = {
 # id: (level, technique, text, note, design_ref)
}
def add(id, level, technique, text, note, ref):
    CHECKS[id] = (level, technique, text, note, ref)

exec(open(os.path.join(V, 'tools', 'checks_table.py')).read())

hooks = subprocess.run(['git', '-C', '/repo', 'log', '--format=%h %s'], capture_output=True, text=True).stdout.splitlines()
hook_commits = [l.split()[0] for l in hooks if 'verif hooks' in l]

m = {
 "version": 1,
 "setup_cmd": "./setup.sh",
 "hooks": {
  "guard": "verif",
  "enable": "go build -tags verif inside /verif/harness (module verifharness, replace trpc.group/trpc-go/trpc-mcp-go => /repo); ./check <ID> does this on every run",
  "baseline_off_cmd": "cd /repo && GOFLAGS=-mod=mod GOPROXY=off GOSUMDB=off go test -vet=off -count=1 -timeout 25m ./...",
  "source_commits": hook_commits,
  "add_only": True,
 },
 "engines": [
  {"name": "vh-harness", "path": "harness/", "serves_properties": sorted(CHECKS), "kind_free_text": "Go harness: reference peers (raw HTTP / WHATWG SSE / stdio), seeded workloads, event logs, offline checkers, yield-point scheduler, race-detector children"},
 ],
 "checks": [],
 "notes": "Technique family: runtime monitoring and sanitizers. Every check observes executions of the real code built from /repo's working tree with -tags verif. See DESIGN.md.",
 "not_applicable": [],
}
for p in props:
    i = p['id']
    if i in CHECKS:
        level, tech, text, note, ref = CHECKS[i]
        m['checks'].append({
            "property_id": i,
            "quick_cmd": f"./check {i} --tier quick",
            "thorough_cmd": f"./check {i} --tier thorough",
            "evidence_file": f"/verif/evidence/{i}.json",
            "replay_cmd_template": f"./check {i} --replay {{path}}",
            "engine": "vh-harness",
            "level_claimed": {"category": level, "text": text + " The workload classes added by the nine mutation rounds (what is driven, how many cases, which oracle) are listed per check in DESIGN.md appendix F, generated from the evidence of a clean run, and in seeded/INDEX.md.", "design_ref": ref},
            "level_note": note,
            "technique": tech,
        })
    else:
        m['not_applicable'].append({"property_id": i, "reason": "check not built yet (build in progress; runtime monitoring applies, see DESIGN.md section 4)"})
json.dump(m, open(os.path.join(V, 'MANIFEST.json'), 'w'), indent=1)
print("checks:", len(m['checks']), "not_applicable:", len(m['not_applicable']))
