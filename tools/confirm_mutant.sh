#!/bin/bash
# tools/confirm_mutant.sh <worktree> <name>
# Confirms a sub-agent's mutant in its scratch worktree (demo fails with the change, passes without it, the
# repository's suite passes with it) and, if confirmed, copies it to /verif/seeded/<name>/.
set -u
WT="$1"; NAME="$2"
export GOFLAGS=-mod=mod GOPROXY=off GOSUMDB=off GOTOOLCHAIN=local
cd "$WT" || exit 2
DEMO=$(jq -r .demo_cmd MUTANT/meta.json | sed -E 's/^cd <worktree> && //; s/ +\(.*$//; s/ +#.*$//')
echo "demo: $DEMO"
git apply --check -R MUTANT/patch.diff 2>/dev/null || { echo "patch is not what is applied in the worktree"; git status --short; }
bash -c "$DEMO" > /tmp/confirm.$NAME.with.log 2>&1; W=$?
git apply -R MUTANT/patch.diff || { echo "cannot reverse patch"; exit 2; }
bash -c "$DEMO" > /tmp/confirm.$NAME.without.log 2>&1; WO=$?
git apply MUTANT/patch.diff || { echo "cannot re-apply patch"; exit 2; }
echo "demo exit with change: $W (want != 0); without: $WO (want 0)"
# existing suite with the change (demo copies carry build tags or are moved aside)
mkdir -p /tmp/aside.$NAME; for f in zz_demo_test.go; do [ -f $f ] && ! grep -q '^//go:build' $f && mv $f /tmp/aside.$NAME/; done
[ -d MUTANT ] && ! [ -f MUTANT/go.mod ] && ls MUTANT/*.go >/dev/null 2>&1 && ! grep -lq '^//go:build' MUTANT/*.go && mv MUTANT /tmp/aside.$NAME/MUTANT.dir
go build ./... && go build -tags verif ./... && go test -vet=off -count=1 ./... > /tmp/confirm.$NAME.suite.log 2>&1; S=$?
[ -d /tmp/aside.$NAME/MUTANT.dir ] && mv /tmp/aside.$NAME/MUTANT.dir MUTANT
[ -f /tmp/aside.$NAME/zz_demo_test.go ] && mv /tmp/aside.$NAME/zz_demo_test.go .
rmdir /tmp/aside.$NAME 2>/dev/null
echo "suite exit with change: $S (want 0)"; grep -E "^(FAIL|---)" /tmp/confirm.$NAME.suite.log | head -5
if [ $W -ne 0 ] && [ $WO -eq 0 ] && [ $S -eq 0 ]; then
  D=/verif/seeded/$NAME; mkdir -p $D
  cp MUTANT/patch.diff $D/patch.diff
  for f in MUTANT/*; do case "$f" in *patch.diff|*meta.json) ;; *) cp -r "$f" $D/ ;; esac; done
  jq --arg w "$W" --arg wo "$WO" --arg s "$S" '. + {confirmed_by_main: {demo_exit_with_change: ($w|tonumber), demo_exit_without_change: ($wo|tonumber), suite_exit_with_change: ($s|tonumber), base_commit: "'$(git rev-parse --short HEAD)'"}}' MUTANT/meta.json > $D/meta.json
  echo "CONFIRMED -> $D"
else
  echo "NOT CONFIRMED"; tail -5 /tmp/confirm.$NAME.with.log; tail -5 /tmp/confirm.$NAME.without.log
fi
rm -f /tmp/confirm.$NAME.*.log
