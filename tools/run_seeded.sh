#!/bin/bash
# tools/run_seeded.sh [--in-repo] <name> [check ids...]
# Runs checks against a seeded mutant. Default: a scratch worktree of /repo's HEAD with the patch applied
# (VERIF_REPO), so that /repo is not disturbed. --in-repo: apply to /repo itself and undo straight afterwards.
set -u
INREPO=0; if [ "${1:-}" = "--in-repo" ]; then INREPO=1; shift; fi
NAME="$1"; shift
D=/verif/seeded/$NAME
PROP=$(jq -r .property $D/meta.json)
CHECKS=("$@"); [ ${#CHECKS[@]} -eq 0 ] && CHECKS=("$PROP")
if [ $INREPO -eq 1 ]; then
  git -C /repo diff --quiet || { echo "/repo has uncommitted changes"; exit 2; }
  git -C /repo apply --3way $D/patch.diff 2>/dev/null || git -C /repo apply $D/patch.diff || { echo "patch does not apply to /repo"; exit 2; }
  git -C /repo reset -q
  TARGET=/repo
else
  TARGET=/tmp/seedrun.$NAME
  git -C /repo worktree remove --force $TARGET 2>/dev/null
  git -C /repo worktree add -q --detach $TARGET HEAD || exit 2
  ( cd $TARGET && (git apply --3way $D/patch.diff 2>/dev/null || git apply $D/patch.diff) ) || { echo "patch does not apply to HEAD"; git -C /repo worktree remove --force $TARGET; exit 2; }
  export VERIF_REPO=$TARGET
fi
for c in "${CHECKS[@]}"; do
  OUT=$(cd /verif && ./check $c --tier "${TIER:-quick}" 2>&1); RC=$?
  SIGS=$(echo "$OUT" | grep -o 'signature="[^"]*"' | sort -u | head -6 | tr '\n' ' ')
  echo "SEEDED $NAME check=$c exit=$RC $(echo "$OUT" | grep -c '^VIOLATION') violation-lines $SIGS"
  echo "$OUT" | grep "^SUMMARY\|HARNESS-ERROR" | head -3
done
if [ $INREPO -eq 1 ]; then git -C /repo checkout -- . ; else git -C /repo worktree remove --force $TARGET; rm -rf /verif/.build/alt-$(basename $TARGET)*; fi
