add("C01", "exploration",
    "runtime monitoring: nonce/digest exactly-once and own-answer checker over recorded call/return and handler events, raw reference peers + library clients, 7 configurations, barrier-released handlers",
    "Held on the executions explored: every call of thousands of concurrent echo calls (raw peers with all id classes, library clients crossing 10^6 / 2^31) got exactly one answer carrying its own id, nonce and payload digest, and its handler ran once. Sampling of interleavings, not enumeration.",
    "Trusted: the harness's raw peers, SSE parser and checkers; handler-side counters recorded by harness code registered through the public API. Ids above 2^53 are outside the statement.",
    "DESIGN.md section 4 C01")
