add("C01", "exploration",
    "runtime monitoring: nonce/digest exactly-once and own-answer checker over recorded call/return and handler events, raw reference peers + library clients, 7 configurations, barrier-released handlers",
    "Held on the executions explored: every call of thousands of concurrent echo calls (raw peers with all id classes, library clients crossing 10^6 / 2^31) got exactly one answer carrying its own id, nonce and payload digest, and its handler ran once. Sampling of interleavings, not enumeration.",
    "Trusted: the harness's raw peers, SSE parser and checkers; handler-side counters recorded by harness code registered through the public API. Ids above 2^53 are outside the statement.",
    "DESIGN.md section 4 C01")
add("C03", "exploration",
    "runtime monitoring: independent wire oracle (hand-written JSON-RPC/MCP validators) over every frame raw reference peers receive, answer class compared with a reference classifier derived from how each request was generated",
    "Held on the executions explored: for each of the 7 server configurations every valid request and the full structural mutation lattice (params / each parameter / envelope members removed, retyped to every JSON type, duplicated; notifications; unsolicited responses; unparsable bodies; HTTP-level faults) got a well-formed frame of the prescribed kind with the request's id and the error code of its fault class; no empty or successful 2xx for unserved input.",
    "Trusted base: lib/wire validators and lib/gen reference classifier (hand-written from MCP 2025-03-26; the official schema file is not in the sandbox). Where the statement fixes no code both -32601/-32602 are accepted.",
    "DESIGN.md section 4 C03")
add("C19", "exploration",
    "runtime monitoring: recording reference server + recording request handler + recording before-request function, joined one-to-one per HTTP request; all 32 option combinations x both HTTP clients x every request kind; before-request veto at every position",
    "Held on the executions explored: every HTTP request observed at the recording server (25 request kinds incl. GET stream, DELETE, answers to server-issued requests, legacy connect) carried the configured headers, session id and path, passed the configured handler and the before-request function exactly once with the right context token; a vetoed request never reached the server and its operation failed with that error.",
    "Trusted: the hand-written reference server and the join of the three logs. There is no public option for a custom http.Client; the recording handler substitutes its own client.",
    "DESIGN.md section 4 C19")
add("C06", "exploration",
    "runtime monitoring: hostile-input lattice driven by raw peers against the server in a child process; oracles = process liveness, net/http ErrorLog panic scan, per-input answer class, canary calls (same / fresh / independent connection), goroutine-table diff at quiescence",
    "Held on the executions explored: no input of the enumerated lattice (type substitution in every member, envelope faults, unparsable and truncated bodies, deep/large values, unsolicited responses, HTTP-level faults) killed, wedged or panicked any of the 7 server configurations; every input owed an answer got one; well-formed traffic from an independent client kept being served; goroutines with library frames did not grow with the number of inputs.",
    "'No sequence of bytes' is sampled by an enumerated lattice plus seeded mutations (thorough); memory exhaustion is not driven; coverage-guided fuzzing is not used.",
    "DESIGN.md section 4 C06")
add("C14", "exploration",
    "runtime monitoring, differential: byte-identical generated requests against all server kinds/modes with identical registrations, normalised answers compared; same operations through the three client kinds, returned values compared",
    "Held on the executions explored: for the 8 common methods every generated request (valid and invalid, string and integer ids) got the same normalised result or the same error code on Streamable (JSON, SSE, stateless, sessions disabled), legacy SSE and stdio; the three clients returned equal values / equal error classes for 19 operations.",
    "Normalisation drops error wording, item order and session-specific strings, as the statement allows. Client comparison relies on the server part having established equal server answers.",
    "DESIGN.md section 4 C14")
