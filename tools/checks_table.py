add("C01", "exploration",
    "runtime monitoring: nonce/digest exactly-once and own-answer checker over recorded call/return and handler events, raw reference peers + library clients, 7 configurations, barrier-released handlers",
    "Held on the executions explored: every call of thousands of concurrent echo calls (raw peers with all id classes, library clients crossing 10^6 / 2^31) got exactly one answer carrying its own id, nonce and payload digest, and its handler ran once. Sampling of interleavings, not enumeration.",
    "Trusted: the harness's raw peers, SSE parser and checkers; handler-side counters recorded by harness code registered through the public API. Ids above 2^53 are outside the statement.",
    "DESIGN.md section 4 C01")
add("C03", "exploration",
    "runtime monitoring: independent wire oracle (hand-written JSON-RPC/MCP validators) over every frame raw reference peers receive, answer class compared with a reference classifier derived from how each request was generated",
    "Held on the executions explored: for each of the 7 server configurations every valid request and the full structural mutation lattice (params / each parameter / envelope members removed, retyped to every JSON type, duplicated; notifications; unsolicited responses; unparsable bodies; HTTP-level faults) got a well-formed frame of the prescribed kind with the request's id and the error code of its fault class; no empty or successful 2xx for unserved input.",
    "Trusted base: lib/wire validators and lib/gen reference classifier (hand-written from MCP 2025-03-26; the official schema file is not in the sandbox). Where the statement fixes no code both -32601/-32602 are accepted.",
    "DESIGN.md section 4 C03")
add("C19", "exploration",
    "runtime monitoring: recording reference server + recording request handler + recording before-request function, joined one-to-one per HTTP request; all 32 option combinations x both HTTP clients x every request kind; before-request veto at every position",
    "Held on the executions explored: every HTTP request observed at the recording server (25 request kinds incl. GET stream, DELETE, answers to server-issued requests, legacy connect) carried the configured headers, session id and path, passed the configured handler and the before-request function exactly once with the right context token; a vetoed request never reached the server and its operation failed with that error.",
    "Trusted: the hand-written reference server and the join of the three logs. There is no public option for a custom http.Client; the recording handler substitutes its own client.",
    "DESIGN.md section 4 C19")
add("C06", "exploration",
    "runtime monitoring: hostile-input lattice driven by raw peers against the server in a child process; oracles = process liveness, net/http ErrorLog panic scan, per-input answer class, canary calls (same / fresh / independent connection), goroutine-table diff at quiescence",
    "Held on the executions explored: no input of the enumerated lattice (type substitution in every member, envelope faults, unparsable and truncated bodies, deep/large values, unsolicited responses, HTTP-level faults) killed, wedged or panicked any of the 7 server configurations; every input owed an answer got one; well-formed traffic from an independent client kept being served; goroutines with library frames did not grow with the number of inputs.",
    "'No sequence of bytes' is sampled by an enumerated lattice plus seeded mutations (thorough); memory exhaustion is not driven; coverage-guided Go native fuzzing (iteration-bounded) runs over the three entry points.",
    "DESIGN.md section 4 C06")
add("C14", "exploration",
    "runtime monitoring, differential: byte-identical generated requests against all server kinds/modes with identical registrations, normalised answers compared; same operations through the three client kinds, returned values compared",
    "Held on the executions explored: for the 8 common methods every generated request (valid and invalid, string and integer ids) got the same normalised result or the same error code on Streamable (JSON, SSE, stateless, sessions disabled), legacy SSE and stdio; the three clients returned equal values / equal error classes for 19 operations.",
    "Normalisation drops error wording, item order and session-specific strings, as the statement allows. Client comparison relies on the server part having established equal server answers.",
    "DESIGN.md section 4 C14")
add("C02", "exploration",
    "runtime monitoring: generated handler return values served through all 7 configurations with the library client of each transport; structural comparer over the concrete Go types (not library marshalling), failing cases attributed to the smallest (content kind, string class) by re-testing items alone, wire corroboration by raw peer",
    "Held on the executions explored: every generated tool / prompt / resource result (4 content kinds x string classes incl. empty, CR/LF, U+2028, astral, control, 64 KiB and multi-MiB; isError; structured content to depth 5; roles; text and blob resources), handler errors with Unicode messages and all descriptors came back equal item for item over every transport.",
    "Invalid UTF-8 / lone surrogates and content annotations are outside the statement. The comparer is self-tested against mutated values before every run.",
    "DESIGN.md section 4 C02")
add("C15", "exploration",
    "runtime monitoring: instrumented middlewares record a per-request trace (keyed by the request id) compared with a reference onion interpreter; all chains up to length 4 over 6 behaviours, 3 server kinds, both option forms, overlapping requests released by gates",
    "Held on the executions explored: every request's stage trace, what each stage saw, and the wire answer equalled the reference interpreter's prediction; each stage ran exactly once with the requesting session; short-circuits stopped everything inside; a middleware error became -32603 for that request only; notifications never entered the chain.",
    "Trusted: the reference interpreter (model.go) and the harness middlewares. Behaviours apply to observable methods (tools/call, tools/list, ping, prompts/get).",
    "DESIGN.md section 4 C15")
add("C16", "exploration",
    "runtime monitoring: raw peers for version negotiation / capabilities on all 7 configurations (incl. registration concurrent with handshakes); client FSM reference model over seeded call histories on the three client kinds against library-free recording servers (HTTP request count / stdio process spawn and stdin lines)",
    "Held on the executions explored: initialize answers always carried a supported version (the requested one when supported, else the latest), the configured server info and exactly the capability set of a registration state that existed during the request; clients sent nothing before a successful handshake, refused a second one, and reported states equal to the reference FSM after every step.",
    "Any non-nil error is accepted as 'not initialized'. After a failed handshake a later Initialize may succeed or fail; only consistency is required. Legacy SSE / stdio transports cannot be reused after Close.",
    "DESIGN.md section 4 C16")
add("C17", "fault_enumeration",
    "runtime monitoring with fault enumeration: retry.Execute driven through verif re-exports with all outcome scripts (real error values of every class) on a boundary-value grid, computed back-offs observed through the back-off hook (virtual time) and compared exactly with a big.Rat reference model; cancellation injected at every wait and attempt; end-to-end scripted servers for both HTTP clients",
    "Held on the executions explored: attempts == model for every enumerated script (all scripts up to MaxRetries+2 for MaxRetries<=3, sampled to 10), every wait == min(Initial*Factor^(k-1), Max), cancellation at every wait index returned the context error with no further attempt, Validate clamped every grid/extreme configuration idempotently, no retry option => exactly one attempt; end to end the servers counted the same attempts.",
    "Transient classes not named by the statement (response-header timeout, http.Client.Timeout, truncated body) are observed and reported, not judged.",
    "DESIGN.md section 4 C17")
add("C04", "exploration",
    "runtime monitoring: model-based histories by raw peers against 12 configurations compared step by step with a reference session state machine and Server.GetActiveSessions(); concurrent histories checked for linearizability with porcupine; strace getrandom(2) monitor for the CSPRNG clause",
    "Held on the executions explored: every step's status and session header equalled the reference state machine, the reported live set equalled the model after every step, DELETE and a newer GET ended the open stream, concurrent init/use/DELETE/list histories were linearizable, stateless answers did not depend on any prefix, and every issued id was unique, visible ASCII, >= 128 bits and the hex of bytes returned by a getrandom(2) call of the server process.",
    "CSPRNG clause assumes ids are a reversible encoding of kernel bytes (an id derived by hashing would be reported). The hourly expiry sweep is not driven.",
    "DESIGN.md section 4 C04")
add("C11", "exploration",
    "runtime monitoring with controlled interleavings: a yield-point controller (get.H / get.T / get.E hooks) parks the new and the old stream handler at every gap and places a send after 'new headers received'; free-running reconnect storms with seeded delays; raw peers identify which stream carried each nonce",
    "Held on the executions explored: in every enumerated ordering of old-stream teardown, new-stream registration and send (send before store when realisable, after store before the old delete, after the old delete, old stream closed by its peer before/while the new one registers), in reopen chains and in reconnect storms, every send made after the new stream's headers were received succeeded and arrived on that stream only; a stream's exit removed only itself.",
    "A schedule the implementation makes impossible (headers visible before the table store) is reported as not realisable. Delivery is awaited up to 5 s on loopback.",
    "DESIGN.md section 4 C11")
add("C09", "exploration",
    "runtime monitoring with controlled interleavings: recording writers / raw stream readers capture the bytes of five stream kinds; a strict LF splitter and a WHATWG SSE parser recover frames; multiset-of-nonces comparison; writers parked by the yield controller between payload and terminator / between the lines of an event and released in seeded permutations, plus free-running stress",
    "Held on the executions explored: on stdio stdout, the Streamable GET stream, the POST SSE stream (notifications from several goroutines of one handler), the legacy SSE stream (with 2 ms keep-alives) and the stdio client's stdin, the reference readers recovered exactly the multiset of messages written, each frame one JSON value, for payloads with CR/LF/U+2028 and sizes around 4096 and 65536, with 2-16 concurrent writers.",
    "With the write locks in place at most one writer can be inside a frame; the gauges report how many were parked there. stdout of the in-process stdio server is an in-memory writer with atomic Write calls.",
    "DESIGN.md section 4 C09")
add("C05", "exploration",
    "runtime monitoring: raw peers per session log every frame with arrival index; senders log (nonce, target, return value); offline multiset / order / count checkers; adversarial peers post forged answers to guessed request ids; pending tables read through a verif hook at quiescence",
    "Held on the executions explored: every successfully sent notification arrived exactly once, in per-sender order, on the addressed session's stream and on no other; broadcast / filtered counts equalled the streams that received the frame; ListRoots returned the roots of the session it was issued in although every other session posted a forged answer with the same id first; nothing stayed pending after answers, cancellations and time-outs (Streamable, legacy SSE, stdio).",
    "Stream membership is fixed while a batch of broadcasts runs. Library clients as peers are covered by C10 / C07 / C08, not here.",
    "DESIGN.md section 4 C05")
add("C10", "exploration",
    "runtime monitoring: a tool emits seeded notification scripts tagged (call nonce, seq); client handlers and call returns are stamped with one logical clock; per-call sequence / happens-before / params / _meta checker; raw peer records the id: lines of every POST stream",
    "Held on the executions explored: for every call (0-200 notifications, sizes to 256 KiB, progress / log / custom, _meta absent / empty / present, up to 16 calls in flight on one client, stateful and stateless) the handlers saw exactly the emitted sequence, each before the call returned, parameters and _meta intact, result intact; event ids per stream pairwise distinct; with JSON answers or without handlers nothing was delivered and the result was unchanged.",
    "Handler timing is judged by logical clock. Notifications are emitted by one goroutine per call here (concurrent emitters are C09).",
    "DESIGN.md section 4 C10")
add("C12", "exploration",
    "runtime monitoring: concurrent histories recorded at the API boundary and checked for linearizability with porcupine against an ordered-map registry model (version tags make reads identify writes); hammer workload in a normal child (runtime concurrent-map detector, process death) and in a race-detector child (reports on registry functions)",
    "Held on the executions explored: every concurrent history of register / unregister / list / call / get / read on the tools, prompts and resources registries was linearizable (no torn, duplicate or phantom entry, resources in registration order, entries registered throughout always callable, never-registered ones refused, handlers replaced atomically); no process death and no race report on a registry under the hammer workload.",
    "Porcupine timeouts are inconclusive. The static lockset analysis of the anchor is replaced by dynamic detectors on the driven paths.",
    "DESIGN.md section 4 C12")
add("C13", "exploration",
    "runtime monitoring: K raw clients with unique header tokens; handlers, list filters and a middleware echo the context values / session / server handle / sender they see; gated handlers make all K requests overlap inside handlers; per-response isolation checker and reference list filter",
    "Held on the executions explored: with up to 32 clients whose requests overlapped inside handlers, every handler, filter and middleware saw exactly its own request's context-function values (second function after the first), session, server handle and notification sender; every list response equalled the reference filter's view for its caller (Streamable stateful / stateless, JSON / SSE; legacy SSE).",
    "Presence is required only where the library documents it. Stateless sessions are per-request temporaries.",
    "DESIGN.md section 4 C13")
add("C20", "exploration",
    "sanitizer: Go race detector (-race build of the harness and of the library) over concurrent server and client workloads in child processes, GOMAXPROCS in {2,4,16}; GORACE log parsed, reports de-duplicated by the pair of innermost library functions; thorough also runs the repository's own e2e suite under -race",
    "Held on the executions explored: no race-detector report with a library frame over server workloads (serving, registering, notifying, roots requests, sessions and streams coming and going, user code on Session objects) and client workloads (concurrent calls, handler / roots-provider changes, pushed notifications, TerminateSession and Close with calls in flight) on all transports.",
    "The race detector sees only races on driven paths and occurring interleavings; it says nothing about undriven code.",
    "DESIGN.md section 4 C20")
add("C18", "exploration",
    "runtime monitoring: struct types built at run time with reflect.StructOf from a feature grammar plus a compiled corpus of recursive / generic types, all generation styles, generator run in child processes under a watchdog; Python jsonschema (Draft 2020-12) oracle for meta-validation, $ref resolution and instance validation; encoding/json itself as the oracle for field names and typed-handler binding; failures attributed to minimal feature sets by delta debugging",
    "Held on the executions explored (apart from the three open known findings on embedded structs and duplicate JSON names): generation terminated for every generated type and style, every document was a valid 2020-12 schema with all $ref values resolving inside it, property names equalled encoding/json's field names, fully populated values were accepted, typed handlers received exactly the sent value (integers to +-2^53), and schemas read through tools/list equalled the registered ones.",
    "A recursive pointer field without omitempty has no finite fully populated value; only termination, meta-schema, $ref and names are judged there. Open known findings: C18|stage1|style=*|feature=embedded|*, embedded-ptr, dup-name.",
    "DESIGN.md section 4 C18")
add("C08", "fault_enumeration",
    "runtime monitoring with fault injection: an HTTP-aware TCP fault proxy (close / RST / stall / truncate at every message boundary and sampled byte offsets), a scripted raw-TCP server (delayed / withheld terminating chunk), stdio children killed / exiting / closing stdout at every point, context cancellation and deadlines at seeded instants, yield-controlled races in the stdio and legacy clients; oracles: call outcome per fault (error unless the complete own answer was delivered), bounded return with goroutine-dump corroboration, leak diff of goroutine table / fds / persistConn loops / child processes / pending tables by counts at quiescence over N and 2N",
    "Held on the executions explored: for every (transport, fault kind, injection point) cell and pending-call count every pending call ended with an error (or with its own complete answer), within the watchdog, with the right context error on cancellation; after Close, and on the server after the peers vanished, goroutines with library frames, connections, fds, child processes and pending-table entries were back at the baseline for N and 2N calls.",
    "Byte offsets and cancellation instants are sampled (coverage.exhaustive is not claimed). 'Promptly' is the bounded restatement <= 10 s with a dump showing the call parked in a library frame. Pooled idle keep-alive connections are not leaks (CloseIdleConnections is called first).",
    "DESIGN.md section 4 C08")
add("C07", "exploration",
    "runtime monitoring: library-free scripted servers (raw-TCP HTTP for Streamable JSON / SSE / GET stream and legacy SSE; scripted stdio child) emit class-labelled adversarial fragments before / inside / after a valid answer; the client under test runs in child processes; oracles: process liveness, call outcome vs. what the script contained, pending and later calls, later frames (notifications / roots requests), Close, and an idle-CPU spin monitor",
    "Held on the executions explored: for every generated script and placement on the five client kinds the client neither died nor span, the affected call returned an error (or a valid result only when the script held a valid answer for its id), pending and later calls completed, later well-formed frames were processed, and Close returned.",
    "Every script ends the exchange (valid answer, connection close, or the harness's deadline): a client facing an open silent connection is not expected to give up by itself. Spin = sustained CPU of a busy reader goroutine over idle windows, not a single timing sample.",
    "DESIGN.md section 4 C07")
