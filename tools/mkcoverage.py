#!/usr/bin/env python3
# Regenerates "Appendix F" of DESIGN.md from the checks' own evidence files: per property, the workload / oracle rule text
# the check states about itself, its assumptions, and the numbers of the last run. Run after a clean sweep.
import json, glob, re, os
D='/verif/DESIGN.md'
begin='<!-- BEGIN GENERATED COVERAGE -->'; end='<!-- END GENERATED COVERAGE -->'
out=[begin, '', '## Appendix F — what each check covers now (generated from evidence/*.json by tools/mkcoverage.py)', '',
     'Sections 4.x describe the monitors as designed; the checks grew with every mutant round. The text below is what each',
     'check states about itself in its evidence file (`coverage.rule`, `assumptions`), with the numbers of the last clean',
     'quick run.', '']
for f in sorted(glob.glob('/verif/evidence/C*.json')):
    e=json.load(open(f)); c=e['coverage']
    out.append('### %s (tier %s, seed %s: %d evaluations, %d distinct, %d violations, %.0f s)' % (e['property_id'], e['tier'], e['seed'], c.get('evaluations',0), c.get('distinct_nontrivial',0), e.get('violations',0) if isinstance(e.get('violations'),int) else len(e.get('violations') or []), e.get('wall_s',0)))
    out.append('')
    out.append(c.get('rule','').strip())
    out.append('')
    for a in e.get('assumptions') or []:
        out.append('* assumption: '+a)
    out.append('')
out.append(end)
s=open(D).read()
block='\n'.join(out)
if begin in s:
    s=re.sub(re.escape(begin)+'.*?'+re.escape(end), lambda m: block, s, flags=re.S)
else:
    s=s.rstrip('\n')+'\n\n'+block+'\n'
open(D,'w').write(s)
print('appendix F: %d checks' % len(glob.glob('/verif/evidence/C*.json')))
