#!/bin/bash
# tools/rebase_seeded.sh : checks that every seeded patch still applies to /repo HEAD; one that does not (a later fix:
# commit moved its context) is re-applied with fuzz in a scratch worktree and regenerated (the original is kept as
# patch.orig.diff). A patch that cannot be re-applied is reported.
set -u
WT=/tmp/rebase.$$
git -C /repo worktree add -q --detach $WT HEAD || exit 2
for d in /verif/seeded/*/; do
  n=$(basename $d); [ -f $d/patch.diff ] || continue
  if git -C $WT apply --check $d/patch.diff 2>/dev/null; then continue; fi
  ( cd $WT && patch -p1 -F3 --no-backup-if-mismatch -s < $d/patch.diff ) >/dev/null 2>&1
  if [ $? -eq 0 ]; then
    [ -f $d/patch.orig.diff ] || cp $d/patch.diff $d/patch.orig.diff
    git -C $WT diff > $d/patch.diff
    echo "REBASED $n"
  else
    echo "CANNOT-REBASE $n"
  fi
  git -C $WT checkout -q -- . ; git -C $WT clean -fdq
done
git -C /repo worktree remove --force $WT
