// C04 — ids derived from an issued id by small edits are still unknown ids.
//
// The "unknown id" population of the other parts is random / deleted / foreign-made ids, none of them related
// to a live id. Here every probe id is DERIVED from an id the server issued (a live one with an open listening
// stream, a live one without, a deleted one) by a seeded family of small edits: case flips, white space,
// truncation / extension, look-alike characters, list and escape forms, several header lines. The request is
// written byte by byte onto a raw TCP connection (net/http's client would trim and refuse most of them), and
// a wrapper around the server's handler records which Mcp-Session-Id values net/http handed to the handler for
// exactly this exchange. Only that observation decides what is judged:
//
//	handler not reached (net/http refused the bytes)            -> skipped, counted
//	a value that arrived is byte-equal to an issued id          -> skipped, counted (the request bears that id)
//	no value arrived / the first one is empty                    -> skipped, counted (a request without id)
//	otherwise: the request bears a never-issued id              -> 404 (405 for GET when GET-SSE is off), no
//	    session header other than the id it bore, GetActiveSessions unchanged; after the probes of one derived
//	    id the base session still answers under its own id, its listening stream still delivers a server
//	    notification, a deleted base id is still refused.
package main

import (
	"bufio"
	"context"
	"encoding/base64"
	"encoding/hex"
	"fmt"
	"io"
	"log"
	"math/rand"
	"net"
	"net/http"
	"net/http/httptest"
	"net/url"
	"sort"
	"strconv"
	"strings"
	"sync"
	"time"

	mcp "trpc.group/trpc-go/trpc-mcp-go"

	"verifharness/lib/kit"
	"verifharness/lib/peer"
	"verifharness/lib/vh"
)

const nearSidHeader = "Mcp-Session-Id"
const nearProbeHeader = "X-Verif-Probe"

// arrivals: what net/http handed to the handler, by probe tag.
type arrivals struct {
	mu sync.Mutex
	m  map[string][]string
}

func (a *arrivals) record(tag string, vals []string) {
	cp := append([]string{}, vals...)
	a.mu.Lock()
	a.m[tag] = cp
	a.mu.Unlock()
}

// take returns the values recorded for the tag (reached == false: the handler never saw the exchange).
func (a *arrivals) take(tag string) (vals []string, reached bool) {
	a.mu.Lock()
	defer a.mu.Unlock()
	vals, reached = a.m[tag]
	delete(a.m, tag)
	return
}

// startObserved is start() for a stateful configuration with the handler wrapped by the arrival recorder.
func startObserved(c cfg) (*kit.Instance, *arrivals) {
	obs := &arrivals{m: map[string][]string{}}
	srv := mcp.NewServer("verif-server", "9.9.9", mcp.WithServerLogger(kit.Quiet{}), mcp.WithServerPath("/mcp"),
		mcp.WithPostSSEEnabled(c.PostSSE), mcp.WithGetSSEEnabled(c.GetSSE))
	inner := srv.Handler()
	in := &kit.Instance{Kind: kit.SJSON, Server: srv, ErrLog: &kit.LogCapture{}, Path: "/mcp"}
	in.TS = httptest.NewUnstartedServer(http.HandlerFunc(func(w http.ResponseWriter, r *http.Request) {
		if tag := r.Header.Get(nearProbeHeader); tag != "" {
			obs.record(tag, r.Header.Values(nearSidHeader))
		}
		inner.ServeHTTP(w, r)
	}))
	in.TS.Config.ErrorLog = log.New(in.ErrLog, "", 0)
	in.TS.Start()
	kit.StdFixture(in)
	return in, obs
}

// ---- raw exchange: the request bytes are ours ----

type rawResp struct {
	Status int      `json:"status"`
	Sess   []string `json:"session_headers,omitempty"`
	CT     string   `json:"content_type,omitempty"`
	Body   string   `json:"body,omitempty"`
	Err    string   `json:"err,omitempty"`
}

type rawClient struct {
	addr string
	conn net.Conn
	br   *bufio.Reader
}

func (c *rawClient) drop() {
	if c.conn != nil {
		c.conn.Close()
	}
	c.conn, c.br = nil, nil
}

// do writes one HTTP/1.1 request whose header section is exactly the given lines and reads the answer. A 200
// event-stream answer to GET is not read (the connection is cut instead: the stream would never end).
func (c *rawClient) do(method, path string, lines []string, body []byte) *rawResp {
	var sb strings.Builder
	sb.WriteString(method + " " + path + " HTTP/1.1\r\nHost: " + c.addr + "\r\n")
	for _, l := range lines {
		sb.WriteString(l + "\r\n")
	}
	if body != nil {
		sb.WriteString("Content-Length: " + strconv.Itoa(len(body)) + "\r\n")
	}
	sb.WriteString("\r\n")
	req := append([]byte(sb.String()), body...)
	for attempt := 0; ; attempt++ {
		reused := c.conn != nil
		if c.conn == nil {
			conn, err := net.DialTimeout("tcp", c.addr, 10*time.Second)
			if err != nil {
				return &rawResp{Err: "dial: " + err.Error()}
			}
			c.conn, c.br = conn, bufio.NewReader(conn)
		}
		_ = c.conn.SetDeadline(time.Now().Add(30 * time.Second)) // watchdog only
		if _, err := c.conn.Write(req); err != nil {
			c.drop()
			if reused && attempt == 0 {
				continue
			}
			return &rawResp{Err: "write: " + err.Error()}
		}
		resp, err := http.ReadResponse(c.br, &http.Request{Method: method})
		if err != nil {
			c.drop()
			if reused && attempt == 0 {
				continue // the server had closed the idle connection
			}
			return &rawResp{Err: "read: " + err.Error()}
		}
		out := &rawResp{Status: resp.StatusCode, Sess: append([]string{}, resp.Header.Values(nearSidHeader)...), CT: resp.Header.Get("Content-Type")}
		if method == "GET" && resp.StatusCode == 200 && strings.Contains(out.CT, "text/event-stream") {
			c.drop()
			return out
		}
		b, err := io.ReadAll(io.LimitReader(resp.Body, 1<<20))
		resp.Body.Close()
		if len(b) > 300 {
			b = b[:300]
		}
		out.Body = string(b)
		if err != nil || resp.Close {
			c.drop()
		}
		return out
	}
}

// ---- the derivation family ----

type deriv struct {
	Kind   string   `json:"kind"`
	Family string   `json:"family"`
	Raw    []string `json:"raw_values"` // bytes written after "Mcp-Session-Id:" — one header line per element
}

func fullwidth(ch byte) string {
	switch {
	case ch >= '0' && ch <= '9':
		return string(rune(0xFF10 + int(ch-'0')))
	case ch >= 'a' && ch <= 'z':
		return string(rune(0xFF41 + int(ch-'a')))
	case ch >= 'A' && ch <= 'Z':
		return string(rune(0xFF21 + int(ch-'A')))
	}
	return string(ch)
}

func otherHex(rng *rand.Rand, ch byte) byte {
	const hx = "0123456789abcdef"
	for {
		if n := hx[rng.Intn(16)]; n != ch {
			return n
		}
	}
}

// derive returns the seeded family of near variants of the issued id b; other is another issued id.
func derive(rng *rand.Rand, b, other string) []deriv {
	var out []deriv
	one := func(kind, fam, v string) { out = append(out, deriv{kind, fam, []string{" " + v}}) }
	raw := func(kind, fam string, vals ...string) { out = append(out, deriv{kind, fam, vals}) }
	n := len(b)
	var letters []int
	for i := 0; i < n; i++ {
		if (b[i] >= 'a' && b[i] <= 'z') || (b[i] >= 'A' && b[i] <= 'Z') {
			letters = append(letters, i)
		}
	}
	flip := func(s []byte, i int) {
		switch {
		case s[i] >= 'a' && s[i] <= 'z':
			s[i] -= 32
		case s[i] >= 'A' && s[i] <= 'Z':
			s[i] += 32
		}
	}
	pos := func() int { return rng.Intn(n) }
	// case
	one("case-upper-all", "case", strings.ToUpper(b))
	if len(letters) > 0 {
		s := []byte(b)
		flip(s, letters[rng.Intn(len(letters))])
		one("case-flip-one", "case", string(s))
		s = []byte(b)
		flip(s, letters[0])
		one("case-flip-first-letter", "case", string(s))
		s = []byte(b)
		flip(s, letters[len(letters)-1])
		one("case-flip-last-letter", "case", string(s))
		s = []byte(b)
		k := 0
		for _, i := range letters {
			if rng.Intn(2) == 0 {
				flip(s, i)
				k++
			}
		}
		if k == 0 {
			flip(s, letters[0])
		}
		one("case-flip-some", "case", string(s))
		s = []byte(b)
		for j, i := range letters {
			if j%2 == 0 {
				flip(s, i)
			}
		}
		one("case-alternate", "case", string(s))
	}
	// white space around the value (what of it reaches the handler is observed, not assumed)
	raw("ws-no-space-after-colon", "ascii-space", b)
	raw("ws-lead-2sp", "ascii-space", "   "+b)
	raw("ws-lead-tab", "ascii-space", "\t"+b)
	raw("ws-trail-sp", "ascii-space", " "+b+" ")
	raw("ws-trail-tab", "ascii-space", " "+b+"\t")
	raw("ws-both", "ascii-space", " \t "+b+" \t ")
	k := 1 + rng.Intn(n-1)
	raw("ws-inner-sp", "ascii-space", " "+b[:k]+" "+b[k:])
	raw("ws-inner-tab", "ascii-space", " "+b[:k]+"\t"+b[k:])
	raw("fold-before-value", "fold", "\r\n "+b)
	raw("fold-inside-value", "fold", " "+b[:k]+"\r\n "+b[k:])
	raw("fold-after-value", "fold", " "+b+"\r\n ")
	// control bytes (net/http is expected to refuse them; observed)
	for _, cc := range []struct{ n, s string }{{"vt", "\v"}, {"ff", "\f"}, {"nul", "\x00"}, {"del", "\x7f"}, {"cr", "\r"}, {"esc", "\x1b"}} {
		raw("ctl-trail-"+cc.n, "ctl", " "+b+cc.s)
		raw("ctl-lead-"+cc.n, "ctl", " "+cc.s+b)
	}
	// unicode spaces / invisible characters around the id
	for _, u := range []struct{ n, s string }{{"nbsp", "\u00a0"}, {"nel", "\u0085"}, {"ideographic", "\u3000"}, {"emspace", "\u2003"},
		{"zwsp", "\u200b"}, {"bom", "\ufeff"}, {"linesep", "\u2028"}, {"ogham", "\u1680"}, {"latin1-nbsp-byte", "\xa0"}, {"byte-ff", "\xff"}, {"byte-80", "\x80"}} {
		one("uni-trail-"+u.n, "unicode-space", b+u.s)
		one("uni-lead-"+u.n, "unicode-space", u.s+b)
	}
	one("uni-both-nbsp", "unicode-space", "\u00a0"+b+"\u00a0")
	one("uni-inner-zwsp", "unicode-space", b[:k]+"\u200b"+b[k:])
	// truncation / extension / small edits
	one("trunc-first", "edit", b[1:])
	one("trunc-last", "edit", b[:n-1])
	p := pos()
	one("trunc-mid", "edit", b[:p]+b[p+1:])
	one("trunc-half", "edit", b[:n/2])
	one("trunc-second-half", "edit", b[n/2:])
	one("ext-first", "edit", string(otherHex(rng, 'x'))+b)
	one("ext-last", "edit", b+string(otherHex(rng, 'x')))
	p = pos()
	one("ext-mid", "edit", b[:p]+string(otherHex(rng, 'x'))+b[p:])
	one("ext-lead-zero", "edit", "0"+b)
	one("ext-trail-zero", "edit", b+"0")
	one("ext-double", "edit", b+b)
	p = pos()
	one("subst-one", "edit", b[:p]+string(otherHex(rng, b[p]))+b[p+1:])
	one("subst-last", "edit", b[:n-1]+string(otherHex(rng, b[n-1])))
	one("subst-first", "edit", string(otherHex(rng, b[0]))+b[1:])
	for try := 0; try < 64; try++ {
		p = rng.Intn(n - 1)
		if b[p] != b[p+1] {
			one("swap-adjacent", "edit", b[:p]+string(b[p+1])+string(b[p])+b[p+2:])
			break
		}
	}
	{
		s := []byte(b)
		for i, j := 0, n-1; i < j; i, j = i+1, j-1 {
			s[i], s[j] = s[j], s[i]
		}
		one("reversed", "edit", string(s))
		one("rotated", "edit", b[1:]+b[:1])
	}
	if other != "" && len(other) == n {
		one("mix-head-tail", "edit", b[:n/2]+other[n/2:])
		one("mix-tail-head", "edit", other[:n/2]+b[n/2:])
	}
	// look-alike characters
	p = pos()
	one("look-fullwidth-one", "lookalike", b[:p]+fullwidth(b[p])+b[p+1:])
	{
		var sb strings.Builder
		for i := 0; i < n; i++ {
			sb.WriteString(fullwidth(b[i]))
		}
		one("look-fullwidth-all", "lookalike", sb.String())
		var su strings.Builder
		for i := 0; i < n; i++ {
			c := b[i]
			if c >= 'a' && c <= 'z' {
				c -= 32
			}
			su.WriteString(fullwidth(c))
		}
		one("look-fullwidth-upper", "lookalike", su.String())
	}
	for _, la := range []struct {
		n    string
		from byte
		to   string
	}{{"cyrillic-a", 'a', "\u0430"}, {"cyrillic-c", 'c', "\u0441"}, {"cyrillic-e", 'e', "\u0435"}, {"cyrillic-upper-a", 'a', "\u0410"},
		{"letter-O", '0', "O"}, {"letter-o", '0', "o"}, {"letter-l", '1', "l"}, {"letter-I", '1', "I"}, {"greek-beta", 'b', "\u03b2"}, {"combining", 'e', "e\u0301"},
		{"arabic-indic-digit", '1', "\u0661"}, {"superscript-2", '2', "\u00b2"}} {
		if i := strings.IndexByte(b, la.from); i >= 0 {
			one("look-"+la.n, "lookalike", b[:i]+la.to+b[i+1:])
		}
	}
	// list / parameter / quoting forms
	oth := other
	if oth == "" {
		oth = "0123456789abcdef0123456789abcdef"
	}
	one("list-self-self", "list", b+","+b)
	one("list-self-self-sp", "list", b+", "+b)
	one("list-self-other", "list", b+", "+oth)
	one("list-other-self", "list", oth+","+b)
	one("list-trailing-comma", "list", b+",")
	one("list-leading-comma", "list", ","+b)
	one("list-semicolon", "list", b+";")
	one("list-param", "list", b+";q=1")
	one("quoted", "list", `"`+b+`"`)
	one("single-quoted", "list", "'"+b+"'")
	one("angle", "list", "<"+b+">")
	one("bracket", "list", "["+b+"]")
	one("assign", "list", "id="+b)
	one("bearer", "list", "Bearer "+b)
	// escape / re-encoding forms
	p = pos()
	one("esc-percent-one", "escape", b[:p]+fmt.Sprintf("%%%02x", b[p])+b[p+1:])
	one("esc-percent-one-upper", "escape", b[:p]+fmt.Sprintf("%%%02X", b[p])+b[p+1:])
	{
		var sb strings.Builder
		for i := 0; i < n; i++ {
			fmt.Fprintf(&sb, "%%%02x", b[i])
		}
		one("esc-percent-all", "escape", sb.String())
	}
	one("esc-trail-%20", "escape", b+"%20")
	one("esc-lead-%20", "escape", "%20"+b)
	one("esc-trail-plus", "escape", b+"+")
	one("esc-trail-%00", "escape", b+"%00")
	one("esc-query-escaped-space", "escape", url.QueryEscape(b+" "))
	one("esc-backslash-x", "escape", b[:p]+fmt.Sprintf("\\x%02x", b[p])+b[p+1:])
	one("esc-html-entity", "escape", b[:p]+fmt.Sprintf("&#%d;", b[p])+b[p+1:])
	one("enc-base64", "escape", base64.StdEncoding.EncodeToString([]byte(b)))
	one("enc-hex-of-hex", "escape", hex.EncodeToString([]byte(b)))
	if bs, err := hex.DecodeString(b); err == nil {
		one("enc-base64-of-bytes", "escape", base64.StdEncoding.EncodeToString(bs))
		one("enc-base64url-of-bytes", "escape", base64.RawURLEncoding.EncodeToString(bs))
	}
	if n == 32 {
		one("enc-uuid-dashes", "escape", b[:8]+"-"+b[8:12]+"-"+b[12:16]+"-"+b[16:20]+"-"+b[20:])
		one("enc-uuid-braces", "escape", "{"+b[:8]+"-"+b[8:12]+"-"+b[12:16]+"-"+b[16:20]+"-"+b[20:]+"}")
	}
	one("enc-0x", "escape", "0x"+b)
	one("enc-colon-pairs", "escape", b[:2]+":"+b[2:])
	// several header lines
	up := strings.ToUpper(b)
	raw("lines-variant-variant", "header-lines", " "+up, " "+b+"0")
	raw("lines-halves", "header-lines", " "+b[:n/2], " "+b[n/2:])
	raw("lines-variant-random", "header-lines", " "+b[:n-1], " "+randHex(rng))
	raw("lines-random-variant", "header-lines", " "+randHex(rng), " "+up)
	raw("lines-self-self", "header-lines", " "+b, " "+b)
	raw("lines-self-variant", "header-lines", " "+b, " "+up)
	raw("lines-variant-self", "header-lines", " "+up, " "+b)
	raw("lines-empty-variant", "header-lines", "", " "+up)
	return out
}

// ---- the scenario ----

type nearStats struct {
	mu       sync.Mutex
	violated bool
	judged   map[string]int // op -> probes judged
	families map[string]bool
}

var nearOps = []string{"request", "notification", "response-post", "initialize", "GET", "DELETE"}

func nearIDs(r *vh.Run, c cfg, rounds int, st *nearStats) {
	in, obs := startObserved(c)
	defer in.Close()
	hp := peer.NewHTTPPeer()
	defer hp.Close()
	ctx := context.Background()
	rng := r.Rand("near-" + c.String())
	u := in.URL()
	addr := strings.TrimPrefix(in.BaseURL(), "http://")
	rc := &rawClient{addr: addr}
	defer rc.drop()
	accept := "application/json"
	if c.PostSSE {
		accept = "application/json, text/event-stream"
	}
	std := func(id string) map[string]string {
		h := map[string]string{"Content-Type": "application/json", "Accept": accept}
		if id != "" {
			h[nearSidHeader] = id
		}
		return h
	}
	everIssued := map[string]bool{}
	tagN := 0
	notifN := 0
	examples := 0

	for round := 0; round < rounds; round++ {
		live := map[string]bool{}
		liveList := func() []string {
			var l []string
			for id := range live {
				l = append(l, id)
			}
			sort.Strings(l)
			return l
		}
		newSession := func() string {
			re := hp.Do(ctx, "POST", u, std(""), kit.InitBody("1", ""))
			if re.Status != 200 || re.Sess == "" || everIssued[re.Sess] {
				r.Fatal("near-id: initialize answered %d id %q (%s)", re.Status, re.Sess, re.Err)
			}
			everIssued[re.Sess] = true
			live[re.Sess] = true
			hp.Do(ctx, "POST", u, std(re.Sess), []byte(kit.InitializedBody))
			return re.Sess
		}
		A, B, D := newSession(), newSession(), newSession()
		if re := hp.Do(ctx, "DELETE", u, map[string]string{nearSidHeader: D}, nil); re.Status != 200 {
			r.Fatal("near-id: DELETE of a live session answered %d", re.Status)
		}
		delete(live, D)
		var stm *peer.Stream
		if c.GetSSE {
			s, re := hp.OpenStream(ctx, "GET", u, map[string]string{"Accept": "text/event-stream", nearSidHeader: A}, 256)
			if s == nil {
				r.Fatal("near-id: GET of a live session answered %d (%s)", re.Status, re.Err)
			}
			stm = s
		}
		broken := false
		type probeRec struct {
			Op      string   `json:"op"`
			Sent    []string `json:"sent_raw_values_quoted"`
			Arrived []string `json:"arrived_at_handler_quoted"`
			Resp    *rawResp `json:"response"`
		}
		quoteAll := func(l []string) []string {
			o := make([]string, len(l))
			for i, s := range l {
				o[i] = strconv.Quote(s)
			}
			return o
		}
		bases := []struct{ class, id, other string }{{"live+stream", A, B}, {"live", B, A}, {"deleted", D, A}}
		if !c.GetSSE {
			bases[0].class = "live"
		}
		for _, base := range bases {
			if broken {
				break
			}
			ds := derive(rng, base.id, base.other)
			rng.Shuffle(len(ds), func(i, j int) { ds[i], ds[j] = ds[j], ds[i] })
			for _, d := range ds {
				if broken {
					break
				}
				var trail []probeRec
				fail := func(op, sym, what string) {
					broken = true
					st.mu.Lock()
					st.violated = true
					st.mu.Unlock()
					r.Violation(fmt.Sprintf("C04|near-id|stateful|%s|base=%s|derivation=%s|%s", op, strings.TrimSuffix(base.class, "+stream"), d.Family, sym),
						fmt.Sprintf("[%s] id derived from a %s id by %s: %s", c, base.class, d.Kind, what),
						map[string]interface{}{"config": c.String(), "base_id": base.id, "base_class": base.class, "derivation": d.Kind, "live_ids": liveList(), "probes": trail})
				}
				judgedAny := false
				// the first exchange is a harmless request (it also shows what this derivation is once net/http has
				// parsed it: nothing more is sent when it turns out to bear an issued id); the others in seeded order
				ops := append([]string{}, nearOps...)
				rng.Shuffle(len(ops)-1, func(i, j int) { ops[i+1], ops[j+1] = ops[j+1], ops[i+1] })
				for _, op := range ops {
					tagN++
					tag := fmt.Sprintf("%s-%d", c.Mode, tagN)
					lines := []string{nearProbeHeader + ": " + tag}
					for _, v := range d.Raw {
						lines = append(lines, nearSidHeader+":"+v)
					}
					var body []byte
					method := "POST"
					switch op {
					case "request":
						body = []byte(fmt.Sprintf(`{"jsonrpc":"2.0","id":%d,"method":"ping"}`, tagN))
					case "notification":
						body = []byte(`{"jsonrpc":"2.0","method":"notifications/verif","params":{"n":1}}`)
					case "response-post":
						body = []byte(fmt.Sprintf(`{"jsonrpc":"2.0","id":%d,"result":{"roots":[]}}`, 800000+tagN))
					case "initialize":
						body = kit.InitBody(strconv.Itoa(tagN), "")
					case "GET":
						method = "GET"
						lines = append(lines, "Accept: text/event-stream")
					case "DELETE":
						method = "DELETE"
					}
					if method == "POST" {
						lines = append(lines, "Content-Type: application/json", "Accept: "+accept)
					}
					resp := rc.do(method, "/mcp", lines, body)
					arrived, reached := obs.take(tag)
					trail = append(trail, probeRec{op, quoteAll(d.Raw), quoteAll(arrived), resp})
					if resp.Status == 0 {
						r.Inconclusive(fmt.Sprintf("near-id: transport error on raw %s (%s): %s", op, d.Kind, resp.Err))
						broken = true
						break
					}
					// what is this request, by what the handler was handed?
					skip := ""
					switch {
					case !reached:
						skip = "refused-by-net/http"
						r.SetAdd("near_id_status_when_handler_not_reached", strconv.Itoa(resp.Status))
					case len(arrived) == 0 || arrived[0] == "":
						skip = "arrived-without-id"
					default:
						for _, v := range arrived {
							if everIssued[v] {
								skip = "arrived-as-issued-id"
							}
						}
					}
					if skip != "" {
						r.Count("near_id_skipped_"+skip, 1)
						r.SetAdd("near_id_skipped_kinds", d.Kind+"="+skip)
						// whatever it was, a refused exchange must not have changed anything (checked below for the
						// unreached ones); nothing more is sent for this derivation: a DELETE bearing a live id ends it
						if !reached {
							if got, err := in.Server.GetActiveSessions(); err == nil {
								sort.Strings(got)
								if strings.Join(got, ",") != strings.Join(liveList(), ",") {
									fail(op, "live-set-changed", fmt.Sprintf("an exchange net/http refused (status %d) changed the live set to %v", resp.Status, got))
								}
							}
						}
						break
					}
					// a never-issued id reached the handler
					judgedAny = true
					r.Eval(1)
					r.Count("near_id_probes_"+op, 1)
					r.SetAdd("near_id_derivation_kinds", d.Kind)
					r.SetAdd("near_id_derivation_families", d.Family)
					st.mu.Lock()
					st.judged[op]++
					st.families[d.Family] = true
					st.mu.Unlock()
					want := 404
					if op == "GET" && !c.GetSSE {
						want = 405
					}
					if resp.Status != want {
						fail(op, fmt.Sprintf("status=%d-want-%d", resp.Status, want), fmt.Sprintf("%s bearing the never-issued id %q (handler saw %q) answered %d, the state machine says %d", op, d.Raw, arrived, resp.Status, want))
					}
					for _, sh := range resp.Sess {
						if sh != arrived[0] {
							sym := "foreign-session-header"
							if live[sh] {
								sym = "live-session-header"
							}
							fail(op, sym, fmt.Sprintf("%s bearing the never-issued id %q answered with session header %q", op, arrived[0], sh))
						}
					}
					got, err := in.Server.GetActiveSessions()
					sort.Strings(got)
					if err != nil || strings.Join(got, ",") != strings.Join(liveList(), ",") {
						fail(op, "live-set-mismatch", fmt.Sprintf("GetActiveSessions=%v (err %v) after the refused %s, the history leaves %v alive", got, err, op, liveList()))
					}
					if !broken {
						r.Distinct(fmt.Sprintf("near|%s|%s|base=%s|%s|%d", c, op, strings.TrimSuffix(base.class, "+stream"), d.Family, resp.Status))
						if examples < 4 && op == "DELETE" {
							examples++
							r.SetAdd("near_id_examples", fmt.Sprintf("%s of %s id %s: sent %v -> handler saw %v -> %d", d.Kind, base.class, base.id, quoteAll(d.Raw), quoteAll(arrived), resp.Status))
						}
					}
					if broken {
						break
					}
				}
				if broken || !judgedAny {
					continue
				}
				// afterwards: the sessions are what they were
				for _, id := range []string{A, B} {
					re := hp.Do(ctx, "POST", u, std(id), []byte(`{"jsonrpc":"2.0","id":1,"method":"ping"}`))
					if re.Status != 200 || re.Sess != id {
						fail("after", "live-session-lost", fmt.Sprintf("after the probes the live session %s answered ping with %d / session header %q", id, re.Status, re.Sess))
					}
				}
				if re := hp.Do(ctx, "POST", u, std(D), []byte(`{"jsonrpc":"2.0","id":1,"method":"ping"}`)); re.Status != 404 {
					fail("after", "deleted-session-revived", fmt.Sprintf("after the probes the deleted id %s answered ping with %d", D, re.Status))
				}
				if stm != nil && !broken {
					notifN++
					nonce := fmt.Sprintf("near-%d", notifN)
					err := in.Server.SendNotification(A, "notifications/verif-near", map[string]interface{}{"nonce": nonce})
					gotIt, ended := false, false
					wd := time.After(15 * time.Second)
				wait:
					for {
						select {
						case ev, ok := <-stm.Events:
							if !ok {
								ended = true
								break wait
							}
							if strings.Contains(ev.Data, `"`+nonce+`"`) {
								gotIt = true
								break wait
							}
						case <-wd:
							break wait
						}
					}
					switch {
					case gotIt && err == nil:
						r.Count("near_id_stream_deliveries_after_probes", 1)
					case ended:
						fail("after", "listening-stream-ended", fmt.Sprintf("the listening stream of the live session %s ended although only never-issued ids were used (SendNotification: %v)", A, err))
					case err != nil:
						fail("after", "listening-stream-unregistered", fmt.Sprintf("SendNotification to the live session %s failed after the probes: %v", A, err))
					default:
						r.Inconclusive("near-id: a server notification did not arrive on the open listening stream within 15 s")
						broken = true
					}
				}
			}
		}
		if stm != nil {
			stm.Close()
		}
		ids, _ := in.Server.GetActiveSessions()
		for _, id := range ids {
			hp.Do(ctx, "DELETE", u, map[string]string{nearSidHeader: id}, nil)
		}
		rc.drop()
	}
}

func nearIDsAll(r *vh.Run) {
	st := &nearStats{judged: map[string]int{}, families: map[string]bool{}}
	var wg sync.WaitGroup
	for _, c := range allCfgs() {
		if c.Mode != "stateful" {
			continue
		}
		wg.Add(1)
		go func(c cfg) { defer wg.Done(); nearIDs(r, c, r.Pick(3, 30), st) }(c)
	}
	wg.Wait()
	// non-vacuity: every request kind was judged on derived ids of several families (a round ends at its first
	// violation, so a run that reported one is not asked for the full count)
	if st.violated {
		return
	}
	for _, op := range nearOps {
		if st.judged[op] == 0 {
			r.Fatal("near-id: no derived id was judged for %s", op)
		}
	}
	if len(st.families) < 5 {
		r.Fatal("near-id: only %d derivation families reached the handler as never-issued ids", len(st.families))
	}
}
