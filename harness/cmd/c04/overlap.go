// overlap.go — C04, the state machine under OVERLAPPING operations of ONE session.
//
// The sequential histories perform one operation at a time and the concurrent histories only ping. Here, for one
// live session S (next to a bystander session B with its own listening stream and an already deleted session D),
// 2-3 GETs bearing S's id are in flight at the same time: their handlers are parked at the library's yield points
// (get.H = past the session lookup, before the stream-table store; get.T = after the store and the headers;
// get.E = the handler woke and is about to leave) and released in enumerated / seeded orders, one at a time or in a
// burst, with or without a stream of S that existed before. A DELETE of S, a second initialize bearing S, requests,
// notifications, stream-closes by the peer, aborted GETs, and GET / DELETE / requests bearing the deleted id D or a
// never-issued id are placed before / between / after the releases; plus seeded walks and free-running storms
// (k GETs, the DELETE and requests of S fired together, seeded delays at the three points).
//
// Oracle (the text of C04 only). Every exchange carries a logical-clock reading when it was started and when its
// answer was at the peer; X clearly precedes Y when X's answer was at the peer before Y was started.
//   - an operation bearing S that was answered before the DELETE of S was started is served in S: request / GET /
//     initialize 200 with S's id in the answer, notification 202;
//   - an operation bearing S that was started after the DELETE was answered 200 is refused with 404; an operation
//     that overlaps the DELETE may get either answer (any linearisation is accepted); which of several concurrent
//     GETs owns the session afterwards is not C04's business (C11);
//   - an operation bearing D or a never-issued id is refused with 404 whatever else is parked, and changes nothing;
//   - "DELETE ends the session together with its open stream": once the DELETE was answered 200, every set-up has
//     finished and nothing is held any more, EVERY stream of S the peer still holds open has ended — all of them,
//     not only the one the server has registered. A stream that is still open is reported only after the server
//     has demonstrably made progress meanwhile (a request of B answered, a request bearing S answered 404);
//   - after every step that is not in flight the set of live sessions the server reports equals the model's.
package main

import (
	"context"
	"fmt"
	"math/rand"
	"sort"
	"strings"
	"sync"
	"sync/atomic"
	"time"

	mcp "trpc.group/trpc-go/trpc-mcp-go"

	"verifharness/lib/kit"
	"verifharness/lib/peer"
	"verifharness/lib/sched"
	"verifharness/lib/vh"
)

var (
	ovClock    atomic.Int64 // logical clock: "started" / "answer at the peer"
	ovFailures atomic.Int64 // the overlap part stops once a failure is established (every unclosed stream costs a long wait)
	ovSampled  atomic.Int64
)

const (
	ovFailureCap = 8
	ovOpenCap    = 2
)

// reports of streams left open by DELETE, by the position of their GET relative to the DELETE
var ovOpenReports = map[string]*atomic.Int64{"get-answered-before-delete": {}, "get-overlapping-delete": {}}

// oGet is one GET, opened in the background.
type oGet struct {
	name       string
	class      string // live | deleted | never — class of the id when the GET was started, by the model
	id         string
	startSeq   int64
	ansSeq     int64 // valid once ready is closed
	stm        *peer.Stream
	re         *peer.Reaction
	ready      chan struct{}
	cancel     context.CancelFunc
	peerClosed bool
	aborted    bool
}

func (g *oGet) isReady() bool {
	select {
	case <-g.ready:
		return true
	default:
		return false
	}
}

func (g *oGet) awaitReady(d time.Duration) bool {
	select {
	case <-g.ready:
		return true
	case <-time.After(d):
		return false
	}
}

func (g *oGet) ended() bool {
	select {
	case <-g.stm.Done():
		return true
	default:
		return false
	}
}

// oReq is a request of the session fired concurrently with its DELETE (storms).
type oReq struct {
	name             string
	startSeq, ansSeq int64
	re               *peer.Reaction
}

type ovRun struct {
	r      *vh.Run
	in     *kit.Instance
	ctl    *sched.Controller
	hp     *peer.HTTPPeer
	url    string
	accept string
	family string // parked | walk | storm  (violation signatures)
	scn    string // family + parameters (Distinct, witness)
	trace  []string

	S, B, D string // the session under test, the bystander, a session deleted during set-up
	live    map[string]bool
	gets    []*oGet
	reqs    []*oReq
	parked  []*oGet // handlers parked at get.H, in arrival order
	bStream *peer.Stream

	mu               sync.Mutex
	delStart, delAns int64 // of the DELETE of S that was answered 200
	reqN             int
	dead             bool // the schedule cannot be continued / judged
}

func newOvRun(r *vh.Run, family, scn string, postSSE bool, ctl *sched.Controller) *ovRun {
	o := &ovRun{r: r, family: family, scn: scn, ctl: ctl, live: map[string]bool{}}
	o.in = start(cfg{"stateful", true, postSSE})
	o.url = o.in.URL()
	o.hp = peer.NewHTTPPeer()
	o.accept = "application/json"
	if postSSE {
		o.accept = "application/json, text/event-stream"
	}
	ctl.Install()
	return o
}

func (o *ovRun) step(f string, a ...interface{}) { o.trace = append(o.trace, fmt.Sprintf(f, a...)) }

func (o *ovRun) releaseAll() {
	for _, p := range []string{"get.H", "get.T", "get.E"} {
		o.ctl.Release(p)
	}
	o.parked = nil
}

func (o *ovRun) close() {
	o.releaseAll()
	for _, g := range o.gets {
		if g.awaitReady(10 * time.Second) {
			if g.stm != nil {
				g.stm.Close()
			}
		} else {
			g.cancel()
		}
	}
	if o.bStream != nil {
		o.bStream.Close()
	}
	// let the handlers of this instance run through their exit path before the controller changes hands
	for dl := time.Now().Add(3 * time.Second); mcp.VerifListeningStreams(o.in.Server) > 0 && time.Now().Before(dl); {
		time.Sleep(time.Millisecond)
	}
	sched.Uninstall()
	o.hp.Close()
	o.in.Close()
}

func (o *ovRun) liveList() []string {
	var l []string
	for id := range o.live {
		l = append(l, id)
	}
	sort.Strings(l)
	return l
}

func (o *ovRun) witness(extra map[string]interface{}) map[string]interface{} {
	got, _ := o.in.Server.GetActiveSessions()
	sort.Strings(got)
	w := map[string]interface{}{"scenario": o.scn, "schedule": o.trace, "session": o.S, "bystander": o.B, "deleted_in_setup": o.D,
		"server_live_sessions": got, "model_live_sessions": o.liveList(), "registered_streams": mcp.VerifListeningStreams(o.in.Server),
		"delete_started_at": o.delStart, "delete_answered_at": o.delAns}
	var st []string
	for _, g := range o.gets {
		switch {
		case !g.isReady():
			st = append(st, fmt.Sprintf("%s (id %s): started@%d, not answered", g.name, g.class, g.startSeq))
		case g.aborted:
			st = append(st, fmt.Sprintf("%s (id %s): started@%d, given up by the peer before the answer", g.name, g.class, g.startSeq))
		case g.stm == nil:
			st = append(st, fmt.Sprintf("%s (id %s): started@%d answered@%d status %d %s", g.name, g.class, g.startSeq, g.ansSeq, g.re.Status, g.re.Err))
		case g.peerClosed:
			st = append(st, fmt.Sprintf("%s (id %s): started@%d answered@%d status 200, closed by the peer", g.name, g.class, g.startSeq, g.ansSeq))
		case g.ended():
			st = append(st, fmt.Sprintf("%s (id %s): started@%d answered@%d status 200, ended by the server", g.name, g.class, g.startSeq, g.ansSeq))
		default:
			st = append(st, fmt.Sprintf("%s (id %s): started@%d answered@%d status 200, STILL OPEN at the peer", g.name, g.class, g.startSeq, g.ansSeq))
		}
	}
	w["gets"] = st
	for k, v := range extra {
		w[k] = v
	}
	return w
}

func (o *ovRun) violation(symptom, what string, extra map[string]interface{}) {
	ovFailures.Add(1)
	o.r.Violation("C04|overlap|stateful|"+o.family+"|"+symptom, "["+o.scn+"] "+what, o.witness(extra))
}

func (o *ovRun) inconclusive(what string) {
	o.dead = true
	o.r.Inconclusive("overlap " + o.scn + ": " + what + " [" + strings.Join(o.trace, "; ") + "]")
}

// ---- exchanges ----

func (o *ovRun) post(body, id string) *peer.Reaction {
	h := map[string]string{"Content-Type": "application/json", "Accept": o.accept}
	if id != "" {
		h["Mcp-Session-Id"] = id
	}
	cx, cancel := context.WithTimeout(context.Background(), 30*time.Second)
	defer cancel()
	return o.hp.Do(cx, "POST", o.url, h, []byte(body))
}

func (o *ovRun) del(id string) *peer.Reaction {
	cx, cancel := context.WithTimeout(context.Background(), 30*time.Second)
	defer cancel()
	return o.hp.Do(cx, "DELETE", o.url, map[string]string{"Mcp-Session-Id": id}, nil)
}

func (o *ovRun) nextID() int {
	o.mu.Lock()
	defer o.mu.Unlock()
	o.reqN++
	return o.reqN
}

func (o *ovRun) body(op string) string {
	switch op {
	case "initialize":
		return string(kit.InitBody(fmt.Sprint(o.nextID()), ""))
	case "notification":
		return `{"jsonrpc":"2.0","method":"notifications/verif","params":{"n":1}}`
	default:
		return fmt.Sprintf(`{"jsonrpc":"2.0","id":%d,"method":"ping"}`, o.nextID())
	}
}

// checkLive: the reported live set equals the model's. Only called while no initialize / DELETE is in flight.
func (o *ovRun) checkLive(after string) {
	got, err := o.in.Server.GetActiveSessions()
	sort.Strings(got)
	o.r.Count("overlap_live_set_comparisons", 1)
	if err != nil || strings.Join(got, ",") != strings.Join(o.liveList(), ",") {
		o.violation("live-set-mismatch", fmt.Sprintf("after %s: GetActiveSessions=%v (err %v), the history leaves %v alive", after, got, err, o.liveList()), nil)
	}
}

func (o *ovRun) classOf(id string) string {
	switch {
	case o.live[id]:
		return "live"
	case id == o.S || id == o.D:
		return "deleted"
	}
	return "never"
}

// syncOp performs one non-GET exchange that nothing else of its session races with, and judges it by the model.
func (o *ovRun) syncOp(op, id string) {
	if o.dead {
		return
	}
	cls := o.classOf(id)
	var re *peer.Reaction
	isDelS := op == "DELETE" && id == o.S && cls == "live"
	if isDelS {
		o.delStart = ovClock.Add(1)
	}
	if op == "DELETE" {
		re = o.del(id)
	} else {
		re = o.post(o.body(op), id)
	}
	who := map[string]string{o.S: "S", o.B: "B", o.D: "D"}[id]
	if who == "" {
		who = "never-issued id"
	}
	o.step("%s bearing %s (%s) -> %d", op, who, cls, re.Status)
	o.r.Eval(1)
	if re.Status == 0 {
		o.inconclusive(fmt.Sprintf("%s bearing a %s id: transport error %s", op, cls, re.Err))
		return
	}
	want := 404
	if cls == "live" {
		want = 200
		if op == "notification" {
			want = 202
		}
	}
	if re.Status != want {
		o.violation(fmt.Sprintf("%s|id=%s|status=%d-want-%d", op, cls, re.Status, want), fmt.Sprintf("%s bearing a %s id answered %d while GETs of the session are in flight, the state machine says %d", op, cls, re.Status, want), nil)
	} else {
		o.r.Count(fmt.Sprintf("overlap_sync_ops_conforming_%s_%d", cls, want), 1)
		if cls != "live" {
			o.r.Count("overlap_refusals_404", 1)
		}
	}
	if re.Status >= 200 && re.Status < 300 && cls == "live" && op != "DELETE" && re.Sess != id {
		o.violation(fmt.Sprintf("%s|id=live|session-header", op), fmt.Sprintf("%s served in a session was answered with session id %q, the request carried %q", op, re.Sess, id), nil)
	} else if re.Sess != "" && re.Sess != id {
		o.violation(fmt.Sprintf("%s|id=%s|foreign-session-header", op, cls), fmt.Sprintf("response carries session id %q, request carried %q", re.Sess, id), nil)
	}
	if op == "DELETE" && re.Status == 200 {
		delete(o.live, id)
		if isDelS {
			o.delAns = ovClock.Add(1)
		}
	} else if isDelS {
		o.delStart = 0
	}
	o.checkLive(fmt.Sprintf("%s bearing a %s id", op, cls))
}

// startGet begins a GET. One bearing a live id parks at get.H (which the caller holds); any other is answered at once.
func (o *ovRun) startGet(id string) *oGet {
	if o.dead {
		return nil
	}
	g := &oGet{name: fmt.Sprintf("G%d", len(o.gets)+1), id: id, class: o.classOf(id), ready: make(chan struct{})}
	ctx, cancel := context.WithCancel(context.Background())
	g.cancel = cancel
	o.gets = append(o.gets, g)
	g.startSeq = ovClock.Add(1)
	go func() {
		g.stm, g.re = o.hp.OpenStream(ctx, "GET", o.url, map[string]string{"Accept": "text/event-stream", "Mcp-Session-Id": id}, 64)
		g.ansSeq = ovClock.Add(1)
		close(g.ready)
	}()
	return g
}

// awaitParkedOrAnswered: true when the handler of g is parked at get.H, false when g was answered instead.
func (o *ovRun) awaitParkedOrAnswered(g *oGet) (parked, ok bool) {
	n := len(o.parked)
	for dl := time.Now().Add(15 * time.Second); ; {
		if o.ctl.AwaitWaiting("get.H", n+1, 10*time.Millisecond) >= n+1 {
			o.parked = append(o.parked, g)
			return true, true
		}
		if g.isReady() {
			return false, true
		}
		if !time.Now().Before(dl) {
			o.inconclusive("GET " + g.name + " neither reached get.H nor was answered")
			return false, false
		}
	}
}

// begin starts a GET and waits until it is parked (live id) or answered (any other id); an answered one is judged at once.
func (o *ovRun) begin(id string) *oGet {
	g := o.startGet(id)
	if g == nil {
		return nil
	}
	parked, ok := o.awaitParkedOrAnswered(g)
	if !ok {
		return nil
	}
	if parked {
		o.step("start %s bearing S (parked at H)", g.name)
		o.r.Max("overlap_parked_together_at_H", int64(len(o.parked)))
		return g
	}
	o.step("start %s bearing a %s id -> %d", g.name, g.class, g.re.Status)
	if g.class != "live" {
		// refused "and changes nothing"
		o.checkLive("GET bearing a " + g.class + " id")
	}
	return g
}

func (o *ovRun) release(g *oGet, await bool) bool {
	pos := -1
	for i, x := range o.parked {
		if x == g {
			pos = i
		}
	}
	if pos < 0 || !o.ctl.ReleaseOne("get.H", pos) {
		o.inconclusive("the parked GET " + g.name + " was gone (held longer than the controller allows)")
		return false
	}
	o.parked = append(o.parked[:pos:pos], o.parked[pos+1:]...)
	if !await {
		o.step("release %s (not awaited)", g.name)
		return true
	}
	if !g.awaitReady(20 * time.Second) {
		o.inconclusive("GET " + g.name + " was not answered after its release")
		return false
	}
	o.step("release %s -> %d", g.name, g.re.Status)
	return true
}

// drain lets handlers parked at get.T / get.E go, one at a time, in a seeded order.
func (o *ovRun) drain(rng *rand.Rand, max int) {
	for i := 0; i < max && !o.dead; i++ {
		nT := o.ctl.AwaitWaiting("get.T", 0, 0)
		nE := o.ctl.AwaitWaiting("get.E", 0, 0)
		if nT+nE == 0 {
			if o.ctl.AwaitWaiting("get.E", 1, 10*time.Millisecond)+o.ctl.AwaitWaiting("get.T", 0, 0) == 0 {
				return
			}
			continue
		}
		x := rng.Intn(nT + nE)
		if x < nT {
			o.ctl.ReleaseOne("get.T", x)
			o.step("release T#%d", x)
		} else {
			o.ctl.ReleaseOne("get.E", x-nT)
			o.step("release E#%d", x-nT)
		}
		o.r.Count("overlap_teardown_steps_ordered", 1)
	}
}

// misc places one seeded operation that is not a GET of the live session: requests, a second initialize, notifications,
// refused exchanges bearing the deleted / a never-issued id, a stream-close by the peer, an aborted GET.
func (o *ovRun) misc(rng *rand.Rand) {
	if o.dead {
		return
	}
	switch c := rng.Intn(14); c {
	case 0, 1:
		o.syncOp("request", o.S)
	case 2:
		o.syncOp("initialize", o.S)
	case 3:
		o.syncOp("notification", o.S)
	case 4:
		o.begin(randHex(rng)) // GET bearing a never-issued id while GETs of S are parked
	case 5:
		o.begin(o.D) // GET bearing the deleted id
	case 6:
		o.syncOp("DELETE", randHex(rng))
	case 7:
		o.syncOp("DELETE", o.D)
	case 8:
		o.syncOp([]string{"request", "initialize", "notification"}[rng.Intn(3)], []string{o.D, randHex(rng)}[rng.Intn(2)])
	case 9, 10:
		// the peer closes one of the session's streams
		var open []*oGet
		for _, g := range o.gets {
			if g.isReady() && g.stm != nil && !g.peerClosed {
				open = append(open, g)
			}
		}
		if len(open) > 0 {
			g := open[rng.Intn(len(open))]
			g.stm.Close()
			g.peerClosed = true
			o.step("peer closes %s", g.name)
			o.r.Count("overlap_streams_closed_by_peer", 1)
		}
	case 11:
		// the peer gives up a GET whose handler is parked
		if len(o.parked) > 0 && rng.Intn(2) == 0 {
			g := o.parked[rng.Intn(len(o.parked))]
			if !g.aborted {
				g.aborted = true
				g.cancel()
				g.awaitReady(10 * time.Second)
				o.step("peer gives up %s (handler still parked)", g.name)
				o.r.Count("overlap_gets_given_up_by_peer", 1)
			}
		}
	case 12:
		if !o.live[o.S] {
			o.begin(o.S) // GET bearing S after its DELETE was answered
		} else {
			o.syncOp("request", o.B)
		}
	default:
		o.syncOp("request", o.B)
	}
}

// setUp: sessions B (with a listening stream), S, and D (deleted).
func (o *ovRun) setUp(withA bool) bool {
	ids := make([]string, 3)
	for i := range ids {
		re := o.post(o.body("initialize"), "")
		if re.Status != 200 || re.Sess == "" {
			o.inconclusive(fmt.Sprintf("set-up: initialize answered %d %s", re.Status, re.Err))
			return false
		}
		ids[i] = re.Sess
		o.live[re.Sess] = true
	}
	o.B, o.S, o.D = ids[0], ids[1], ids[2]
	o.syncOp("DELETE", o.D)
	if o.dead {
		return false
	}
	stm, re := o.hp.OpenStream(context.Background(), "GET", o.url, map[string]string{"Accept": "text/event-stream", "Mcp-Session-Id": o.B}, 64)
	if stm == nil {
		o.inconclusive(fmt.Sprintf("set-up: the bystander's stream could not be opened (%d %s)", re.Status, re.Err))
		return false
	}
	o.bStream = stm
	o.trace = nil
	if withA {
		g := o.startGet(o.S)
		if !g.awaitReady(20 * time.Second) {
			o.inconclusive("set-up: the first stream of S was not answered")
			return false
		}
		o.step("open %s bearing S -> %d (nothing held)", g.name, g.re.Status)
	}
	return true
}

// want classifies an exchange bearing S by its position relative to the answered DELETE of S.
func (o *ovRun) want(startSeq, ansSeq int64) string {
	switch {
	case o.delAns == 0 || ansSeq < o.delStart:
		return "served"
	case startSeq > o.delAns:
		return "refused"
	}
	return "either"
}

// posOf: where the GET of an opened stream stands relative to the DELETE of S.
func (o *ovRun) posOf(g *oGet) string {
	if g.class == "live" && o.want(g.startSeq, g.ansSeq) == "served" {
		return "get-answered-before-delete"
	}
	return "get-overlapping-delete" // includes a GET started after the DELETE that was wrongly answered 200 (reported by its status as well)
}

// finish releases everything, deletes S if the schedule has not, and judges.
func (o *ovRun) finish(outcome *string) bool {
	if o.dead {
		return false
	}
	r := o.r
	o.releaseAll()
	o.step("everything released")
	for _, g := range o.gets {
		if !g.awaitReady(30 * time.Second) {
			o.inconclusive("GET " + g.name + " was not answered after everything was released")
			return false
		}
	}
	if o.live[o.S] {
		o.syncOp("DELETE", o.S)
		if o.dead {
			return false
		}
	}
	if o.delAns == 0 {
		// the DELETE of the live session was refused: reported by syncOp; nothing more to judge here
		return false
	}
	r.Eval(1)
	if n := o.ctl.GaveUp(); n > 0 {
		r.Count("overlap_holds_given_up_by_controller", int64(n))
	}

	// every GET: status by its position relative to the DELETE
	var pattern []string
	for _, g := range o.gets {
		if g.aborted {
			pattern = append(pattern, "gave-up")
			continue
		}
		if g.re.Status == 0 {
			o.inconclusive("GET " + g.name + ": transport error " + g.re.Err)
			return false
		}
		w := "refused"
		if g.class == "live" {
			w = o.want(g.startSeq, g.ansSeq)
		}
		pattern = append(pattern, fmt.Sprintf("%s:%d", w, g.re.Status))
		switch {
		case w == "served" && g.re.Status != 200:
			o.violation(fmt.Sprintf("GET|id=live|status=%d-want-200", g.re.Status), fmt.Sprintf("GET %s bearing the live session id, answered before the session's DELETE was started, got %d", g.name, g.re.Status), nil)
		case w == "refused" && g.re.Status != 404:
			o.violation(fmt.Sprintf("GET|id=%s|status=%d-want-404", g.class, g.re.Status), fmt.Sprintf("GET %s bearing a %s id got %d, the state machine says 404", g.name, g.class, g.re.Status), nil)
		case w == "either" && g.re.Status != 200 && g.re.Status != 404:
			o.violation(fmt.Sprintf("GET|overlapping-delete|status=%d", g.re.Status), fmt.Sprintf("GET %s overlapping the session's DELETE got %d (200 or 404 conform)", g.name, g.re.Status), nil)
		default:
			r.Count("overlap_gets_conforming_"+w+fmt.Sprintf("_%d", g.re.Status), 1)
		}
		if g.re.Status == 200 && g.re.Sess != g.id {
			o.violation("GET|session-header", fmt.Sprintf("GET %s answered 200 with session id %q, the request carried %q", g.name, g.re.Sess, g.id), nil)
		}
	}
	for _, q := range o.reqs {
		if q.re.Status == 0 {
			continue
		}
		w := o.want(q.startSeq, q.ansSeq)
		ok := (w == "served" && q.re.Status == 200) || (w == "refused" && q.re.Status == 404) || (w == "either" && (q.re.Status == 200 || q.re.Status == 404))
		if !ok {
			o.violation(fmt.Sprintf("request|%s|status=%d", w, q.re.Status), fmt.Sprintf("request %s of the session (%s relative to its DELETE) got %d", q.name, w, q.re.Status), nil)
		} else {
			r.Count("overlap_concurrent_requests_conforming", 1)
		}
	}

	// DELETE ends the session together with its open stream(s): all of them. Two classes, reported apart: streams
	// whose GET was answered before the DELETE was started, and streams whose GET overlapped the DELETE. Once a class
	// is established (ovOpenCap reports) its streams are no longer waited for (each costs the whole watchdog) but
	// only counted, so that the other class is still looked for.
	var held, full, brief []*oGet
	for _, g := range o.gets {
		if g.stm == nil || g.peerClosed {
			continue
		}
		held = append(held, g)
		if ovOpenReports[o.posOf(g)].Load() < ovOpenCap {
			full = append(full, g)
		} else {
			brief = append(brief, g)
		}
	}
	r.Count("overlap_streams_opened", int64(len(held)))
	open := awaitEnds(full, 10*time.Second)
	if len(open) > 0 {
		// not by time alone: the server must demonstrably have made progress while the stream stayed open
		// (the probe bearing S is a request, not a DELETE: a probe must not be able to tidy up what the judged DELETE left behind)
		pb := o.post(o.body("request"), o.B)
		pd := o.post(o.body("request"), o.S)
		if pb.Status == 200 && pd.Status == 404 {
			open = awaitEnds(open, 2*time.Second)
		} else {
			o.inconclusive(fmt.Sprintf("%d stream(s) of the deleted session did not end within the watchdog and the server's progress could not be shown (request of B %d, request bearing S %d)", len(open), pb.Status, pd.Status))
			return false
		}
	}
	notRejudged := awaitEnds(brief, 100*time.Millisecond)
	r.Count("overlap_streams_open_after_delete_class_already_reported", int64(len(notRejudged)))
	r.Count("overlap_streams_ended_after_delete", int64(len(held)-len(open)-len(notRejudged)))
	if len(open) > 0 {
		byPos := map[string][]string{}
		for _, g := range open {
			byPos[o.posOf(g)] = append(byPos[o.posOf(g)], g.name)
		}
		for pos, names := range byPos {
			ovOpenReports[pos].Add(1)
			o.violation("DELETE|stream-still-open|"+pos, fmt.Sprintf("the DELETE of the session was answered 200, nothing is held any more, the server answers (request of the bystander 200, a request bearing the deleted id 404), but of the session's %d listening stream(s) the peer holds, %d (%s) are still open: %v", len(held), len(names), pos, names),
				map[string]interface{}{"still_open": names})
		}
	}
	if len(open)+len(notRejudged) > 0 {
		*outcome = "stream-still-open"
		return false
	}

	// the deleted id is refused from now on, by every kind of exchange; nothing of it changes anything
	for _, op := range []string{"request", "initialize", "notification", "DELETE"} {
		o.syncOp(op, o.S)
	}
	if g := o.startGet(o.S); g != nil {
		if !g.awaitReady(20 * time.Second) {
			o.inconclusive("GET bearing the deleted id was not answered")
			return false
		}
		o.step("GET bearing S (deleted) -> %d", g.re.Status)
		r.Eval(1)
		if g.re.Status != 404 {
			o.violation(fmt.Sprintf("GET|id=deleted|status=%d-want-404", g.re.Status), fmt.Sprintf("GET bearing the id of the deleted session got %d", g.re.Status), nil)
		} else {
			r.Count("overlap_refusals_404", 1)
		}
		o.checkLive("GET bearing the deleted id")
	}
	// the bystander is untouched: still live, still served
	o.syncOp("request", o.B)
	select {
	case <-o.bStream.Done():
		r.Count("overlap_bystander_stream_ended", 1) // not promised by C04; counted only
	default:
		r.Count("overlap_bystander_stream_still_open", 1)
	}
	if o.dead {
		return false
	}
	sort.Strings(pattern)
	*outcome = strings.Join(pattern, ",")
	r.Count("overlap_schedules_judged", 1)
	return true
}

// awaitEnds waits (watchdog) until the streams have ended and returns those that have not.
func awaitEnds(l []*oGet, d time.Duration) (open []*oGet) {
	tm := time.NewTimer(d)
	defer tm.Stop()
	expired := false
	for _, g := range l {
		if !expired {
			select {
			case <-g.stm.Done():
				continue
			case <-tm.C:
				expired = true
			}
		}
		if !g.ended() {
			open = append(open, g)
		}
	}
	return open
}

func (o *ovRun) record(outcome string, overlapped bool, sample bool) {
	if !overlapped {
		return
	}
	o.r.Distinct("overlap|" + o.scn + "|" + outcome)
	o.r.SetAdd("overlap_outcomes", outcome)
	if sample && ovSampled.Add(1) == 1 {
		o.r.Sample(map[string]interface{}{"part": "overlap", "scenario": o.scn, "schedule": o.trace, "outcome": outcome})
	}
}

// ovParked: [a stream of S open;] k GETs of S parked together at get.H, released in `order`; the DELETE of S placed
// before release number delPos (delPos == k: after all releases, while handlers may still be parked at T / E;
// delPos == k+1: after everything was released); seeded other operations in between.
func ovParked(r *vh.Run, k int, withA, serial bool, hold string, order []int, delPos int, rng *rand.Rand) {
	if ovFailures.Load() >= ovFailureCap {
		r.Count("overlap_schedules_skipped_failure_established", 1)
		return
	}
	mode := "burst"
	if serial {
		mode = "serial"
	}
	dp := fmt.Sprintf("before-release-%d-of-%d", delPos+1, k)
	switch {
	case delPos == k:
		dp = "after-releases"
	case delPos > k:
		dp = "end"
	}
	postSSE := rng.Intn(2) == 0
	scn := fmt.Sprintf("parked|k=%d,A=%v,%s,hold=H%s,delete=%s", k, withA, mode, hold, dp)
	o := newOvRun(r, "parked", scn, postSSE, sched.New(40*time.Second, r.Seed))
	defer o.close()
	if !o.setUp(withA) {
		return
	}
	o.ctl.Hold("get.H")
	news := make([]*oGet, k)
	for i := range news {
		if news[i] = o.begin(o.S); news[i] == nil {
			return
		}
		if rng.Intn(3) == 0 {
			o.misc(rng)
		}
	}
	if o.dead {
		return
	}
	overlapped := len(o.parked) >= 2
	if strings.Contains(hold, "T") {
		o.ctl.Hold("get.T")
	}
	if strings.Contains(hold, "E") {
		o.ctl.Hold("get.E")
	}
	for j, idx := range order {
		if delPos == j {
			o.syncOp("DELETE", o.S)
		}
		isParked := false
		for _, p := range o.parked {
			if p == news[idx] {
				isParked = true
			}
		}
		if isParked && !o.release(news[idx], serial) {
			return
		}
		if rng.Intn(2) == 0 {
			o.misc(rng)
		}
		if rng.Intn(4) == 0 {
			o.drain(rng, 1)
		}
	}
	if o.dead {
		return
	}
	if delPos == k {
		for _, g := range news {
			if !g.awaitReady(20 * time.Second) {
				o.inconclusive("GET " + g.name + " was not answered after its release")
				return
			}
		}
		o.syncOp("DELETE", o.S)
		if rng.Intn(2) == 0 {
			o.misc(rng)
		}
	}
	o.drain(rng, 2+rng.Intn(2*(k+1)))
	var outcome string
	if o.finish(&outcome) {
		o.record(outcome, overlapped, k >= 3 && serial && delPos > 0 && delPos < k)
		r.Count("overlap_parked_schedules_judged", 1)
	}
}

// ovWalk: a seeded walk over {start a GET of S (parks at H), release one (awaited or not), let a handler parked at
// T / E go, DELETE S (once), any other operation}.
func ovWalk(r *vh.Run, idx int) {
	if ovFailures.Load() >= ovFailureCap {
		r.Count("overlap_schedules_skipped_failure_established", 1)
		return
	}
	rng := r.Rand(fmt.Sprintf("c04-overlap-walk-%d", idx))
	k := 2 + rng.Intn(2)
	withA := rng.Intn(2) == 0
	hold := []string{"", "T", "E", "TE"}[rng.Intn(4)]
	scn := fmt.Sprintf("walk|k=%d,A=%v,hold=H%s", k, withA, hold)
	o := newOvRun(r, "walk", scn, rng.Intn(2) == 0, sched.New(40*time.Second, r.Seed+int64(idx)))
	defer o.close()
	if !o.setUp(withA) {
		return
	}
	o.ctl.Hold("get.H")
	if strings.Contains(hold, "T") {
		o.ctl.Hold("get.T")
	}
	if strings.Contains(hold, "E") {
		o.ctl.Hold("get.E")
	}
	started, overlapped := 0, false
	pattern := ""
	for steps := 0; (started < k || len(o.parked) > 0) && steps < 40 && !o.dead; steps++ {
		canStart, canRel := started < k && o.live[o.S], len(o.parked) > 0
		if !canStart && !canRel {
			break
		}
		c := rng.Intn(12)
		switch {
		case canStart && (!canRel || c < 4):
			if o.begin(o.S) == nil {
				return
			}
			started++
			if len(o.parked) >= 2 {
				overlapped = true
			}
			pattern += "s"
		case canRel && c < 7:
			g := o.parked[rng.Intn(len(o.parked))]
			await := rng.Intn(3) > 0
			if !o.release(g, await) {
				return
			}
			pattern += map[bool]string{true: "R", false: "r"}[await]
		case c == 7:
			o.drain(rng, 1)
			pattern += "t"
		case c == 8 && o.live[o.S]:
			o.syncOp("DELETE", o.S)
			pattern += "D"
		default:
			o.misc(rng)
			pattern += "m"
		}
	}
	if o.dead {
		return
	}
	o.drain(rng, rng.Intn(2*(k+1)))
	var outcome string
	if o.finish(&outcome) {
		o.record(pattern+"|"+outcome, overlapped, false)
		r.Count("overlap_walk_schedules_judged", 1)
		if strings.Contains(pattern, "D") {
			r.Count("overlap_walks_with_delete_amid_gets", 1)
		}
	}
}

// ovStorm: nothing held; seeded delays at the three points; k GETs of S, its DELETE and requests fired together.
func ovStorm(r *vh.Run, idx int) {
	if ovFailures.Load() >= ovFailureCap {
		r.Count("overlap_schedules_skipped_failure_established", 1)
		return
	}
	rng := r.Rand(fmt.Sprintf("c04-overlap-storm-%d", idx))
	ctl := sched.New(5*time.Second, r.Seed+int64(idx))
	for _, p := range []string{"get.H", "get.T", "get.E"} {
		ctl.RandomDelay(p, 0.5, 2*time.Millisecond)
	}
	k := 2 + rng.Intn(3)
	withA := rng.Intn(2) == 0
	nReq := rng.Intn(3)
	withDelete := rng.Intn(4) > 0
	scn := fmt.Sprintf("storm|k=%d,A=%v,requests=%d,delete-in-storm=%v", k, withA, nReq, withDelete)
	o := newOvRun(r, "storm", scn, rng.Intn(2) == 0, ctl)
	defer o.close()
	if !o.setUp(withA) {
		return
	}
	var wg sync.WaitGroup
	pause := func() time.Duration { return time.Duration(rng.Intn(5)*150) * time.Microsecond }
	for i := 0; i < k; i++ {
		g := o.startGet(o.S)
		_ = g
		time.Sleep(pause())
	}
	for i := 0; i < nReq; i++ {
		q := &oReq{name: fmt.Sprintf("R%d", i+1)}
		o.reqs = append(o.reqs, q)
		d := pause()
		wg.Add(1)
		go func() {
			defer wg.Done()
			time.Sleep(d)
			b := o.body("request")
			q.startSeq = ovClock.Add(1)
			q.re = o.post(b, o.S)
			q.ansSeq = ovClock.Add(1)
		}()
	}
	o.step("%d GETs and %d requests bearing S started together", k, nReq)
	if withDelete {
		time.Sleep(pause())
		o.delStart = ovClock.Add(1)
		re := o.del(o.S)
		if re.Status == 200 {
			o.delAns = ovClock.Add(1)
			delete(o.live, o.S)
		} else {
			o.delStart = 0
			if re.Status == 0 {
				o.inconclusive("DELETE of S: transport error " + re.Err)
			} else {
				o.violation(fmt.Sprintf("DELETE|id=live|status=%d-want-200", re.Status), fmt.Sprintf("DELETE of the live session, concurrent with its GETs, answered %d", re.Status), nil)
			}
		}
		o.step("DELETE bearing S, concurrent -> %d", re.Status)
	}
	wg.Wait()
	if o.dead {
		return
	}
	for _, g := range o.gets {
		if !g.awaitReady(30 * time.Second) {
			o.inconclusive("GET " + g.name + " was not answered")
			return
		}
	}
	o.checkLive("the storm")
	var outcome string
	if o.finish(&outcome) {
		o.record(outcome, true, false)
		r.Count("overlap_storm_schedules_judged", 1)
	}
}

func ovPermutations(k int) [][]int {
	var out [][]int
	var rec func(cur []int, used int)
	rec = func(cur []int, used int) {
		if len(cur) == k {
			out = append(out, append([]int(nil), cur...))
			return
		}
		for i := 0; i < k; i++ {
			if used&(1<<i) == 0 {
				rec(append(cur, i), used|1<<i)
			}
		}
	}
	rec(nil, 0)
	return out
}

// overlapLifecycle runs the enumerated family, the walks and the storms. It must run while nothing else of this process
// opens listening streams: the yield controller is process-wide.
func overlapLifecycle(r *vh.Run) {
	rng := r.Rand("c04-overlap")
	for rep := 0; rep < r.Pick(2, 6); rep++ {
		for _, k := range []int{2, 3} {
			perms := ovPermutations(k)
			pi := rng.Intn(len(perms))
			for _, withA := range []bool{false, true} {
				for _, serial := range []bool{true, false} {
					for delPos := 0; delPos <= k+1; delPos++ {
						// k=2: both release orders; k=3: orders rotate through the permutations from a seeded start;
						// the held tear-down points rotate with the case number
						n := 1
						if k == 2 {
							n = 2
						}
						for j := 0; j < n; j++ {
							pi = (pi + 1) % len(perms)
							hold := []string{"", "T", "E", "TE"}[rng.Intn(4)]
							ovParked(r, k, withA, serial, hold, perms[pi], delPos, rng)
						}
					}
				}
			}
		}
	}
	for i := 0; i < r.Pick(150, 1500); i++ {
		ovWalk(r, i)
	}
	for i := 0; i < r.Pick(150, 1500); i++ {
		ovStorm(r, i)
	}
	if ovFailures.Load() == 0 {
		// a run that observed nothing of a family must not claim it held
		c := r.Counter
		r.Require(c("overlap_parked_schedules_judged") > 0 && c("overlap_walk_schedules_judged") > 0 && c("overlap_storm_schedules_judged") > 0 &&
			c("overlap_streams_ended_after_delete") > 0 && c("overlap_refusals_404") > 0 && c("overlap_gets_conforming_served_200") > 0 &&
			c("overlap_gets_conforming_either_200")+c("overlap_gets_conforming_either_404") > 0,
			"overlap: schedules with overlapping GETs of one session were not all observed (judged: parked=%d walk=%d storm=%d; streams ended after DELETE=%d, refusals=%d, GETs served=%d, GETs overlapping the DELETE=%d)",
			c("overlap_parked_schedules_judged"), c("overlap_walk_schedules_judged"), c("overlap_storm_schedules_judged"), c("overlap_streams_ended_after_delete"),
			c("overlap_refusals_404"), c("overlap_gets_conforming_served_200"), c("overlap_gets_conforming_either_200")+c("overlap_gets_conforming_either_404"))
	}
	// the windows inside the session-ending operations themselves: free-running, by volume (spin.go)
	spinStorms(r)
}
