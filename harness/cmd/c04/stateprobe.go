// C04, stateless clause "the answer to a request does not depend on any earlier request", judged with
// handlers that DO keep something: every stage a request passes through inside the server (HTTP context
// function, middleware, tool / prompt / resource handler, the three list filters, notification handler)
// looks at everything the library lets it reach from inside a request —
//
//	the session of GetSessionFromContext and of ClientSessionFromContext (id, creation / activity time, data map),
//	the context values, the server handle of GetServerFromContext (identity, GetActiveSessions)
//
// — reports in the ANSWER what it found BEFORE writing, and then writes something request-specific (the
// request's nonce, visit counters). The oracle is a reference run: the same request as the very first
// request of a fresh server in a fresh process. After normalising what legitimately differs (the request's
// own nonce, the target server's own name, a never-seen session id, times inside the request's own
// send/receive window) the answer must be identical to the reference answer, whatever was sent before or
// is in flight at the same time, by whichever client, to whichever stateless server of the process.
package main

import (
	"context"
	"encoding/json"
	"fmt"
	"net/http"
	"os"
	"regexp"
	"sort"
	"strconv"
	"strings"
	"sync"
	"time"

	mcp "trpc.group/trpc-go/trpc-mcp-go"

	"verifharness/lib/kit"
	"verifharness/lib/peer"
	"verifharness/lib/vh"
)

// probeBase: all times in answers are nanoseconds since this instant (monotonic when the library's
// times carry a monotonic reading).
var probeBase = time.Now()

const (
	probeHeader     = "X-C04-Nonce"
	probeNotifyName = "notifications/c04probe"
	probeSrvPrefix  = "c04-probe-"
)

var (
	foreignNonceRe = regexp.MustCompile(`c04n[0-9a-f]{8}x[0-9a-z]+Z`)
	foreignSrvRe   = regexp.MustCompile(`c04-probe-[A-Za-z0-9]+`)
	probeWriters   = []string{"mw", "tool", "prompt", "resource", "filter-tools", "filter-prompts", "filter-resources", "notif"}
)

type (
	probeNonceKey struct{}
	probeTrailKey struct{}
)

// obs is what one stage found (before it wrote anything).
type obs struct {
	Who     string   `json:"who"`
	Sess    string   `json:"sess"`            // id of GetSessionFromContext's session, "nil" when none
	CSess   string   `json:"csess"`           // id of ClientSessionFromContext's session, "nil" when none
	Same    bool     `json:"same"`            // both accessors gave the same object
	Created int64    `json:"created"`         // ns since probeBase
	Active  int64    `json:"active"`          // ns since probeBase
	Mono    bool     `json:"mono"`            // both times carry a monotonic reading
	Found   []string `json:"found"`           // data found through GetSessionFromContext's session
	CFound  []string `json:"cfound"`          // data found through ClientSessionFromContext's session (when another object)
	Ctx     string   `json:"ctx"`             // the request-scoped context value
	CtxPrev string   `json:"ctx_prev"`        // ctxfn only: what the incoming context already carried
	Server  string   `json:"server"`          // name of the server handle in the context, "" when none
	Live    string   `json:"live,omitempty"`  // GetActiveSessions through the server handle
	Extra   string   `json:"extra,omitempty"` // e.g. the nonce in the arguments
}

type trail struct {
	mu  sync.Mutex
	Obs []*obs
}

func (t *trail) add(o *obs) {
	t.mu.Lock()
	t.Obs = append(t.Obs, o)
	t.mu.Unlock()
}

func (t *trail) json() string {
	t.mu.Lock()
	defer t.mu.Unlock()
	b, _ := json.Marshal(map[string]interface{}{"c04trail": t.Obs})
	return string(b)
}

func trailOf(ctx context.Context) *trail {
	if t, ok := ctx.Value(probeTrailKey{}).(*trail); ok && t != nil {
		return t
	}
	return &trail{Obs: []*obs{{Who: "no-trail-in-context"}}}
}

func nonceOf(ctx context.Context) string {
	s, _ := ctx.Value(probeNonceKey{}).(string)
	return s
}

func readData(s mcp.Session) []string {
	var out []string
	get := func(k string) {
		if v, ok := s.GetData(k); ok {
			out = append(out, fmt.Sprintf("%s=%v", strings.TrimPrefix(k, "c04."), v))
		}
	}
	get("c04.visits")
	get("c04.path")
	for _, w := range probeWriters {
		get("c04." + w + ".visits")
		get("c04." + w + ".last")
	}
	sort.Strings(out)
	return out
}

// observe looks at everything reachable from ctx, records it, and (write) leaves request-specific marks.
func observe(ctx context.Context, who string, write bool, extra string) *obs {
	o := &obs{Who: who, Sess: "nil", CSess: "nil", Ctx: nonceOf(ctx), Extra: extra}
	s1, ok1 := mcp.GetSessionFromContext(ctx)
	if !ok1 {
		s1 = nil
	}
	s2 := mcp.ClientSessionFromContext(ctx)
	if s1 != nil {
		o.Sess = s1.GetID()
		c, a := s1.GetCreatedAt(), s1.GetLastActivity()
		o.Created, o.Active = int64(c.Sub(probeBase)), int64(a.Sub(probeBase))
		o.Mono = strings.Contains(c.String(), " m=") && strings.Contains(a.String(), " m=")
		o.Found = readData(s1)
	}
	if s2 != nil {
		o.CSess = s2.GetID()
		if s1 == nil {
			c, a := s2.GetCreatedAt(), s2.GetLastActivity()
			o.Created, o.Active = int64(c.Sub(probeBase)), int64(a.Sub(probeBase))
			o.Mono = strings.Contains(c.String(), " m=") && strings.Contains(a.String(), " m=")
		}
	}
	o.Same = s1 != nil && s2 != nil && s1 == s2
	if s2 != nil && !o.Same {
		o.CFound = readData(s2)
	}
	if srv, ok := mcp.GetServerFromContext(ctx).(*mcp.Server); ok && srv != nil {
		o.Server = srv.GetServerInfo().Name
		if l, err := srv.GetActiveSessions(); err != nil {
			o.Live = "err:" + err.Error()
		} else {
			self := false
			for _, id := range l {
				if id == o.Sess || id == o.CSess {
					self = true
				}
			}
			o.Live = fmt.Sprintf("n=%d,self=%v", len(l), self)
		}
	} else if h := mcp.GetServerFromContext(ctx); h != nil {
		o.Server = fmt.Sprintf("%T", h)
	}
	trailOf(ctx).add(o)
	if !write {
		return o
	}
	nonce := nonceOf(ctx)
	if nonce == "" {
		nonce = extra
	}
	// writes go through both accessors: counters through one, the nonce through the other
	bump := func(s mcp.Session, k string) {
		n := 0
		if v, ok := s.GetData(k); ok {
			n, _ = v.(int)
		}
		s.SetData(k, n+1)
	}
	wA, wB := s1, s2
	if wA == nil {
		wA = wB
	}
	if wB == nil {
		wB = wA
	}
	if wA != nil {
		bump(wA, "c04.visits")
		bump(wA, "c04."+who+".visits")
		wB.SetData("c04."+who+".last", nonce)
		p := ""
		if v, ok := wB.GetData("c04.path"); ok {
			p, _ = v.(string)
		}
		wB.SetData("c04.path", p+"/"+who+":"+nonce)
		wA.UpdateActivity()
	}
	return o
}

// probeCtxFn is the HTTP context function: a request-scoped value and the per-request trail.
func probeCtxFn(ctx context.Context, r *http.Request) context.Context {
	t := &trail{}
	o := &obs{Who: "ctxfn", Sess: "nil", CSess: "nil"}
	if prev := nonceOf(ctx); prev != "" {
		o.CtxPrev = "nonce:" + prev
	}
	if pt, ok := ctx.Value(probeTrailKey{}).(*trail); ok && pt != nil {
		o.CtxPrev += "+trail"
	}
	if s, ok := mcp.GetSessionFromContext(ctx); ok && s != nil {
		o.Sess = s.GetID()
		o.Found = readData(s)
	}
	if s := mcp.ClientSessionFromContext(ctx); s != nil {
		o.CSess = s.GetID()
	}
	t.add(o)
	ctx = context.WithValue(ctx, probeTrailKey{}, t)
	if n := r.Header.Get(probeHeader); n != "" {
		ctx = context.WithValue(ctx, probeNonceKey{}, n)
	}
	return ctx
}

func probeMW(next mcp.HandlerFunc) mcp.HandlerFunc {
	return func(ctx context.Context, req *mcp.JSONRPCRequest) (mcp.JSONRPCMessage, error) {
		observe(ctx, "mw", true, "")
		return next(ctx, req)
	}
}

type probeSrv struct {
	in      *kit.Instance
	name    string
	mode    string // stateless | disabled
	postSSE bool
	started int64 // ns since probeBase, taken after the server was built
}

func (p *probeSrv) cfg() string {
	a := "json"
	if p.postSSE {
		a = "postsse"
	}
	return p.mode + "/" + a
}

func startProbeSrv(mode string, postSSE bool, label string) *probeSrv {
	kind := kit.SLJSON
	if mode == "disabled" {
		kind = kit.SNoSess
	}
	name := probeSrvPrefix + label
	in := kit.Start(kind, kit.Opts{Name: name, ServerOpts: []mcp.ServerOption{
		mcp.WithPostSSEEnabled(postSSE), mcp.WithGetSSEEnabled(false),
		mcp.WithHTTPContextFunc(probeCtxFn),
		mcp.WithMiddleware(probeMW),
		mcp.WithToolListFilter(func(ctx context.Context, tools []*mcp.Tool) []*mcp.Tool {
			observe(ctx, "filter-tools", true, "")
			out := append([]*mcp.Tool{}, tools...)
			return append(out, mcp.NewTool("c04-trail", mcp.WithDescription(trailOf(ctx).json())))
		}),
		mcp.WithPromptListFilter(func(ctx context.Context, ps []*mcp.Prompt) []*mcp.Prompt {
			observe(ctx, "filter-prompts", true, "")
			out := append([]*mcp.Prompt{}, ps...)
			return append(out, &mcp.Prompt{Name: "c04-trail", Description: trailOf(ctx).json()})
		}),
		mcp.WithResourceListFilter(func(ctx context.Context, rs []*mcp.Resource) []*mcp.Resource {
			observe(ctx, "filter-resources", true, "")
			out := append([]*mcp.Resource{}, rs...)
			return append(out, &mcp.Resource{Name: "c04-trail", URI: "c04://trail", Description: trailOf(ctx).json()})
		}),
	}})
	kit.StdFixture(in)
	in.RegisterTool(mcp.NewTool("c04probe", mcp.WithString("nonce"), mcp.WithString("gate")),
		func(ctx context.Context, req *mcp.CallToolRequest) (*mcp.CallToolResult, error) {
			a := req.Params.Arguments
			nonce, _ := a["nonce"].(string)
			observe(ctx, "tool", true, nonce)
			if g, _ := a["gate"].(string); g != "" {
				kit.G.Wait(ctx, g)
			}
			observe(ctx, "tool-after", false, "")
			return mcp.NewTextResult(trailOf(ctx).json()), nil
		})
	in.RegisterPrompt(&mcp.Prompt{Name: "c04probe", Arguments: []mcp.PromptArgument{{Name: "nonce"}}},
		func(ctx context.Context, req *mcp.GetPromptRequest) (*mcp.GetPromptResult, error) {
			observe(ctx, "prompt", true, req.Params.Arguments["nonce"])
			observe(ctx, "prompt-after", false, "")
			return &mcp.GetPromptResult{Description: "c04probe", Messages: []mcp.PromptMessage{
				{Role: mcp.RoleUser, Content: mcp.NewTextContent(trailOf(ctx).json())}}}, nil
		})
	in.RegisterResource(&mcp.Resource{URI: "c04://probe", Name: "c04probe", MimeType: "text/plain"},
		func(ctx context.Context, req *mcp.ReadResourceRequest) (mcp.ResourceContents, error) {
			observe(ctx, "resource", true, "")
			observe(ctx, "resource-after", false, "")
			return mcp.TextResourceContents{URI: "c04://probe", MIMEType: "text/plain", Text: trailOf(ctx).json()}, nil
		})
	in.Server.RegisterNotificationHandler(probeNotifyName, func(ctx context.Context, n *mcp.JSONRPCNotification) error {
		observe(ctx, "notif", true, "")
		return nil
	})
	return &probeSrv{in: in, name: name, mode: mode, postSSE: postSSE, started: int64(time.Since(probeBase))}
}

var probeKinds = []string{"tool", "prompt", "resource", "list-tools", "list-prompts", "list-resources"}

func probeBody(kind, nonce, gate string) string {
	switch kind {
	case "tool":
		args := map[string]interface{}{"nonce": nonce}
		if gate != "" {
			args["gate"] = gate
		}
		b, _ := json.Marshal(args)
		return `{"jsonrpc":"2.0","id":41,"method":"tools/call","params":{"name":"c04probe","arguments":` + string(b) + `}}`
	case "prompt":
		return `{"jsonrpc":"2.0","id":42,"method":"prompts/get","params":{"name":"c04probe","arguments":{"nonce":"` + nonce + `"}}}`
	case "resource":
		return `{"jsonrpc":"2.0","id":43,"method":"resources/read","params":{"uri":"c04://probe"}}`
	case "list-tools":
		return `{"jsonrpc":"2.0","id":44,"method":"tools/list"}`
	case "list-prompts":
		return `{"jsonrpc":"2.0","id":45,"method":"prompts/list"}`
	default:
		return `{"jsonrpc":"2.0","id":46,"method":"resources/list"}`
	}
}

type probeResult struct {
	Kind    string   `json:"kind"`
	Config  string   `json:"config"`
	Server  string   `json:"server"`
	Nonce   string   `json:"nonce"`
	Status  int      `json:"status"`
	Err     string   `json:"err,omitempty"`
	Norm    string   `json:"normalised"`
	IDs     []string `json:"session_ids"`
	Raw     string   `json:"raw_answer"`
	Unorder int      `json:"times_without_monotonic_reading,omitempty"`
	Stages  int      `json:"stages"`
}

// takeTrail pulls the embedded trail JSON out of the parsed answer frame and replaces it by "T".
func takeTrail(kind string, frame map[string]interface{}) (string, bool) {
	res, _ := frame["result"].(map[string]interface{})
	if res == nil {
		return "", false
	}
	first := func(key, field string) (string, bool) {
		arr, _ := res[key].([]interface{})
		if len(arr) == 0 {
			return "", false
		}
		m, _ := arr[0].(map[string]interface{})
		if m == nil {
			return "", false
		}
		if c, ok := m["content"].(map[string]interface{}); ok && field == "content.text" {
			s, ok := c["text"].(string)
			c["text"] = "T"
			return s, ok
		}
		s, ok := m[field].(string)
		if ok {
			m[field] = "T"
		}
		return s, ok
	}
	named := func(key string) (string, bool) {
		arr, _ := res[key].([]interface{})
		for _, e := range arr {
			m, _ := e.(map[string]interface{})
			if m != nil && m["name"] == "c04-trail" {
				s, ok := m["description"].(string)
				m["description"] = "T"
				return s, ok
			}
		}
		return "", false
	}
	switch kind {
	case "tool":
		return first("content", "text")
	case "prompt":
		return first("messages", "content.text")
	case "resource":
		return first("contents", "text")
	case "list-tools":
		return named("tools")
	case "list-prompts":
		return named("prompts")
	default:
		return named("resources")
	}
}

func sortNamed(frame map[string]interface{}) {
	res, _ := frame["result"].(map[string]interface{})
	for _, k := range []string{"tools", "prompts", "resources"} {
		if arr, ok := res[k].([]interface{}); ok {
			sort.SliceStable(arr, func(i, j int) bool {
				a, _ := json.Marshal(arr[i])
				b, _ := json.Marshal(arr[j])
				return string(a) < string(b)
			})
		}
	}
}

func timeClass(v, t0, t1, started int64, has, mono bool) string {
	switch {
	case !has:
		return "none"
	case !mono:
		return "unordered" // wall-clock only: not comparable with our instants, not judged
	case v < started:
		return "before-server-existed"
	case v < t0:
		return "predates-request"
	case v <= t1:
		return "in-request"
	default:
		return "after-answer"
	}
}

// doProbe sends one probe and returns its normalised answer. t0/t1 bracket the exchange.
func doProbe(ps *probeSrv, hp *peer.HTTPPeer, kind, nonce, gate string) *probeResult {
	pr := &probeResult{Kind: kind, Config: ps.cfg(), Server: ps.name, Nonce: nonce}
	accept := "application/json"
	if ps.postSSE {
		accept = "application/json, text/event-stream"
	}
	ctx, cancel := context.WithTimeout(context.Background(), 60*time.Second)
	defer cancel()
	t0 := int64(time.Since(probeBase))
	re := hp.Do(ctx, "POST", ps.in.URL(), map[string]string{"Content-Type": "application/json", "Accept": accept, probeHeader: nonce}, []byte(probeBody(kind, nonce, gate)))
	t1 := int64(time.Since(probeBase))
	pr.Status, pr.Err, pr.Raw = re.Status, re.Err, re.BodyS
	if re.Status == 0 {
		return pr
	}
	var sb strings.Builder
	fmt.Fprintf(&sb, "status=%d session-header=%q sse=%v", re.Status, re.Sess, re.IsSSE)
	frames := re.Frames()
	fmt.Fprintf(&sb, " frames=%d", len(frames))
	idn := map[string]string{}
	idc := func(id string) string {
		if id == "nil" || id == "" {
			return id
		}
		if _, ok := idn[id]; !ok {
			idn[id] = fmt.Sprintf("S%d", len(idn)+1)
			pr.IDs = append(pr.IDs, id)
		}
		return idn[id]
	}
	for _, f := range frames {
		var frame map[string]interface{}
		if json.Unmarshal([]byte(f), &frame) != nil {
			sb.WriteString("\nframe(unparsed): " + f)
			continue
		}
		ts, ok := takeTrail(kind, frame)
		sortNamed(frame)
		fb, _ := json.Marshal(frame)
		sb.WriteString("\nframe: " + string(fb))
		if !ok {
			sb.WriteString("\ntrail: missing")
			continue
		}
		var tr struct {
			Obs []*obs `json:"c04trail"`
		}
		if json.Unmarshal([]byte(ts), &tr) != nil {
			sb.WriteString("\ntrail(unparsed): " + ts)
			continue
		}
		for _, o := range tr.Obs {
			pr.Stages++
			has := o.Sess != "nil" || o.CSess != "nil"
			cc := timeClass(o.Created, t0, t1, ps.started, has, o.Mono)
			ac := timeClass(o.Active, t0, t1, ps.started, has, o.Mono)
			if cc == "unordered" {
				pr.Unorder++
			}
			fmt.Fprintf(&sb, "\n  %s: sess=%s csess=%s same=%v created=%s active=%s found=%v cfound=%v ctx=%q ctx_prev=%q server=%q live=%q extra=%q",
				o.Who, idc(o.Sess), idc(o.CSess), o.Same, cc, ac, o.Found, o.CFound, o.Ctx, o.CtxPrev, o.Server, o.Live, o.Extra)
		}
	}
	s := strings.ReplaceAll(sb.String(), nonce, "N")
	s = strings.ReplaceAll(s, ps.name, "SELF")
	pr.Norm = s
	return pr
}

// ---- reference: the request as the first request of a fresh server in a fresh process ----

func probeRefChild() {
	kit.Silence()
	mode, kind := os.Getenv("C04_REF_MODE"), os.Getenv("C04_REF_KIND")
	sse := os.Getenv("C04_REF_SSE") == "1"
	ps := startProbeSrv(mode, sse, "ref")
	hp := peer.NewHTTPPeer()
	pr := doProbe(ps, hp, kind, "c04n00000000xrefZ", "")
	b, _ := json.Marshal(pr)
	fmt.Println(string(b))
	hp.Close()
	ps.in.Close()
}

type probeRef struct {
	norm map[string]string   // config|kind -> normalised fresh answer
	ids  map[string][]string // config -> session ids fresh processes handed out
}

func buildProbeRefs(r *vh.Run) *probeRef {
	ref := &probeRef{norm: map[string]string{}, ids: map[string][]string{}}
	var mu sync.Mutex
	var wg sync.WaitGroup
	sem := make(chan struct{}, 6)
	for _, mode := range []string{"stateless", "disabled"} {
		for _, sse := range []bool{false, true} {
			for _, kind := range probeKinds {
				wg.Add(1)
				go func(mode string, sse bool, kind string) {
					defer wg.Done()
					sem <- struct{}{}
					defer func() { <-sem }()
					ps := &probeSrv{mode: mode, postSSE: sse}
					env := []string{"C04_REF_MODE=" + mode, "C04_REF_KIND=" + kind, "C04_REF_SSE=0"}
					if sse {
						env[2] = "C04_REF_SSE=1"
					}
					tag := strings.ReplaceAll(fmt.Sprintf("ref-%s-%s", ps.cfg(), kind), "/", "-")
					cr := r.SpawnChild("c04-probe-ref", tag, nil, env, nil, 120*time.Second)
					var pr probeResult
					if cr.TimedOut || cr.ExitCode != 0 || json.Unmarshal(cr.Stdout(), &pr) != nil || pr.Status == 0 {
						r.Inconclusive(fmt.Sprintf("stateless-state: no fresh-process reference for %s %s (timed out=%v exit=%d): requests of this class are not judged", ps.cfg(), kind, cr.TimedOut, cr.ExitCode))
						return
					}
					mu.Lock()
					ref.norm[ps.cfg()+"|"+kind] = pr.Norm
					ref.ids[ps.cfg()] = append(ref.ids[ps.cfg()], pr.IDs...)
					mu.Unlock()
				}(mode, sse, kind)
			}
		}
	}
	wg.Wait()
	return ref
}

// idScheme: how temporary sessions are named, learnt from fresh processes only. "random": every fresh
// process got another id (then an id seen twice in one process is a session that outlived its request);
// "constant": all got the same id (nothing to judge); "none": handlers get no session; "unknown" otherwise.
func (p *probeRef) idScheme(config string) string {
	ids := p.ids[config]
	if len(ids) == 0 {
		return "none"
	}
	set := map[string]bool{}
	for _, id := range ids {
		set[id] = true
	}
	switch {
	case len(ids) < 3:
		return "unknown"
	case len(set) == len(ids):
		return "random"
	case len(set) == 1:
		return "constant"
	}
	return "unknown"
}

// ---- workload ----

type probeJudge struct {
	r    *vh.Run
	ref  *probeRef
	mu   sync.Mutex
	seen map[string]string // session id -> nonce of the request that had it first
	n    int
}

func (j *probeJudge) judge(pr *probeResult, scenario string, schedule []string) {
	r := j.r
	r.Eval(1)
	if pr.Status == 0 {
		r.Inconclusive(fmt.Sprintf("stateless-state: %s probe on %s not answered (%s)", pr.Kind, pr.Config, pr.Err))
		return
	}
	want, ok := j.ref.norm[pr.Config+"|"+pr.Kind]
	if !ok {
		r.Count("state_probes_without_reference", 1)
		return
	}
	r.Count("state_probes_judged", 1)
	r.Count("state_probe_stages_observed", int64(pr.Stages))
	if pr.Unorder > 0 {
		r.Count("state_probe_times_not_comparable", int64(pr.Unorder))
	}
	witness := func() map[string]interface{} {
		return map[string]interface{}{"scenario": scenario, "schedule": schedule, "probe": pr, "fresh_server_answer": want}
	}
	if pr.Norm != want {
		sym := "answer-differs-from-fresh-server"
		switch {
		case foreignNonceRe.MatchString(pr.Norm):
			sym = "data-of-another-request-visible"
		case strings.Contains(pr.Norm, "predates-request") && !strings.Contains(want, "predates-request"):
			sym = "session-predates-request"
		case foreignSrvRe.MatchString(pr.Norm):
			sym = "foreign-server-handle"
		}
		r.Violation(fmt.Sprintf("C04|stateless-state|%s|%s|%s", pr.Config, pr.Kind, sym),
			fmt.Sprintf("[%s, %s] the answer to a %s request differs from the answer the same request gets as the first request of a fresh server: it depends on earlier or concurrent requests", pr.Config, scenario, pr.Kind), witness())
	} else {
		r.Distinct(fmt.Sprintf("state|%s|%s|%s", pr.Config, pr.Kind, scenario))
	}
	// session ids
	scheme := j.ref.idScheme(pr.Config)
	for _, id := range pr.IDs {
		j.mu.Lock()
		prev, dup := j.seen[id]
		if !dup {
			j.seen[id] = pr.Nonce
		}
		j.mu.Unlock()
		if scheme != "random" {
			r.Count("state_probe_ids_not_judged_scheme_"+scheme, 1)
			continue
		}
		r.Count("state_probe_ids_judged", 1)
		if dup && prev != pr.Nonce {
			w := witness()
			w["id"], w["first_seen_by_request"] = id, prev
			r.Violation(fmt.Sprintf("C04|stateless-state|%s|%s|session-id-reused", pr.Config, pr.Kind),
				fmt.Sprintf("[%s, %s] the handler of a %s request ran in a session with the id another request's handler had seen (fresh processes hand out a new id every time)", pr.Config, scenario, pr.Kind), w)
		}
	}
	j.mu.Lock()
	j.n++
	if j.n <= 1 {
		r.Sample(map[string]interface{}{"part": "stateless-state", "scenario": scenario, "config": pr.Config, "kind": pr.Kind, "normalised_answer": pr.Norm})
	}
	j.mu.Unlock()
}

// statelessState drives the probes.
func statelessState(r *vh.Run, rounds int) {
	ref := buildProbeRefs(r)
	if len(ref.norm) == 0 {
		r.Inconclusive("stateless-state: no fresh-process reference could be produced; the scenario did not run")
		return
	}
	for c := range ref.ids {
		r.SetAdd("state_probe_id_scheme", c+"="+ref.idScheme(c))
	}
	servers := []*probeSrv{
		startProbeSrv("stateless", false, "A"), startProbeSrv("stateless", true, "B"),
		startProbeSrv("stateless", false, "C"), startProbeSrv("stateless", true, "D"),
		startProbeSrv("disabled", false, "E"), startProbeSrv("disabled", true, "F"),
	}
	defer func() {
		for _, s := range servers {
			s.in.Close()
		}
	}()
	stateless := servers[:4]
	clients := make([]*peer.HTTPPeer, 5)
	for i := range clients {
		clients[i] = peer.NewHTTPPeer()
		defer clients[i].Close()
	}
	rng := r.Rand("stateless-state")
	j := &probeJudge{r: r, ref: ref, seen: map[string]string{}}
	nonceN := 0
	newNonce := func() string {
		nonceN++
		return fmt.Sprintf("c04n%08xx%sZ", rng.Uint32(), strconv.FormatInt(int64(nonceN), 36))
	}
	// writers that are not probes: everything here passes the middleware (which writes) or a handler that writes
	writer := func(ps *probeSrv, hp *peer.HTTPPeer, which int, nonce string) string {
		accept := "application/json"
		if ps.postSSE {
			accept = "application/json, text/event-stream"
		}
		bodies := []string{
			string(kit.InitBody("9", "")), kit.InitializedBody,
			`{"jsonrpc":"2.0","method":"` + probeNotifyName + `","params":{"n":1}}`,
			`{"jsonrpc":"2.0","id":10,"method":"ping"}`,
			`{"jsonrpc":"2.0","id":11,"method":"tools/call","params":{"name":"echo","arguments":{"nonce":"` + nonce + `","payload":"p"}}}`,
			`{"jsonrpc":"2.0","id":12,"method":"tools/call","params":{"name":"fail","arguments":{}}}`,
			`{"jsonrpc":"2.0","id":13,"method":"no/such"}`,
			`{"jsonrpc":"2.0","id":14,"result":{}}`,
		}
		names := []string{"initialize", "initialized", "probe-notification", "ping", "echo", "fail", "unknown-method", "response-post"}
		ctx, cancel := context.WithTimeout(context.Background(), 60*time.Second)
		defer cancel()
		h := map[string]string{"Content-Type": "application/json", "Accept": accept, probeHeader: nonce}
		if which%3 == 0 {
			h["Mcp-Session-Id"] = randHex(rng) // a stateless server requires none and must ignore one
		}
		hp.Do(ctx, "POST", ps.in.URL(), h, []byte(bodies[which%len(bodies)]))
		return names[which%len(names)] + "@" + ps.name
	}
	pick := func(l []*probeSrv) *probeSrv { return l[rng.Intn(len(l))] }
	for round := 0; round < rounds; round++ {
		var schedule []string
		switch sc := rng.Intn(6); sc {
		case 0, 1, 2:
			// sequential histories: one client / many clients; one server / the stateless servers of the process
			scenario := []string{"seq-one-client-one-server", "seq-many-clients-one-server", "seq-many-clients-across-servers"}[sc]
			pool := servers
			if sc == 2 {
				pool = stateless
			}
			ps, hp := pick(pool), clients[rng.Intn(len(clients))]
			for i, n := 0, 2+rng.Intn(6); i < n; i++ {
				if sc >= 1 {
					hp = clients[rng.Intn(len(clients))]
				}
				if sc == 2 {
					ps = pick(stateless)
				}
				nonce := newNonce()
				if rng.Intn(3) == 0 {
					schedule = append(schedule, writer(ps, hp, rng.Intn(64), nonce))
					continue
				}
				kind := probeKinds[rng.Intn(len(probeKinds))]
				schedule = append(schedule, fmt.Sprintf("probe %s@%s %s", kind, ps.name, nonce))
				j.judge(doProbe(ps, hp, kind, nonce, ""), scenario, append([]string{}, schedule...))
			}
		case 3, 4:
			// overlapping, parked on a gate after they wrote; meanwhile complete requests run; then the parked
			// ones look again (they must still see only what they wrote themselves)
			scenario := "overlap-gated"
			gate := fmt.Sprintf("c04-state-%d", round)
			k := 2 + rng.Intn(3)
			pool := stateless
			if sc == 4 && rng.Intn(3) == 0 {
				pool = servers[4:]
			}
			res := make([]*probeResult, k)
			var wg sync.WaitGroup
			for i := 0; i < k; i++ {
				ps, hp, nonce := pick(pool), clients[i%len(clients)], newNonce()
				if sc == 3 {
					ps = pool[0+2*rng.Intn(len(pool)/2)] // same answer mode; may be the same instance
				}
				schedule = append(schedule, fmt.Sprintf("parked probe tool@%s %s", ps.name, nonce))
				wg.Add(1)
				go func(i int) { defer wg.Done(); res[i] = doProbe(ps, hp, "tool", nonce, gate) }(i)
			}
			got := kit.G.AwaitWaiters(gate, k, 20*time.Second)
			if got == k {
				r.Count("state_overlap_groups_all_parked", 1)
				r.Max("state_max_parked_together", int64(k))
				for i, n := 0, rng.Intn(4); i < n; i++ {
					ps, hp, nonce := pick(pool), clients[rng.Intn(len(clients))], newNonce()
					kind := probeKinds[rng.Intn(len(probeKinds))]
					schedule = append(schedule, fmt.Sprintf("probe (others parked) %s@%s %s", kind, ps.name, nonce))
					j.judge(doProbe(ps, hp, kind, nonce, ""), "while-others-parked", append([]string{}, schedule...))
				}
			} else {
				r.Count("state_overlap_groups_not_all_parked", 1)
			}
			kit.G.Open(gate)
			wg.Wait()
			for _, pr := range res {
				j.judge(pr, scenario, schedule)
			}
		default:
			// free-running overlap from several clients
			scenario := "overlap-free"
			k := 3 + rng.Intn(6)
			res := make([]*probeResult, k)
			var wg sync.WaitGroup
			for i := 0; i < k; i++ {
				ps, hp, nonce := pick(servers), clients[rng.Intn(len(clients))], newNonce()
				kind := probeKinds[rng.Intn(len(probeKinds))]
				schedule = append(schedule, fmt.Sprintf("concurrent probe %s@%s %s", kind, ps.name, nonce))
				wg.Add(1)
				go func(i int) { defer wg.Done(); res[i] = doProbe(ps, hp, kind, nonce, "") }(i)
			}
			wg.Wait()
			for _, pr := range res {
				j.judge(pr, scenario, schedule)
			}
		}
	}
	if r.Counter("state_probes_judged") == 0 {
		r.Inconclusive("stateless-state: no probe was judged")
	}
}
