// C04 — Streamable-HTTP session lifecycle follows the protocol state machine.
package main

import (
	"bufio"
	"context"
	"encoding/base64"
	"encoding/hex"
	"encoding/json"
	"fmt"
	"math/rand"
	"os"
	"os/exec"
	"path/filepath"
	"regexp"
	"sort"
	"strconv"
	"strings"
	"sync"
	"time"

	"github.com/anishathalye/porcupine"
	mcp "trpc.group/trpc-go/trpc-mcp-go"

	"verifharness/lib/kit"
	"verifharness/lib/peer"
	"verifharness/lib/vh"
)

type cfg struct {
	Mode    string // stateful | stateless | disabled
	GetSSE  bool
	PostSSE bool
}

func (c cfg) String() string { return fmt.Sprintf("%s/get=%v/postsse=%v", c.Mode, c.GetSSE, c.PostSSE) }

func allCfgs() []cfg {
	var out []cfg
	for _, m := range []string{"stateful", "stateless", "disabled"} {
		for _, g := range []bool{true, false} {
			for _, p := range []bool{true, false} {
				out = append(out, cfg{m, g, p})
			}
		}
	}
	return out
}

func start(c cfg) *kit.Instance {
	kind := kit.SJSON
	opts := []mcp.ServerOption{}
	switch c.Mode {
	case "stateless":
		kind = kit.SLJSON
	case "disabled":
		kind = kit.SNoSess
	}
	// the kit option for POST SSE comes first; ours override it (options are applied in order)
	opts = append(opts, mcp.WithPostSSEEnabled(c.PostSSE), mcp.WithGetSSEEnabled(c.GetSSE))
	in := kit.Start(kind, kit.Opts{ServerOpts: opts})
	kit.StdFixture(in)
	return in
}

var hexRe = regexp.MustCompile(`^[0-9a-f]{32}$`)

func randHex(rng *rand.Rand) string {
	b := make([]byte, 16)
	rng.Read(b)
	return hex.EncodeToString(b)
}

type step struct {
	Op      string `json:"op"`
	Req     string `json:"request,omitempty"`
	IDClass string `json:"id_class"`
	ID      string `json:"id,omitempty"`
	Shape   string `json:"shape,omitempty"` // op "shaped": KIND x METHOD = class (shaped.go)
	Status  int    `json:"status"`
	Header  string `json:"session_header,omitempty"`
	Expect  string `json:"expect"`
}

// sequential: model-based histories against one configuration.
func sequential(r *vh.Run, c cfg, nHist, maxSteps int) {
	in := start(c)
	defer in.Close()
	foreign := start(cfg{"stateful", true, false})
	defer foreign.Close()
	hp := peer.NewHTTPPeer()
	defer hp.Close()
	ctx := context.Background()
	rng := r.Rand("seq-" + c.String())
	url := in.URL()
	accept := "application/json"
	if c.PostSSE {
		accept = "application/json, text/event-stream"
	}
	post := func(body string, id string) *peer.Reaction {
		h := map[string]string{"Content-Type": "application/json", "Accept": accept}
		if id != "" {
			h["Mcp-Session-Id"] = id
		}
		cx, cancel := context.WithTimeout(ctx, 20*time.Second)
		defer cancel()
		return hp.Do(cx, "POST", url, h, []byte(body))
	}
	// a foreign-made id: issued by another server instance
	fre := hp.Do(ctx, "POST", foreign.URL(), map[string]string{"Content-Type": "application/json", "Accept": "application/json"}, kit.InitBody("1", ""))
	foreignID := fre.Sess

	everIssued := map[string]bool{}
	var shapedSample, firstHist []step
	strays := map[string]bool{} // sessions the server reports although no history accounts for them, once reported
	// shaped.go: the message lattice (KIND x METHOD). Random histories draw cells from it; after them, sweep histories
	// walk every cell x id class once (seeded order), so that the cells exercised do not depend on luck.
	sKinds, sMethods := shapedKinds(), shapedMethods()
	var sweep []shapedCell
	sweepClasses := shapedIDClasses()
	if c.Mode != "stateful" {
		sweepClasses = []string{"none", "never"} // no id is ever live or deleted here
	}
	for pass := 0; pass < r.Pick(1, 3); pass++ { // every pass in another seeded order: other neighbours, other sessions
		var one []shapedCell
		for _, k := range sKinds {
			for _, m := range sMethods {
				for _, ic := range sweepClasses {
					one = append(one, shapedCell{k, m, ic})
				}
			}
		}
		rng.Shuffle(len(one), func(i, j int) { one[i], one[j] = one[j], one[i] })
		sweep = append(sweep, one...)
	}
	const sweepChunk = 60
	nSweep := (len(sweep) + sweepChunk - 1) / sweepChunk
	cellsSeen := map[string]bool{}
	cellsTotal := len(sKinds) * len(sMethods) * len(sweepClasses)
	for h := 0; h < nHist+nSweep; h++ {
		live := map[string]bool{}
		var deleted []string
		streams := map[string]*peer.Stream{}
		var hist []step
		reqN := 0
		nsteps := 4 + rng.Intn(maxSteps-3)
		// a sweep history: two sessions, one of them deleted, then a chunk of cells
		type scripted struct {
			op, cls string
			cell    *shapedCell
		}
		var script []scripted
		if h >= nHist {
			script = []scripted{{op: "initialize", cls: "none"}, {op: "initialize", cls: "none"}, {op: "DELETE", cls: "live"}}
			lo := (h - nHist) * sweepChunk
			hi := lo + sweepChunk
			if hi > len(sweep) {
				hi = len(sweep)
			}
			for i := lo; i < hi; i++ {
				script = append(script, scripted{op: "shaped", cls: sweep[i].Cls, cell: &sweep[i]})
			}
			nsteps = len(script)
		}
		fail := func(sig, what string) {
			r.Violation(fmt.Sprintf("C04|seq|%s|%s", c.Mode, sig), fmt.Sprintf("[%s] %s", c, what), map[string]interface{}{"config": c.String(), "history": hist})
		}
		liveList := func() []string {
			var l []string
			for id := range live {
				l = append(l, id)
			}
			sort.Strings(l)
			return l
		}
		for s := 0; s < nsteps; s++ {
			ops := []string{"initialize", "request", "request", "notification", "response-post", "GET", "stream-close", "DELETE", "shaped", "shaped", "shaped"}
			op := ops[rng.Intn(len(ops))]
			classes := []string{"none", "live", "live", "deleted", "never", "foreign"}
			cls := classes[rng.Intn(len(classes))]
			var cell shapedCell
			if script != nil {
				op, cls = script[s].op, script[s].cls
				if script[s].cell != nil {
					cell = *script[s].cell
				}
			} else if op == "shaped" {
				cell = shapedCell{K: sKinds[rng.Intn(len(sKinds))], M: sMethods[rng.Intn(len(sMethods))]}
			}
			shClass := ""
			if op == "shaped" {
				shClass = shapedClass(cell.K, cell.M)
			}
			id := ""
			switch cls {
			case "live":
				if l := liveList(); len(l) > 0 {
					id = l[rng.Intn(len(l))]
				} else {
					cls = "none"
				}
			case "deleted":
				if len(deleted) > 0 {
					id = deleted[rng.Intn(len(deleted))]
				} else {
					cls, id = "never", randHex(rng)
				}
			case "never":
				id = randHex(rng)
			case "foreign":
				id = foreignID
			}
			st := step{Op: op, IDClass: cls, ID: id}
			r.Eval(1)
			reqN++
			var re *peer.Reaction
			switch op {
			case "shaped":
				st.Req = shapedBody(cell.K, cell.M, reqN)
				st.Shape = cell.K.Name + " x " + cell.M.Name + " = " + shClass
				re = post(st.Req, id)
			case "initialize":
				re = post(string(kit.InitBody(strconv.Itoa(reqN), "")), id)
			case "request":
				// a request is any request: quiet ones, ones that fail, and ones whose handler writes
				// notifications onto the answer stream before the answer
				kinds := []string{
					`"method":"ping"`,
					`"method":"tools/list"`,
					`"method":"tools/call","params":{"name":"echo","arguments":{"nonce":"c04","payload":"x"}}`,
					`"method":"tools/call","params":{"name":"notify","arguments":{"nonce":"c04","n":1}}`,
					`"method":"tools/call","params":{"name":"notify","arguments":{"nonce":"c04","n":4}}`,
					`"method":"tools/call","params":{"name":"fail","arguments":{"nonce":"c04"}}`,
					`"method":"tools/call","params":{"name":"no-such-tool"}`,
					`"method":"resources/read","params":{"uri":"res://ok"}`,
					`"method":"prompts/get","params":{"name":"p-ok","arguments":{"who":"w"}}`,
					`"method":"no/such/method"`,
				}
				k := rng.Intn(len(kinds))
				st.Req = kinds[k]
				r.SetAdd("request_kinds", fmt.Sprintf("%d", k))
				re = post(fmt.Sprintf(`{"jsonrpc":"2.0","id":%d,%s}`, reqN, kinds[k]), id)
			case "notification":
				re = post(`{"jsonrpc":"2.0","method":"notifications/verif","params":{"n":1}}`, id)
			case "response-post":
				re = post(fmt.Sprintf(`{"jsonrpc":"2.0","id":%d,"result":{"roots":[]}}`, 900000+reqN), id)
			case "GET":
				hd := map[string]string{"Accept": "text/event-stream"}
				if id != "" {
					hd["Mcp-Session-Id"] = id
				}
				cx, cancel := context.WithTimeout(ctx, 20*time.Second)
				stm, rr := hp.OpenStream(ctx, "GET", url, hd, 64)
				cancel()
				_ = cx
				re = rr
				if stm != nil {
					if old := streams[id]; old != nil {
						// the previous stream of this session must end
						select {
						case <-old.Done():
						case <-time.After(10 * time.Second):
							fail("GET|old-stream-not-closed", "a second GET did not end the session's previous stream within 10 s")
							old.Close()
						}
					}
					streams[id] = stm
				}
			case "stream-close":
				if cls == "live" && streams[id] != nil {
					streams[id].Close()
					delete(streams, id)
					st.Expect = "closed"
					hist = append(hist, st)
					// registration removal is asynchronous on the server; nothing to compare here
					continue
				}
				st.Expect = "noop"
				hist = append(hist, st)
				continue
			case "DELETE":
				hd := map[string]string{}
				if id != "" {
					hd["Mcp-Session-Id"] = id
				}
				cx, cancel := context.WithTimeout(ctx, 20*time.Second)
				re = hp.Do(cx, "DELETE", url, hd, nil)
				cancel()
			}
			st.Status, st.Header = re.Status, re.Sess
			// ---- reference model ----
			want := 0   // expected status; -1 = any refusal (4xx/5xx); shaped: see shapedWant
			opSig := op // what the signatures name: for a shaped body its class and what its members are
			if op == "shaped" {
				opSig = fmt.Sprintf("shaped:%s|idmember=%s|method=%s", shClass, cell.K.IDSem, cell.M.Sem)
			}
			switch {
			case op == "shaped":
				want = shapedWant(c, shClass, cls, live[id])
			case c.Mode == "stateful":
				switch {
				case op == "GET" && !c.GetSSE:
					want = 405
				case (op == "GET" || op == "DELETE") && cls == "none":
					want = 400
				case op != "initialize" && cls == "none":
					want = 400
				case cls != "none" && !live[id]:
					want = 404
				case op == "initialize" || op == "request" || op == "GET" || op == "DELETE":
					want = 200
				default:
					want = 202
				}
			case c.Mode == "stateless":
				switch op {
				case "GET":
					want = 405
				case "DELETE":
					want = -1
				case "initialize", "request":
					want = 200
				default:
					want = 202
				}
			case c.Mode == "disabled":
				switch op {
				case "GET", "DELETE":
					want = -1
				case "initialize", "request":
					want = 200
				case "response-post":
					want = 0 // without sessions an answer cannot be routed to anything: any status conforms
				default:
					want = 202
				}
			}
			st.Expect = strconv.Itoa(want)
			hist = append(hist, st)
			if re.Status == 0 {
				fail(fmt.Sprintf("%s|id=%s|transport-error", opSig, cls), "transport error: "+re.Err)
				continue
			}
			if (want > 0 && re.Status != want) || (want == -1 && re.Status < 400) || (want == -2 && (re.Status < 400 || re.Status > 499)) {
				fail(fmt.Sprintf("%s|id=%s|status=%d-want-%d", opSig, cls, re.Status, want), fmt.Sprintf("%s (%s) with %s id answered %d, the state machine says %d (-1: any refusal, -2: a 4xx refusal)", op, st.Shape, cls, re.Status, want))
			}
			// a body that names initialize and has an id member, but is doubtful as a request: the statement leaves open
			// whether it is one. Either it is answered like one (200, fresh session id) or no session id is issued.
			if want == -3 && re.Sess != "" && re.Status != 200 {
				fail(fmt.Sprintf("%s|id=%s|session-id-issued-with-status-%d", opSig, cls, re.Status), fmt.Sprintf("%s: a session id was issued in an answer with status %d, which is not the answer to an initialize request", st.Shape, re.Status))
			}
			// session-id header rules
			switch c.Mode {
			case "stateful":
				isInit := op == "initialize" || (op == "shaped" && shClass == "init")
				maybeInit := op == "shaped" && shClass == "maybe-init" && re.Sess != ""
				if (isInit || maybeInit) && cls == "none" && re.Status == 200 {
					nid := re.Sess
					if op == "shaped" {
						r.Count("shaped_sessions_created_"+shClass, 1)
					}
					switch {
					case nid == "":
						fail("initialize|no-id-issued", "initialize without id: no Mcp-Session-Id issued")
					case everIssued[nid]:
						fail("initialize|id-reused", "initialize issued an id that was issued before: "+nid)
					default:
						everIssued[nid] = true
						live[nid] = true
						checkIDShape(r, nid)
					}
				} else if re.Sess != "" {
					if op == "shaped" && cls == "none" {
						fail(fmt.Sprintf("%s|id=none|session-id-issued-to-non-initialize", opSig), fmt.Sprintf("%s, posted without session id, is not an initialize request, yet the answer (status %d) carries a session id %q", st.Shape, re.Status, re.Sess))
					} else if re.Sess != id {
						fail(fmt.Sprintf("%s|id=%s|foreign-session-header", opSig, cls), fmt.Sprintf("response carries session id %q, request carried %q", re.Sess, id))
					}
				} else if re.Status >= 200 && re.Status < 300 && cls == "live" && op != "DELETE" {
					fail(fmt.Sprintf("%s|id=live|session-header-missing", opSig), "a request served in a session was answered without the session id")
				}
				if op == "DELETE" && re.Status == 200 {
					delete(live, id)
					deleted = append(deleted, id)
					if stm := streams[id]; stm != nil {
						select {
						case <-stm.Done():
							r.Count("streams_ended_by_delete", 1)
						case <-time.After(10 * time.Second):
							fail("DELETE|stream-still-open", "the session's listening stream was still open 10 s after its DELETE was answered 200")
							stm.Close()
						}
						delete(streams, id)
					}
				}
			default:
				if re.Sess != "" {
					fail(fmt.Sprintf("%s|session-id-issued", opSig), fmt.Sprintf("%s mode: response carries Mcp-Session-Id %q", c.Mode, re.Sess))
				}
			}
			// reported live set == model
			if c.Mode == "stateful" {
				all, err := in.Server.GetActiveSessions()
				var got []string
				for _, g := range all {
					if !strays[g] { // a session reported as unaccounted for at an earlier step is not reported again at every later one
						got = append(got, g)
					}
				}
				sort.Strings(got)
				if err != nil || strings.Join(got, ",") != strings.Join(liveList(), ",") {
					fail(fmt.Sprintf("%s|id=%s|live-set-mismatch", opSig, cls), fmt.Sprintf("GetActiveSessions=%v (err %v), the history leaves %v alive (sessions already reported as unaccounted for: %d)", got, err, liveList(), len(strays)))
					// report each divergence once: from here on the comparison continues from what the server says
					for _, g := range got {
						if !live[g] {
							strays[g] = true
						}
					}
					for id := range live {
						found := false
						for _, g := range got {
							found = found || g == id
						}
						if !found && err == nil {
							delete(live, id)
						}
					}
				}
			}
			if op == "shaped" {
				// cells exercised: KIND x METHOD x id class (as actually borne), per mode
				key := cell.K.Name + "|" + cell.M.Name + "|" + cls
				for _, ic := range sweepClasses {
					if ic == cls {
						cellsSeen[key] = true
						r.SetAdd("shaped_cells_"+c.Mode, key)
					}
				}
				r.SetAdd("shaped_kinds", cell.K.Name)
				r.SetAdd("shaped_methods", cell.M.Name)
				r.Count("shaped_posts_"+c.Mode+"_"+shClass+"_id="+cls, 1)
				if c.Mode == "stateful" && cls == "none" && shClass == "maybe-init" {
					// what the library makes of the doubtful ones (both outcomes conform; recorded, not judged)
					out := fmt.Sprintf("%d", re.Status)
					if re.Sess != "" {
						out += "+session"
					}
					if cell.M.Sem == "init" {
						r.SetAdd("shaped_maybe_init_without_id_outcomes", "kind "+cell.K.Name+" (params valid) => "+out)
					} else if cell.K.Name == "id-int" {
						r.SetAdd("shaped_maybe_init_without_id_outcomes", "method "+cell.M.Name+" (id integer) => "+out)
					}
				}
				r.Distinct(fmt.Sprintf("seq|%s|shaped:%s|%s|%d|sess=%v", c, shClass, cls, re.Status, re.Sess != ""))
				if h == nHist && c.Mode == "stateful" && c.GetSSE && !c.PostSSE {
					shapedSample = append(shapedSample, st)
				}
				continue
			}
			r.Distinct(fmt.Sprintf("seq|%s|%s|%s|%d", c, op, cls, re.Status))
		}
		for _, s := range streams {
			s.Close()
		}
		if h == 0 && c.GetSSE && !c.PostSSE { // one sample history per mode: the evidence file keeps six samples in all
			if c.Mode == "stateful" {
				firstHist = hist // emitted together with the first steps of the first sweep history
			} else {
				r.Sample(map[string]interface{}{"part": "sequential", "config": c.String(), "history": hist})
			}
		}
		if h == nHist && firstHist != nil {
			if len(shapedSample) > 10 {
				shapedSample = shapedSample[:10]
			}
			r.Sample(map[string]interface{}{"part": "sequential", "config": c.String(), "history": firstHist, "shaped_sweep_first_steps": shapedSample})
		}
		// leave no sessions behind for the next history
		for id := range live {
			hp.Do(ctx, "DELETE", url, map[string]string{"Mcp-Session-Id": id}, nil)
		}
	}
	r.Max("shaped_cells_per_config_"+c.Mode+"_of_"+strconv.Itoa(cellsTotal), int64(len(cellsSeen)))
	if len(cellsSeen) < cellsTotal {
		r.Inconclusive(fmt.Sprintf("[%s] shaped messages: only %d of %d cells (kind x method x id class) were exercised", c, len(cellsSeen), cellsTotal))
	}
}

func checkIDShape(r *vh.Run, id string) {
	for _, ch := range []byte(id) {
		if ch < 0x21 || ch > 0x7e {
			r.Violation("C04|id-shape|non-visible-ascii", fmt.Sprintf("session id %q contains byte 0x%02x", id, ch), nil)
			return
		}
	}
	if bits := decodedBits(id); bits < 128 {
		r.Violation("C04|id-shape|short", fmt.Sprintf("session id %q carries %d bits (< 128)", id, bits), nil)
	}
}

// decodings returns every standard reversible decoding of the id.
func decodings(id string) [][]byte {
	var out [][]byte
	if b, err := hex.DecodeString(id); err == nil {
		out = append(out, b)
	}
	if b, err := hex.DecodeString(strings.ReplaceAll(id, "-", "")); err == nil {
		out = append(out, b)
	}
	for _, enc := range []*base64.Encoding{base64.StdEncoding, base64.URLEncoding, base64.RawStdEncoding, base64.RawURLEncoding} {
		if b, err := enc.DecodeString(id); err == nil {
			out = append(out, b)
		}
	}
	return out
}

func decodedBits(id string) int {
	best := 0
	for _, d := range decodings(id) {
		if len(d)*8 > best {
			best = len(d) * 8
		}
	}
	return best
}

// ---- concurrent histories, linearizability against the session-table model ----

type cOp struct {
	Kind string // init | use | delete | list
	ID   string
}
type cOut struct {
	Status int
	ID     string   // init: issued id
	List   []string // list
}

type cState struct {
	live   map[string]bool
	issued map[string]bool
}

func cloneState(s cState) cState {
	n := cState{live: map[string]bool{}, issued: map[string]bool{}}
	for k := range s.live {
		n.live[k] = true
	}
	for k := range s.issued {
		n.issued[k] = true
	}
	return n
}

var sessionModel = porcupine.Model{
	Init: func() interface{} { return cState{live: map[string]bool{}, issued: map[string]bool{}} },
	Step: func(state, input, output interface{}) (bool, interface{}) {
		s := state.(cState)
		in := input.(cOp)
		out := output.(cOut)
		switch in.Kind {
		case "init":
			if out.Status != 200 || out.ID == "" || s.issued[out.ID] {
				return false, s
			}
			n := cloneState(s)
			n.live[out.ID] = true
			n.issued[out.ID] = true
			return true, n
		case "use":
			if s.live[in.ID] {
				return out.Status == 200, s
			}
			return out.Status == 404, s
		case "delete":
			if s.live[in.ID] {
				if out.Status != 200 {
					return false, s
				}
				n := cloneState(s)
				delete(n.live, in.ID)
				return true, n
			}
			return out.Status == 404, s
		case "list":
			if len(out.List) != len(s.live) {
				return false, s
			}
			for _, id := range out.List {
				if !s.live[id] {
					return false, s
				}
			}
			return true, s
		}
		return false, s
	},
	Equal: func(a, b interface{}) bool {
		x, y := a.(cState), b.(cState)
		if len(x.live) != len(y.live) || len(x.issued) != len(y.issued) {
			return false
		}
		for k := range x.live {
			if !y.live[k] {
				return false
			}
		}
		for k := range x.issued {
			if !y.issued[k] {
				return false
			}
		}
		return true
	},
	DescribeOperation: func(input, output interface{}) string {
		return fmt.Sprintf("%+v -> %+v", input, output)
	},
}

func concurrent(r *vh.Run, nHist int) {
	in := start(cfg{"stateful", true, false})
	defer in.Close()
	ctx := context.Background()
	url := in.URL()
	for h := 0; h < nHist; h++ {
		rng := r.Rand(fmt.Sprintf("conc-%d", h))
		var mu sync.Mutex
		var ops []porcupine.Operation
		var known []string // ids that some init returned (shared between workers to create contention)
		t0 := time.Now()
		now := func() int64 { return int64(time.Since(t0)) }
		nWorkers := 3 + rng.Intn(3)
		perWorker := 6 + rng.Intn(4)
		seeds := make([]int64, nWorkers)
		for i := range seeds {
			seeds[i] = rng.Int63()
		}
		var wg sync.WaitGroup
		for w := 0; w < nWorkers; w++ {
			wg.Add(1)
			go func(w int) {
				defer wg.Done()
				wr := rand.New(rand.NewSource(seeds[w]))
				hp := peer.NewHTTPPeer()
				defer hp.Close()
				for i := 0; i < perWorker; i++ {
					kinds := []string{"init", "use", "use", "delete", "list"}
					k := kinds[wr.Intn(len(kinds))]
					mu.Lock()
					id := ""
					if len(known) > 0 {
						id = known[wr.Intn(len(known))]
					}
					mu.Unlock()
					if id == "" && (k == "use" || k == "delete") {
						k = "init"
					}
					op := cOp{Kind: k, ID: id}
					var out cOut
					call := now()
					switch k {
					case "init":
						re := hp.Do(ctx, "POST", url, map[string]string{"Content-Type": "application/json", "Accept": "application/json"}, kit.InitBody("1", ""))
						out = cOut{Status: re.Status, ID: re.Sess}
						op.ID = ""
					case "use":
						re := hp.Do(ctx, "POST", url, map[string]string{"Content-Type": "application/json", "Accept": "application/json", "Mcp-Session-Id": id}, []byte(`{"jsonrpc":"2.0","id":7,"method":"ping"}`))
						out = cOut{Status: re.Status}
					case "delete":
						re := hp.Do(ctx, "DELETE", url, map[string]string{"Mcp-Session-Id": id}, nil)
						out = cOut{Status: re.Status}
					case "list":
						l, _ := in.Server.GetActiveSessions()
						sort.Strings(l)
						out = cOut{Status: 200, List: l}
					}
					ret := now()
					mu.Lock()
					if k == "init" && out.ID != "" {
						known = append(known, out.ID)
					}
					ops = append(ops, porcupine.Operation{ClientId: w, Input: op, Call: call, Output: out, Return: ret})
					mu.Unlock()
				}
			}(w)
		}
		wg.Wait()
		res, info := porcupine.CheckOperationsVerbose(sessionModel, ops, 60*time.Second)
		r.Eval(1)
		r.Count("concurrent_ops", int64(len(ops)))
		switch res {
		case porcupine.Illegal:
			var desc []string
			for _, o := range ops {
				desc = append(desc, fmt.Sprintf("c%d [%d,%d] %s", o.ClientId, o.Call, o.Return, sessionModel.DescribeOperation(o.Input, o.Output)))
			}
			_ = info
			r.Violation("C04|concurrent|stateful|not-linearizable", "a concurrent history of initialize/use/DELETE/GetActiveSessions is not linearizable against the session-table model", map[string]interface{}{"history": desc})
		case porcupine.Unknown:
			r.Inconclusive(fmt.Sprintf("porcupine timeout on concurrent history %d (%d ops)", h, len(ops)))
		default:
			r.Distinct(fmt.Sprintf("conc|workers=%d|ops=%d", nWorkers, len(ops)))
		}
		// clean up
		ids, _ := in.Server.GetActiveSessions()
		hp := peer.NewHTTPPeer()
		for _, id := range ids {
			hp.Do(ctx, "DELETE", url, map[string]string{"Mcp-Session-Id": id}, nil)
		}
		hp.Close()
	}
}

// statelessIndependence: the same request after different prefixes gives identical answers.
func statelessIndependence(r *vh.Run, n int) {
	in := start(cfg{"stateless", false, false})
	defer in.Close()
	hp := peer.NewHTTPPeer()
	defer hp.Close()
	ctx := context.Background()
	rng := r.Rand("stateless")
	probes := []string{
		`{"jsonrpc":"2.0","id":1,"method":"tools/list"}`,
		`{"jsonrpc":"2.0","id":"a","method":"tools/call","params":{"name":"echo","arguments":{"nonce":"n","payload":"p"}}}`,
		`{"jsonrpc":"2.0","id":2,"method":"resources/read","params":{"uri":"res://ok"}}`,
		`{"jsonrpc":"2.0","id":3,"method":"prompts/get","params":{"name":"p-ok","arguments":{"who":"x"}}}`,
		`{"jsonrpc":"2.0","id":4,"method":"no/such"}`,
		`{"jsonrpc":"2.0","id":5,"method":"ping"}`,
	}
	prefixOps := []string{
		string(kit.InitBody("9", "")), kit.InitializedBody, `{"jsonrpc":"2.0","id":10,"method":"tools/list"}`,
		`{"jsonrpc":"2.0","id":11,"method":"tools/call","params":{"name":"fail","arguments":{}}}`, `garbage`, `{"jsonrpc":"2.0","id":12,"result":{}}`,
		`{"jsonrpc":"2.0","id":13,"method":"initialize","params":{"protocolVersion":"1999-01-01","clientInfo":{"name":"x","version":"y"},"capabilities":{}}}`,
	}
	sessRe := regexp.MustCompile(`\\"session\\":\\"[^"\\]*\\"`)
	do := func(body string, sid string) string {
		h := map[string]string{"Content-Type": "application/json", "Accept": "application/json"}
		if sid != "" {
			h["Mcp-Session-Id"] = sid
		}
		re := hp.Do(ctx, "POST", in.URL(), h, []byte(body))
		if re.Sess != "" {
			r.Violation("C04|stateless|session-id-issued", "stateless server issued Mcp-Session-Id "+re.Sess, nil)
		}
		var v map[string]interface{}
		if json.Unmarshal(re.Body, &v) == nil {
			sortTools(v)
			b, _ := json.Marshal(v)
			return fmt.Sprintf("%d %s", re.Status, sessRe.ReplaceAllString(string(b), `S`))
		}
		return fmt.Sprintf("%d %s", re.Status, sessRe.ReplaceAllString(string(re.Body), `S`))
	}
	base := map[string]string{}
	for _, p := range probes {
		base[p] = do(p, "")
	}
	for i := 0; i < n; i++ {
		k := rng.Intn(5)
		var prefix []string
		for j := 0; j < k; j++ {
			prefix = append(prefix, prefixOps[rng.Intn(len(prefixOps))])
		}
		sid := ""
		if rng.Intn(2) == 0 {
			sid = randHex(rng)
		}
		for _, p := range prefix {
			do(p, sid)
		}
		p := probes[rng.Intn(len(probes))]
		got := do(p, sid)
		r.Eval(1)
		if got != base[p] {
			r.Violation("C04|stateless|answer-depends-on-prefix", "the answer to a request differs after a prefix of earlier requests", map[string]interface{}{"request": p, "prefix": prefix, "session_header": sid, "alone": base[p], "after_prefix": got})
		} else {
			r.Distinct(fmt.Sprintf("stateless|prefix=%d|sid=%v|probe=%d", k, sid != "", indexOf(probes, p)))
		}
	}
}

func sortTools(v map[string]interface{}) {
	res, ok := v["result"].(map[string]interface{})
	if !ok {
		return
	}
	if arr, ok := res["tools"].([]interface{}); ok {
		sort.SliceStable(arr, func(i, j int) bool {
			a, _ := json.Marshal(arr[i])
			b, _ := json.Marshal(arr[j])
			return string(a) < string(b)
		})
	}
}

func indexOf(l []string, s string) int {
	for i, x := range l {
		if x == s {
			return i
		}
	}
	return -1
}

// ---- CSPRNG clause: syscall monitor ----

func idChild() {
	kit.Silence()
	n, _ := strconv.Atoi(os.Getenv("C04_N"))
	in := start(cfg{"stateful", true, false})
	hp := peer.NewHTTPPeer()
	w := bufio.NewWriter(os.Stdout)
	for i := 0; i < n; i++ {
		re := hp.Do(context.Background(), "POST", in.URL(), map[string]string{"Content-Type": "application/json", "Accept": "application/json"}, kit.InitBody("1", ""))
		fmt.Fprintln(w, re.Sess)
	}
	w.Flush()
	in.Close()
}

// a call may be split by strace -f into "getrandom( <unfinished ...>" and "<... getrandom resumed>"\x..", 16, 0) = 16"
var grRe = regexp.MustCompile(`getrandom(?:\(| resumed>)"((?:\\x[0-9a-f]{2})+)"(?:\.\.\.)?, (\d+), `)

func csprng(r *vh.Run, n int) {
	dir := filepath.Join(r.OutDir, "strace")
	_ = os.MkdirAll(dir, 0o755)
	trace := filepath.Join(dir, "getrandom.trace")
	os.Remove(trace)
	self, _ := os.Executable()
	if _, err := exec.LookPath("strace"); err != nil {
		r.Inconclusive("strace not available: CSPRNG clause not decided")
		return
	}
	cmd := exec.Command("strace", "-f", "-x", "-s", "64", "-e", "trace=getrandom", "-o", trace, self)
	cmd.Env = append(os.Environ(), vh.ChildEnv+"=c04-ids", "C04_N="+strconv.Itoa(n))
	out, err := cmd.Output()
	if err != nil {
		r.Inconclusive(fmt.Sprintf("strace run failed: %v", err))
		return
	}
	tb, _ := os.ReadFile(trace)
	bufs := map[string]bool{}
	nCalls := 0
	for _, m := range grRe.FindAllStringSubmatch(string(tb), -1) {
		nCalls++
		b, err := hex.DecodeString(strings.ReplaceAll(m[1], `\x`, ""))
		if err == nil {
			bufs[string(b)] = true
		}
	}
	ids := strings.Fields(string(out))
	seen := map[string]bool{}
	matched := 0
	for _, id := range ids {
		r.Eval(1)
		if seen[id] {
			r.Violation("C04|id|duplicate", "session id issued twice: "+id, nil)
		}
		seen[id] = true
		checkIDShape(r, id)
		ok := false
		for _, d := range decodings(id) {
			if len(d) < 16 {
				continue
			}
			for b := range bufs {
				if strings.Contains(b, string(d)) || (len(d) >= 16 && strings.Contains(string(d), b) && len(b) >= 16) {
					ok = true
				}
			}
		}
		if ok {
			matched++
		} else {
			r.Violation("C04|id|not-from-getrandom", fmt.Sprintf("session id %q: no reversible decoding of it occurs in any getrandom(2) buffer of the server process", id), map[string]interface{}{"getrandom_calls": nCalls})
		}
	}
	r.Count("ids_issued", int64(len(ids)))
	r.Count("ids_matched_to_getrandom", int64(matched))
	r.Count("getrandom_calls_seen", int64(nCalls))
	if matched > 0 {
		r.Distinct("csprng|ids-traced-to-getrandom")
	}
	if len(ids) != n || nCalls == 0 {
		r.Inconclusive(fmt.Sprintf("CSPRNG monitor: %d ids (want %d), %d getrandom calls traced", len(ids), n, nCalls))
	}
	r.Sample(map[string]interface{}{"part": "csprng", "ids": len(ids), "example_id": first(ids), "getrandom_calls": nCalls})
	os.Remove(trace)
}

func first(l []string) string {
	if len(l) > 0 {
		return l[0]
	}
	return ""
}

func uniqueness(r *vh.Run, n int) {
	in := start(cfg{"stateful", false, false})
	defer in.Close()
	seen := map[string]bool{}
	var mu sync.Mutex
	var wg sync.WaitGroup
	for w := 0; w < 8; w++ {
		wg.Add(1)
		go func() {
			defer wg.Done()
			hp := peer.NewHTTPPeer()
			defer hp.Close()
			for i := 0; i < n/8; i++ {
				re := hp.Do(context.Background(), "POST", in.URL(), map[string]string{"Content-Type": "application/json", "Accept": "application/json"}, kit.InitBody("1", ""))
				mu.Lock()
				if re.Sess == "" || seen[re.Sess] {
					r.Violation("C04|id|duplicate", fmt.Sprintf("session id %q issued twice (or empty)", re.Sess), nil)
				}
				seen[re.Sess] = true
				mu.Unlock()
			}
		}()
	}
	wg.Wait()
	r.Eval(len(seen))
	r.Count("ids_checked_for_uniqueness", int64(len(seen)))
	for id := range seen {
		if !hexRe.MatchString(id) {
			checkIDShape(r, id)
		}
	}
}

func main() {
	kit.MaybeServeStdioChild()
	if vh.ChildRole() == "c04-ids" {
		idChild()
		return
	}
	if vh.ChildRole() == "c04-probe-ref" {
		probeRefChild()
		return
	}
	kit.Silence()
	r := vh.NewRun("C04", "exploration")
	var wg sync.WaitGroup
	for _, c := range allCfgs() {
		wg.Add(1)
		go func(c cfg) { defer wg.Done(); sequential(r, c, r.Pick(150, 1500), 25) }(c)
	}
	wg.Wait()
	nearIDsAll(r) // nearid.go: ids derived from issued ids by small edits are still unknown ids
	concurrent(r, r.Pick(500, 5000))
	overlapLifecycle(r) // installs the process-wide yield controller: nothing else of this process opens streams meanwhile
	statelessIndependence(r, r.Pick(500, 5000))
	statelessState(r, r.Pick(600, 6000))
	csprng(r, r.Pick(200, 2000))
	uniqueness(r, r.Pick(4000, 100000))
	r.Finish("12 configurations {stateful, stateless, sessions disabled} x GET-SSE on/off x POST-SSE on/off: seeded random histories (<= 25 steps) over {initialize, request, notification, response-post, GET, stream-close, DELETE} x id classes {none, live, deleted, never-issued, foreign-made}, each step compared with the reference state machine (status, session header) and Server.GetActiveSessions() with the model's live set; the same histories also post SHAPED bodies (shaped.go; op drawn 3 in 11 in the random histories, and after them sweep histories — two sessions, one deleted, then 60 cells — that walk every cell once in seeded order, three times in the thorough tier): the cross product of 28 message KINDS (id integer / 0 / negative / string / empty string / fractional / huge, id null / true / false / object / array / given twice, no id, id or no id with result / error / both, jsonrpc member absent or 1.0, batch array of one / two / none, the object quoted as a JSON string) x 32 METHOD members (initialize with valid params, without params, with params string / array / null / without protocolVersion, method given twice, the same name with an escaped letter, notifications/initialized, ping, tools/list, unknown, absent, empty, null / number / true / object / array, Initialize, INITIALIZE, white space / tab / NUL / zero-width space around, dotless i, initialise, initialized, initialize/, notifications/initialize) x id class; a classifier written from the JSON-RPC / MCP message grammar alone says what each body IS (initialize request, doubtful initialize = names initialize and has an id member but is no well-formed request, other request, notification, notifications/initialized, response, none) and the model judges it by that: without id only an initialize request creates a session (200, fresh id, live set grows by it), a doubtful one is either answered like one or gets no session id, everything else 400 without session id; with an unknown / deleted / foreign id 404 (bodies that are no message: any 4xx); with a live id 200 / 202 under the same id (status of no-message bodies and of a repeated notifications/initialized not judged); stateless / disabled: never a session id, 200 / 202 for well-formed messages; the live set is compared after every exchange and a divergence is reported once (the comparison continues from the server's set); cells exercised are counted per mode (monitors shaped_cells_*, a run that misses a cell is inconclusive); ids DERIVED from issued ids (nearid.go; stateful x GET-SSE on/off x POST-SSE on/off; per round a live session with an open listening stream, a live one without and a deleted one): a seeded family of ~110 small edits of the issued id in 9 families (case flips of one/some/all letters, ASCII white space around/inside the value and obs-fold, control bytes, unicode spaces and invisible characters around it, truncation/extension/substitution/swap/doubling/mixing with another live id, look-alike characters, list/parameter/quoting forms, percent/base64/uuid/hex re-encodings, several Mcp-Session-Id header lines), each written byte by byte onto a raw TCP connection as request, notification, response-post, initialize, GET and DELETE; a wrapper around the handler records which header values net/http handed over for that very exchange, and only exchanges in which no value that arrived equals an issued id are judged (refused by net/http, arrived equal to an issued id or arrived empty: counted as skipped): 404 (405 for GET with GET-SSE off), no session header other than the id borne, GetActiveSessions unchanged after every exchange, afterwards both live sessions answer under their own ids, the deleted id is still refused and a server notification still arrives on the open listening stream; concurrent histories (3-5 workers, <= 45 ops) of init/use/DELETE/list checked for linearizability with porcupine; overlapping operations of ONE session (overlap.go, stateful, GET-SSE on, POST-SSE on/off, next to a bystander session with its own stream and a deleted session): 2-3 GETs bearing the session id parked together at the yield points get.H / get.T / get.E and released in enumerated orders (k=2: both, k=3: rotating permutations; one at a time or in a burst; with / without an earlier stream), the DELETE of the session placed before each release, after the releases and at the end, a second initialize, requests, notifications, stream-closes, given-up GETs and GET / DELETE / requests bearing deleted and never-issued ids in between, plus seeded walks and free-running storms (GETs, DELETE and requests of the session fired together with seeded delays at the points), plus high-volume free-running rounds aimed at the windows inside the session-ending operations (spin.go: per round a fresh session, 4-8 peers re-opening its listening stream in a tight loop and 0-2 peers sending requests / notifications bearing it until their first refusal, while after a seeded number of re-opens the session is ended by one DELETE, two concurrent DELETEs or a DELETE concurrent with a second initialize; batches of 200 rounds per server, GOMAXPROCS default/8/4/2, POST-SSE on/off; exactly one DELETE 200, the other 404; afterwards every stream answered 200 has ended, no listening stream beyond the bystander's is registered, the live set is the model's and seeded later exchanges bearing the id get 404); every exchange judged by its logical-clock position relative to the DELETE (answered before it started: served with the same id; started after it was answered: 404; overlapping: either), every stream of the session the peer still holds after the DELETE was answered 200 must end (all of them; reported only after the server demonstrably answered other exchanges meanwhile), the deleted id is then refused by request / initialize / notification / GET / DELETE, and GetActiveSessions equals the model after every step; stateless answers replayed after seeded prefixes; stateless answers of handlers that keep state: HTTP context function, middleware, tool / prompt / resource handlers, the three list filters and a notification handler read the session of GetSessionFromContext and ClientSessionFromContext (id, times, data), the context values and the server handle, report what they found in the answer and then write the request nonce and visit counters; sequential histories (one / several clients, one server / four stateless Server instances of the process, session-disabled servers, JSON and POST-SSE answers, non-probe writers in between), groups of 2-4 requests parked on a gate after writing while complete requests run, and free-running groups of 3-8; every probe answer, normalised (own nonce, own server name, never-seen session id, times classified against the request window), must equal the answer of the same request as first request of a fresh server in a fresh process (24 reference children), and no session id may be seen by two requests when fresh processes hand out different ids; ids: uniqueness, visible ASCII, >= 128 bits, and traced to getrandom(2) buffers of the server process with strace. Distinct = (configuration, op, id class, status) seen conforming, plus concurrent history shapes.",
		[]string{"CSPRNG clause: ids are assumed to be a reversible text encoding (hex/base64/uuid) of kernel CSPRNG bytes; an id derived by hashing would be reported",
			"the hourly expiry sweep is not driven", "derived ids: a request with several Mcp-Session-Id lines of which one is an issued id, or whose value net/http itself reduces to an issued id (optional white space, obs-fold before the value), bears that id and is not judged as unknown; requests net/http refuses before the handler (control bytes) are only checked for leaving the live set unchanged", "stateless-state: the session-disabled configuration is judged like the stateless one (handlers get no session there; the statement names only stateless mode)", "stateless-state: session times without a monotonic reading are not ordered against the request window (counted, not judged)", "notification histories use a method without server-side handler (notifications/verif)", "shaped bodies: a body naming initialize whose id member is null / boolean / object / array / duplicated, whose params are absent or ill-typed, which also has result / error, or whose jsonrpc member is absent / not 2.0 is DOUBTFUL as a request: the library answers most of them 200 with a new session (some with a JSON-RPC error in the body), which is accepted as long as status, header and live set agree; what it does is recorded in set_shaped_maybe_init_without_id_outcomes", "shaped bodies: JSON-RPC batches are not messages of this transport for the model (the library refuses them with 400); under a live id their status is not judged",
			"overlap: which of several concurrent GETs of one session keeps the stream is not judged here (C11); a stream left open after DELETE is reported after a 10 s + 2 s watchdog only if a request of the bystander (200) and a request bearing the deleted id (404) were answered meanwhile, otherwise the schedule is inconclusive (the probe is not a DELETE: it must not be able to tidy up what the judged DELETE left behind)",
			"overlap spin: the windows inside DELETE / a second DELETE / a second initialize are sampled by volume (free-running peers, no yield point inside those operations), not enumerated; the number of listening streams the server has registered is read through the verif hook VerifListeningStreams and compared with the bystander's only after every stream of the session has ended at the peer"})
}
