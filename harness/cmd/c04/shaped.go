// shaped.go — the message lattice of the sequential histories: JSON-RPC message KIND x METHOD member.
//
// The sequential histories of main.go used to post four fixed bodies (initialize request, a request, one notification,
// one response).  The state machine of the property, however, is defined over what a message IS, not over what it
// looks like: a session is created by an initialize REQUEST and by nothing else.  This file supplies the op "shaped":
// a body drawn from the cross product
//
//	KIND   (which id / result / error / jsonrpc members the object has, or whether it is an object at all)
//	METHOD (the method member: exact names, near misses of "initialize", absent, empty, not a string, given twice)
//
// together with a classifier that says — from the JSON-RPC / MCP message grammar alone, never from the library — what
// the body is: a well-formed initialize request ("init"), something that names initialize and has an id member but is
// doubtful as a request ("maybe-init": id null / boolean / object / array / given twice, params absent or of the wrong
// type, result or error member next to the method, jsonrpc member absent or not "2.0"), a well-formed other request,
// a notification, a response, or none of these ("other").  sequential() posts it under every id class and judges it
// with the same model as the fixed bodies.
package main

import (
	"fmt"
	"strings"
)

type kindVar struct {
	Name    string
	IDSem   string // "def" (string or number: a request id of the MCP grammar) | "odd" (present, but no such id) | "none" (no id member)
	id      func(n int) string
	Extra   string // "", "result", "error", "both"
	JSONRPC string // "ok", "absent", "1.0"
	Batch   int    // 0: the object itself; 1: [object]; 2: [object, notification]; -1: [] ; -2: a JSON string holding the object
}

type methodVar struct {
	Name   string
	Member string // JSON text of the method member (and params), "" = no method member
	Sem    string // "init" | "init?" | "lifecycle" | "str" | "none" | "bad"
}

const initParams = `"params":{"protocolVersion":"2025-03-26","clientInfo":{"name":"shaped","version":"1"},"capabilities":{}}`

func shapedKinds() []kindVar {
	lit := func(s string) func(int) string { return func(int) string { return s } }
	return []kindVar{
		{Name: "id-int", IDSem: "def", id: func(n int) string { return fmt.Sprint(n) }, JSONRPC: "ok"},
		{Name: "id-zero", IDSem: "def", id: lit("0"), JSONRPC: "ok"},
		{Name: "id-negative", IDSem: "def", id: func(n int) string { return fmt.Sprint(-n) }, JSONRPC: "ok"},
		{Name: "id-string", IDSem: "def", id: func(n int) string { return fmt.Sprintf(`"s-%d"`, n) }, JSONRPC: "ok"},
		{Name: "id-empty-string", IDSem: "def", id: lit(`""`), JSONRPC: "ok"},
		{Name: "id-float", IDSem: "def", id: func(n int) string { return fmt.Sprintf("%d.5", n) }, JSONRPC: "ok"},
		{Name: "id-huge", IDSem: "def", id: func(n int) string { return fmt.Sprintf("123456789012345678901%d", n) }, JSONRPC: "ok"},
		{Name: "id-null", IDSem: "odd", id: lit("null"), JSONRPC: "ok"},
		{Name: "id-true", IDSem: "odd", id: lit("true"), JSONRPC: "ok"},
		{Name: "id-false", IDSem: "odd", id: lit("false"), JSONRPC: "ok"},
		{Name: "id-object", IDSem: "odd", id: lit(`{"n":1}`), JSONRPC: "ok"},
		{Name: "id-array", IDSem: "odd", id: lit(`[1]`), JSONRPC: "ok"},
		{Name: "id-twice-null-last", IDSem: "odd", id: func(n int) string { return fmt.Sprintf(`%d,"id":null`, n) }, JSONRPC: "ok"},
		{Name: "id-twice-null-first", IDSem: "odd", id: func(n int) string { return fmt.Sprintf(`null,"id":%d`, n) }, JSONRPC: "ok"},
		{Name: "no-id", IDSem: "none", JSONRPC: "ok"},
		{Name: "id+result", IDSem: "def", id: func(n int) string { return fmt.Sprint(900000 + n) }, Extra: "result", JSONRPC: "ok"},
		{Name: "id+error", IDSem: "def", id: func(n int) string { return fmt.Sprint(900000 + n) }, Extra: "error", JSONRPC: "ok"},
		{Name: "id+result+error", IDSem: "def", id: func(n int) string { return fmt.Sprint(900000 + n) }, Extra: "both", JSONRPC: "ok"},
		{Name: "no-id+result", IDSem: "none", Extra: "result", JSONRPC: "ok"},
		{Name: "no-id+error", IDSem: "none", Extra: "error", JSONRPC: "ok"},
		{Name: "id-int/no-jsonrpc", IDSem: "def", id: func(n int) string { return fmt.Sprint(n) }, JSONRPC: "absent"},
		{Name: "id-int/jsonrpc-1.0", IDSem: "def", id: func(n int) string { return fmt.Sprint(n) }, JSONRPC: "1.0"},
		{Name: "no-id/no-jsonrpc", IDSem: "none", JSONRPC: "absent"},
		{Name: "batch-of-one", IDSem: "def", id: func(n int) string { return fmt.Sprint(n) }, JSONRPC: "ok", Batch: 1},
		{Name: "batch-of-one/no-id", IDSem: "none", JSONRPC: "ok", Batch: 1},
		{Name: "batch-of-two", IDSem: "def", id: func(n int) string { return fmt.Sprint(n) }, JSONRPC: "ok", Batch: 2},
		{Name: "empty-batch", IDSem: "none", JSONRPC: "ok", Batch: -1},
		{Name: "object-inside-string", IDSem: "def", id: func(n int) string { return fmt.Sprint(n) }, JSONRPC: "ok", Batch: -2},
	}
}

func shapedMethods() []methodVar {
	m := func(name, member, sem string) methodVar { return methodVar{name, member, sem} }
	str := func(name, jsonString string) methodVar {
		return methodVar{name, `"method":` + jsonString, "str"}
	}
	return []methodVar{
		m("initialize", `"method":"initialize",`+initParams, "init"),
		m("initialize/no-params", `"method":"initialize"`, "init?"),
		m("initialize/params-string", `"method":"initialize","params":"2025-03-26"`, "init?"),
		m("initialize/params-array", `"method":"initialize","params":[{"protocolVersion":"2025-03-26"}]`, "init?"),
		m("initialize/params-null", `"method":"initialize","params":null`, "init?"),
		m("initialize/params-no-version", `"method":"initialize","params":{"capabilities":{}}`, "init?"),
		m("method-twice/ping-then-initialize", `"method":"ping","method":"initialize",`+initParams, "init?"),
		m("method-twice/initialize-then-ping", `"method":"initialize","method":"ping",`+initParams, "init?"),
		m("notifications/initialized", `"method":"notifications/initialized"`, "lifecycle"),
		str("ping", `"ping"`),
		str("tools/list", `"tools/list"`),
		str("unknown", `"no/such/method"`),
		m("missing", ``, "none"),
		m("empty-string", `"method":""`, "bad"),
		m("null", `"method":null`, "bad"),
		m("number", `"method":5`, "bad"),
		m("true", `"method":true`, "bad"),
		m("object", `"method":{"name":"initialize"}`, "bad"),
		m("array", `"method":["initialize"]`, "bad"),
		m("Initialize", `"method":"Initialize",`+initParams, "str"),
		m("INITIALIZE", `"method":"INITIALIZE",`+initParams, "str"),
		m("space-before", `"method":" initialize",`+initParams, "str"),
		m("space-after", `"method":"initialize ",`+initParams, "str"),
		m("tab-newline-around", `"method":"\tinitialize\n",`+initParams, "str"),
		m("nul-after", `"method":"initialize\u0000",`+initParams, "str"),
		m("zero-width-space-after", `"method":"initialize\u200b",`+initParams, "str"),
		m("dotless-i", `"method":"\u0131nitialize",`+initParams, "str"),
		m("initialise", `"method":"initialise",`+initParams, "str"),
		m("initialized", `"method":"initialized",`+initParams, "str"),
		m("initialize-slash", `"method":"initialize/",`+initParams, "str"),
		m("notifications/initialize", `"method":"notifications/initialize",`+initParams, "str"),
		m("escaped-initialize", `"method":"\u0069nitialize",`+initParams, "init"), // \u0069 = "i": the very same string
	}
}

// shapedBody renders the cell. n makes ids of one history differ.
func shapedBody(k kindVar, m methodVar, n int) string {
	if k.Batch == -1 {
		return `[]`
	}
	var mem []string
	switch k.JSONRPC {
	case "ok":
		mem = append(mem, `"jsonrpc":"2.0"`)
	case "1.0":
		mem = append(mem, `"jsonrpc":"1.0"`)
	}
	if k.id != nil {
		mem = append(mem, `"id":`+k.id(n))
	}
	if m.Member != "" {
		mem = append(mem, m.Member)
	}
	switch k.Extra {
	case "result":
		mem = append(mem, `"result":{"roots":[]}`)
	case "error":
		mem = append(mem, `"error":{"code":-32000,"message":"shaped"}`)
	case "both":
		mem = append(mem, `"result":{"roots":[]}`, `"error":{"code":-32000,"message":"shaped"}`)
	}
	obj := "{" + strings.Join(mem, ",") + "}"
	switch k.Batch {
	case 1:
		return "[" + obj + "]"
	case 2:
		return "[" + obj + `,{"jsonrpc":"2.0","method":"notifications/verif"}]`
	case -2:
		q := strings.ReplaceAll(strings.ReplaceAll(obj, `\`, `\\`), `"`, `\"`)
		return `"` + q + `"`
	}
	return obj
}

// shapedClass says what the cell is, by the message grammar alone.
//
//	init                    request, id string/number, method exactly "initialize", params object with protocolVersion
//	maybe-init              an object with an id member whose method member names initialize, but not "init"
//	request                 well-formed request with another method name (any non-empty string)
//	notification            well-formed notification (no id member), method any non-empty string but notifications/initialized
//	lifecycle-notification  well-formed notifications/initialized
//	response                id string/number, no method, exactly one of result / error
//	other                   none of these
func shapedClass(k kindVar, m methodVar) string {
	if k.Batch != 0 {
		return "other"
	}
	clean := k.JSONRPC == "ok"
	hasID := k.IDSem != "none"
	if hasID && (m.Sem == "init" || m.Sem == "init?") {
		if clean && k.IDSem == "def" && k.Extra == "" && m.Sem == "init" {
			return "init"
		}
		return "maybe-init"
	}
	if !clean {
		return "other"
	}
	switch {
	case k.IDSem == "def" && k.Extra == "" && (m.Sem == "str" || m.Sem == "lifecycle"):
		return "request"
	case !hasID && k.Extra == "" && (m.Sem == "str" || m.Sem == "init"):
		return "notification"
	case !hasID && k.Extra == "" && m.Sem == "lifecycle":
		return "lifecycle-notification"
	case k.IDSem == "def" && m.Sem == "none" && (k.Extra == "result" || k.Extra == "error"):
		return "response"
	}
	return "other"
}

// shapedWant is the reference state machine for a shaped POST.
//
//	> 0  exactly this status          -1  any refusal (>= 400)        -2  a 4xx refusal
//	  0  status not judged            -3  maybe-init without id: 200 with a fresh session, or no session at all
func shapedWant(c cfg, class, idClass string, isLive bool) int {
	definite := class != "other" && class != "maybe-init"
	switch c.Mode {
	case "stateful":
		switch {
		case idClass == "none" && class == "init":
			return 200
		case idClass == "none" && class == "maybe-init":
			return -3
		case idClass == "none":
			return 400
		case !isLive && definite:
			return 404
		case !isLive:
			return -2
		case class == "init" || class == "request":
			return 200
		case class == "notification" || class == "response":
			return 202
		}
		return 0 // lifecycle-notification (202 the first time, the library refuses a repeated one), maybe-init, other
	case "stateless":
		switch class {
		case "init", "request":
			return 200
		case "notification", "lifecycle-notification", "response":
			return 202
		}
	case "disabled":
		switch class {
		case "init", "request":
			return 200
		case "notification", "lifecycle-notification":
			return 202
		}
	}
	return 0
}

type shapedCell struct {
	K   kindVar
	M   methodVar
	Cls string // id class the sweep forces
}

func shapedIDClasses() []string { return []string{"none", "live", "deleted", "never", "foreign"} }
