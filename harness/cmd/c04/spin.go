// spin.go — C04, free-running high-volume storms aimed at the windows INSIDE the session-ending operations.
//
// The schedules of overlap.go control where a GET stands (get.H / get.T / get.E); where the operation that ENDS the
// session stands between its own steps (DELETE: session table, stream table; a second DELETE; a second initialize
// bearing the id) is exposed by no yield point. Those windows are sub-microsecond, so they are sampled by volume:
// thousands of cheap rounds against one server (a bystander session B with its own listening stream next to it).
// Per round one fresh session S; m (4-8) peers re-open S's listening stream in a tight loop (each re-open directly
// after the previous answer, until the first refusal) and q (0-2) peers keep sending requests / notifications bearing
// S (until the first 404), while, after a seeded number of re-opens, the session is ended by one DELETE, by two
// concurrent DELETEs, or by a DELETE concurrent with a second initialize bearing S. Nothing is held, no delays are
// injected; GOMAXPROCS varies between batches of rounds.
//
// Oracle (as in overlap.go, the text of C04 only; the logical clock of overlap.go orders the exchanges):
//   - an exchange bearing S answered before the effective DELETE (the one answered 200) was started is served in S
//     (GET / request / initialize 200 with S's id, notification 202), one started after that DELETE was answered is
//     refused with 404, one that overlaps it may get either answer;
//   - of the DELETEs bearing S exactly one is answered 200, any other 404 (an already deleted id is refused);
//   - once the DELETE was answered 200 and every peer has seen its refusal, EVERY stream of S that was answered 200
//     has ended (watchdog, and reported only after the server demonstrably made progress meanwhile), the server has
//     no more listening streams registered than the bystander's, the live set equals the model's, and seeded later
//     exchanges bearing S are refused with 404 and change nothing.
package main

import (
	"context"
	"fmt"
	"math/rand"
	"runtime"
	"sort"
	"strings"
	"sync"
	"sync/atomic"
	"time"

	mcp "trpc.group/trpc-go/trpc-mcp-go"

	"verifharness/lib/kit"
	"verifharness/lib/peer"
	"verifharness/lib/sched"
	"verifharness/lib/vh"
)

const (
	spOpenCap         = 2 // reports of streams / registrations left behind after which the family stops (each costs the watchdog)
	spInconclusiveCap = 6
	spBatch           = 200 // rounds per server instance
)

var (
	spOpenReports  atomic.Int64
	spInconclusive atomic.Int64
	spSampled      atomic.Int64
)

// spEx is one exchange bearing S.
type spEx struct {
	op               string // GET | request | notification | initialize | DELETE
	by               int
	startSeq, ansSeq int64
	status           int
	sess, err        string
	stm              *peer.Stream // GET answered 200
}

func (x *spEx) String() string {
	s := fmt.Sprintf("%s by peer %d: started@%d answered@%d status %d", x.op, x.by, x.startSeq, x.ansSeq, x.status)
	if x.err != "" {
		s += " (" + x.err + ")"
	}
	if x.stm != nil {
		select {
		case <-x.stm.Done():
			s += ", stream ended"
		default:
			s += ", stream STILL OPEN at the peer"
		}
	}
	return s
}

// spEnv is one server instance with the bystander session, shared by a batch of rounds.
type spEnv struct {
	r       *vh.Run
	in      *kit.Instance
	hp      *peer.HTTPPeer
	url     string
	accept  string
	postSSE bool
	procs   int
	B       string
	bStream *peer.Stream
	reqN    atomic.Int64
}

func newSpEnv(r *vh.Run, postSSE bool, procs int) *spEnv {
	e := &spEnv{r: r, postSSE: postSSE, procs: procs}
	e.in = start(cfg{"stateful", true, postSSE})
	e.url = e.in.URL()
	e.hp = peer.NewHTTPPeer()
	e.accept = "application/json"
	if postSSE {
		e.accept = "application/json, text/event-stream"
	}
	re := e.post(context.Background(), e.body("initialize"), "")
	if re.Status != 200 || re.Sess == "" {
		e.inconclusive("", fmt.Sprintf("set-up: initialize of the bystander answered %d %s", re.Status, re.Err))
		e.close()
		return nil
	}
	e.B = re.Sess
	stm, rr := e.hp.OpenStream(context.Background(), "GET", e.url, map[string]string{"Accept": "text/event-stream", "Mcp-Session-Id": e.B}, 64)
	if stm == nil {
		e.inconclusive("", fmt.Sprintf("set-up: the bystander's stream could not be opened (%d %s)", rr.Status, rr.Err))
		e.close()
		return nil
	}
	e.bStream = stm
	return e
}

func (e *spEnv) close() {
	if e.bStream != nil {
		e.bStream.Close()
	}
	e.hp.Close()
	e.in.Close()
}

func (e *spEnv) inconclusive(scn, what string) {
	spInconclusive.Add(1)
	e.r.Inconclusive("overlap spin " + scn + ": " + what)
}

func (e *spEnv) post(ctx context.Context, body, id string) *peer.Reaction {
	h := map[string]string{"Content-Type": "application/json", "Accept": e.accept}
	if id != "" {
		h["Mcp-Session-Id"] = id
	}
	cx, cancel := context.WithTimeout(ctx, 30*time.Second)
	defer cancel()
	return e.hp.Do(cx, "POST", e.url, h, []byte(body))
}

func (e *spEnv) del(ctx context.Context, id string) *peer.Reaction {
	cx, cancel := context.WithTimeout(ctx, 30*time.Second)
	defer cancel()
	return e.hp.Do(cx, "DELETE", e.url, map[string]string{"Mcp-Session-Id": id}, nil)
}

func (e *spEnv) body(op string) string {
	switch op {
	case "initialize":
		return string(kit.InitBody(fmt.Sprint(e.reqN.Add(1)), ""))
	case "notification":
		return `{"jsonrpc":"2.0","method":"notifications/verif","params":{"n":1}}`
	default:
		return fmt.Sprintf(`{"jsonrpc":"2.0","id":%d,"method":"ping"}`, e.reqN.Add(1))
	}
}

// bystanders: the number of listening streams the server may still have registered once S is gone.
func (e *spEnv) bystanders() int {
	select {
	case <-e.bStream.Done():
		return 0 // not promised to stay; counted by the caller
	default:
		return 1
	}
}

func spStillOpen(l []*spEx) (open []*spEx) {
	for _, x := range l {
		select {
		case <-x.stm.Done():
		default:
			open = append(open, x)
		}
	}
	return open
}

// spAwaitEnds waits (watchdog) until the streams have ended and returns those that have not.
func spAwaitEnds(l []*spEx, d time.Duration) []*spEx {
	tm := time.NewTimer(d)
	defer tm.Stop()
	for _, x := range l {
		select {
		case <-x.stm.Done():
			continue
		case <-tm.C:
		}
		break
	}
	return spStillOpen(l)
}

// round runs and judges one round. It returns false when the server instance must not be used any further.
func (e *spEnv) round(rng *rand.Rand) bool {
	r := e.r
	m := 4 + rng.Intn(5)
	q := rng.Intn(3)
	ender := []string{"delete", "delete", "delete+delete", "delete+initialize"}[rng.Intn(4)]
	fireAfter := rng.Intn(3*m + 1)
	if rng.Intn(5) == 0 {
		fireAfter = rng.Intn(12*m + 1)
	}
	gap := rng.Intn(4) // scheduler yields between the two ending operations
	first := rng.Intn(3)
	laterOps := rng.Perm(5)[:2]
	checkB := rng.Intn(4) == 0
	scn := fmt.Sprintf("spin|ender=%s,m=%d,q=%d,fire-after=%d,postsse=%v,procs=%d", ender, m, q, fireAfter, e.postSSE, e.procs)

	bg := context.Background()
	re := e.post(bg, e.body("initialize"), "")
	if re.Status != 200 || re.Sess == "" {
		e.inconclusive(scn, fmt.Sprintf("initialize answered %d %s", re.Status, re.Err))
		return false
	}
	S := re.Sess
	r.Eval(1)

	ctx, cancel := context.WithCancel(bg)
	defer cancel() // ends whatever the peer still holds, after the judgement

	var (
		mu        sync.Mutex
		exs       []*spEx
		reopens   atomic.Int64
		enderDone atomic.Bool
		fire      = make(chan struct{})
		fireOnce  sync.Once
		wg        sync.WaitGroup
	)
	rec := func(x *spEx) {
		mu.Lock()
		exs = append(exs, x)
		mu.Unlock()
	}
	if fireAfter == 0 {
		fireOnce.Do(func() { close(fire) })
	}
	getHdr := func() map[string]string { return map[string]string{"Accept": "text/event-stream", "Mcp-Session-Id": S} }
	for i := 0; i < m; i++ {
		wg.Add(1)
		go func(i int) {
			defer wg.Done()
			after := 0
			for n := 0; n < 5000; n++ {
				x := &spEx{op: "GET", by: i}
				x.startSeq = ovClock.Add(1)
				stm, rr := e.hp.OpenStream(ctx, "GET", e.url, getHdr(), 64)
				x.ansSeq = ovClock.Add(1)
				x.stm, x.status, x.sess, x.err = stm, rr.Status, rr.Sess, rr.Err
				rec(x)
				if reopens.Add(1) >= int64(fireAfter) {
					fireOnce.Do(func() { close(fire) })
				}
				if rr.Status != 200 {
					return
				}
				if enderDone.Load() {
					// a broken tree may keep serving the deleted id: a few more exchanges are evidence enough
					if after++; after >= 3 {
						return
					}
				}
			}
		}(i)
	}
	for i := 0; i < q; i++ {
		wg.Add(1)
		go func(i int) {
			defer wg.Done()
			after := 0
			for n := 0; n < 20000; n++ {
				op := "request"
				if (n+first+i)%3 == 2 {
					op = "notification"
				}
				x := &spEx{op: op, by: m + i}
				b := e.body(op)
				x.startSeq = ovClock.Add(1)
				rr := e.post(ctx, b, S)
				x.ansSeq = ovClock.Add(1)
				x.status, x.sess, x.err = rr.Status, rr.Sess, rr.Err
				rec(x)
				if rr.Status == 404 || rr.Status == 0 {
					return
				}
				if enderDone.Load() {
					if after++; after >= 3 {
						return
					}
				}
			}
		}(i)
	}

	// the ending operation(s)
	select {
	case <-fire:
	case <-time.After(30 * time.Second):
		e.inconclusive(scn, fmt.Sprintf("the peers did not get to %d re-opens of the stream (%d so far)", fireAfter, reopens.Load()))
		enderDone.Store(true)
		return false
	}
	enders := []*spEx{{op: "DELETE", by: -1}}
	switch ender {
	case "delete+delete":
		enders = append(enders, &spEx{op: "DELETE", by: -2})
	case "delete+initialize":
		enders = append(enders, &spEx{op: "initialize", by: -2})
	}
	if len(enders) == 2 && rng.Intn(2) == 0 {
		enders[0], enders[1] = enders[1], enders[0]
	}
	var ewg sync.WaitGroup
	for k, x := range enders {
		ewg.Add(1)
		go func(k int, x *spEx) {
			defer ewg.Done()
			for j := 0; k == 1 && j < gap; j++ {
				runtime.Gosched()
			}
			var rr *peer.Reaction
			if x.op == "DELETE" {
				x.startSeq = ovClock.Add(1)
				rr = e.del(bg, S)
			} else {
				b := e.body("initialize")
				x.startSeq = ovClock.Add(1)
				rr = e.post(bg, b, S)
			}
			x.ansSeq = ovClock.Add(1)
			x.status, x.sess, x.err = rr.Status, rr.Sess, rr.Err
		}(k, x)
	}
	ewg.Wait()
	enderDone.Store(true)
	peersDone := make(chan struct{})
	go func() { wg.Wait(); close(peersDone) }()
	select {
	case <-peersDone:
	case <-time.After(60 * time.Second):
		e.inconclusive(scn, "the peers of the session did not all get their refusal within the watchdog")
		cancel()
		<-peersDone
		return false
	}
	r.Eval(1)

	// ---- judgement ----
	var delStart, delAns int64
	var enderDesc []string
	n200 := 0
	for _, x := range enders {
		enderDesc = append(enderDesc, x.String())
		if x.status == 0 {
			e.inconclusive(scn, x.op+" of the session: transport error "+x.err)
			e.del(bg, S)
			return false
		}
		if x.op == "DELETE" && x.status == 200 {
			if n200++; n200 == 1 {
				delStart, delAns = x.startSeq, x.ansSeq
			}
		}
	}
	witness := func(extra map[string]interface{}) map[string]interface{} {
		got, _ := e.in.Server.GetActiveSessions()
		sort.Strings(got)
		w := map[string]interface{}{"scenario": scn, "session": S, "bystander": e.B, "ending_operations": enderDesc, "reopens_in_all": reopens.Load(),
			"server_live_sessions": got, "registered_streams": mcp.VerifListeningStreams(e.in.Server), "bystander_streams": e.bystanders(),
			"delete_started_at": delStart, "delete_answered_at": delAns}
		// the exchanges around the DELETE (bounded)
		var near []string
		for _, x := range exs {
			if delStart == 0 || x.ansSeq >= delStart {
				near = append(near, x.String())
			}
		}
		if len(near) > 60 {
			near = append(near[:60:60], fmt.Sprintf("... %d more", len(near)-60))
		}
		w["exchanges_not_answered_before_the_delete"] = near
		for k, v := range extra {
			w[k] = v
		}
		return w
	}
	violation := func(symptom, what string, extra map[string]interface{}) {
		ovFailures.Add(1)
		r.Violation("C04|overlap|stateful|spin|"+symptom, "["+scn+"] "+what, witness(extra))
	}
	mu.Lock() // every peer has returned; taken for the record
	defer mu.Unlock()

	var dels []string
	for _, x := range enders {
		if x.op == "DELETE" {
			dels = append(dels, fmt.Sprint(x.status))
		}
	}
	sort.Strings(dels)
	switch {
	case n200 == 0:
		violation(fmt.Sprintf("DELETE|id=live|status=%s-want-200", strings.Join(dels, "+")), fmt.Sprintf("the DELETE(s) of the live session, concurrent with its GETs, answered %v: none 200", dels), nil)
		e.del(bg, S)
		return false
	case n200 > 1:
		violation("DELETE|concurrent-pair|both-200", "two concurrent DELETEs of one session were both answered 200: one of them bore an already deleted id", nil)
	case len(dels) == 2 && dels[1] != "404":
		violation(fmt.Sprintf("DELETE|concurrent-pair|status=%s", strings.Join(dels, "+")), fmt.Sprintf("two concurrent DELETEs of one session answered %v (one 200 and one 404 conform)", dels), nil)
	default:
		r.Count("spin_deletes_conforming", int64(len(dels)))
	}
	want := func(x *spEx) string {
		switch {
		case x.ansSeq < delStart:
			return "served"
		case x.startSeq > delAns:
			return "refused"
		}
		return "either"
	}
	okStatus := func(op string) int {
		if op == "notification" {
			return 202
		}
		return 200
	}
	var ovl200, ovl404, bad int
	var streams []*spEx
	all := append(append([]*spEx(nil), exs...), enders...)
	for _, x := range all {
		if x.op == "DELETE" {
			continue
		}
		if x.status == 0 {
			e.inconclusive(scn, x.op+" bearing the session id: transport error "+x.err)
			return false
		}
		w := want(x)
		ok := (w == "served" && x.status == okStatus(x.op)) || (w == "refused" && x.status == 404) || (w == "either" && (x.status == okStatus(x.op) || x.status == 404))
		cls := x.op
		if cls == "notification" {
			cls = "request" // one counter family for the q peers
		}
		switch {
		case !ok:
			bad++
			violation(fmt.Sprintf("%s|%s|status=%d", x.op, map[string]string{"served": "answered-before-delete", "refused": "started-after-delete", "either": "overlapping-delete"}[w], x.status),
				fmt.Sprintf("%s bearing the session id (%s relative to the DELETE answered 200) got %d", x.op, w, x.status), map[string]interface{}{"exchange": x.String()})
		case x.status != 404 && x.sess != S:
			bad++
			violation(x.op+"|session-header", fmt.Sprintf("%s served in the session was answered with session id %q, the request carried %q", x.op, x.sess, S), map[string]interface{}{"exchange": x.String()})
		case x.status == 404 && x.sess != "" && x.sess != S:
			bad++
			violation(x.op+"|foreign-session-header", fmt.Sprintf("refusal carries session id %q, request carried %q", x.sess, S), map[string]interface{}{"exchange": x.String()})
		default:
			r.Count(fmt.Sprintf("spin_%ss_conforming_%s_%d", strings.ToLower(cls), w, x.status), 1)
		}
		if x.op == "GET" && w == "either" {
			if x.status == 200 {
				ovl200++
			} else if x.status == 404 {
				ovl404++
			}
		}
		if x.stm != nil {
			streams = append(streams, x)
		}
	}
	r.Count("spin_reopens", reopens.Load())
	r.Max("spin_reopens_in_one_round", reopens.Load())
	r.Count("spin_streams_opened", int64(len(streams)))

	// DELETE ends the session together with its open stream(s): every stream answered 200, whichever GET opened it
	progress := ""
	shown := func() bool {
		if progress == "" {
			// (no DELETE here: a probe must not be able to tidy up what the judged DELETE left behind)
			pb := e.post(bg, e.body("request"), e.B)
			pd := e.post(bg, e.body("request"), S)
			progress = fmt.Sprintf("request of the bystander %d, a request bearing the deleted id %d", pb.Status, pd.Status)
			if pb.Status != 200 || pd.Status != 404 {
				progress = "!" + progress
			}
		}
		return !strings.HasPrefix(progress, "!")
	}
	open := spAwaitEnds(streams, 10*time.Second)
	if len(open) > 0 {
		// not by time alone: the server must demonstrably have made progress while the stream stayed open
		if !shown() {
			e.inconclusive(scn, fmt.Sprintf("%d stream(s) of the deleted session did not end within the watchdog and the server's progress could not be shown (%s)", len(open), progress[1:]))
			return false
		}
		open = spAwaitEnds(open, 2*time.Second)
	}
	r.Count("spin_streams_ended_after_delete", int64(len(streams)-len(open)))
	if len(open) > 0 {
		byPos := map[string][]string{}
		for _, x := range open {
			pos := "get-overlapping-delete"
			if want(x) == "served" {
				pos = "get-answered-before-delete"
			}
			byPos[pos] = append(byPos[pos], x.String())
		}
		spOpenReports.Add(1)
		for pos, l := range byPos {
			violation("DELETE|stream-still-open|"+pos, fmt.Sprintf("the DELETE of the session was answered 200, every peer has been refused with 404, the server answers (%s), but of the %d listening stream(s) of the session that were answered 200, %d (%s) are still open at the peer", progress, len(streams), len(l), pos),
				map[string]interface{}{"still_open": l})
		}
		return false
	}
	// ... and nothing of it stays registered: no more listening streams than the bystander's
	regs := mcp.VerifListeningStreams(e.in.Server)
	for dl := time.Now().Add(10 * time.Second); regs > e.bystanders() && time.Now().Before(dl); regs = mcp.VerifListeningStreams(e.in.Server) {
		time.Sleep(time.Millisecond)
	}
	if by := e.bystanders(); regs > by {
		if !shown() {
			e.inconclusive(scn, fmt.Sprintf("%d listening streams registered (bystanders: %d) and the server's progress could not be shown (%s)", regs, by, progress[1:]))
			return false
		}
		if regs = mcp.VerifListeningStreams(e.in.Server); regs > by {
			spOpenReports.Add(1)
			violation("DELETE|stream-registered-after-delete", fmt.Sprintf("the DELETE of the session was answered 200, every stream of it the peer held has ended, the server answers (%s), but it still has %d listening stream(s) registered where only the bystander's %d can be", progress, regs, by), nil)
			return false
		}
	} else if by == 0 {
		r.Count("spin_bystander_stream_ended", 1) // not promised by C04; counted only
	}
	r.Count("spin_stream_table_back_to_bystanders", 1)

	// the live set the server reports equals the one the history leaves alive
	checkLive := func(after string) bool {
		got, err := e.in.Server.GetActiveSessions()
		r.Count("spin_live_set_comparisons", 1)
		if err != nil || len(got) != 1 || got[0] != e.B {
			violation("live-set-mismatch", fmt.Sprintf("after %s: GetActiveSessions=%v (err %v), the history leaves [%s] alive", after, got, err, e.B), nil)
			return false
		}
		return true
	}
	if !checkLive("the DELETE and the refusal of every peer") {
		return false
	}
	// later exchanges bearing the id: 404, and they change nothing
	for _, k := range laterOps {
		op := []string{"request", "notification", "initialize", "GET", "DELETE"}[k]
		var st int
		var errS string
		switch op {
		case "GET":
			stm, rr := e.hp.OpenStream(ctx, "GET", e.url, getHdr(), 64)
			st, errS = rr.Status, rr.Err
			if stm != nil {
				defer stm.Close()
			}
		case "DELETE":
			rr := e.del(bg, S)
			st, errS = rr.Status, rr.Err
		default:
			rr := e.post(bg, e.body(op), S)
			st, errS = rr.Status, rr.Err
		}
		r.Eval(1)
		switch {
		case st == 0:
			e.inconclusive(scn, op+" bearing the deleted id: transport error "+errS)
			return false
		case st != 404:
			violation(fmt.Sprintf("%s|id=deleted|status=%d-want-404", op, st), fmt.Sprintf("%s bearing the id of the deleted session got %d", op, st), nil)
			return false
		}
		r.Count("spin_refusals_404_after_delete", 1)
	}
	if !checkLive("exchanges bearing the deleted id") {
		return false
	}
	if checkB {
		rr := e.post(bg, e.body("request"), e.B)
		switch {
		case rr.Status == 0:
			e.inconclusive(scn, "request of the bystander: transport error "+rr.Err)
			return false
		case rr.Status != 200 || rr.Sess != e.B:
			violation(fmt.Sprintf("request|bystander|status=%d", rr.Status), fmt.Sprintf("a request of the bystander session got %d with session id %q", rr.Status, rr.Sess), nil)
			return false
		}
		r.Count("spin_bystander_requests_served", 1)
	}
	if bad > 0 {
		return true
	}

	// evidence
	oc := "overlapping-gets="
	switch {
	case ovl200 > 0 && ovl404 > 0:
		oc += "200+404"
	case ovl200 > 0:
		oc += "200"
	case ovl404 > 0:
		oc += "404"
	default:
		oc += "none"
	}
	r.Count("spin_rounds_judged", 1)
	r.Count("spin_rounds_judged_ender_"+ender, 1)
	r.Count("spin_rounds_judged_"+oc, 1)
	if ovl200 > 0 {
		r.Count("spin_rounds_with_stream_opened_while_delete_in_flight", 1)
	}
	r.Distinct(fmt.Sprintf("overlap|spin|ender=%s,q=%d,postsse=%v,procs=%d|%s", ender, q, e.postSSE, e.procs, oc))
	r.SetAdd("spin_outcomes", ender+"|"+oc)
	if ovl200 > 0 && ovl404 > 0 && len(enders) == 2 && spSampled.Add(1) == 1 {
		var near []string
		for _, x := range all {
			if x.ansSeq >= delStart && len(near) < 24 {
				near = append(near, x.String())
			}
		}
		r.Sample(map[string]interface{}{"part": "overlap-spin", "scenario": scn, "reopens": reopens.Load(), "streams_opened_and_ended": len(streams),
			"ending_operations": enderDesc, "exchanges_not_answered_before_the_delete": near, "outcome": oc})
	}
	return true
}

// spinStorms runs the rounds in batches, one server instance (and one GOMAXPROCS setting) per batch.
func spinStorms(r *vh.Run) {
	sched.Uninstall()
	total := r.Pick(5000, 40000)
	procsList := []int{0, 0, 8, 0, 4, 2}
	def := runtime.GOMAXPROCS(0)
	defer runtime.GOMAXPROCS(def)
	done := 0
	for b := 0; done < total; b++ {
		if ovFailures.Load() >= ovFailureCap || spOpenReports.Load() >= spOpenCap || spInconclusive.Load() >= spInconclusiveCap {
			r.Count("spin_rounds_skipped_failure_established_or_inconclusive", int64(total-done))
			break
		}
		rng := r.Rand(fmt.Sprintf("c04-overlap-spin-%d", b))
		procs := procsList[b%len(procsList)]
		if procs == 0 || procs > def {
			procs = def
		}
		runtime.GOMAXPROCS(procs)
		e := newSpEnv(r, b%2 == 0, procs)
		if e == nil {
			continue
		}
		n := 0
		for ; n < spBatch && done < total; n++ {
			done++
			if !e.round(rng) {
				n++
				break
			}
		}
		e.close()
	}
	if ovFailures.Load() == 0 {
		c := r.Counter
		r.Require(c("spin_rounds_judged") >= int64(total)*9/10 && c("spin_rounds_judged_ender_delete") > 0 && c("spin_rounds_judged_ender_delete+delete") > 0 &&
			c("spin_rounds_judged_ender_delete+initialize") > 0 && c("spin_rounds_with_stream_opened_while_delete_in_flight") > 0 &&
			c("spin_gets_conforming_either_404") > 0 && c("spin_streams_ended_after_delete") > 0 && c("spin_refusals_404_after_delete") > 0,
			"overlap spin: the free-running storms did not observe what they are for (rounds judged %d of %d; per ending operation %d/%d/%d; rounds in which a stream was opened while the DELETE was in flight %d; GETs overlapping the DELETE refused %d; streams ended after the DELETE %d)",
			c("spin_rounds_judged"), total, c("spin_rounds_judged_ender_delete"), c("spin_rounds_judged_ender_delete+delete"), c("spin_rounds_judged_ender_delete+initialize"),
			c("spin_rounds_with_stream_opened_while_delete_in_flight"), c("spin_gets_conforming_either_404"), c("spin_streams_ended_after_delete"))
	}
}
