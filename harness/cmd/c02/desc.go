package main

// Descriptor part of C02: tools, prompts and resources as registered vs as listed by the client.

import (
	"context"
	"encoding/json"
	"fmt"
	"math/rand"
	"reflect"

	mcp "trpc.group/trpc-go/trpc-mcp-go"

	"verifharness/lib/kit"
)

// three compiled struct types for WithInputStruct / WithOutputStruct
type dFlatIn struct {
	Name  string  `json:"name" jsonschema:"required,description=the name"`
	Count int     `json:"count,omitempty"`
	Ratio float64 `json:"ratio"`
	On    bool    `json:"on"`
}

type dInner struct {
	ID   int64    `json:"id"`
	Tags []string `json:"tags,omitempty"`
}

type dNestedIn struct {
	Inner  dInner            `json:"inner"`
	List   []dInner          `json:"list"`
	Labels map[string]string `json:"labels,omitempty"`
	Opt    *dInner           `json:"opt,omitempty"`
}

type dTree struct {
	Value    string   `json:"value" jsonschema:"description=node value"`
	Children []*dTree `json:"children,omitempty"`
}

type dOut struct {
	OK     bool    `json:"ok"`
	Result string  `json:"result"`
	Score  float64 `json:"score,omitempty"`
	Detail *dInner `json:"detail,omitempty"`
}

type descSet struct {
	Tools     []*mcp.Tool
	Prompts   []*mcp.Prompt
	Resources []*mcp.Resource
	// class label per descriptor name (for signatures / coverage)
	Label map[string]string
}

var descTextClasses = []string{"empty", "ascii", "cr", "lf", "crlf", "u2028", "astral", "control", "jsonspecial", "bmp", "ws", "64k"}

func hintOf(i int) *bool {
	switch i % 3 {
	case 0:
		return nil
	case 1:
		return mcp.BoolPtr(true)
	default:
		return mcp.BoolPtr(false)
	}
}

func randProp(rng *rand.Rand, name string) mcp.ToolOption {
	var po []mcp.PropertyOption
	if rng.Intn(2) == 0 {
		po = append(po, mcp.Description(buildText(pick(rng, []string{"ascii", "bmp", "astral", "jsonspecial", "lf", "u2028"}), rng.Int63())))
	}
	if rng.Intn(3) == 0 {
		po = append(po, mcp.Required())
	}
	if rng.Intn(3) == 0 {
		po = append(po, mcp.Title(buildText(pick(rng, []string{"ascii", "bmp", "astral"}), rng.Int63())))
	}
	switch rng.Intn(6) {
	case 0:
		if rng.Intn(2) == 0 {
			po = append(po, mcp.Enum("a", "b", buildText("bmp", rng.Int63()), ""))
		}
		if rng.Intn(2) == 0 {
			po = append(po, mcp.Default(buildText(pick(rng, []string{"ascii", "astral", "empty"}), rng.Int63())))
		}
		return mcp.WithString(name, po...)
	case 1:
		if rng.Intn(2) == 0 {
			po = append(po, mcp.Default(float64(rng.Intn(2000)-1000)/8))
		}
		return mcp.WithNumber(name, po...)
	case 2:
		if rng.Intn(2) == 0 {
			po = append(po, mcp.Default(rng.Intn(100000)-50000))
		}
		return mcp.WithInteger(name, po...)
	case 3:
		if rng.Intn(2) == 0 {
			po = append(po, mcp.Default(rng.Intn(2) == 0))
		}
		return mcp.WithBoolean(name, po...)
	case 4:
		if rng.Intn(2) == 0 {
			// openapi3.Schemas value obtained through the public constructors (no direct import of kin-openapi)
			po = append(po, mcp.Properties(mcp.NewTool("x", mcp.WithString("x", mcp.Description(buildText("bmp", rng.Int63()))), mcp.WithInteger("y")).InputSchema.Properties))
		}
		return mcp.WithObject(name, po...)
	default:
		itemOpt := []func(string, ...mcp.PropertyOption) mcp.ToolOption{mcp.WithString, mcp.WithNumber, mcp.WithInteger, mcp.WithBoolean}[rng.Intn(4)]
		po = append(po, mcp.Items(mcp.NewTool("x", itemOpt("it")).InputSchema.Properties["it"].Value))
		if rng.Intn(2) == 0 {
			po = append(po, mcp.MinItems(rng.Intn(3)))
		}
		if rng.Intn(2) == 0 {
			po = append(po, mcp.MaxItems(3+rng.Intn(10)))
		}
		if rng.Intn(3) == 0 {
			po = append(po, mcp.UniqueItems(true))
		}
		return mcp.WithArray(name, po...)
	}
}

// buildDescriptors is a pure function of the PRNG state.
func buildDescriptors(rng *rand.Rand, nRandom int) *descSet {
	d := &descSet{Label: map[string]string{}}
	addTool := func(label string, t *mcp.Tool) {
		d.Tools = append(d.Tools, t)
		d.Label["tool:"+t.Name] = label
	}
	addTool("plain", mcp.NewTool("d-plain"))
	for _, cl := range descTextClasses {
		addTool("description="+cl, mcp.NewTool("d-desc-"+cl, mcp.WithDescription(buildText(cl, rng.Int63()))))
	}
	addTool("name=unicode", mcp.NewTool("d-名前-\U0001F600 with space", mcp.WithDescription("unicode name")))
	addTool("props=all", mcp.NewTool("d-props",
		mcp.WithDescription("every property option"),
		mcp.WithString("s", mcp.Description("a string"), mcp.Required(), mcp.Enum("a", "b", "ü"), mcp.Default("a"), mcp.Title("S title")),
		mcp.WithNumber("n", mcp.Default(1.5), mcp.Description("a number")),
		mcp.WithInteger("i", mcp.Default(7), mcp.Required(), mcp.Title("I")),
		mcp.WithBoolean("b", mcp.Default(false), mcp.Description("a flag")),
		mcp.WithBoolean("b2", mcp.Default(true)),
		mcp.WithObject("o", mcp.Description("an object"), mcp.Properties(mcp.NewTool("x", mcp.WithString("inner", mcp.Description("inner string"))).InputSchema.Properties)),
		mcp.WithObject("o-empty"),
		mcp.WithArray("arr", mcp.Items(mcp.NewTool("x", mcp.WithString("it")).InputSchema.Properties["it"].Value), mcp.MinItems(1), mcp.MaxItems(5), mcp.UniqueItems(true), mcp.Description("an array"), mcp.Required()),
		mcp.WithArray("arr0", mcp.Items(mcp.NewTool("x", mcp.WithNumber("it")).InputSchema.Properties["it"].Value), mcp.MinItems(0), mcp.MaxItems(0)),
		mcp.WithString("zero-default", mcp.Default("")),
		mcp.WithInteger("zero-int-default", mcp.Default(0)),
	))
	for i := 0; i < nRandom; i++ {
		opts := []mcp.ToolOption{}
		if rng.Intn(4) != 0 {
			opts = append(opts, mcp.WithDescription(buildText(pick(rng, descTextClasses[:11]), rng.Int63())))
		}
		n := rng.Intn(6)
		for j := 0; j < n; j++ {
			name := fmt.Sprintf("p%d", j)
			if rng.Intn(4) == 0 {
				name = fmt.Sprintf("p%d-%s", j, buildText(pick(rng, []string{"bmp", "astral", "jsonspecial"}), rng.Int63()))
			}
			opts = append(opts, randProp(rng, name))
		}
		if rng.Intn(3) == 0 {
			opts = append(opts, mcp.WithToolAnnotations(&mcp.ToolAnnotations{Title: buildText("bmp", rng.Int63()), ReadOnlyHint: hintOf(rng.Intn(3)), OpenWorldHint: hintOf(rng.Intn(3))}))
		}
		addTool("random", mcp.NewTool(fmt.Sprintf("d-rand-%d", i), opts...))
	}
	// annotations: every combination of {absent, true, false} over the four hints, with and without a title
	for i := 0; i < 81; i++ {
		a := &mcp.ToolAnnotations{ReadOnlyHint: hintOf(i), DestructiveHint: hintOf(i / 3), IdempotentHint: hintOf(i / 9), OpenWorldHint: hintOf(i / 27)}
		if i%2 == 1 {
			a.Title = fmt.Sprintf("Title %d \U0001F600", i)
		}
		addTool("annotations", mcp.NewTool(fmt.Sprintf("d-ann-%02d", i), mcp.WithToolAnnotations(a)))
	}
	addTool("annotations=empty", mcp.NewTool("d-ann-empty", mcp.WithToolAnnotations(&mcp.ToolAnnotations{})))
	addTool("annotations=title-only", mcp.NewTool("d-ann-title", mcp.WithToolAnnotations(&mcp.ToolAnnotations{Title: buildText("jsonspecial", rng.Int63())})))
	// struct-derived schemas
	addTool("struct=flat", mcp.NewTool("d-struct-flat", mcp.WithDescription("flat struct"), mcp.WithInputStruct[dFlatIn](), mcp.WithOutputStruct[dOut]()))
	addTool("struct=nested", mcp.NewTool("d-struct-nested", mcp.WithInputStruct[dNestedIn](), mcp.WithOutputStruct[dOut]()))
	addTool("struct=recursive", mcp.NewTool("d-struct-tree", mcp.WithInputStruct[dTree](), mcp.WithOutputStruct[dTree]()))
	addTool("struct=nested-inline", mcp.NewTool("d-struct-nested-inline", mcp.WithInputStruct[dNestedIn](mcp.WithInlineStyle()), mcp.WithOutputStruct[dOut](mcp.WithInlineStyle())))
	addTool("struct=recursive-nestedref", mcp.NewTool("d-struct-tree-nested", mcp.WithInputStruct[dTree](mcp.WithNestedRefStyle()), mcp.WithOutputStruct[dNestedIn](mcp.WithNestedRefStyle())))

	addPrompt := func(label string, p *mcp.Prompt) {
		d.Prompts = append(d.Prompts, p)
		d.Label["prompt:"+p.Name] = label
	}
	addPrompt("plain", &mcp.Prompt{Name: "dp-plain"})
	addPrompt("args", &mcp.Prompt{Name: "dp-args", Description: "with arguments", Arguments: []mcp.PromptArgument{
		{Name: "req", Description: "required one", Required: true}, {Name: "opt", Description: "optional one"}, {Name: "bare"}, {Name: "req2", Required: true}}})
	addPrompt("args=empty-slice", &mcp.Prompt{Name: "dp-args-empty", Arguments: []mcp.PromptArgument{}})
	for _, cl := range descTextClasses {
		addPrompt("description="+cl, &mcp.Prompt{Name: "dp-desc-" + cl, Description: buildText(cl, rng.Int63()),
			Arguments: []mcp.PromptArgument{{Name: "a-" + cl, Description: buildText(cl, rng.Int63()), Required: rng.Intn(2) == 0}}})
	}
	addPrompt("name=unicode", &mcp.Prompt{Name: "dp-имя \U0001F600", Description: "unicode name", Arguments: []mcp.PromptArgument{{Name: "аргумент-中", Required: true}}})
	for i := 0; i < nRandom/2; i++ {
		p := &mcp.Prompt{Name: fmt.Sprintf("dp-rand-%d", i)}
		if rng.Intn(3) != 0 {
			p.Description = buildText(pick(rng, descTextClasses[:11]), rng.Int63())
		}
		for j, n := 0, rng.Intn(5); j < n; j++ {
			a := mcp.PromptArgument{Name: fmt.Sprintf("a%d", j), Required: rng.Intn(2) == 0}
			if rng.Intn(2) == 0 {
				a.Description = buildText(pick(rng, descTextClasses[:11]), rng.Int63())
			}
			p.Arguments = append(p.Arguments, a)
		}
		addPrompt("random", p)
	}

	addRes := func(label string, r *mcp.Resource) {
		d.Resources = append(d.Resources, r)
		d.Label["resource:"+r.URI] = label
	}
	addRes("plain", &mcp.Resource{URI: "res://d/plain", Name: "plain"})
	addRes("all-fields", &mcp.Resource{URI: "res://d/all", Name: "all", Description: "all fields", MimeType: "text/plain; charset=utf-8", Size: 12345})
	addRes("size=large", &mcp.Resource{URI: "res://d/large", Name: "large", Size: 1 << 53})
	addRes("size=2^31", &mcp.Resource{URI: "res://d/2g", Name: "2g", Size: 1 << 31})
	addRes("uri=unicode", &mcp.Resource{URI: "res://d/ü中\U0001F600?q=a&b=c#f", Name: "unicode uri"})
	addRes("name=empty", &mcp.Resource{URI: "res://d/noname"})
	for _, cl := range descTextClasses {
		addRes("description="+cl, &mcp.Resource{URI: "res://d/desc-" + cl, Name: "n-" + buildText(cl, rng.Int63()), Description: buildText(cl, rng.Int63()), MimeType: pick(rng, blobMimes)})
	}
	for i := 0; i < nRandom/2; i++ {
		r := &mcp.Resource{URI: fmt.Sprintf("res://d/rand/%d", i), Name: buildText(pick(rng, descTextClasses[1:11]), rng.Int63())}
		if rng.Intn(2) == 0 {
			r.Description = buildText(pick(rng, descTextClasses[:11]), rng.Int63())
		}
		if rng.Intn(2) == 0 {
			r.MimeType = pick(rng, textMimes)
		}
		if rng.Intn(2) == 0 {
			r.Size = rng.Int63n(1 << 40)
		}
		addRes("random", r)
	}
	return d
}

func registerDescriptors(in *kit.Instance, d *descSet) {
	for _, t := range d.Tools {
		in.RegisterTool(t, func(ctx context.Context, req *mcp.CallToolRequest) (*mcp.CallToolResult, error) {
			return mcp.NewTextResult("ok"), nil
		})
	}
	for _, p := range d.Prompts {
		in.RegisterPrompt(p, func(ctx context.Context, req *mcp.GetPromptRequest) (*mcp.GetPromptResult, error) {
			return &mcp.GetPromptResult{Messages: []mcp.PromptMessage{{Role: mcp.RoleUser, Content: mcp.NewTextContent("ok")}}}, nil
		})
	}
	for _, r := range d.Resources {
		uri := r.URI
		in.RegisterResource(r, func(ctx context.Context, req *mcp.ReadResourceRequest) (mcp.ResourceContents, error) {
			return mcp.TextResourceContents{URI: uri, Text: "ok"}, nil
		})
	}
}

// descDiff is one descriptor difference.
type descDiff struct {
	Method string      `json:"method"`
	Field  string      `json:"field"`
	Name   string      `json:"name"`
	Label  string      `json:"label"`
	Detail string      `json:"detail"`
	Extra  interface{} `json:"extra,omitempty"`
}

func boolPtrEq(a, b *bool) bool {
	if a == nil || b == nil {
		return a == nil && b == nil
	}
	return *a == *b
}

func bp(p *bool) string {
	if p == nil {
		return "absent"
	}
	return fmt.Sprintf("%v", *p)
}

// schemaNorm decodes schema JSON with the standard library.
func schemaNorm(raw []byte) (interface{}, error) {
	var v interface{}
	if len(raw) == 0 {
		return nil, nil
	}
	err := json.Unmarshal(raw, &v)
	return v, err
}

func cmpSchema(field string, regSchema interface{}, raw json.RawMessage, parsedSchema interface{}, name, label string) []descDiff {
	var out []descDiff
	isNil := func(v interface{}) bool { return v == nil || reflect.ValueOf(v).IsNil() }
	reg, parsed := regSchema, parsedSchema
	if isNil(reg) {
		if len(raw) != 0 || !isNil(parsed) {
			out = append(out, descDiff{Method: "tools/list", Field: field, Name: name, Label: label, Detail: "no schema registered but the client lists one", Extra: string(raw)})
		}
		return out
	}
	rb, err := json.Marshal(reg)
	if err != nil {
		return []descDiff{{Method: "tools/list", Field: "harness", Name: name, Label: label, Detail: "cannot marshal registered schema: " + err.Error()}}
	}
	want, _ := schemaNorm(rb)
	got, gerr := schemaNorm(raw)
	if gerr != nil || len(raw) == 0 {
		return []descDiff{{Method: "tools/list", Field: field, Name: name, Label: label, Detail: fmt.Sprintf("client lists no usable raw schema (len %d, err %v)", len(raw), gerr), Extra: map[string]interface{}{"registered": preview(string(rb))}}}
	}
	if w, _, d, eq := cmpJSON("", want, got); !eq {
		out = append(out, descDiff{Method: "tools/list", Field: field, Name: name, Label: label, Detail: fmt.Sprintf("raw schema differs at %q: %s", w, d),
			Extra: map[string]interface{}{"registered": preview(string(rb)), "listed": preview(string(raw))}})
	}
	// the parsed schema object the client exposes next to the raw one
	if isNil(parsed) {
		out = append(out, descDiff{Method: "tools/list", Field: field + "-parsed", Name: name, Label: label, Detail: "client lists the raw schema but no parsed schema object"})
	} else if pb, err := json.Marshal(parsed); err != nil {
		out = append(out, descDiff{Method: "tools/list", Field: field + "-parsed", Name: name, Label: label, Detail: "parsed schema of the client cannot be marshalled: " + err.Error()})
	} else {
		pv, _ := schemaNorm(pb)
		if w, _, d, eq := cmpJSON("", want, pv); !eq {
			out = append(out, descDiff{Method: "tools/list", Field: field + "-parsed", Name: name, Label: label, Detail: fmt.Sprintf("parsed schema differs at %q: %s", w, d),
				Extra: map[string]interface{}{"registered": preview(string(rb)), "listed_parsed": preview(string(pb))}})
		}
	}
	return out
}

func cmpTools(reg []*mcp.Tool, got []mcp.Tool, labels map[string]string) (diffs []descDiff, compared int) {
	byName := map[string]*mcp.Tool{}
	seen := map[string]int{}
	for i := range got {
		byName[got[i].Name] = &got[i]
		seen[got[i].Name]++
	}
	regNames := map[string]bool{}
	for _, t := range reg {
		regNames[t.Name] = true
		label := labels["tool:"+t.Name]
		g := byName[t.Name]
		if g == nil {
			diffs = append(diffs, descDiff{Method: "tools/list", Field: "tool-missing", Name: t.Name, Label: label, Detail: "registered tool is not in the client's list"})
			continue
		}
		compared++
		if seen[t.Name] > 1 {
			diffs = append(diffs, descDiff{Method: "tools/list", Field: "tool-duplicated", Name: t.Name, Label: label, Detail: fmt.Sprintf("listed %d times", seen[t.Name])})
		}
		if t.Description != g.Description {
			diffs = append(diffs, descDiff{Method: "tools/list", Field: "description", Name: t.Name, Label: label, Detail: strDiff(t.Description, g.Description)})
		}
		// annotations, pointer-aware; an absent object and an object without members carry the same information
		ra, ga := t.Annotations, g.Annotations
		if ra == nil {
			ra = &mcp.ToolAnnotations{}
		}
		if ga == nil {
			ga = &mcp.ToolAnnotations{}
		}
		if ra.Title != ga.Title || !boolPtrEq(ra.ReadOnlyHint, ga.ReadOnlyHint) || !boolPtrEq(ra.DestructiveHint, ga.DestructiveHint) ||
			!boolPtrEq(ra.IdempotentHint, ga.IdempotentHint) || !boolPtrEq(ra.OpenWorldHint, ga.OpenWorldHint) {
			diffs = append(diffs, descDiff{Method: "tools/list", Field: "annotations", Name: t.Name, Label: label,
				Detail: fmt.Sprintf("registered title=%q readOnly=%s destructive=%s idempotent=%s openWorld=%s; listed title=%q readOnly=%s destructive=%s idempotent=%s openWorld=%s",
					ra.Title, bp(ra.ReadOnlyHint), bp(ra.DestructiveHint), bp(ra.IdempotentHint), bp(ra.OpenWorldHint),
					ga.Title, bp(ga.ReadOnlyHint), bp(ga.DestructiveHint), bp(ga.IdempotentHint), bp(ga.OpenWorldHint))})
		}
		diffs = append(diffs, cmpSchema("inputSchema", t.InputSchema, g.RawInputSchema, g.InputSchema, t.Name, label)...)
		diffs = append(diffs, cmpSchema("outputSchema", t.OutputSchema, g.RawOutputSchema, g.OutputSchema, t.Name, label)...)
	}
	for n := range byName {
		if !regNames[n] {
			diffs = append(diffs, descDiff{Method: "tools/list", Field: "tool-unregistered", Name: n, Detail: "client lists a tool that was never registered"})
		}
	}
	return diffs, compared
}

func cmpPrompts(reg []*mcp.Prompt, got []mcp.Prompt, labels map[string]string) (diffs []descDiff, compared int) {
	byName := map[string]*mcp.Prompt{}
	for i := range got {
		byName[got[i].Name] = &got[i]
	}
	regNames := map[string]bool{}
	for _, p := range reg {
		regNames[p.Name] = true
		label := labels["prompt:"+p.Name]
		g := byName[p.Name]
		if g == nil {
			diffs = append(diffs, descDiff{Method: "prompts/list", Field: "prompt-missing", Name: p.Name, Label: label, Detail: "registered prompt is not in the client's list"})
			continue
		}
		compared++
		if p.Description != g.Description {
			diffs = append(diffs, descDiff{Method: "prompts/list", Field: "description", Name: p.Name, Label: label, Detail: strDiff(p.Description, g.Description)})
		}
		if len(p.Arguments) != len(g.Arguments) {
			diffs = append(diffs, descDiff{Method: "prompts/list", Field: "arguments", Name: p.Name, Label: label, Detail: fmt.Sprintf("registered %d arguments, listed %d", len(p.Arguments), len(g.Arguments))})
			continue
		}
		for i := range p.Arguments {
			if !reflect.DeepEqual(p.Arguments[i], g.Arguments[i]) {
				diffs = append(diffs, descDiff{Method: "prompts/list", Field: "arguments", Name: p.Name, Label: label,
					Detail: fmt.Sprintf("argument %d: registered {name %s, description %s, required %v}, listed {name %s, description %s, required %v}", i,
						preview(p.Arguments[i].Name), preview(p.Arguments[i].Description), p.Arguments[i].Required,
						preview(g.Arguments[i].Name), preview(g.Arguments[i].Description), g.Arguments[i].Required)})
			}
		}
	}
	for n := range byName {
		if !regNames[n] {
			diffs = append(diffs, descDiff{Method: "prompts/list", Field: "prompt-unregistered", Name: n, Detail: "client lists a prompt that was never registered"})
		}
	}
	return diffs, compared
}

func cmpResources(reg []*mcp.Resource, got []mcp.Resource, labels map[string]string) (diffs []descDiff, compared int) {
	byURI := map[string]*mcp.Resource{}
	for i := range got {
		byURI[got[i].URI] = &got[i]
	}
	regURIs := map[string]bool{}
	for _, r := range reg {
		regURIs[r.URI] = true
		label := labels["resource:"+r.URI]
		g := byURI[r.URI]
		if g == nil {
			diffs = append(diffs, descDiff{Method: "resources/list", Field: "resource-missing", Name: r.URI, Label: label, Detail: "registered resource is not in the client's list"})
			continue
		}
		compared++
		if r.Name != g.Name {
			diffs = append(diffs, descDiff{Method: "resources/list", Field: "name", Name: r.URI, Label: label, Detail: strDiff(r.Name, g.Name)})
		}
		if r.Description != g.Description {
			diffs = append(diffs, descDiff{Method: "resources/list", Field: "description", Name: r.URI, Label: label, Detail: strDiff(r.Description, g.Description)})
		}
		if r.MimeType != g.MimeType {
			diffs = append(diffs, descDiff{Method: "resources/list", Field: "mimeType", Name: r.URI, Label: label, Detail: strDiff(r.MimeType, g.MimeType)})
		}
		if r.Size != g.Size {
			diffs = append(diffs, descDiff{Method: "resources/list", Field: "size", Name: r.URI, Label: label, Detail: fmt.Sprintf("registered %d, listed %d", r.Size, g.Size)})
		}
	}
	for u := range byURI {
		if !regURIs[u] {
			diffs = append(diffs, descDiff{Method: "resources/list", Field: "resource-unregistered", Name: u, Detail: "client lists a resource that was never registered"})
		}
	}
	return diffs, compared
}
