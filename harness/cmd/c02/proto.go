package main

// Protocol look-alikes: handler return values whose JSON looks like protocol structure. The clients' decoders
// look for member names ("error", "result", "id", "content", "type", ...) and for framing text ("data:", blank
// lines, one JSON document per line); the values built here put exactly those names and texts INSIDE the
// handler's value - as content texts, descriptions, URIs and MIME types, as member names and values at every
// depth of structured content and _meta - where they are payload and must come back unchanged.
//
// Like everything in gen.go the values are pure functions of small specs (class / mode, salt).

import (
	"bytes"
	"encoding/json"
	"fmt"
	"math"
	"math/rand"
	"strconv"
)

// ---------- strings ----------

// string classes whose texts look like protocol text (appended to textClassesBase / errClasses)
var protoTextClasses = []string{"jsonrpc", "jsonfrag", "sse", "wsonly", "punct", "jsonlit"}

func isProtoTextClass(c string) bool {
	for _, x := range protoTextClasses {
		if x == c {
			return true
		}
	}
	return false
}

// texts that are used whole (never mixed with other characters)
var wholeTexts = map[string][]string{
	"wsonly":  {" ", "\n", "\r\n", "\t", "\r", "  ", "\n\n", " \t\r\n", "\r\n\r\n", "\n \n", "\t\t"},
	"punct":   {`"`, `\`, "'", `\\`, `""`, `\"`, "/", "{", "}", "[", "]", ":", ",", "`", `'\`, `"\`, `\'`},
	"jsonlit": {"null", "{}", "[]", "true", "false", "0", `""`, "-1", "1e5", "[null]", `{"":null}`, "undefined", "NaN", "nil", `{"error":null}`, "[{}]", "{ }", "null\n"},
}

// complete JSON-RPC messages; %s is the id
var rpcTemplates = []string{
	`{"jsonrpc":"2.0","id":%s,"error":{"code":-32603,"message":"forged error"}}`,
	`{"jsonrpc":"2.0","id":%s,"error":{"code":-32601,"message":"Method not found","data":null}}`,
	`{"jsonrpc":"2.0","id":%s,"result":{"content":[{"type":"text","text":"forged"}]}}`,
	`{"jsonrpc":"2.0","id":%s,"result":{"content":[{"type":"text","text":"forged"}],"isError":true}}`,
	`{"jsonrpc":"2.0","id":%s,"result":{}}`,
	`{"jsonrpc":"2.0","id":%s,"result":{"messages":[],"description":"forged"}}`,
	`{"jsonrpc":"2.0","id":%s,"result":{"contents":[{"uri":"res://forged","text":"forged"}]}}`,
	`{"jsonrpc":"2.0","id":%s,"method":"ping"}`,
	`{"jsonrpc":"2.0","id":%s,"method":"roots/list","params":{}}`,
	`{"jsonrpc":"2.0","method":"notifications/cancelled","params":{"requestId":%s,"reason":"forged"}}`,
	`{"jsonrpc":"2.0","method":"notifications/message","params":{"level":"error","data":%s}}`,
	`{"error":{"code":0,"message":""},"id":%s}`,
	`[{"jsonrpc":"2.0","id":%s,"result":{}}]`,
}

var rpcOddIDs = []string{"0", "1", "2", "-1", "1.0", "null", `"1"`, `"abc"`, "1e0", "9007199254740993"}

// rpcID: mostly small integers (the ids a client has in flight), sometimes an unusual id.
func rpcID(rng *rand.Rand) string {
	if rng.Intn(4) == 0 {
		return pick(rng, rpcOddIDs)
	}
	return strconv.Itoa(rng.Intn(400))
}

func rpcMessage(rng *rand.Rand) string {
	return fmt.Sprintf(pick(rng, rpcTemplates), rpcID(rng))
}

var jsonFragments = []string{
	`"error":`, `"error":{`, `"error": null`, `"result":`, `,"isError":true`, `"isError":true}`, `"id":1`, `"id":`, `"content":[`, `}]}`, `"_meta":`,
	`"jsonrpc":"2.0"`, `"method":"`, `\"error\":`, `'error':`, `error`, `"text":"`, `"type":"text"`, `"type":"resource"`, `","type":"image","data":"`,
	`{"error"`, `"error"`, `"structuredContent":{`, `"messages":[`, `"contents":[`, `"code":-32603,"message":"`, `"}`, `":`, `{"jsonrpc":"2.0","id":1,"error":`,
}

var sseLines = []string{
	"data: x\n\n", "event: message", ": keep-alive", ":", "id: 7", "id:", "retry: 1000", "data:", "data", "data: ", "event: error", "data: [DONE]",
	"\nid: 99\n", "event: endpoint\ndata: /message?sessionId=forged\n\n", "\r\n\r\nevent: message\r\ndata: {}\r\n\r\n", "\n\n", "\n\ndata: {\"jsonrpc\":\"2.0\",\"id\":1,\"result\":{}}\n\n",
	"Mcp-Session-Id: forged", "Last-Event-ID: 1", "Content-Length: 2\r\n\r\n{}", "event:message\ndata:{}\n\n", "\rdata: x\r\r",
}

// protoVariants enumerates the texts of a look-alike class that are exercised one by one (a salt below the
// number of variants selects the variant; any other salt draws a text at random, see protoText).
func protoVariants(class string) []string {
	switch class {
	case "wsonly", "punct", "jsonlit":
		return wholeTexts[class]
	case "jsonfrag":
		return jsonFragments
	case "jsonrpc":
		var out []string
		for _, t := range rpcTemplates {
			out = append(out, fmt.Sprintf(t, "2"), "\n"+fmt.Sprintf(t, "7")+"\n")
		}
		return out
	case "sse":
		out := append([]string{}, sseLines...)
		for _, t := range rpcTemplates[:5] {
			out = append(out, "event: message\ndata: "+fmt.Sprintf(t, "3")+"\n\n")
		}
		return out
	}
	return nil
}

func protoText(class string, rng *rand.Rand, salt int64) string {
	if v := protoVariants(class); salt >= 0 && salt < int64(len(v)) {
		return v[salt]
	}
	switch class {
	case "wsonly", "punct", "jsonlit":
		return pick(rng, wholeTexts[class])
	case "jsonrpc":
		m := rpcMessage(rng)
		switch rng.Intn(7) {
		case 0, 1:
			return m
		case 2:
			return "\n" + m
		case 3:
			return m + "\n"
		case 4:
			var b bytes.Buffer
			if json.Indent(&b, []byte(m), "", "  ") == nil {
				return b.String()
			}
			return m
		case 5:
			return asciiWord(rng, 1+rng.Intn(8)) + " " + m + " " + asciiWord(rng, 1+rng.Intn(8))
		default:
			return m + "\n" + rpcMessage(rng) + "\n"
		}
	case "jsonfrag":
		if rng.Intn(2) == 0 {
			return pick(rng, jsonFragments)
		}
		return mixed(rng, jsonFragments)
	case "sse":
		switch rng.Intn(4) {
		case 0:
			return pick(rng, sseLines)
		case 1:
			return mixed(rng, sseLines)
		case 2:
			return "event: message\ndata: " + rpcMessage(rng) + "\n\n"
		default:
			return fmt.Sprintf("\n\nid: %d\nevent: message\ndata: %s\n\n", rng.Intn(400), rpcMessage(rng))
		}
	}
	panic("unknown protocol text class " + class)
}

// URIs (non-empty, %d is a number) and MIME types that look like protocol text
var (
	lookURIs = []string{"error:%d", `{"jsonrpc":"2.0","id":%d,"error":{"code":-32603,"message":"x"}}`, "data: %d", `"error":%d`, "null#%d", "event: message %d",
		"res://x/%d\n\ndata: {}\n\n", "id: %d", ": %d", `\%d`, " %d ", "result/%d", "_meta/%d", `"%d`, "{}%d", "%d\r\n"}
	lookMimes = []string{"null", "{}", `"error":`, "error", "application/json\r\ndata: x", " ", `\`, `"`, "event: message", `{"jsonrpc":"2.0"}`, "[]", "text", "\n", "text/plain\n\n"}
)

// rcParts draws the URI and MIME type of resource contents; one third of each are look-alikes.
func rcParts(it itemSpec) (uri, mime string, lookURI, lookMime bool) {
	rng := rand.New(rand.NewSource(it.Salt ^ 0x5eed5eed))
	form := pick(rng, uriForms)
	if lookURI = rng.Intn(3) == 0; lookURI {
		form = pick(rng, lookURIs)
	}
	uri = fmt.Sprintf(form, rng.Intn(1000))
	mimes := blobMimes
	if it.Kind == kEmbText || it.Kind == kResText {
		mimes = textMimes
	}
	mime = pick(rng, mimes)
	if lookMime = rng.Intn(3) == 0; lookMime {
		mime = pick(rng, lookMimes)
	}
	return
}

// mediaMime draws the MIME type of an image / audio item; one third are look-alikes.
func mediaMime(it itemSpec) (mime string, look bool) {
	rng := rand.New(rand.NewSource(it.Salt ^ 0x1234abcd))
	mimes := imageMimes
	if it.Kind == kAudio {
		mimes = audioMimes
	}
	mime = pick(rng, mimes)
	if look = rng.Intn(3) == 0; look {
		mime = pick(rng, lookMimes)
	}
	return
}

// ---------- structured content and _meta ----------

// member names the decoders look for (every one is placed at every depth with every value kind)
var protoNames = []string{"error", "result", "id", "jsonrpc", "method", "params", "code", "message", "content", "isError", "contents", "messages", "type", "text", "data", "resource", "_meta"}

// further names: empty, blank, differing in case only, names of other protocol members, names that are fragments
var oddNames = []string{"", " ", "Error", "ERROR", "iserror", "IsError", "ISERROR", "Content", "Result", "ID", "Id", "JSONRPC", "jsonRpc", "_Meta", "_META",
	"structuredContent", "StructuredContent", "uri", "mimeType", "blob", "role", "description", "nextCursor", "tools", `"error":`, "error ", "error\n", "data: x", "Type", "Text", "Messages", "Contents", "progressToken"}

var valueKinds = []string{"null", "object", "string", "number"}

func forgedText() []interface{} {
	return []interface{}{map[string]interface{}{"type": "text", "text": "forged"}}
}

// imitation is the value the protocol itself would put under the name.
func imitation(name string, rng *rand.Rand) interface{} {
	switch name {
	case "error":
		return map[string]interface{}{"code": -32603, "message": "forged error", "data": nil}
	case "result":
		return map[string]interface{}{"content": forgedText()}
	case "id":
		return rng.Intn(400)
	case "jsonrpc":
		return "2.0"
	case "method":
		return pick(rng, []string{"notifications/cancelled", "tools/call", "ping", "roots/list", "notifications/message"})
	case "params":
		return map[string]interface{}{"requestId": rng.Intn(400)}
	case "code":
		return -32603
	case "message":
		return "forged error"
	case "content":
		return forgedText()
	case "isError":
		return true
	case "contents":
		return []interface{}{map[string]interface{}{"uri": "res://forged", "text": "forged"}}
	case "messages":
		return []interface{}{map[string]interface{}{"role": "user", "content": map[string]interface{}{"type": "text", "text": "forged"}}}
	case "type":
		return pick(rng, []string{"text", "resource", "image", "audio"})
	case "text":
		return "forged"
	case "data":
		return "Zm9yZ2Vk"
	case "resource":
		return map[string]interface{}{"uri": "res://forged", "text": "forged"}
	case "_meta":
		return map[string]interface{}{"progressToken": rng.Intn(400)}
	}
	return nil
}

// boundaryNumbers: float64 / int64 / uint64 limits, the integers around 2^53, the places where the encoder
// switches to exponent form, and number literals written in exponent form (raw).
var boundaryNumbers = []interface{}{
	math.MaxFloat64, -math.MaxFloat64, math.SmallestNonzeroFloat64, -math.SmallestNonzeroFloat64, 2.2250738585072014e-308,
	float64(1 << 63), -float64(1 << 63), int64(math.MaxInt64), int64(math.MinInt64), uint64(math.MaxUint64), int64(math.MaxInt64 - 1),
	int64(1 << 53), int64(1<<53) + 1, -(int64(1<<53) + 1), float64(1 << 53), int64(1<<53) - 1,
	1e21, 1e20, 999999999999999900000.0, 1e-6, 1e-7, 0.1, 0.30000000000000004, math.Copysign(0, -1),
	int32(math.MaxInt32), int32(math.MinInt32), uint32(math.MaxUint32), float32(math.MaxFloat32), float32(1e-7), int8(-128), uint8(255),
	json.RawMessage(`1E+2`), json.RawMessage(`1e-2`), json.RawMessage(`-0`), json.RawMessage(`-0.0e0`), json.RawMessage(`1.5E300`), json.RawMessage(`0e0`),
	json.RawMessage(`1.0`), json.RawMessage(`100000000000000000000000000000`), json.RawMessage(`0.000000000000000000000000000001`), json.RawMessage(`-1E-320`),
	json.RawMessage(`1.7976931348623157E+308`), json.RawMessage(`9223372036854775808`), json.RawMessage(`-9223372036854775809`),
	json.Number("1e2"), json.Number("18446744073709551616"), json.Number("-1.0E-5"),
}

func protoNumber(rng *rand.Rand) interface{} {
	if rng.Intn(3) == 0 {
		return rng.Intn(400)
	}
	return boundaryNumbers[rng.Intn(len(boundaryNumbers))]
}

// protoValue builds a value of the given kind for a member of the given name.
func protoValue(name, kind string, rng *rand.Rand) interface{} {
	im := imitation(name, rng)
	switch kind {
	case "null":
		return nil
	case "object":
		if m, ok := im.(map[string]interface{}); ok && rng.Intn(3) != 0 {
			return m
		}
		switch rng.Intn(3) {
		case 0:
			return map[string]interface{}{}
		case 1:
			return map[string]interface{}{"jsonrpc": "2.0", "id": rng.Intn(400)}
		default:
			return map[string]interface{}{"code": 0, "message": ""}
		}
	case "string":
		if s, ok := im.(string); ok && rng.Intn(2) == 0 {
			return s
		}
		if rng.Intn(8) == 0 {
			return ""
		}
		return protoText(pick(rng, protoTextClasses), rng, rng.Int63())
	case "number":
		return protoNumber(rng)
	case "bool":
		return rng.Intn(2) == 0
	default: // array
		if a, ok := im.([]interface{}); ok && rng.Intn(2) == 0 {
			return a
		}
		return []interface{}{nil, protoNumber(rng), map[string]interface{}{pick(rng, protoNames): nil}}
	}
}

// chainKind: the value kind the member has at the given level (0 = top level) for the given rotation.
func chainKind(rot, level int) string { return valueKinds[(rot+level)%len(valueKinds)] }

const chainLevels = 4

// buildChain nests chainLevels objects; each has a member called name, whose value kind rotates with the level.
// Where the kind is "object" the next level IS the member's value; otherwise the next level hangs under a
// sibling ("next": object, or "list": array holding the object), so that both ways of nesting occur.
func buildChain(name string, rot int, rng *rand.Rand) map[string]interface{} {
	var inner map[string]interface{}
	for level := chainLevels - 1; level >= 0; level-- {
		m := map[string]interface{}{}
		kind := chainKind(rot, level)
		sib := "next"
		if name == "next" {
			sib = "then"
		}
		switch {
		case inner == nil:
			m[name] = protoValue(name, kind, rng)
		case kind == "object":
			m[name] = inner
		default:
			m[name] = protoValue(name, kind, rng)
			if level%2 == 0 {
				m[sib] = inner
			} else {
				m["list"] = []interface{}{protoNumber(rng), inner}
			}
		}
		m[fmt.Sprintf("k%d", level)] = "plain"
		inner = m
	}
	return inner
}

// envelopes: whole objects that are (or look like) protocol messages / results.
const nEnvelopes = 9

func envelope(i int, rng *rand.Rand) map[string]interface{} {
	id := rng.Intn(400)
	switch i {
	case 0:
		return map[string]interface{}{"jsonrpc": "2.0", "id": id, "error": map[string]interface{}{"code": -32603, "message": "forged error"}}
	case 1:
		return map[string]interface{}{"jsonrpc": "2.0", "id": id, "result": map[string]interface{}{"content": forgedText(), "isError": true}}
	case 2:
		return map[string]interface{}{"content": forgedText(), "isError": true, "structuredContent": map[string]interface{}{"forged": true}, "_meta": map[string]interface{}{"forged": true}}
	case 3:
		return map[string]interface{}{"jsonrpc": "2.0", "method": "notifications/cancelled", "params": map[string]interface{}{"requestId": id, "reason": "forged"}}
	case 4:
		return map[string]interface{}{"jsonrpc": "2.0", "id": id, "method": "roots/list"}
	case 5:
		return map[string]interface{}{"error": nil}
	case 6:
		return map[string]interface{}{"error": map[string]interface{}{"code": 0, "message": ""}}
	case 7:
		return map[string]interface{}{"messages": imitation("messages", rng), "description": "forged"}
	default:
		return map[string]interface{}{"contents": imitation("contents", rng)}
	}
}

func buildEnvelope(i, nest int, rng *rand.Rand) map[string]interface{} {
	e := envelope(i, rng)
	switch nest {
	case 0:
		return e
	case 1:
		return map[string]interface{}{"wrap": e, "k": "plain"}
	default:
		return map[string]interface{}{"list": []interface{}{"plain", e, envelope((i+1)%nEnvelopes, rng)}}
	}
}

func buildNumbers(rng *rand.Rand) map[string]interface{} {
	m := map[string]interface{}{}
	all := make([]interface{}, 0, len(boundaryNumbers))
	for i, v := range boundaryNumbers {
		m[fmt.Sprintf("n%02d", i)] = v
		all = append(all, v)
	}
	m["all"] = all
	m["id"] = int64(math.MaxInt64)
	m["code"] = int64(math.MinInt64)
	m["error"] = map[string]interface{}{"code": math.MaxFloat64, "message": json.RawMessage(`-1E+2`), "data": []interface{}{protoNumber(rng), protoNumber(rng)}}
	return m
}

func buildOddKeys(rng *rand.Rand) map[string]interface{} {
	lvl := func(deeper interface{}) map[string]interface{} {
		m := map[string]interface{}{
			"error": 1, "Error": 2, "ERROR": 3, "": 4, " ": 5, "isError": true, "iserror": false, "IsError": nil,
			"content": []interface{}{}, "Content": map[string]interface{}{}, "_meta": map[string]interface{}{}, "_Meta": map[string]interface{}{"": map[string]interface{}{"": nil}},
			"id": "Id", "Id": "ID", "ID": "id", "result": nil, "Result": protoNumber(rng), "type": "Type", "Type": "type",
		}
		for i := 0; i < 4; i++ {
			m[pick(rng, oddNames)] = protoValue(pick(rng, protoNames), valueKinds[rng.Intn(4)], rng)
		}
		if deeper != nil {
			m[""] = deeper
		}
		return m
	}
	return lvl(map[string]interface{}{"": lvl(nil), "Error": []interface{}{lvl(nil)}})
}

// protoNode: a random object whose member names are protocol names, nested to exactly the given depth.
func protoNode(rng *rand.Rand, depth int) map[string]interface{} {
	n := 1 + rng.Intn(5)
	m := make(map[string]interface{}, n)
	names := make([]string, 0, n)
	for len(names) < n {
		nm := pick(rng, protoNames)
		if rng.Intn(4) == 0 {
			nm = pick(rng, oddNames)
		}
		if _, dup := m[nm]; dup {
			continue
		}
		m[nm] = nil
		names = append(names, nm)
	}
	deep := rng.Intn(n)
	kinds := []string{"null", "object", "string", "number", "bool", "array"}
	for i, nm := range names {
		switch {
		case depth > 0 && i == deep:
			sub := protoNode(rng, depth-1)
			if rng.Intn(3) == 0 {
				m[nm] = []interface{}{protoValue(nm, "string", rng), sub}
			} else {
				m[nm] = sub
			}
		case depth > 0 && rng.Intn(3) == 0:
			m[nm] = protoNode(rng, rng.Intn(depth))
		default:
			m[nm] = protoValue(nm, kinds[rng.Intn(len(kinds))], rng)
		}
	}
	return m
}

// tag names the shape of a structured value in coverage keys and signatures (no random values).
func (sp *scSpec) tag() string {
	switch sp.Mode {
	case "":
		return strconv.Itoa(sp.Depth)
	case "chain":
		return fmt.Sprintf(":member(%s,r%d)", sp.Arg, sp.Rot)
	case "envelope":
		return fmt.Sprintf(":envelope(e%d,nest%d)", sp.Rot, sp.Depth)
	}
	return fmt.Sprintf(":%s%d", sp.Mode, sp.Depth)
}

// class is the signature class of a structured value.
func (sp *scSpec) class() string {
	switch sp.Mode {
	case "":
		return "generated"
	case "chain":
		return "member:" + sp.Arg
	case "envelope":
		return fmt.Sprintf("envelope:e%d", sp.Rot)
	}
	return sp.Mode
}

// buildProtoSC builds the structured value of the non-default modes.
func buildProtoSC(sp *scSpec) map[string]interface{} {
	rng := rand.New(rand.NewSource(sp.Salt))
	switch sp.Mode {
	case "chain":
		return buildChain(sp.Arg, sp.Rot, rng)
	case "envelope":
		return buildEnvelope(sp.Rot, sp.Depth, rng)
	case "numbers":
		return buildNumbers(rng)
	case "keys":
		return buildOddKeys(rng)
	case "proto":
		return protoNode(rng, sp.Depth)
	}
	panic("unknown structured mode " + sp.Mode)
}

// buildMeta builds the _meta object of a result (nil when the case has none).
func buildMeta(sp *scSpec) map[string]interface{} {
	if sp == nil {
		return nil
	}
	m, _ := buildSC(sp).(map[string]interface{})
	return m
}

// protoTail: the signature tail component of a case whose structured content / _meta is under test.
func (c *caseSpec) protoTail() string {
	s := ""
	if c.SC != nil && c.SC.Mode != "" {
		s = "structured=" + c.SC.class()
	}
	if c.Meta != nil {
		if s != "" {
			s += "+"
		}
		s += "meta=" + c.Meta.class()
	}
	return s
}

// addProtoCases appends the deterministic look-alike cases to the table.
func (b *tableBuilder) addProtoCases() {
	rng := b.rng
	text := func() []itemSpec { return []itemSpec{b.item(kText, "ascii")} }
	user := []string{"user"}
	const metaRots = 4
	for ni, name := range protoNames {
		for rot := 0; rot < 4; rot++ {
			b.add(caseSpec{Method: mTool, Shape: "extra", Label: "structured-member", SC: &scSpec{Mode: "chain", Arg: name, Rot: rot, Depth: chainLevels, Salt: rng.Int63()}, Items: text()})
		}
		for j := 0; j < metaRots; j++ {
			rot := (ni + j) % 4
			b.add(caseSpec{Method: mTool, Shape: "extra", Label: "meta-member", Meta: &scSpec{Mode: "chain", Arg: name, Rot: rot, Depth: chainLevels, Salt: rng.Int63()}, Items: text()})
			b.add(caseSpec{Method: mPrompt, Shape: "extra", Label: "meta-member", Meta: &scSpec{Mode: "chain", Arg: name, Rot: (rot + 1) % 4, Depth: chainLevels, Salt: rng.Int63()}, Items: text(), Roles: user})
		}
	}
	for e := 0; e < nEnvelopes; e++ {
		for nest := 0; nest <= 2; nest++ {
			sp := func() *scSpec { return &scSpec{Mode: "envelope", Rot: e, Depth: nest, Salt: rng.Int63()} }
			b.add(caseSpec{Method: mTool, Shape: "extra", Label: "structured-envelope", SC: sp(), Items: text()})
			b.add(caseSpec{Method: mTool, Shape: "extra", Label: "meta-envelope", Meta: sp(), Items: text()})
			b.add(caseSpec{Method: mPrompt, Shape: "extra", Label: "meta-envelope", Meta: sp(), Items: text(), Roles: user})
		}
	}
	for _, mode := range []string{"numbers", "keys"} {
		sp := func() *scSpec { return &scSpec{Mode: mode, Depth: 2, Salt: rng.Int63()} }
		b.add(caseSpec{Method: mTool, Shape: "extra", Label: "structured-" + mode, SC: sp(), Items: text()})
		b.add(caseSpec{Method: mTool, Shape: "extra", Label: "structured-" + mode + "-only", SC: sp()})
		b.add(caseSpec{Method: mTool, Shape: "extra", Label: "meta-" + mode, Meta: sp(), Items: text()})
		b.add(caseSpec{Method: mPrompt, Shape: "extra", Label: "meta-" + mode, Meta: sp(), Items: text(), Roles: user})
	}
	for d := 0; d <= 5; d++ {
		sp := func() *scSpec { return &scSpec{Mode: "proto", Depth: d, Salt: rng.Int63()} }
		b.add(caseSpec{Method: mTool, Shape: "extra", Label: "structured-names", SC: sp(), Items: text()})
		b.add(caseSpec{Method: mTool, Shape: "extra", Label: "structured-names-iserror", IsError: true, SC: sp(), Meta: sp(), Items: text()})
		b.add(caseSpec{Method: mTool, Shape: "extra", Label: "meta-names", Meta: sp(), Items: text()})
		b.add(caseSpec{Method: mPrompt, Shape: "extra", Label: "meta-names", Meta: sp(), Items: text(), Roles: user})
		b.add(caseSpec{Method: mTool, Shape: "extra", Label: "meta-generated", Meta: &scSpec{Depth: d, Salt: rng.Int63()}, Items: text()})
		b.add(caseSpec{Method: mPrompt, Shape: "extra", Label: "meta-generated", Meta: &scSpec{Depth: d, Salt: rng.Int63()}, Items: text(), Roles: user})
	}
	// every enumerated look-alike text alone: as a tool text, as a prompt message text with the same description,
	// as a resource text, as a handler error message
	methods := []string{mTool, mPrompt, mRes}
	for _, cl := range protoTextClasses {
		for v := range protoVariants(cl) {
			salt := int64(v)
			b.add(caseSpec{Method: mTool, Shape: "atom", Label: "variant", Items: []itemSpec{{Kind: kText, Class: cl, Salt: salt}}})
			b.add(caseSpec{Method: mPrompt, Shape: "atom", Label: "variant", Items: []itemSpec{{Kind: kText, Class: cl, Salt: salt}}, Roles: []string{[]string{"user", "assistant"}[v%2]},
				Desc: &itemSpec{Kind: "description", Class: cl, Salt: salt}})
			b.add(caseSpec{Method: mRes, Shape: "atom", Label: "variant", Single: v%2 == 0, Items: []itemSpec{{Kind: kResText, Class: cl, Salt: salt}}})
			b.add(caseSpec{Method: methods[v%3], Shape: "error", Label: "variant", Single: methods[v%3] == mRes && v%2 == 0, Err: &itemSpec{Kind: kHErr, Class: cl, Salt: salt}})
		}
	}
	// results that carry look-alikes everywhere at once
	for i := 0; i < 6; i++ {
		cl := protoTextClasses[i%len(protoTextClasses)]
		b.add(caseSpec{Method: mTool, Shape: "extra", Label: "lookalike-everywhere", IsError: i%2 == 1,
			SC: &scSpec{Mode: "proto", Depth: 3, Salt: rng.Int63()}, Meta: &scSpec{Mode: "proto", Depth: 2, Salt: rng.Int63()},
			Items: []itemSpec{b.item(kText, cl), b.item(kEmbText, protoTextClasses[(i+1)%len(protoTextClasses)]), b.item(kImage, "b64-small")}})
		b.add(caseSpec{Method: mPrompt, Shape: "extra", Label: "lookalike-everywhere", Meta: &scSpec{Mode: "proto", Depth: 2, Salt: rng.Int63()},
			Desc:  &itemSpec{Kind: "description", Class: protoTextClasses[(i+2)%len(protoTextClasses)], Salt: rng.Int63()},
			Items: []itemSpec{b.item(kText, cl), b.item(kEmbText, protoTextClasses[(i+3)%len(protoTextClasses)])}, Roles: []string{"assistant", "user"}})
	}
}
