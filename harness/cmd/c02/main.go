// C02 — what a handler returns is what the caller receives (wire fidelity).
package main

import (
	"context"
	"encoding/json"
	"errors"
	"fmt"
	"os"
	"sort"
	"strconv"
	"strings"
	"sync"
	"sync/atomic"
	"time"

	mcp "trpc.group/trpc-go/trpc-mcp-go"

	"verifharness/lib/kit"
	"verifharness/lib/vh"
)

const (
	callTimeout = 60 * time.Second
	hangGrace   = 15 * time.Second
	chunkSize   = 1000
	workers     = 6
)

func combosFor(tier string) int {
	if tier == "thorough" {
		return 2000
	}
	return 150
}

func descRandomFor(tier string) int {
	if tier == "thorough" {
		return 200
	}
	return 30
}

// tableFor is used by the parent and by the stdio child: same seed and tier => same table.
func tableFor(seed int64, tier string) []caseSpec {
	return buildTable((&vh.Run{Seed: seed}).Rand("c02-table"), tier, combosFor(tier))
}

func descriptorsFor(seed int64, tier string) *descSet {
	return buildDescriptors((&vh.Run{Seed: seed}).Rand("c02-descriptors"), descRandomFor(tier))
}

func envSeedTier() (int64, string) {
	s, _ := strconv.ParseInt(os.Getenv("C02_SEED"), 10, 64)
	return s, os.Getenv("C02_TIER")
}

func init() {
	kit.Fixtures["c02"] = func(in *kit.Instance) {
		seed, tier := envSeedTier()
		registerCases(in, tableFor(seed, tier))
	}
	kit.Fixtures["c02d"] = func(in *kit.Instance) {
		seed, tier := envSeedTier()
		registerDescriptors(in, descriptorsFor(seed, tier))
	}
}

// registerCases registers the handlers that serve the case table: tool "c02" and prompt "c02" keyed by the
// "case" argument, one resource res://case/<n> per resources/read case.
func registerCases(in *kit.Instance, tbl []caseSpec) {
	byKey := make(map[string]*caseSpec, len(tbl))
	for i := range tbl {
		byKey[tbl[i].Key] = &tbl[i]
	}
	digest := tableDigest(tbl)
	in.RegisterTool(mcp.NewTool("c02", mcp.WithDescription("serves a generated value"), mcp.WithString("case", mcp.Required())),
		func(ctx context.Context, req *mcp.CallToolRequest) (*mcp.CallToolResult, error) {
			key, _ := req.Params.Arguments["case"].(string)
			if key == "__digest" {
				return mcp.NewTextResult(digest), nil
			}
			c := byKey[key]
			if c == nil || c.Method != mTool {
				return nil, errors.New("c02 fixture: unknown tool case " + key)
			}
			if c.Err != nil {
				return nil, c.handlerErr()
			}
			return c.toolResult(), nil
		})
	in.RegisterPrompt(&mcp.Prompt{Name: "c02", Description: "serves a generated prompt result", Arguments: []mcp.PromptArgument{{Name: "case", Required: true}}},
		func(ctx context.Context, req *mcp.GetPromptRequest) (*mcp.GetPromptResult, error) {
			key := req.Params.Arguments["case"]
			c := byKey[key]
			if c == nil || c.Method != mPrompt {
				return nil, errors.New("c02 fixture: unknown prompt case " + key)
			}
			if c.Err != nil {
				return nil, c.handlerErr()
			}
			return c.promptResult(), nil
		})
	for i := range tbl {
		c := &tbl[i]
		if c.Method != mRes {
			continue
		}
		res := &mcp.Resource{URI: c.uri(), Name: c.Key}
		if c.Single {
			in.RegisterResource(res, func(ctx context.Context, req *mcp.ReadResourceRequest) (mcp.ResourceContents, error) {
				if c.Err != nil {
					return nil, c.handlerErr()
				}
				return buildRC(c.Items[0]), nil
			})
		} else {
			in.RegisterResources(res, func(ctx context.Context, req *mcp.ReadResourceRequest) ([]mcp.ResourceContents, error) {
				if c.Err != nil {
					return nil, c.handlerErr()
				}
				return c.resContents(), nil
			})
		}
	}
}

// ---------- sessions ----------

type session struct {
	kind kit.Kind
	in   *kit.Instance
	c    *kit.LibClient
}

func openSession(kind kit.Kind, fixture string, seed int64, tier string, reg func(in *kit.Instance)) (*session, error) {
	s := &session{kind: kind}
	var err error
	if kind == kit.Stdio {
		s.c, err = kit.NewStdioClient(fixture, map[string]string{"C02_SEED": strconv.FormatInt(seed, 10), "C02_TIER": tier}, 120*time.Second)
	} else {
		s.in = kit.Start(kind, kit.Opts{})
		reg(s.in)
		s.c, err = s.in.NewClient()
	}
	if err != nil {
		s.close()
		return nil, fmt.Errorf("client %s: %w", kind, err)
	}
	ctx, cancel := context.WithTimeout(context.Background(), 60*time.Second)
	defer cancel()
	done := make(chan error, 1)
	go func() { _, e := s.c.Initialize(ctx, &mcp.InitializeRequest{}); done <- e }()
	select {
	case err = <-done:
	case <-time.After(75 * time.Second):
		err = errors.New("initialize did not return within 75 s")
	}
	if err != nil {
		s.close()
		return nil, fmt.Errorf("initialize %s: %w", kind, err)
	}
	return s, nil
}

// harnessInterference recognises the one failure the harness inflicts on itself: the configurations run in
// parallel in this process, every kit.Instance.Close ends in httptest.Server.Close, and that calls
// http.DefaultTransport.CloseIdleConnections - the transport all library clients share. A request that picked
// an idle connection at that moment fails with this text; the call is repeated alone (phase 2) and judged there.
func harnessInterference(errText string) bool {
	return strings.Contains(errText, "http: CloseIdleConnections called")
}

var harnessRetries atomic.Int64

var (
	closeMaxMilli  atomic.Int64
	closeAbandoned atomic.Int64
	bgCloses       sync.WaitGroup
)

func (s *session) close() {
	if s.c != nil {
		done := make(chan struct{})
		c := s.c
		start := time.Now()
		bgCloses.Add(1)
		go func() {
			defer bgCloses.Done()
			c.Close()
			close(done)
			if ms := time.Since(start).Milliseconds(); ms > closeMaxMilli.Load() {
				closeMaxMilli.Store(ms)
			}
		}()
		if s.kind != kit.Stdio { // the stdio client's Close may wait 5 s for its child; that wait runs in the background
			select {
			case <-done:
			case <-time.After(10 * time.Second):
				closeAbandoned.Add(1)
			}
		}
		s.c = nil
	}
	if s.in != nil {
		s.in.Close()
		s.in = nil
	}
}

// ---------- executing one case ----------

type result struct {
	Spec      *caseSpec
	HasErr    bool
	Err       string
	TimedOut  bool // the call ended with the watchdog deadline or never returned
	Hung      bool
	Diffs     []diff
	Got       interface{} // bounded description of what came back
	Bytes     int64
	ConnDead  bool   // the health probe failed after this call
	FirstErr  string // error seen in the concurrent phase when the sequential re-run differed
	Compared  bool   // a value (or an error message) was actually compared
	WallMilli int64
}

func callCase(s *session, c *caseSpec) (v interface{}, err error, hung bool) {
	ctx, cancel := context.WithTimeout(context.Background(), callTimeout)
	defer cancel()
	type ret struct {
		v   interface{}
		err error
	}
	ch := make(chan ret, 1)
	cl := s.c
	go func() {
		// a panic inside the library client (in the caller's goroutine) is an outcome of this case, not the
		// end of the monitor: it is reported as the call's error and judged as a lost / garbled answer
		defer func() {
			if p := recover(); p != nil {
				ch <- ret{nil, fmt.Errorf("PANIC in the library client while delivering the answer: %v", p)}
			}
		}()
		switch c.Method {
		case mTool:
			req := &mcp.CallToolRequest{}
			req.Params.Name = "c02"
			req.Params.Arguments = map[string]interface{}{"case": c.Key}
			out, e := cl.CallTool(ctx, req)
			ch <- ret{out, e}
		case mPrompt:
			req := &mcp.GetPromptRequest{}
			req.Params.Name = "c02"
			req.Params.Arguments = map[string]string{"case": c.Key}
			out, e := cl.GetPrompt(ctx, req)
			ch <- ret{out, e}
		default:
			req := &mcp.ReadResourceRequest{}
			req.Params.URI = c.uri()
			out, e := cl.ReadResource(ctx, req)
			ch <- ret{out, e}
		}
	}()
	select {
	case x := <-ch:
		return x.v, x.err, false
	case <-time.After(callTimeout + hangGrace):
		return nil, nil, true
	}
}

func execCase(s *session, c *caseSpec) *result {
	start := time.Now()
	res := &result{Spec: c}
	v, err, hung := callCase(s, c)
	res.WallMilli = time.Since(start).Milliseconds()
	if hung {
		res.Hung, res.TimedOut = true, true
		return res
	}
	if err != nil && (errors.Is(err, context.DeadlineExceeded) || strings.Contains(err.Error(), "deadline exceeded")) && time.Since(start) >= callTimeout-time.Second {
		res.TimedOut = true
		res.Err = err.Error()
		return res
	}
	if c.Err != nil { // the handler fails: the caller must get an error carrying the handler's message
		msg := c.errMsg()
		res.Compared = true
		res.Bytes = int64(len(msg))
		switch {
		case err == nil:
			res.Diffs = []diff{{Symptom: "no-error", Part: "error", Item: -1, Class: c.Err.Class, Detail: "handler returned an error, the client call returned a value and a nil error"}}
			res.Got = describeGot(v)
		case !strings.Contains(err.Error(), msg):
			res.Err = err.Error()
			res.Diffs = []diff{{Symptom: "message-lost", Part: "error", Item: -1, Class: c.Err.Class, Detail: fmt.Sprintf("client error %s does not contain the handler's message %s", preview(err.Error()), preview(msg))}}
		default:
			res.Err = preview(err.Error())
		}
		return res
	}
	if err != nil {
		res.HasErr = true
		res.Err = err.Error()
		if len(res.Err) > 400 {
			res.Err = res.Err[:400] + "..."
		}
		return res
	}
	res.Compared = true
	switch c.Method {
	case mTool:
		exp := c.toolResult()
		got, _ := v.(*mcp.CallToolResult)
		res.Diffs = cmpTool(exp, got)
		res.Bytes = payloadBytes(exp)
	case mPrompt:
		exp := c.promptResult()
		got, _ := v.(*mcp.GetPromptResult)
		dc := ""
		if c.Desc != nil {
			dc = c.Desc.Class
		}
		res.Diffs = cmpPrompt(exp, got, dc)
		res.Bytes = payloadBytes(exp)
	default:
		exp := c.resContents()
		if c.Single {
			exp = exp[:1]
		}
		got, _ := v.(*mcp.ReadResourceResult)
		res.Diffs = cmpRead(exp, got)
		res.Bytes = payloadBytes(exp)
	}
	if len(res.Diffs) > 0 {
		res.Got = describeGot(v)
	}
	return res
}

func describeGot(v interface{}) interface{} {
	switch x := v.(type) {
	case *mcp.CallToolResult:
		if x == nil {
			return nil
		}
	case *mcp.GetPromptResult:
		if x == nil {
			return nil
		}
	case *mcp.ReadResourceResult:
		if x == nil {
			return nil
		}
	}
	return describeValue(v)
}

func describeExpected(c *caseSpec) interface{} {
	if c.Big {
		return "(multi-megabyte value, see spec)"
	}
	if c.Err != nil {
		return map[string]interface{}{"handler_error": preview(c.errMsg())}
	}
	switch c.Method {
	case mTool:
		return describeValue(c.toolResult())
	case mPrompt:
		return describeValue(c.promptResult())
	}
	return describeValue(c.resContents())
}

// ---------- running one configuration ----------

type kindRun struct {
	kind    kit.Kind
	results map[int]*result
	fatal   string
}

func runKind(r *vh.Run, kind kit.Kind, tbl []caseSpec, digest string) *kindRun {
	kr := &kindRun{kind: kind, results: map[int]*result{}}
	reg := func(in *kit.Instance) { registerCases(in, tbl) }
	open := func() (*session, error) {
		// httptest.Server.Close (another configuration finishing a chunk) closes the idle connections of
		// http.DefaultTransport, which the library's clients share: an initialize that loses its connection to
		// that is the harness's doing and is repeated
		for try := 0; ; try++ {
			s, err := openSession(kind, "c02", r.Seed, r.Tier, reg)
			if err == nil || try >= 3 || !harnessInterference(err.Error()) {
				return s, err
			}
			harnessRetries.Add(1)
		}
	}
	probe := func(s *session) bool {
		pr := execCase(s, &tbl[0])
		return !pr.HasErr && !pr.TimedOut && len(pr.Diffs) == 0
	}
	var normal, big []int
	for i := range tbl {
		if tbl[i].Big {
			big = append(big, i)
		} else {
			normal = append(normal, i)
		}
	}
	first := true
	// phase 1: chunks of cases, a fresh server + client per chunk, a few calls in flight
	for lo := 0; lo < len(normal); lo += chunkSize {
		hi := lo + chunkSize
		if hi > len(normal) {
			hi = len(normal)
		}
		s, err := open()
		if err != nil {
			kr.fatal = err.Error()
			return kr
		}
		if first {
			first = false
			// the server (for stdio: the child process) must serve the same table
			req := &mcp.CallToolRequest{}
			req.Params.Name = "c02"
			req.Params.Arguments = map[string]interface{}{"case": "__digest"}
			ctx, cancel := context.WithTimeout(context.Background(), 30*time.Second)
			out, err := s.c.CallTool(ctx, req)
			if err != nil && harnessInterference(err.Error()) {
				harnessRetries.Add(1)
				out, err = s.c.CallTool(ctx, req)
			}
			cancel()
			got := ""
			if err == nil && len(out.Content) == 1 {
				if tc, ok := out.Content[0].(mcp.TextContent); ok {
					got = tc.Text
				}
			}
			if got != digest {
				s.close()
				kr.fatal = fmt.Sprintf("%s: server serves another case table (digest %q, want %q, err %v)", kind, got, digest, err)
				return kr
			}
		}
		var mu sync.Mutex
		var wg sync.WaitGroup
		jobs := make(chan int)
		for w := 0; w < workers; w++ {
			wg.Add(1)
			go func() {
				defer wg.Done()
				for i := range jobs {
					res := execCase(s, &tbl[i])
					mu.Lock()
					kr.results[i] = res
					mu.Unlock()
				}
			}()
		}
		for _, i := range normal[lo:hi] {
			jobs <- i
		}
		close(jobs)
		wg.Wait()
		s.close()
	}
	// phase 2: every call that failed is repeated alone on a fresh connection, with a health probe after a
	// failure, so that one broken connection cannot be blamed on the values that followed it
	var again []int
	for _, i := range normal {
		if x := kr.results[i]; x.HasErr || x.TimedOut {
			again = append(again, i)
		}
	}
	sort.Ints(again)
	seq := append(again, big...)
	var s *session
	defer func() {
		if s != nil {
			s.close()
		}
	}()
	for _, i := range seq {
		if s == nil {
			var err error
			if s, err = open(); err != nil {
				kr.fatal = err.Error()
				return kr
			}
		}
		res := execCase(s, &tbl[i])
		for try := 0; try < 3 && res.HasErr && harnessInterference(res.Err); try++ {
			harnessRetries.Add(1)
			res = execCase(s, &tbl[i])
		}
		if prev := kr.results[i]; prev != nil && prev.HasErr && !prev.TimedOut && harnessInterference(prev.Err) && !(res.HasErr || res.TimedOut) {
			harnessRetries.Add(1) // not an observation of the library, see harnessInterference
		} else if prev != nil && (prev.HasErr || prev.TimedOut) && !(res.HasErr || res.TimedOut) {
			res.FirstErr = prev.Err
			if prev.TimedOut {
				res.FirstErr = "timed out: " + prev.Err
			}
		}
		if res.HasErr || res.TimedOut || tbl[i].Big {
			if res.HasErr || res.TimedOut {
				if !probe(s) {
					res.ConnDead = true
					s.close()
					s = nil
				}
			}
		}
		kr.results[i] = res
	}
	return kr
}

// ---------- attribution ----------

type finding struct {
	Method  string
	Kind    kit.Kind
	Content string // content kind, or "" for tails that are complete
	Class   string
	Symptom string
	Tail    string // complete signature tail for non-content findings
	What    string
	Witness map[string]interface{}
}

func witnessOf(kind kit.Kind, res *result) map[string]interface{} {
	w := map[string]interface{}{
		"transport": kind,
		"case":      res.Spec,
		"expected":  describeExpected(res.Spec),
	}
	if res.HasErr || res.Err != "" {
		w["client_error"] = res.Err
	}
	if len(res.Diffs) > 0 {
		w["differences"] = res.Diffs
		w["received"] = res.Got
	}
	if res.ConnDead {
		w["connection_unusable_afterwards"] = true
	}
	return w
}

// symptomsOf lists the content-level symptoms of a result: symptom -> item indexes (-1 = whole result).
func contentSymptoms(res *result) map[string][]int {
	out := map[string][]int{}
	if res.HasErr {
		out["client-error"] = []int{-1}
		return out
	}
	for _, d := range res.Diffs {
		if d.Part == "content" || d.Part == "count" {
			out[d.Symptom] = append(out[d.Symptom], d.Item)
		}
	}
	return out
}

func firstDetail(res *result, symptom string) string {
	if symptom == "client-error" {
		return "client call failed: " + res.Err
	}
	for _, d := range res.Diffs {
		if d.Symptom == symptom {
			return d.Detail
		}
	}
	return ""
}

func main() {
	kit.MaybeServeStdioChild()
	kit.Silence()
	r := vh.NewRun("C02", "exploration")

	tbl := tableFor(r.Seed, r.Tier)
	digest := tableDigest(tbl)
	if d2 := tableDigest(tableFor(r.Seed, r.Tier)); d2 != digest {
		r.Fatal("case table is not a deterministic function of the seed")
	}
	selfTest(r, tbl)
	selfTestErrValues(r, tbl)
	nBig := 0
	for i := range tbl {
		r.SetAdd("methods", tbl[i].Method)
		r.Count("cases_"+tbl[i].Shape, 1)
		if tbl[i].Big {
			nBig++
		}
	}
	r.Count("cases_total", int64(len(tbl)))
	r.Count("cases_multi_mib", int64(nBig))

	// --- values: every case through every configuration, configurations in parallel ---
	runs := make([]*kindRun, len(kit.AllKinds))
	var wg sync.WaitGroup
	for ki, kind := range kit.AllKinds {
		wg.Add(1)
		go func(ki int, kind kit.Kind) {
			defer wg.Done()
			runs[ki] = runKind(r, kind, tbl, digest)
		}(ki, kind)
	}
	wg.Wait()
	for _, kr := range runs {
		if kr.fatal != "" {
			r.Fatal("%s", kr.fatal)
		}
	}

	judgeValues(r, tbl, runs)

	// --- descriptors ---
	runDescriptors(r)
	runHistories(r)
	closed := make(chan struct{})
	go func() { bgCloses.Wait(); close(closed) }()
	select {
	case <-closed:
	case <-time.After(12 * time.Second):
	}
	r.Count("calls_repeated_after_httptest_closed_idle_connections", harnessRetries.Load())
	r.Max("client_close_ms", closeMaxMilli.Load())
	r.Count("client_close_abandoned_after_10s", closeAbandoned.Load())

	r.Finish("values: one atom per (method, content kind, string class) + extras (error flag, structured content depth 0-5, roles, descriptions, empty sequences) + handler errors per message class + handler error VALUES (each of the forms: bare sentinel, %w at the start / end / middle, 2 and 4 levels, two %w, %v, errors.Join in four arrangements, custom types with Unwrap() error / Unwrap() []error on pointer and value receivers, Is and As methods, Timeout()/Temporary(), fmt.Formatter, embedded error interface, net.OpError / os.PathError / os.SyscallError / url.Error / json.MarshalerError / strconv.NumError around the sentinel; crossed with context, io, os, net, net/http, syscall errno and the library's exported Err* sentinels; the text alone in pointer / value / string / func kinds, typed nil pointer, json / net / http error structs; own texts rotate over all message classes; each served by a tool, a prompt, a single-content and a multi-content resource handler) + seeded random combinations "+
		"(tool results 0-6 items x isError x structured content x _meta, prompt results 0-4 messages x roles x description x _meta, resource reads 1-4 contents; 40% drawn from text/image with non-empty strings, 60% from all five kinds and all classes); "+
		"protocol look-alikes: six string classes (complete JSON-RPC messages, JSON fragments such as \"error\":, SSE fields / comments / frames, whitespace only, single quote / backslash / bracket, JSON literals) in every text kind, description and handler error message; "+
		"a third of the URIs and MIME types are look-alikes; structured content and _meta (tools, prompts) with each of the 17 member names the decoders look for (error, result, id, jsonrpc, method, params, code, message, content, isError, contents, messages, type, text, data, resource, _meta) "+
		"at 4 nesting levels (through objects and arrays) with the value kinds null / object / string / number rotated over the levels (all 4 rotations, so every name x depth x value kind), whole protocol envelopes as the value or nested in it, empty / blank / case-variant keys, numbers at the float64 / int64 / uint64 limits and in exponent form; "+
		"every value is served by a handler (in-process server or the stdio child) and fetched with the library client of each of the 7 configurations, compared structurally item by item and byte by byte; "+
		"descriptors: tools (NewTool + With* options, 81 annotation combinations, struct-derived schemas), prompts and resources listed through each client and compared as sets by name; "+
		"registration histories: tools, prompts and resources registered one to five times under the same name / URI with another descriptor and another handler (RegisterTool, UnregisterTools, RegisterPrompt, RegisterResource, RegisterResources in every alternation), before the handshake and in two phases after it (performed inside the server process, also the stdio child), unregister + re-register; after every phase the listed descriptors are compared with the last registered ones and every entry is called / got / read and the answer attributed to a handler version. "+
		"A case is distinct by (method, configuration, kind sequence, string-class vector) and non-trivial when the client's value or error was compared with the handler's.",
		[]string{
			"invalid UTF-8 and lone surrogates are outside the statement (encoding/json replaces them) and are not generated",
			"content annotations are not part of the statement and are neither generated nor compared",
			"image/audio data and blobs are valid base64 (including the empty string); MIME types and URIs are non-empty short strings",
			"structured content and _meta are JSON objects at the top level; numbers are finite float64 values or number literals within the float64 range and are compared as float64 (the precision the statement's 'JSON normalisation of numbers' leaves); a client delivering json.Number is accepted",
			"_meta is part of what a tool / prompt handler returns (Result.Meta) and is compared as a JSON value; an empty _meta and no _meta are the same; resource handlers cannot return a _meta",
			"a call that fails although the handler returned a result with look-alike structured content / _meta is attributed to that value when the single-item cases of its content items do not fail on the same configuration",
			"a failing combination is attributed to its smallest failing component by looking up the single-item case of each of its (content kind, string class) components on the same configuration",
			"a call that neither returns nor fails within 60 s is reported as inconclusive",
			"the handler's message is err.Error() of the value the handler returned; the caller's error text has to contain all of it (for error values of every form, as for plain errors); error types with a fmt.Formatter print Error() under %v and %s",
			"list order and pagination are not examined",
			"resource templates cannot be listed through the library clients and a second registration of a template name is rejected by the servers; histories of templates are not examined",
			"a tool that was unregistered and not registered again is expected to be absent from tools/list; it is not called",
		})
}

func judgeValues(r *vh.Run, tbl []caseSpec, runs []*kindRun) {
	var findings []finding
	// atom outcomes per (kind, method, content kind, class) -> set of symptoms
	type atomKey struct {
		kind            kit.Kind
		method, ck, cls string
	}
	atomSym := map[atomKey]map[string]bool{}
	samples := 0
	lookSamples := 0
	evSamples := 0
	look := newLookCount()
	evs := newEVCount()

	for _, kr := range runs {
		for i := range tbl {
			c := &tbl[i]
			res := kr.results[i]
			if res == nil {
				r.Fatal("%s: case %d was not executed", kr.kind, i)
			}
			r.Eval(1)
			r.Count(fmt.Sprintf("calls_%s_%s", c.Method, kr.kind), 1)
			if res.TimedOut {
				r.Inconclusive(fmt.Sprintf("%s %s case %s (%s | %s): no outcome within %s (hung=%v, err=%s)", kr.kind, c.Method, c.Key, c.kindSeq(), c.classVec(), callTimeout, res.Hung, res.Err))
				continue
			}
			r.Distinct(fmt.Sprintf("%s|%s|%s|%s", c.Method, kr.kind, c.kindSeq(), c.classVec()))
			if res.Compared {
				r.Count("compared_"+c.Method, 1)
				if len(res.Diffs) == 0 {
					r.Count("equal_"+c.Method, 1)
					r.Max("payload_bytes_compared_equal", res.Bytes)
					r.Max("payload_bytes_equal_"+string(kr.kind), res.Bytes)
					look.count(r, kr.kind, c)
					evs.count(r, kr.kind, c)
				}
			}
			if c.EV != nil && evSamples < 5 && len(res.Diffs) == 0 && res.Compared && kr.kind == kit.AllKinds[(evSamples*2)%len(kit.AllKinds)] &&
				c.EV.Form == []string{"wrap-suffix", "join", "unwrap-pointer-type", "typed-nil-pointer", "json.MarshalerError"}[evSamples] {
				evSamples++
				r.Sample(map[string]interface{}{"transport": kr.kind, "case": c, "handler_error": preview(c.errMsg()), "error_value": chainFacts(c.handlerErr()), "client_error": res.Err, "carried": true})
			}
			if res.HasErr {
				r.Count("client_errors_"+c.Method, 1)
			}
			if c.Shape == "combo" {
				switch {
				case res.HasErr:
					r.Count("combinations_client_error", 1)
				case len(res.Diffs) == 0:
					r.Count("combinations_compared_equal", 1)
					if len(c.Items) >= 2 {
						r.Count("combinations_multi_item_compared_equal", 1)
					}
				default:
					r.Count("combinations_compared_different", 1)
				}
			}
			if res.FirstErr != "" {
				r.Count("failed_only_with_other_calls_in_flight", 1)
				findings = append(findings, finding{Method: c.Method, Kind: kr.kind, Tail: "calls-in-flight|client-error",
					What:    fmt.Sprintf("%s %s: the call failed (%s) while other calls were in flight on the same client and succeeded when repeated alone", kr.kind, c.Method, res.FirstErr),
					Witness: map[string]interface{}{"transport": kr.kind, "case": c, "first_error": res.FirstErr}})
			}
			if samples < 4 && c.Shape == "combo" && len(c.Items) >= 2 && (kr.kind == kit.SSSE || kr.kind == kit.Stdio) {
				samples++
				r.Sample(map[string]interface{}{"transport": kr.kind, "case": c, "handler_value": describeExpected(c), "client_error": res.Err, "differences": res.Diffs, "equal": res.Compared && len(res.Diffs) == 0})
			}
			if lookSamples < 3 && c.Shape == "extra" && c.protoTail() != "" && (lookSamples == 0) == (c.SC != nil && c.SC.Mode == "chain") && kr.kind == kit.AllKinds[(lookSamples*3)%len(kit.AllKinds)] {
				lookSamples++
				r.Sample(map[string]interface{}{"transport": kr.kind, "case": c, "handler_value": describeExpected(c), "client_error": res.Err, "differences": res.Diffs, "equal": res.Compared && len(res.Diffs) == 0})
			}
			if c.Shape == "atom" {
				k := atomKey{kr.kind, c.Method, c.Items[0].Kind, c.Items[0].Class}
				if atomSym[k] == nil {
					atomSym[k] = map[string]bool{}
				}
				for sym := range contentSymptoms(res) {
					atomSym[k][sym] = true
				}
			}
		}
	}

	for _, kr := range runs {
		for i := range tbl {
			c := &tbl[i]
			res := kr.results[i]
			if res.TimedOut {
				continue
			}
			wit := func() map[string]interface{} { return witnessOf(kr.kind, res) }
			// handler errors
			if c.Err != nil {
				if c.EV != nil { // error values: see evFindings
					continue
				}
				for _, d := range res.Diffs {
					findings = append(findings, finding{Method: c.Method, Kind: kr.kind, Content: kHErr, Class: c.Err.Class, Symptom: d.Symptom,
						What: fmt.Sprintf("%s %s: handler error with a %s message: %s", kr.kind, c.Method, c.Err.Class, d.Detail), Witness: wit()})
				}
				continue
			}
			// content-level symptoms
			for sym, idxs := range contentSymptoms(res) {
				// a call that fails although the handler returned a result whose structured content / _meta is under
				// test, and whose content items alone do not fail: attributed to the structured value
				if sym == "client-error" && c.protoTail() != "" {
					explained := false
					for _, it := range c.Items {
						if atomSym[atomKey{kr.kind, c.Method, it.Kind, it.Class}][sym] {
							explained = true
						}
					}
					if !explained {
						findings = append(findings, finding{Method: c.Method, Kind: kr.kind, Tail: c.protoTail() + "|client-error",
							What:    fmt.Sprintf("%s %s: the handler returned a successful result (%s), the caller got an error: %s", kr.kind, c.Method, c.kindSeq(), res.Err),
							Witness: wit()})
						continue
					}
				}
				switch {
				case len(c.Items) == 0:
					findings = append(findings, finding{Method: c.Method, Kind: kr.kind, Tail: "content=none|" + sym,
						What: fmt.Sprintf("%s %s: a result without items: %s", kr.kind, c.Method, firstDetail(res, sym)), Witness: wit()})
				case len(c.Items) == 1:
					it := c.Items[0]
					findings = append(findings, finding{Method: c.Method, Kind: kr.kind, Content: it.Kind, Class: it.Class, Symptom: sym,
						What: fmt.Sprintf("%s %s: a single %s item of string class %s: %s", kr.kind, c.Method, it.Kind, it.Class, firstDetail(res, sym)), Witness: wit()})
				default:
					// a difference located in one item of a combination is attributed to that item's (kind, class)
					if len(idxs) > 0 && idxs[0] >= 0 {
						seen := map[int]bool{}
						for _, ix := range idxs {
							if ix < 0 || ix >= len(c.Items) || seen[ix] {
								continue
							}
							seen[ix] = true
							it := c.Items[ix]
							detail := ""
							for _, d := range res.Diffs {
								if d.Symptom == sym && d.Item == ix {
									detail = d.Detail
									break
								}
							}
							findings = append(findings, finding{Method: c.Method, Kind: kr.kind, Content: it.Kind, Class: it.Class, Symptom: sym,
								What: fmt.Sprintf("%s %s: item %d (%s, string class %s) of a %d-item result: %s", kr.kind, c.Method, ix, it.Kind, it.Class, len(c.Items), detail), Witness: wit()})
						}
						continue
					}
					// a failure of the whole combination (client error, item count): explained when the single-item case
					// of one of its components fails the same way on the same configuration
					explained := false
					cand := c.Items
					for _, it := range cand {
						if atomSym[atomKey{kr.kind, c.Method, it.Kind, it.Class}][sym] {
							explained = true
							break
						}
					}
					if explained {
						r.Count("combinations_failing_explained_by_a_component", 1)
					} else {
						r.Count("combinations_failing_unexplained", 1)
						findings = append(findings, finding{Method: c.Method, Kind: kr.kind, Tail: "content=combination|" + sym,
							What:    fmt.Sprintf("%s %s: a combination (%s | %s) fails although each component alone does not: %s", kr.kind, c.Method, c.kindSeq(), c.classVec(), firstDetail(res, sym)),
							Witness: wit()})
					}
				}
			}
			// result-level symptoms carry their own class
			for _, d := range res.Diffs {
				switch d.Part {
				case "iserror":
					findings = append(findings, finding{Method: c.Method, Kind: kr.kind, Tail: "iserror=" + d.Class + "|iserror-differs",
						What: fmt.Sprintf("%s %s: %s", kr.kind, c.Method, d.Detail), Witness: wit()})
				case "structured":
					cls := d.Class
					if c.SC != nil && c.SC.Mode != "" {
						cls = c.SC.class() + ":" + d.Class
					}
					findings = append(findings, finding{Method: c.Method, Kind: kr.kind, Tail: "structured=" + cls + "|structured-differs",
						What: fmt.Sprintf("%s %s: structured content: %s", kr.kind, c.Method, d.Detail), Witness: wit()})
				case "meta":
					cls := d.Class
					if c.Meta != nil {
						cls = c.Meta.class() + ":" + d.Class
					}
					findings = append(findings, finding{Method: c.Method, Kind: kr.kind, Tail: "meta=" + cls + "|meta-differs",
						What: fmt.Sprintf("%s %s: %s", kr.kind, c.Method, d.Detail), Witness: wit()})
				case "description":
					findings = append(findings, finding{Method: c.Method, Kind: kr.kind, Tail: "description|string=" + d.Class + "|text-differs",
						What: fmt.Sprintf("%s %s: %s", kr.kind, c.Method, d.Detail), Witness: wit()})
				case "role":
					findings = append(findings, finding{Method: c.Method, Kind: kr.kind, Tail: "role=" + d.Class + "|field-differs",
						What: fmt.Sprintf("%s %s: %s", kr.kind, c.Method, d.Detail), Witness: wit()})
				}
			}
		}
	}

	findings = append(findings, evFindings(tbl, runs)...)

	// wire corroboration for failing single items: what did the server put on the wire (library-free peer)?
	corroborate(r, tbl, findings)

	emit(r, findings)

	// non-vacuity
	for _, m := range []string{mTool, mPrompt, mRes} {
		if r.Counter("equal_"+m) == 0 {
			r.Require(false, "no %s value arrived equal on any configuration", m)
		}
	}
	look.requireObserved(r)
	evs.requireObserved(r)
}

// lookCount counts, per configuration, the protocol look-alikes that were fetched and compared equal.
type lookCount struct {
	texts   map[string]bool // method|class
	errs    map[string]bool // method|class
	members map[string]bool // carrier|method|configuration
}

func newLookCount() *lookCount {
	return &lookCount{texts: map[string]bool{}, errs: map[string]bool{}, members: map[string]bool{}}
}

func (l *lookCount) count(r *vh.Run, kind kit.Kind, c *caseSpec) {
	if c.Err != nil {
		if isProtoTextClass(c.Err.Class) {
			r.Count("lookalike_handler_error_messages_carried", 1)
			l.errs[c.Method+"|"+c.Err.Class] = true
		}
		return
	}
	items := c.Items
	if c.Single {
		items = items[:1]
	}
	for _, it := range items {
		if isTextKind(it.Kind) && isProtoTextClass(it.Class) {
			r.Count("lookalike_texts_equal", 1)
			r.SetAdd("lookalike_texts_equal", fmt.Sprintf("%s|%s|%s|%s", c.Method, kind, it.Kind, it.Class))
			l.texts[c.Method+"|"+it.Class] = true
		}
		switch it.Kind {
		case kEmbText, kEmbBlob, kResText, kResBlob:
			_, _, lu, lm := rcParts(it)
			if lu {
				r.Count("lookalike_uris_equal", 1)
			}
			if lm {
				r.Count("lookalike_mime_types_equal", 1)
			}
		case kImage, kAudio:
			if _, lm := mediaMime(it); lm {
				r.Count("lookalike_mime_types_equal", 1)
			}
		}
	}
	if c.Desc != nil && isProtoTextClass(c.Desc.Class) {
		r.Count("lookalike_descriptions_equal", 1)
		l.texts["description|"+c.Desc.Class] = true
	}
	one := func(carrier string, sp *scSpec) {
		if sp == nil || (sp.Mode == "" && carrier == "structured") {
			return
		}
		mode := sp.Mode
		if mode == "" {
			mode = "generated"
		}
		r.Count(fmt.Sprintf("lookalike_%s_equal_%s_%s", carrier, c.Method, mode), 1)
		if sp.Mode == "chain" {
			l.members[fmt.Sprintf("%s|%s|%s", carrier, c.Method, kind)] = true
			for lvl := 0; lvl < chainLevels; lvl++ {
				r.SetAdd("lookalike_members_equal_"+carrier, fmt.Sprintf("%s|%s|%s|depth%d|%s", c.Method, kind, sp.Arg, lvl+1, chainKind(sp.Rot, lvl)))
			}
		}
	}
	one("structured", c.SC)
	one("meta", c.Meta)
}

// requireObserved: a run in which the look-alike scenarios were not observed to hold must not claim they held.
func (l *lookCount) requireObserved(r *vh.Run) {
	for _, cl := range protoTextClasses {
		for _, m := range []string{mTool, mPrompt, mRes, "description"} {
			if !l.texts[m+"|"+cl] {
				r.Require(false, "no %s text of the look-alike class %s arrived equal on any configuration", m, cl)
			}
		}
		for _, m := range []string{mTool, mPrompt, mRes} {
			if !l.errs[m+"|"+cl] {
				r.Require(false, "no %s handler error with a message of the look-alike class %s was carried on any configuration", m, cl)
			}
		}
	}
	for _, k := range kit.AllKinds {
		for _, cm := range []string{"structured|" + mTool, "meta|" + mTool, "meta|" + mPrompt} {
			if !l.members[cm+"|"+string(k)] {
				r.Require(false, "%s: no result with protocol member names in %s arrived equal", k, cm)
			}
		}
	}
	for _, k := range []string{"lookalike_uris_equal", "lookalike_mime_types_equal", "lookalike_structured_equal_" + mTool + "_numbers", "lookalike_structured_equal_" + mTool + "_keys",
		"lookalike_structured_equal_" + mTool + "_envelope", "lookalike_meta_equal_" + mTool + "_envelope", "lookalike_meta_equal_" + mPrompt + "_envelope"} {
		if r.Counter(k) == 0 {
			r.Require(false, "monitor %s is zero: the scenario was not observed", k)
		}
	}
}

// emit collapses findings to class signatures: all string classes of a content kind -> the kind alone;
// both embedded kinds -> "embedded"; all seven configurations -> "*".
func emit(r *vh.Run, findings []finding) {
	type rowKey struct {
		method  string
		kind    kit.Kind
		content string
		symptom string
	}
	rows := map[rowKey]map[string]bool{}
	for _, f := range findings {
		if f.Tail != "" {
			continue
		}
		k := rowKey{f.Method, f.Kind, f.Content, f.Symptom}
		if rows[k] == nil {
			rows[k] = map[string]bool{}
		}
		rows[k][f.Class] = true
	}
	fullRow := func(k rowKey) bool {
		var all []string
		if k.content == kHErr {
			all = errClasses
		} else {
			all = classesFor(k.content, r.Tier)
		}
		for _, c := range all {
			if !rows[k][c] {
				return false
			}
		}
		return true
	}
	tailOf := func(f finding) string {
		if f.Tail != "" {
			return f.Tail
		}
		k := rowKey{f.Method, f.Kind, f.Content, f.Symptom}
		if !fullRow(k) {
			if f.Content == kHErr {
				return fmt.Sprintf("%s|string=%s|%s", kHErr, f.Class, f.Symptom)
			}
			return fmt.Sprintf("content=%s|string=%s|%s", f.Content, f.Class, f.Symptom)
		}
		if f.Content == kHErr {
			return kHErr + "|" + f.Symptom
		}
		if f.Content == kEmbText || f.Content == kEmbBlob {
			other := kEmbBlob
			if f.Content == kEmbBlob {
				other = kEmbText
			}
			if fullRow(rowKey{f.Method, f.Kind, other, f.Symptom}) {
				return "content=embedded|" + f.Symptom
			}
		}
		return fmt.Sprintf("content=%s|%s", f.Content, f.Symptom)
	}
	type mt struct{ method, tail string }
	kindsOf := map[mt]map[kit.Kind]bool{}
	tails := make([]string, len(findings))
	for i, f := range findings {
		tails[i] = tailOf(f)
		k := mt{f.Method, tails[i]}
		if kindsOf[k] == nil {
			kindsOf[k] = map[kit.Kind]bool{}
		}
		kindsOf[k][f.Kind] = true
	}
	// stable order: by signature, then configuration order
	order := make([]int, len(findings))
	for i := range order {
		order[i] = i
	}
	kindPos := map[kit.Kind]int{}
	for i, k := range kit.AllKinds {
		kindPos[k] = i
	}
	// the three witnesses kept per signature should be simple values on different transport families
	for i, k := range []kit.Kind{kit.SJSON, kit.LSSE, kit.Stdio, kit.SSSE, kit.SLJSON, kit.SLSSE, kit.SNoSess} {
		kindPos[k] = i
	}
	classRank := func(c string) int {
		switch c {
		case "ascii", "b64-small":
			return 0
		case "":
			return 1
		}
		return 2
	}
	sort.SliceStable(order, func(a, b int) bool {
		fa, fb := findings[order[a]], findings[order[b]]
		if fa.Method != fb.Method {
			return fa.Method < fb.Method
		}
		if tails[order[a]] != tails[order[b]] {
			return tails[order[a]] < tails[order[b]]
		}
		if ra, rb := classRank(fa.Class), classRank(fb.Class); ra != rb {
			return ra < rb
		}
		return kindPos[fa.Kind] < kindPos[fb.Kind]
	})
	// second pass: the n-th finding of a transport within a signature goes after the (n-1)-th of every other one
	type occKey struct {
		method, tail string
		kind         kit.Kind
	}
	occSeen := map[occKey]int{}
	occ := make([]int, len(findings))
	for _, i := range order {
		k := occKey{findings[i].Method, tails[i], findings[i].Kind}
		occ[i] = occSeen[k]
		occSeen[k]++
	}
	sort.SliceStable(order, func(a, b int) bool {
		fa, fb := findings[order[a]], findings[order[b]]
		if fa.Method != fb.Method {
			return fa.Method < fb.Method
		}
		if tails[order[a]] != tails[order[b]] {
			return tails[order[a]] < tails[order[b]]
		}
		return occ[order[a]] < occ[order[b]]
	})
	for _, i := range order {
		f := findings[i]
		tr := string(f.Kind)
		if len(kindsOf[mt{f.Method, tails[i]}]) == len(kit.AllKinds) {
			tr = "*"
		}
		r.Violation(fmt.Sprintf("C02|%s|%s|%s", f.Method, tr, tails[i]), f.What, f.Witness)
	}
}

// ---------- wire corroboration ----------

// corroborate replays failing single-item cases against an S-json server with the library-free raw peer
// and records in the witness what the server wrote: the "type" tag and whether the strings are intact.
func corroborate(r *vh.Run, tbl []caseSpec, findings []finding) {
	need := map[int]bool{}
	for _, f := range findings {
		c, ok := f.Witness["case"].(*caseSpec)
		if !ok || c == nil || c.Big || c.Err != nil || len(c.Items) != 1 {
			continue
		}
		need[c.Idx] = true
	}
	if len(need) == 0 {
		return
	}
	in := kit.Start(kit.SJSON, kit.Opts{})
	defer in.Close()
	registerCases(in, tbl)
	ctx, cancel := context.WithTimeout(context.Background(), 120*time.Second)
	defer cancel()
	rc, err := in.Dial(ctx)
	if err != nil {
		return
	}
	defer rc.Close()
	if err := rc.Handshake(ctx); err != nil {
		return
	}
	wire := map[int]map[string]interface{}{}
	id := 100
	for idx := range need {
		c := &tbl[idx]
		id++
		var body string
		switch c.Method {
		case mTool:
			body = fmt.Sprintf(`{"jsonrpc":"2.0","id":%d,"method":"tools/call","params":{"name":"c02","arguments":{"case":%q}}}`, id, c.Key)
		case mPrompt:
			body = fmt.Sprintf(`{"jsonrpc":"2.0","id":%d,"method":"prompts/get","params":{"name":"c02","arguments":{"case":%q}}}`, id, c.Key)
		default:
			body = fmt.Sprintf(`{"jsonrpc":"2.0","id":%d,"method":"resources/read","params":{"uri":%q}}`, id, c.uri())
		}
		ex := rc.Post(ctx, []byte(body), kit.PostOpts{WantID: strconv.Itoa(id)})
		if len(ex.Frames) == 0 {
			continue
		}
		wire[idx] = wireFacts(c, ex.Frames[len(ex.Frames)-1])
		r.Count("wire_corroborations", 1)
	}
	for _, f := range findings {
		if c, ok := f.Witness["case"].(*caseSpec); ok && c != nil {
			if w, ok := wire[c.Idx]; ok {
				f.Witness["server_wire_S-json"] = w
			}
		}
	}
}

// wireFacts inspects a raw response frame with encoding/json only.
func wireFacts(c *caseSpec, frame string) map[string]interface{} {
	out := map[string]interface{}{}
	ex := frame
	if len(ex) > 260 {
		ex = ex[:260] + "..."
	}
	out["frame_excerpt"] = ex
	var m struct {
		Result struct {
			Content  []map[string]interface{} `json:"content"`
			Messages []struct {
				Role    string                 `json:"role"`
				Content map[string]interface{} `json:"content"`
			} `json:"messages"`
			Contents []map[string]interface{} `json:"contents"`
		} `json:"result"`
		Error json.RawMessage `json:"error"`
	}
	if err := json.Unmarshal([]byte(frame), &m); err != nil {
		out["decode_error"] = err.Error()
		return out
	}
	if m.Error != nil {
		out["jsonrpc_error"] = true
		return out
	}
	var item map[string]interface{}
	switch c.Method {
	case mTool:
		if len(m.Result.Content) == 1 {
			item = m.Result.Content[0]
		}
	case mPrompt:
		if len(m.Result.Messages) == 1 {
			item = m.Result.Messages[0].Content
		}
	default:
		if len(m.Result.Contents) == 1 {
			item = m.Result.Contents[0]
		}
	}
	if item == nil {
		out["items_on_wire"] = "not exactly one"
		return out
	}
	str := func(m map[string]interface{}, k string) (string, bool) { s, ok := m[k].(string); return s, ok }
	if t, ok := str(item, "type"); ok {
		out["type_tag_on_wire"] = t
	}
	it := c.Items[0]
	intact := false
	switch it.Kind {
	case kText:
		s, ok := str(item, "text")
		intact = ok && s == buildText(it.Class, it.Salt)
	case kImage, kAudio:
		s, ok := str(item, "data")
		intact = ok && s == buildData(it.Class, it.Salt)
	default:
		rm := item
		if it.Kind == kEmbText || it.Kind == kEmbBlob {
			rm, _ = item["resource"].(map[string]interface{})
		}
		if rm != nil {
			switch e := buildRC(it).(type) {
			case mcp.TextResourceContents:
				s, ok := str(rm, "text")
				u, _ := str(rm, "uri")
				intact = ok && s == e.Text && u == e.URI
			case mcp.BlobResourceContents:
				s, ok := str(rm, "blob")
				u, _ := str(rm, "uri")
				intact = ok && s == e.Blob && u == e.URI
			}
		}
	}
	out["handler_strings_intact_on_wire"] = intact
	return out
}

// ---------- descriptors ----------

func runDescriptors(r *vh.Run) {
	d := descriptorsFor(r.Seed, r.Tier)
	r.Count("descriptors_tools_registered", int64(len(d.Tools)))
	r.Count("descriptors_prompts_registered", int64(len(d.Prompts)))
	r.Count("descriptors_resources_registered", int64(len(d.Resources)))
	type dres struct {
		kind  kit.Kind
		diffs []descDiff
		errs  []string
		nT    int
		nP    int
		nR    int
	}
	out := make([]*dres, len(kit.AllKinds))
	var wg sync.WaitGroup
	for ki, kind := range kit.AllKinds {
		wg.Add(1)
		go func(ki int, kind kit.Kind) {
			defer wg.Done()
			x := &dres{kind: kind}
			out[ki] = x
			s, err := openSession(kind, "c02d", r.Seed, r.Tier, func(in *kit.Instance) { registerDescriptors(in, d) })
			if err != nil {
				x.errs = append(x.errs, err.Error())
				return
			}
			defer s.close()
			ctx, cancel := context.WithTimeout(context.Background(), callTimeout)
			defer cancel()
			if lt, err := s.c.ListTools(ctx, &mcp.ListToolsRequest{}); err != nil {
				x.diffs = append(x.diffs, descDiff{Method: "tools/list", Field: "client-error", Detail: err.Error()})
			} else {
				var df []descDiff
				df, x.nT = cmpTools(d.Tools, lt.Tools, d.Label)
				x.diffs = append(x.diffs, df...)
			}
			if lp, err := s.c.ListPrompts(ctx, &mcp.ListPromptsRequest{}); err != nil {
				x.diffs = append(x.diffs, descDiff{Method: "prompts/list", Field: "client-error", Detail: err.Error()})
			} else {
				var df []descDiff
				df, x.nP = cmpPrompts(d.Prompts, lp.Prompts, d.Label)
				x.diffs = append(x.diffs, df...)
			}
			if lr, err := s.c.ListResources(ctx, &mcp.ListResourcesRequest{}); err != nil {
				x.diffs = append(x.diffs, descDiff{Method: "resources/list", Field: "client-error", Detail: err.Error()})
			} else {
				var df []descDiff
				df, x.nR = cmpResources(d.Resources, lr.Resources, d.Label)
				x.diffs = append(x.diffs, df...)
			}
		}(ki, kind)
	}
	wg.Wait()
	type key struct{ method, tail string }
	kinds := map[key]map[kit.Kind]bool{}
	tailOf := func(dd descDiff) string {
		if dd.Field == "client-error" {
			return "descriptor|client-error"
		}
		if strings.HasSuffix(dd.Field, "-missing") || strings.HasSuffix(dd.Field, "-unregistered") || strings.HasSuffix(dd.Field, "-duplicated") {
			return "descriptor|" + dd.Field
		}
		return "descriptor|" + dd.Field + "-differs"
	}
	for _, x := range out {
		for _, e := range x.errs {
			r.Fatal("descriptors: %s", e)
		}
		r.Eval(x.nT + x.nP + x.nR)
		r.Count("descriptors_compared_"+string(x.kind), int64(x.nT+x.nP+x.nR))
		for _, t := range d.Tools {
			r.Distinct(fmt.Sprintf("tools/list|%s|%s", x.kind, d.Label["tool:"+t.Name]))
		}
		for _, p := range d.Prompts {
			r.Distinct(fmt.Sprintf("prompts/list|%s|%s", x.kind, d.Label["prompt:"+p.Name]))
		}
		for _, rs := range d.Resources {
			r.Distinct(fmt.Sprintf("resources/list|%s|%s", x.kind, d.Label["resource:"+rs.URI]))
		}
		for _, dd := range x.diffs {
			k := key{dd.Method, tailOf(dd)}
			if kinds[k] == nil {
				kinds[k] = map[kit.Kind]bool{}
			}
			kinds[k][x.kind] = true
		}
	}
	if out[0].nT == 0 || out[0].nP == 0 || out[0].nR == 0 {
		r.Require(false, "descriptor lists were not compared (tools %d, prompts %d, resources %d)", out[0].nT, out[0].nP, out[0].nR)
	}
	for _, x := range out {
		for _, dd := range x.diffs {
			tr := string(x.kind)
			if len(kinds[key{dd.Method, tailOf(dd)}]) == len(kit.AllKinds) {
				tr = "*"
			}
			r.Violation(fmt.Sprintf("C02|%s|%s|%s", dd.Method, tr, tailOf(dd)),
				fmt.Sprintf("%s %s: descriptor %s (%s): %s", x.kind, dd.Method, preview(dd.Name), dd.Label, dd.Detail),
				map[string]interface{}{"transport": x.kind, "difference": dd})
		}
	}
}

// selfTest guards the comparer against vacuity: every generated value equals an independently built copy of
// itself, and differs from the value built from the same spec with other salts wherever a string is involved.
func selfTest(r *vh.Run, tbl []caseSpec) {
	n := 0
	for i := range tbl {
		c := &tbl[i]
		if c.Big || c.Err != nil {
			continue
		}
		m := *c
		m.Items = append([]itemSpec{}, c.Items...)
		changed := false
		for j := range m.Items {
			m.Items[j].Salt++
			if isTextKind(m.Items[j].Kind) {
				changed = changed || buildText(m.Items[j].Class, m.Items[j].Salt) != buildText(c.Items[j].Class, c.Items[j].Salt)
			} else {
				changed = changed || buildData(m.Items[j].Class, m.Items[j].Salt) != buildData(c.Items[j].Class, c.Items[j].Salt)
			}
		}
		var same, other []diff
		switch c.Method {
		case mTool:
			// the "received" side carries structured content the way a JSON decoder delivers it
			asReceived := func(x *mcp.CallToolResult) *mcp.CallToolResult {
				if x.StructuredContent != nil {
					x.StructuredContent, _ = normalise(x.StructuredContent)
				}
				x.Meta = receivedMeta(x.Meta)
				return x
			}
			same = cmpTool(c.toolResult(), asReceived(c.toolResult()))
			other = cmpTool(c.toolResult(), asReceived(m.toolResult()))
		case mPrompt:
			asReceived := func(x *mcp.GetPromptResult) *mcp.GetPromptResult {
				x.Meta = receivedMeta(x.Meta)
				return x
			}
			same = cmpPrompt(c.promptResult(), asReceived(c.promptResult()), "")
			other = cmpPrompt(c.promptResult(), asReceived(m.promptResult()), "")
		default:
			same = cmpRead(c.resContents(), &mcp.ReadResourceResult{Contents: c.resContents()})
			other = cmpRead(c.resContents(), &mcp.ReadResourceResult{Contents: m.resContents()})
		}
		if len(same) != 0 {
			r.Fatal("self-test: case %d differs from its own rebuild: %+v", i, same[0])
		}
		if changed && len(other) == 0 {
			r.Fatal("self-test: comparer does not see a changed string in case %d (%s | %s)", i, c.kindSeq(), c.classVec())
		}
		if changed {
			n++
		}
	}
	// kind changes, flag changes, count changes, structured changes
	a := &mcp.CallToolResult{Content: []mcp.Content{mcp.NewTextContent("x")}, StructuredContent: map[string]interface{}{"a": []interface{}{1, "s", nil}}}
	checks := []struct {
		name string
		got  *mcp.CallToolResult
		sym  string
	}{
		{"kind", &mcp.CallToolResult{Content: []mcp.Content{mcp.NewImageContent("x", "y")}, StructuredContent: map[string]interface{}{"a": []interface{}{1.0, "s", nil}}}, "kind-changed"},
		{"count", &mcp.CallToolResult{StructuredContent: map[string]interface{}{"a": []interface{}{1.0, "s", nil}}}, "item-count"},
		{"flag", &mcp.CallToolResult{Content: []mcp.Content{mcp.NewTextContent("x")}, IsError: true, StructuredContent: map[string]interface{}{"a": []interface{}{1.0, "s", nil}}}, "iserror-differs"},
		{"structured", &mcp.CallToolResult{Content: []mcp.Content{mcp.NewTextContent("x")}, StructuredContent: map[string]interface{}{"a": []interface{}{1.0, "s", false}}}, "structured-differs"},
		{"structured-missing", &mcp.CallToolResult{Content: []mcp.Content{mcp.NewTextContent("x")}}, "structured-differs"},
	}
	for _, ck := range checks {
		ds := cmpTool(a, ck.got)
		if len(ds) != 1 || ds[0].Symptom != ck.sym {
			r.Fatal("self-test %s: comparer reported %+v, want one %s", ck.name, ds, ck.sym)
		}
	}
	if ds := cmpTool(a, &mcp.CallToolResult{Content: []mcp.Content{mcp.NewTextContent("x")}, StructuredContent: map[string]interface{}{"a": []interface{}{1.0, "s", nil}}}); len(ds) != 0 {
		r.Fatal("self-test: equal values reported different: %+v", ds)
	}
	// _meta changes, and the look-alike generators reach what they are meant to reach
	withMeta := func(v interface{}) *mcp.CallToolResult {
		x := &mcp.CallToolResult{Content: []mcp.Content{mcp.NewTextContent("x")}}
		x.Meta = map[string]interface{}{"error": map[string]interface{}{"error": v}}
		return x
	}
	if ds := cmpTool(withMeta(nil), withMeta(nil)); len(ds) != 0 {
		r.Fatal("self-test: equal _meta reported different: %+v", ds)
	}
	for _, got := range []*mcp.CallToolResult{withMeta(0.0), withMeta(map[string]interface{}{}), {Content: []mcp.Content{mcp.NewTextContent("x")}}} {
		if ds := cmpTool(withMeta(nil), got); len(ds) != 1 || ds[0].Symptom != "meta-differs" {
			r.Fatal("self-test _meta: comparer reported %+v, want one meta-differs", ds)
		}
	}
	if ds := cmpTool(&mcp.CallToolResult{Content: []mcp.Content{mcp.NewTextContent("x")}}, withMeta(nil)); len(ds) != 1 || ds[0].Symptom != "meta-differs" {
		r.Fatal("self-test _meta: an unexpected _meta is not reported: %+v", ds)
	}
	for _, name := range protoNames {
		for rot := 0; rot < 4; rot++ {
			sp := &scSpec{Mode: "chain", Arg: name, Rot: rot, Depth: chainLevels, Salt: int64(rot)}
			v, err := normalise(buildSC(sp))
			if err != nil {
				r.Fatal("self-test: member chain %s does not encode: %v", name, err)
			}
			if got := chainKindsFound(v, name); got != chainLevels {
				r.Fatal("self-test: member chain (%s, rotation %d) has the member at %d levels, want %d", name, rot, got, chainLevels)
			}
		}
	}
	r.Count("selftest_mutated_values_detected", int64(n))
}

// receivedMeta delivers a _meta object the way a JSON decoder does (absent when empty).
func receivedMeta(m map[string]interface{}) map[string]interface{} {
	if len(m) == 0 {
		return nil
	}
	v, _ := normalise(m)
	out, _ := v.(map[string]interface{})
	return out
}

// chainKindsFound walks a decoded member chain and counts the levels at which the member was found with the
// value kind the level calls for (any rotation).
func chainKindsFound(v interface{}, name string) int {
	kindOf := func(x interface{}) string {
		switch x.(type) {
		case nil:
			return "null"
		case map[string]interface{}:
			return "object"
		case string:
			return "string"
		case float64:
			return "number"
		}
		return "other"
	}
	n := 0
	seen := map[string]bool{}
	for cur, _ := v.(map[string]interface{}); cur != nil; {
		val, ok := cur[name]
		if !ok {
			break
		}
		k := kindOf(val)
		if k != "other" && !seen[k] {
			seen[k] = true
			n++
		}
		var next map[string]interface{}
		if m, ok := cur["next"].(map[string]interface{}); ok {
			next = m
		} else if l, ok := cur["list"].([]interface{}); ok && len(l) == 2 {
			next, _ = l[1].(map[string]interface{})
		} else if m, ok := val.(map[string]interface{}); ok {
			if _, deeper := m[name]; deeper {
				next = m
			}
		}
		cur = next
	}
	return n
}
