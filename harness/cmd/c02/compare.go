package main

// Structural comparer over the concrete Go types the clients return. Strings are compared byte for byte;
// structured content is compared after a plain encoding/json round trip of the expected value.

import (
	"encoding/json"
	"fmt"
	"reflect"
	"sort"

	mcp "trpc.group/trpc-go/trpc-mcp-go"
)

// diff is one observed difference between what the handler returned and what the caller received.
type diff struct {
	Symptom string `json:"symptom"` // client-error item-count kind-changed text-differs field-differs iserror-differs structured-differs message-lost no-error
	Part    string `json:"part"`    // content | iserror | structured | description | role | count | error
	Item    int    `json:"item"`    // index of the item, -1 when not item-specific
	Class   string `json:"class,omitempty"`
	Detail  string `json:"detail"`
}

func strDiff(exp, got string) string {
	n := len(exp)
	if len(got) < n {
		n = len(got)
	}
	at := n
	for i := 0; i < n; i++ {
		if exp[i] != got[i] {
			at = i
			break
		}
	}
	lo := at - 12
	if lo < 0 {
		lo = 0
	}
	cut := func(s string) string {
		hi := at + 12
		if hi > len(s) {
			hi = len(s)
		}
		if lo > len(s) {
			return ""
		}
		return s[lo:hi]
	}
	return fmt.Sprintf("expected %d bytes, got %d bytes, first difference at byte %d: expected ...%q..., got ...%q...", len(exp), len(got), at, cut(exp), cut(got))
}

func field(out *[]diff, i int, name, exp, got string) {
	if exp != got {
		sym := "field-differs"
		if name == "text" {
			sym = "text-differs"
		}
		*out = append(*out, diff{Symptom: sym, Part: "content", Item: i, Class: name, Detail: name + ": " + strDiff(exp, got)})
	}
}

// cmpRC compares resource contents (embedded or read).
func cmpRC(i int, exp, got mcp.ResourceContents) []diff {
	var out []diff
	switch e := exp.(type) {
	case mcp.TextResourceContents:
		g, ok := got.(mcp.TextResourceContents)
		if !ok {
			if gp, okp := got.(*mcp.TextResourceContents); okp && gp != nil {
				g, ok = *gp, true
			}
		}
		if !ok {
			return []diff{{Symptom: "kind-changed", Part: "content", Item: i, Detail: fmt.Sprintf("expected TextResourceContents, got %T", got)}}
		}
		field(&out, i, "uri", e.URI, g.URI)
		field(&out, i, "mimeType", e.MIMEType, g.MIMEType)
		field(&out, i, "text", e.Text, g.Text)
	case mcp.BlobResourceContents:
		g, ok := got.(mcp.BlobResourceContents)
		if !ok {
			if gp, okp := got.(*mcp.BlobResourceContents); okp && gp != nil {
				g, ok = *gp, true
			}
		}
		if !ok {
			return []diff{{Symptom: "kind-changed", Part: "content", Item: i, Detail: fmt.Sprintf("expected BlobResourceContents, got %T", got)}}
		}
		field(&out, i, "uri", e.URI, g.URI)
		field(&out, i, "mimeType", e.MIMEType, g.MIMEType)
		field(&out, i, "blob", e.Blob, g.Blob)
	default:
		out = append(out, diff{Symptom: "kind-changed", Part: "content", Item: i, Detail: fmt.Sprintf("harness: unexpected expected type %T", exp)})
	}
	return out
}

// cmpContent compares one content item.
func cmpContent(i int, exp, got mcp.Content) []diff {
	var out []diff
	changed := func(want string) []diff {
		return []diff{{Symptom: "kind-changed", Part: "content", Item: i, Detail: fmt.Sprintf("expected %s, got %T", want, got)}}
	}
	switch e := exp.(type) {
	case mcp.TextContent:
		g, ok := got.(mcp.TextContent)
		if !ok {
			if gp, okp := got.(*mcp.TextContent); okp && gp != nil {
				g, ok = *gp, true
			}
		}
		if !ok {
			return changed("TextContent")
		}
		field(&out, i, "type", e.Type, g.Type)
		field(&out, i, "text", e.Text, g.Text)
	case mcp.ImageContent:
		g, ok := got.(mcp.ImageContent)
		if !ok {
			if gp, okp := got.(*mcp.ImageContent); okp && gp != nil {
				g, ok = *gp, true
			}
		}
		if !ok {
			return changed("ImageContent")
		}
		field(&out, i, "type", e.Type, g.Type)
		field(&out, i, "data", e.Data, g.Data)
		field(&out, i, "mimeType", e.MimeType, g.MimeType)
	case mcp.AudioContent:
		g, ok := got.(mcp.AudioContent)
		if !ok {
			if gp, okp := got.(*mcp.AudioContent); okp && gp != nil {
				g, ok = *gp, true
			}
		}
		if !ok {
			return changed("AudioContent")
		}
		field(&out, i, "type", e.Type, g.Type)
		field(&out, i, "data", e.Data, g.Data)
		field(&out, i, "mimeType", e.MimeType, g.MimeType)
	case mcp.EmbeddedResource:
		g, ok := got.(mcp.EmbeddedResource)
		if !ok {
			if gp, okp := got.(*mcp.EmbeddedResource); okp && gp != nil {
				g, ok = *gp, true
			}
		}
		if !ok {
			return changed("EmbeddedResource")
		}
		field(&out, i, "type", e.Type, g.Type)
		out = append(out, cmpRC(i, e.Resource, g.Resource)...)
	default:
		out = append(out, diff{Symptom: "kind-changed", Part: "content", Item: i, Detail: fmt.Sprintf("harness: unexpected expected type %T", exp)})
	}
	return out
}

func leafClass(v interface{}) string {
	switch x := v.(type) {
	case nil:
		return "null"
	case bool:
		return "bool"
	case float64:
		if x == float64(int64(x)) {
			if x > 1<<31 || x < -(1<<31) {
				return "integer-large"
			}
			return "integer"
		}
		return "float"
	case string:
		return "string"
	case map[string]interface{}:
		if len(x) == 0 {
			return "empty-object"
		}
		return "object"
	case []interface{}:
		if len(x) == 0 {
			return "empty-array"
		}
		return "array"
	}
	return fmt.Sprintf("%T", v)
}

// cmpJSON reports the first difference of two decoded JSON values.
func cmpJSON(path string, exp, got interface{}) (where, class, detail string, equal bool) {
	switch e := exp.(type) {
	case map[string]interface{}:
		g, ok := got.(map[string]interface{})
		if !ok {
			return path, leafClass(exp), fmt.Sprintf("expected object, got %s", leafClass(got)), false
		}
		keys := make([]string, 0, len(e))
		for k := range e {
			keys = append(keys, k)
		}
		sort.Strings(keys)
		for _, k := range keys {
			gv, present := g[k]
			if !present {
				return path + "/" + k, "key", fmt.Sprintf("key %q missing", k), false
			}
			if w, c, d, eq := cmpJSON(path+"/"+k, e[k], gv); !eq {
				return w, c, d, false
			}
		}
		for k := range g {
			if _, present := e[k]; !present {
				return path + "/" + k, "key", fmt.Sprintf("unexpected key %q", k), false
			}
		}
		return "", "", "", true
	case []interface{}:
		g, ok := got.([]interface{})
		if !ok {
			return path, leafClass(exp), fmt.Sprintf("expected array, got %s", leafClass(got)), false
		}
		if len(e) != len(g) {
			return path, leafClass(exp), fmt.Sprintf("expected %d elements, got %d", len(e), len(g)), false
		}
		for i := range e {
			if w, c, d, eq := cmpJSON(fmt.Sprintf("%s/%d", path, i), e[i], g[i]); !eq {
				return w, c, d, false
			}
		}
		return "", "", "", true
	case string:
		g, ok := got.(string)
		if !ok {
			return path, "string", fmt.Sprintf("expected string, got %s", leafClass(got)), false
		}
		if e != g {
			return path, "string", strDiff(e, g), false
		}
		return "", "", "", true
	default:
		// a client that delivers numbers as json.Number or as Go integers delivers equal JSON values
		if _, isNum := exp.(float64); isNum {
			got = asFloat(got)
		}
		if !reflect.DeepEqual(exp, got) {
			return path, leafClass(exp), fmt.Sprintf("expected %v (%s), got %v (%s)", exp, leafClass(exp), got, leafClass(got)), false
		}
		return "", "", "", true
	}
}

// asFloat maps every Go representation of a JSON number to float64 (anything else is returned unchanged).
func asFloat(v interface{}) interface{} {
	if n, ok := v.(json.Number); ok {
		if f, err := n.Float64(); err == nil {
			return f
		}
		return v
	}
	rv := reflect.ValueOf(v)
	switch rv.Kind() {
	case reflect.Int, reflect.Int8, reflect.Int16, reflect.Int32, reflect.Int64:
		return float64(rv.Int())
	case reflect.Uint, reflect.Uint8, reflect.Uint16, reflect.Uint32, reflect.Uint64:
		return float64(rv.Uint())
	case reflect.Float32, reflect.Float64:
		return rv.Float()
	}
	return v
}

// cmpMeta compares the _meta object of a result. No _meta and an empty _meta are the same thing on the wire
// (the member is omitted when empty).
func cmpMeta(exp, got map[string]interface{}) []diff {
	if len(exp) == 0 {
		if len(got) != 0 {
			return []diff{{Symptom: "meta-differs", Part: "meta", Item: -1, Class: "absent", Detail: fmt.Sprintf("expected no _meta, got an object with %d members", len(got))}}
		}
		return nil
	}
	n, err := normalise(exp)
	if err != nil {
		return []diff{{Symptom: "meta-differs", Part: "meta", Item: -1, Class: "harness", Detail: "harness: cannot normalise expected value: " + err.Error()}}
	}
	if got == nil {
		return []diff{{Symptom: "meta-differs", Part: "meta", Item: -1, Class: "lost", Detail: fmt.Sprintf("expected a _meta object with %d members, got none", len(exp))}}
	}
	if w, c, d, eq := cmpJSON("", n, map[string]interface{}(got)); !eq {
		return []diff{{Symptom: "meta-differs", Part: "meta", Item: -1, Class: c, Detail: fmt.Sprintf("_meta at %q: %s", w, d)}}
	}
	return nil
}

// normalise: JSON round trip with the standard library only.
func normalise(v interface{}) (interface{}, error) {
	b, err := json.Marshal(v)
	if err != nil {
		return nil, err
	}
	var out interface{}
	if err := json.Unmarshal(b, &out); err != nil {
		return nil, err
	}
	return out, nil
}

func cmpItems(exp, got []mcp.Content) []diff {
	var out []diff
	if len(exp) != len(got) {
		return []diff{{Symptom: "item-count", Part: "count", Item: -1, Detail: fmt.Sprintf("expected %d items, got %d", len(exp), len(got))}}
	}
	for i := range exp {
		out = append(out, cmpContent(i, exp[i], got[i])...)
	}
	return out
}

func cmpTool(exp, got *mcp.CallToolResult) []diff {
	if got == nil {
		return []diff{{Symptom: "item-count", Part: "count", Item: -1, Detail: "client returned a nil result and a nil error"}}
	}
	out := cmpItems(exp.Content, got.Content)
	if exp.IsError != got.IsError {
		out = append(out, diff{Symptom: "iserror-differs", Part: "iserror", Item: -1, Class: fmt.Sprintf("%v", exp.IsError), Detail: fmt.Sprintf("expected isError=%v, got %v", exp.IsError, got.IsError)})
	}
	if exp.StructuredContent == nil {
		if got.StructuredContent != nil {
			out = append(out, diff{Symptom: "structured-differs", Part: "structured", Item: -1, Class: "absent", Detail: fmt.Sprintf("expected no structured content, got %s", leafClass(got.StructuredContent))})
		}
	} else {
		n, err := normalise(exp.StructuredContent)
		if err != nil {
			out = append(out, diff{Symptom: "structured-differs", Part: "structured", Item: -1, Class: "harness", Detail: "harness: cannot normalise expected value: " + err.Error()})
		} else if w, c, d, eq := cmpJSON("", n, got.StructuredContent); !eq {
			out = append(out, diff{Symptom: "structured-differs", Part: "structured", Item: -1, Class: c, Detail: fmt.Sprintf("at %q: %s", w, d)})
		}
	}
	out = append(out, cmpMeta(exp.Meta, got.Meta)...)
	return out
}

func cmpPrompt(exp, got *mcp.GetPromptResult, descClass string) []diff {
	if got == nil {
		return []diff{{Symptom: "item-count", Part: "count", Item: -1, Detail: "client returned a nil result and a nil error"}}
	}
	var out []diff
	if exp.Description != got.Description {
		out = append(out, diff{Symptom: "text-differs", Part: "description", Item: -1, Class: descClass, Detail: "description: " + strDiff(exp.Description, got.Description)})
	}
	if len(exp.Messages) != len(got.Messages) {
		return append(out, diff{Symptom: "item-count", Part: "count", Item: -1, Detail: fmt.Sprintf("expected %d messages, got %d", len(exp.Messages), len(got.Messages))})
	}
	for i := range exp.Messages {
		if exp.Messages[i].Role != got.Messages[i].Role {
			out = append(out, diff{Symptom: "field-differs", Part: "role", Item: i, Class: string(exp.Messages[i].Role), Detail: fmt.Sprintf("role: expected %q, got %q", exp.Messages[i].Role, got.Messages[i].Role)})
		}
		if got.Messages[i].Content == nil {
			out = append(out, diff{Symptom: "kind-changed", Part: "content", Item: i, Detail: fmt.Sprintf("expected %T, got nil content", exp.Messages[i].Content)})
			continue
		}
		out = append(out, cmpContent(i, exp.Messages[i].Content, got.Messages[i].Content)...)
	}
	out = append(out, cmpMeta(exp.Meta, got.Meta)...)
	return out
}

func cmpRead(exp []mcp.ResourceContents, got *mcp.ReadResourceResult) []diff {
	if got == nil {
		return []diff{{Symptom: "item-count", Part: "count", Item: -1, Detail: "client returned a nil result and a nil error"}}
	}
	if len(exp) != len(got.Contents) {
		return []diff{{Symptom: "item-count", Part: "count", Item: -1, Detail: fmt.Sprintf("expected %d contents, got %d", len(exp), len(got.Contents))}}
	}
	var out []diff
	for i := range exp {
		out = append(out, cmpRC(i, exp[i], got.Contents[i])...)
	}
	return out
}

// ---------- bounded descriptions of values for witnesses ----------

func describeRC(rc mcp.ResourceContents) interface{} {
	switch x := rc.(type) {
	case mcp.TextResourceContents:
		return map[string]interface{}{"kind": "TextResourceContents", "uri": x.URI, "mimeType": x.MIMEType, "text": preview(x.Text)}
	case mcp.BlobResourceContents:
		return map[string]interface{}{"kind": "BlobResourceContents", "uri": x.URI, "mimeType": x.MIMEType, "blob": preview(x.Blob)}
	}
	return fmt.Sprintf("%T", rc)
}

func describeContent(c mcp.Content) interface{} {
	switch x := c.(type) {
	case mcp.TextContent:
		return map[string]interface{}{"kind": "TextContent", "type": x.Type, "text": preview(x.Text)}
	case mcp.ImageContent:
		return map[string]interface{}{"kind": "ImageContent", "type": x.Type, "mimeType": x.MimeType, "data": preview(x.Data)}
	case mcp.AudioContent:
		return map[string]interface{}{"kind": "AudioContent", "type": x.Type, "mimeType": x.MimeType, "data": preview(x.Data)}
	case mcp.EmbeddedResource:
		return map[string]interface{}{"kind": "EmbeddedResource", "type": x.Type, "resource": describeRC(x.Resource)}
	}
	return fmt.Sprintf("%T", c)
}

func describeValue(v interface{}) interface{} {
	switch x := v.(type) {
	case *mcp.CallToolResult:
		if x == nil {
			return nil
		}
		items := []interface{}{}
		for _, c := range x.Content {
			items = append(items, describeContent(c))
		}
		m := map[string]interface{}{"content": items, "isError": x.IsError}
		if x.StructuredContent != nil {
			b, _ := json.Marshal(x.StructuredContent)
			m["structuredContent"] = previewN(string(b), 600)
		}
		if x.Meta != nil {
			b, _ := json.Marshal(x.Meta)
			m["_meta"] = previewN(string(b), 600)
		}
		return m
	case *mcp.GetPromptResult:
		if x == nil {
			return nil
		}
		msgs := []interface{}{}
		for _, pm := range x.Messages {
			msgs = append(msgs, map[string]interface{}{"role": pm.Role, "content": describeContent(pm.Content)})
		}
		m := map[string]interface{}{"description": preview(x.Description), "messages": msgs}
		if x.Meta != nil {
			b, _ := json.Marshal(x.Meta)
			m["_meta"] = previewN(string(b), 600)
		}
		return m
	case *mcp.ReadResourceResult:
		if x == nil {
			return nil
		}
		return describeValue(x.Contents)
	case []mcp.ResourceContents:
		items := []interface{}{}
		for _, c := range x {
			items = append(items, describeRC(c))
		}
		return items
	}
	return fmt.Sprintf("%T", v)
}

// payloadBytes is the number of string bytes carried by a value (for the largest-payload gauge).
func payloadBytes(v interface{}) int64 {
	var n int64
	rc := func(r mcp.ResourceContents) {
		switch x := r.(type) {
		case mcp.TextResourceContents:
			n += int64(len(x.Text))
		case mcp.BlobResourceContents:
			n += int64(len(x.Blob))
		}
	}
	ct := func(c mcp.Content) {
		switch x := c.(type) {
		case mcp.TextContent:
			n += int64(len(x.Text))
		case mcp.ImageContent:
			n += int64(len(x.Data))
		case mcp.AudioContent:
			n += int64(len(x.Data))
		case mcp.EmbeddedResource:
			rc(x.Resource)
		}
	}
	switch x := v.(type) {
	case *mcp.CallToolResult:
		for _, c := range x.Content {
			ct(c)
		}
	case *mcp.GetPromptResult:
		n += int64(len(x.Description))
		for _, m := range x.Messages {
			ct(m.Content)
		}
	case []mcp.ResourceContents:
		for _, r := range x {
			rc(r)
		}
	}
	return n
}
