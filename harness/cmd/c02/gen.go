package main

// Value generator for C02. Everything is a deterministic function of small "specs" (kind, string class, salt):
// the parent builds the expected value from the spec, the server handler (in-process or in the stdio child)
// builds its return value from the same spec, independently (no shared Go objects).

import (
	"crypto/sha256"
	"encoding/base64"
	"encoding/hex"
	"encoding/json"
	"fmt"
	"math/rand"
	"strings"

	mcp "trpc.group/trpc-go/trpc-mcp-go"
)

const (
	mTool   = "tools/call"
	mPrompt = "prompts/get"
	mRes    = "resources/read"
)

// content kinds
const (
	kText    = "text"
	kImage   = "image"
	kAudio   = "audio"
	kEmbText = "embedded-text"
	kEmbBlob = "embedded-blob"
	kResText = "text-resource"
	kResBlob = "blob-resource"
	kHErr    = "handler-error"
)

var contentKinds = []string{kText, kImage, kAudio, kEmbText, kEmbBlob}
var resKinds = []string{kResText, kResBlob}

var (
	textClassesBase = []string{"empty", "ascii", "cr", "lf", "crlf", "u2028", "astral", "control", "jsonspecial", "bmp", "ws", "64k",
		"jsonrpc", "jsonfrag", "sse", "wsonly", "punct", "jsonlit"} // the last six: protoTextClasses (proto.go)
	textClassesBig  = []string{"1MiB", "4MiB", "8MiB"}
	dataClassesBase = []string{"b64-empty", "b64-small", "b64-64k"}
	dataClassesBig  = []string{"b64-1MiB", "b64-8MiB"}
	errClasses      = []string{"empty", "ascii", "cr", "lf", "crlf", "u2028", "astral", "control", "jsonspecial", "bmp", "ws", "64k",
		"jsonrpc", "jsonfrag", "sse", "wsonly", "punct", "jsonlit"}
)

func isBigClass(c string) bool { return strings.HasSuffix(c, "MiB") }

func isTextKind(k string) bool {
	return k == kText || k == kEmbText || k == kResText || k == kHErr || k == "description"
}

// classesFor lists the string classes a kind is exercised with in the given tier.
func classesFor(kind, tier string) []string {
	var out []string
	if isTextKind(kind) {
		out = append(out, textClassesBase...)
		if tier == "thorough" && kind != kHErr && kind != "description" {
			out = append(out, textClassesBig...)
		}
		return out
	}
	out = append(out, dataClassesBase...)
	if tier == "thorough" {
		out = append(out, dataClassesBig...)
	}
	return out
}

type itemSpec struct {
	Kind  string `json:"k"`
	Class string `json:"c"`
	Salt  int64  `json:"s"`
}

// scSpec describes a structured value (structured content or _meta). Mode "" is the generated tree of scNode;
// the other modes (proto.go) put protocol member names, whole protocol messages, boundary numbers and odd keys in it.
type scSpec struct {
	Depth int    `json:"d"`
	Salt  int64  `json:"s"`
	Mode  string `json:"m,omitempty"` // "" | chain | envelope | numbers | keys | proto
	Arg   string `json:"a,omitempty"` // chain: the member name
	Rot   int    `json:"r,omitempty"` // chain: rotation of the value kinds over the levels; envelope: which one
}

// caseSpec describes one handler return value (or handler error).
type caseSpec struct {
	Idx        int         `json:"idx"`
	Key        string      `json:"key"`
	Method     string      `json:"method"`
	Shape      string      `json:"shape"` // atom | extra | combo | error
	Label      string      `json:"label,omitempty"`
	Items      []itemSpec  `json:"items,omitempty"`
	Roles      []string    `json:"roles,omitempty"`
	IsError    bool        `json:"is_error,omitempty"`
	NilContent bool        `json:"nil_content,omitempty"`
	SC         *scSpec     `json:"sc,omitempty"`
	Meta       *scSpec     `json:"meta,omitempty"` // _meta of a tool / prompt result
	Desc       *itemSpec   `json:"desc,omitempty"`
	Single     bool        `json:"single,omitempty"`
	Err        *itemSpec   `json:"err,omitempty"`
	EV         *errValSpec `json:"ev,omitempty"` // the error VALUE (errvals.go); nil = errors.New(text)
	Big        bool        `json:"big,omitempty"`
}

func (c *caseSpec) uri() string { return fmt.Sprintf("res://case/%d", c.Idx) }

// kindSeq / classVec give the coverage key of a case.
func (c *caseSpec) kindSeq() string {
	var ks []string
	for i, it := range c.Items {
		k := it.Kind
		if c.Method == mPrompt && i < len(c.Roles) {
			k = c.Roles[i] + ":" + k
		}
		ks = append(ks, k)
	}
	s := strings.Join(ks, ",")
	if c.Err != nil {
		s = "handler-error"
		if c.EV != nil {
			s += ":" + c.evTag()
		}
	}
	if c.IsError {
		s += "+isError"
	}
	if c.SC != nil {
		s += "+sc" + c.SC.tag()
	}
	if c.Meta != nil {
		s += "+meta" + c.Meta.tag()
	}
	if c.NilContent {
		s += "+nil"
	}
	if c.Single {
		s += "+single"
	}
	return s
}

func (c *caseSpec) classVec() string {
	var cs []string
	variant := func(it itemSpec) string { // enumerated look-alike texts are distinct cases
		if isProtoTextClass(it.Class) && it.Salt >= 0 && it.Salt < int64(len(protoVariants(it.Class))) {
			return fmt.Sprintf("%s#%d", it.Class, it.Salt)
		}
		return it.Class
	}
	for _, it := range c.Items {
		cs = append(cs, variant(it))
	}
	if c.Desc != nil {
		cs = append(cs, "desc="+c.Desc.Class)
	}
	if c.Err != nil {
		cs = append(cs, variant(*c.Err))
	}
	return strings.Join(cs, ",")
}

// ---------- strings ----------

const asciiAlphabet = "abcdefghijklmnopqrstuvwxyzABCDEFGHIJKLMNOPQRSTUVWXYZ0123456789 .,;:-_()[]{}!?#$%*+=@^~|"

func asciiWord(rng *rand.Rand, n int) string {
	b := make([]byte, n)
	for i := range b {
		b[i] = asciiAlphabet[rng.Intn(len(asciiAlphabet))]
	}
	// never start or end with a blank: whitespace at the edges is its own class
	if b[0] == ' ' {
		b[0] = 'x'
	}
	if b[n-1] == ' ' {
		b[n-1] = 'y'
	}
	return string(b)
}

var ingredients = map[string][]string{
	"cr":          {"\r", "a\rb", "\r\r"},
	"lf":          {"\n", "\n\n", "\n\ndata: injected\n\n", "\nevent: endpoint\ndata: /evil\n\n", "line1\nline2"},
	"crlf":        {"\r\n", "\r\n\r\n", "HTTP/1.1 200 OK\r\n\r\n"},
	"u2028":       {"\u2028", "\u2029", "a\u2028b\u2029c", "\u0085"},
	"astral":      {"\U0001F600", "\U0010FFFF", "\U0001D11E", "\U00010000", "\U0001F469\u200d\U0001F469\u200d\U0001F467", "\U0001F1E8\U0001F1ED", "\U0001F4A9"},
	"control":     {"\x00", "\x01", "\x07", "\b", "\f", "\t", "\x1b[31m", "\x1f", "\x7f", "\u0080", "\u009f", "a\x00b"},
	"jsonspecial": {`"`, `\`, `\\`, `\"`, "</script>", "&", "<", ">", "&amp;", `\u0000`, `\n`, `{"a":1}`, "'", "/", "]]>", "%s%d%v", "<!--", `\ud800`, `","text":"x`},
	"bmp":         {"\u4e2d\u6587\u5b57\u7b26", "\u041f\u0440\u0438\u0432\u0435\u0442", "\u00f1", "e\u0301", "\ufeff", "\ufffd", "\uffff", "\ufffe", "\u200b", "\u00a0", "\u00df", "\u0130", "\ud7ff", "\ue000", "\u0627\u0644\u0639\u0631\u0628\u064a\u0629"},
}

func mixed(rng *rand.Rand, ing []string) string {
	var b strings.Builder
	n := 1 + rng.Intn(4)
	pos := rng.Intn(3) // 0: ingredient first, 1: in the middle, 2: ingredient last
	if pos != 0 {
		b.WriteString(asciiWord(rng, 1+rng.Intn(12)))
	}
	for i := 0; i < n; i++ {
		b.WriteString(ing[rng.Intn(len(ing))])
		if i < n-1 {
			b.WriteString(asciiWord(rng, 1+rng.Intn(8)))
		}
	}
	if pos != 2 {
		b.WriteString(asciiWord(rng, 1+rng.Intn(12)))
	}
	return b.String()
}

var largePieces = []string{
	"The quick brown fox jumps over the lazy dog. ",
	"\u00e9\u4e2d\U0001F600\u2028\u2029 ",
	"line\nbreak\r\nand\ttab ",
	`quote " backslash \ </script> & `,
	"\u041f\u0440\u0438\u0432\u0435\u0442 \U0010FFFF ",
}

// largeText builds at least n bytes of valid UTF-8 with an index in every segment (dropped, duplicated or
// reordered segments change the string).
func largeText(rng *rand.Rand, n int) string {
	var b strings.Builder
	b.Grow(n + 128)
	for i := 0; b.Len() < n; i++ {
		fmt.Fprintf(&b, "[%d:%x]", i, rng.Int63())
		b.WriteString(largePieces[i%len(largePieces)])
	}
	return b.String()
}

// buildText returns the string of a text class; a pure function of (class, salt).
func buildText(class string, salt int64) string {
	rng := rand.New(rand.NewSource(salt))
	switch class {
	case "empty":
		return ""
	case "ascii":
		return asciiWord(rng, 1+rng.Intn(60))
	case "ws":
		switch rng.Intn(6) {
		case 0:
			return " "
		case 1:
			return "   "
		case 2:
			return "\t"
		case 3:
			return " " + asciiWord(rng, 1+rng.Intn(10)) + " "
		case 4:
			return "\t" + asciiWord(rng, 1+rng.Intn(10)) + "  "
		default:
			return "  " + asciiWord(rng, 1+rng.Intn(10))
		}
	case "64k":
		return largeText(rng, 64<<10)
	case "1MiB":
		return largeText(rng, 1<<20)
	case "4MiB":
		return largeText(rng, 4<<20)
	case "8MiB":
		return largeText(rng, 8<<20)
	case "jsonrpc", "jsonfrag", "sse", "wsonly", "punct", "jsonlit":
		return protoText(class, rng, salt)
	}
	if ing, ok := ingredients[class]; ok {
		return mixed(rng, ing)
	}
	panic("unknown text class " + class)
}

// buildData returns valid base64 of random bytes; a pure function of (class, salt).
func buildData(class string, salt int64) string {
	rng := rand.New(rand.NewSource(salt))
	n := 0
	switch class {
	case "b64-empty":
		n = 0
	case "b64-small":
		n = 1 + rng.Intn(200)
	case "b64-64k":
		n = 48 << 10
	case "b64-1MiB":
		n = 768 << 10
	case "b64-8MiB":
		n = 6 << 20
	default:
		panic("unknown data class " + class)
	}
	buf := make([]byte, n)
	rng.Read(buf)
	return base64.StdEncoding.EncodeToString(buf)
}

var (
	imageMimes = []string{"image/png", "image/jpeg", "image/svg+xml", "image/x-custom; q=1"}
	audioMimes = []string{"audio/wav", "audio/mpeg", "audio/ogg; codecs=opus"}
	textMimes  = []string{"", "text/plain", "text/plain; charset=utf-8", "application/json", "text/x-üml"}
	blobMimes  = []string{"", "application/octet-stream", "application/pdf", "image/png"}
	uriForms   = []string{"res://emb/%d", "file:///tmp/%d.txt", "https://example.com/r/%d?q=a&b=c#frag", "res://ü中/%d", "urn:x:%d", "file:///with%%20space/%d"}
)

func pick(rng *rand.Rand, l []string) string { return l[rng.Intn(len(l))] }

func buildRC(it itemSpec) mcp.ResourceContents {
	switch it.Kind {
	case kEmbText, kResText:
		uri, mime, _, _ := rcParts(it)
		return mcp.TextResourceContents{URI: uri, MIMEType: mime, Text: buildText(it.Class, it.Salt)}
	case kEmbBlob, kResBlob:
		uri, mime, _, _ := rcParts(it)
		return mcp.BlobResourceContents{URI: uri, MIMEType: mime, Blob: buildData(it.Class, it.Salt)}
	}
	panic("not a resource kind " + it.Kind)
}

// buildItem builds a content item with the library's public constructors.
func buildItem(it itemSpec) mcp.Content {
	switch it.Kind {
	case kText:
		return mcp.NewTextContent(buildText(it.Class, it.Salt))
	case kImage:
		mime, _ := mediaMime(it)
		return mcp.NewImageContent(buildData(it.Class, it.Salt), mime)
	case kAudio:
		mime, _ := mediaMime(it)
		return mcp.NewAudioContent(buildData(it.Class, it.Salt), mime)
	case kEmbText, kEmbBlob:
		return mcp.NewEmbeddedResource(buildRC(it))
	}
	panic("unknown content kind " + it.Kind)
}

// ---------- structured content ----------

var scStringClasses = []string{"empty", "ascii", "lf", "crlf", "u2028", "astral", "control", "jsonspecial", "bmp", "ws", "jsonrpc", "jsonfrag", "sse", "wsonly", "punct", "jsonlit"}

func scLeaf(rng *rand.Rand) interface{} {
	switch rng.Intn(12) {
	case 0:
		return nil
	case 1:
		return rng.Intn(2) == 0
	case 2:
		return int64(rng.Intn(2001) - 1000)
	case 3: // integers up to +-2^53
		v := rng.Int63n(1 << 53)
		if rng.Intn(2) == 0 {
			v = -v
		}
		return v
	case 4:
		return []int64{0, 1, -1, 1 << 53, -(1 << 53), (1 << 53) - 1, 999999, 1000000, 1000001, 2147483647, 2147483648, 4294967296}[rng.Intn(12)]
	case 5: // simple floats
		return float64(rng.Intn(2001)-1000) / 8
	case 6:
		return []float64{0.5, -0.25, 1.5, 1e-3, 3.14159, 1e21, 1e-7, 2.5e10, 123456.789, -0.0625}[rng.Intn(10)]
	case 7:
		return float64(rng.Intn(1000)) // whole number held in a float64
	case 8:
		return map[string]interface{}{}
	case 9:
		return []interface{}{}
	default:
		return buildText(pick(rng, scStringClasses), rng.Int63())
	}
}

func scKey(rng *rand.Rand, i int) string {
	switch rng.Intn(6) {
	case 0:
		return fmt.Sprintf("k%d-%s", i, buildText("bmp", rng.Int63()))
	case 1:
		return fmt.Sprintf("k%d-%s", i, buildText("jsonspecial", rng.Int63()))
	case 2:
		return fmt.Sprintf("k%d \U0001F600", i)
	default:
		return fmt.Sprintf("k%d", i)
	}
}

func scNode(rng *rand.Rand, depth int) interface{} {
	if depth <= 0 {
		return scLeaf(rng)
	}
	if rng.Intn(2) == 0 {
		n := 1 + rng.Intn(4)
		m := make(map[string]interface{}, n)
		deep := rng.Intn(n)
		for i := 0; i < n; i++ {
			if i == deep {
				m[scKey(rng, i)] = scNode(rng, depth-1)
			} else {
				m[scKey(rng, i)] = scNode(rng, rng.Intn(depth))
			}
		}
		return m
	}
	n := 1 + rng.Intn(4)
	s := make([]interface{}, n)
	deep := rng.Intn(n)
	for i := 0; i < n; i++ {
		if i == deep {
			s[i] = scNode(rng, depth-1)
		} else {
			s[i] = scNode(rng, rng.Intn(depth))
		}
	}
	return s
}

// buildSC builds a JSON object nested to exactly the given depth (depth 0 = empty object).
func buildSC(sp *scSpec) interface{} {
	if sp == nil {
		return nil
	}
	if sp.Mode != "" {
		return buildProtoSC(sp)
	}
	rng := rand.New(rand.NewSource(sp.Salt))
	if sp.Depth == 0 {
		return map[string]interface{}{}
	}
	n := 1 + rng.Intn(4)
	m := make(map[string]interface{}, n)
	deep := rng.Intn(n)
	for i := 0; i < n; i++ {
		if i == deep {
			m[scKey(rng, i)] = scNode(rng, sp.Depth-1)
		} else {
			m[scKey(rng, i)] = scNode(rng, rng.Intn(sp.Depth))
		}
	}
	return m
}

// ---------- case values ----------

func (c *caseSpec) errMsg() string { return c.handlerErr().Error() }

func (c *caseSpec) toolResult() *mcp.CallToolResult {
	res := &mcp.CallToolResult{IsError: c.IsError}
	if !c.NilContent {
		res.Content = make([]mcp.Content, 0, len(c.Items))
		for _, it := range c.Items {
			res.Content = append(res.Content, buildItem(it))
		}
	}
	if c.SC != nil {
		res.StructuredContent = buildSC(c.SC)
	}
	res.Meta = buildMeta(c.Meta)
	return res
}

func (c *caseSpec) description() string {
	if c.Desc == nil {
		return ""
	}
	return buildText(c.Desc.Class, c.Desc.Salt)
}

func (c *caseSpec) promptResult() *mcp.GetPromptResult {
	res := &mcp.GetPromptResult{Description: c.description()}
	if !c.NilContent {
		res.Messages = make([]mcp.PromptMessage, 0, len(c.Items))
	}
	for i, it := range c.Items {
		res.Messages = append(res.Messages, mcp.PromptMessage{Role: mcp.Role(c.Roles[i]), Content: buildItem(it)})
	}
	res.Meta = buildMeta(c.Meta)
	return res
}

func (c *caseSpec) resContents() []mcp.ResourceContents {
	out := make([]mcp.ResourceContents, 0, len(c.Items))
	for _, it := range c.Items {
		out = append(out, buildRC(it))
	}
	return out
}

// ---------- the case table ----------

type tableBuilder struct {
	rng  *rand.Rand
	tier string
	t    []caseSpec
}

func (b *tableBuilder) add(c caseSpec) {
	c.Idx = len(b.t)
	c.Key = fmt.Sprintf("c%d", c.Idx)
	for _, it := range c.Items {
		if isBigClass(it.Class) {
			c.Big = true
		}
	}
	b.t = append(b.t, c)
}

func (b *tableBuilder) item(kind, class string) itemSpec {
	return itemSpec{Kind: kind, Class: class, Salt: b.rng.Int63()}
}

func roleOf(rng *rand.Rand) string {
	if rng.Intn(2) == 0 {
		return string(mcp.RoleUser)
	}
	return string(mcp.RoleAssistant)
}

// smallClass draws a non-big class of the kind; nonEmpty excludes the empty classes.
func (b *tableBuilder) smallClass(kind string, nonEmpty bool) string {
	cl := textClassesBase
	if !isTextKind(kind) {
		cl = dataClassesBase
	}
	for {
		c := pick(b.rng, cl)
		if nonEmpty && (c == "empty" || c == "b64-empty") {
			continue
		}
		if (c == "64k" || c == "b64-64k") && b.rng.Intn(3) != 0 { // keep the 64 KiB class rarer inside combinations
			continue
		}
		return c
	}
}

// buildTable generates the case list: index 0 is the health probe; then atoms (one item per content kind x
// string class, per method), extras (error flag, structured content, roles, descriptions, empty sequences),
// handler errors, and random combinations.
func buildTable(rng *rand.Rand, tier string, combos int) []caseSpec {
	b := &tableBuilder{rng: rng, tier: tier}
	b.add(caseSpec{Method: mTool, Shape: "extra", Label: "probe", Items: []itemSpec{b.item(kText, "ascii")}})

	// tools/call atoms
	for _, k := range contentKinds {
		for _, cl := range classesFor(k, tier) {
			b.add(caseSpec{Method: mTool, Shape: "atom", Items: []itemSpec{b.item(k, cl)}})
		}
	}
	b.add(caseSpec{Method: mTool, Shape: "extra", Label: "iserror", IsError: true, Items: []itemSpec{b.item(kText, "ascii")}})
	b.add(caseSpec{Method: mTool, Shape: "extra", Label: "iserror-image", IsError: true, Items: []itemSpec{b.item(kImage, "b64-small")}})
	b.add(caseSpec{Method: mTool, Shape: "extra", Label: "no-items-nil", NilContent: true})
	b.add(caseSpec{Method: mTool, Shape: "extra", Label: "no-items-empty"})
	b.add(caseSpec{Method: mTool, Shape: "extra", Label: "no-items-iserror", IsError: true})
	for d := 0; d <= 5; d++ {
		b.add(caseSpec{Method: mTool, Shape: "extra", Label: fmt.Sprintf("structured-depth%d", d), SC: &scSpec{Depth: d, Salt: rng.Int63()}, Items: []itemSpec{b.item(kText, "ascii")}})
	}
	b.add(caseSpec{Method: mTool, Shape: "extra", Label: "structured-only", SC: &scSpec{Depth: 3, Salt: rng.Int63()}})
	b.add(caseSpec{Method: mTool, Shape: "extra", Label: "structured-iserror", IsError: true, SC: &scSpec{Depth: 2, Salt: rng.Int63()}, Items: []itemSpec{b.item(kText, "ascii")}})

	// prompts/get atoms
	for _, k := range contentKinds {
		for _, cl := range classesFor(k, tier) {
			b.add(caseSpec{Method: mPrompt, Shape: "atom", Items: []itemSpec{b.item(k, cl)}, Roles: []string{"user"}, Desc: &itemSpec{Kind: "description", Class: "ascii", Salt: rng.Int63()}})
		}
	}
	for _, k := range contentKinds {
		cl := "ascii"
		if !isTextKind(k) {
			cl = "b64-small"
		}
		b.add(caseSpec{Method: mPrompt, Shape: "extra", Label: "role-assistant", Items: []itemSpec{b.item(k, cl)}, Roles: []string{"assistant"}})
	}
	for _, cl := range classesFor("description", tier) {
		b.add(caseSpec{Method: mPrompt, Shape: "extra", Label: "description", Desc: &itemSpec{Kind: "description", Class: cl, Salt: rng.Int63()},
			Items: []itemSpec{b.item(kText, "ascii")}, Roles: []string{"user"}})
	}
	b.add(caseSpec{Method: mPrompt, Shape: "extra", Label: "no-messages-empty", Desc: &itemSpec{Kind: "description", Class: "ascii", Salt: rng.Int63()}})
	b.add(caseSpec{Method: mPrompt, Shape: "extra", Label: "no-messages-nil", NilContent: true})

	// resources/read atoms
	for _, k := range resKinds {
		for _, cl := range classesFor(k, tier) {
			b.add(caseSpec{Method: mRes, Shape: "atom", Single: true, Items: []itemSpec{b.item(k, cl)}})
			b.add(caseSpec{Method: mRes, Shape: "atom", Items: []itemSpec{b.item(k, cl)}})
		}
	}

	// protocol look-alikes in structured content and _meta (proto.go)
	b.addProtoCases()

	// handler errors
	for _, m := range []string{mTool, mPrompt, mRes} {
		for i, cl := range errClasses {
			b.add(caseSpec{Method: m, Shape: "error", Single: m == mRes && i%2 == 0, Err: &itemSpec{Kind: kHErr, Class: cl, Salt: rng.Int63()}})
		}
	}

	// random combinations
	for i := 0; i < combos; i++ {
		var c caseSpec
		c.Shape = "combo"
		// stratum: 0 = text/image with non-empty strings only, 1 = every kind and class
		full := rng.Intn(10) >= 4
		kinds := []string{kText, kImage}
		if full {
			kinds = contentKinds
		}
		switch x := rng.Intn(4); {
		case x <= 1:
			c.Method = mTool
			n := rng.Intn(7)
			for j := 0; j < n; j++ {
				k := pick(rng, kinds)
				c.Items = append(c.Items, b.item(k, b.smallClass(k, !full)))
			}
			c.NilContent = n == 0 && rng.Intn(2) == 0
			c.IsError = rng.Intn(4) == 0
			if rng.Intn(5) < 2 {
				c.SC = &scSpec{Depth: 1 + rng.Intn(5), Salt: rng.Int63()}
				if rng.Intn(2) == 0 {
					c.SC.Mode = "proto"
				}
			}
			if rng.Intn(4) == 0 {
				c.Meta = &scSpec{Depth: 1 + rng.Intn(4), Salt: rng.Int63()}
				if rng.Intn(2) == 0 {
					c.Meta.Mode = "proto"
				}
			}
		case x == 2:
			c.Method = mPrompt
			n := rng.Intn(5)
			for j := 0; j < n; j++ {
				k := pick(rng, kinds)
				c.Items = append(c.Items, b.item(k, b.smallClass(k, !full)))
				c.Roles = append(c.Roles, roleOf(rng))
			}
			if rng.Intn(10) >= 3 {
				c.Desc = &itemSpec{Kind: "description", Class: b.smallClass("description", false), Salt: rng.Int63()}
			}
			if rng.Intn(4) == 0 {
				c.Meta = &scSpec{Depth: 1 + rng.Intn(4), Salt: rng.Int63()}
				if rng.Intn(2) == 0 {
					c.Meta.Mode = "proto"
				}
			}
		default:
			c.Method = mRes
			n := 1 + rng.Intn(4)
			for j := 0; j < n; j++ {
				k := pick(rng, resKinds)
				c.Items = append(c.Items, b.item(k, b.smallClass(k, rng.Intn(2) == 0)))
			}
		}
		b.add(c)
	}

	// thorough: combinations that carry one multi-megabyte item among small ones
	if tier == "thorough" {
		for i := 0; i < 9; i++ {
			var c caseSpec
			c.Shape = "combo"
			c.Label = "big-combo"
			switch i % 3 {
			case 0:
				c.Method = mTool
				c.Items = []itemSpec{b.item(kText, "ascii"), b.item(kText, pick(rng, textClassesBig)), b.item(kImage, "b64-small"), b.item(kImage, "b64-1MiB"), b.item(kText, "astral")}
				c.SC = &scSpec{Depth: 3, Salt: rng.Int63()}
			case 1:
				c.Method = mPrompt
				c.Items = []itemSpec{b.item(kText, pick(rng, textClassesBig)), b.item(kImage, "b64-1MiB"), b.item(kText, "lf")}
				c.Roles = []string{"user", "assistant", "user"}
				c.Desc = &itemSpec{Kind: "description", Class: "bmp", Salt: rng.Int63()}
			default:
				c.Method = mRes
				c.Items = []itemSpec{b.item(kResText, pick(rng, textClassesBig)), b.item(kResBlob, "b64-1MiB"), b.item(kResText, "crlf")}
			}
			b.add(c)
		}
	}

	// handler error values (errvals.go); last, so that the cases before them are what they were without them
	b.addErrValueCases()
	return b.t
}

func tableDigest(t []caseSpec) string {
	j, _ := json.Marshal(t)
	h := sha256.Sum256(j)
	return hex.EncodeToString(h[:])
}

// preview bounds a string for witnesses and samples.
func preview(s string) string { return previewN(s, 96) }

func previewN(s string, n int) string {
	if len(s) <= n {
		return fmt.Sprintf("%q", s)
	}
	return fmt.Sprintf("%q...(%d bytes, sha256 %s)", s[:n], len(s), shortHash(s))
}

func shortHash(s string) string {
	h := sha256.Sum256([]byte(s))
	return hex.EncodeToString(h[:6])
}
