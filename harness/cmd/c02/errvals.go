package main

// Handler error VALUES for C02: "a handler error reaches the caller as an error that carries the handler's
// message" holds for every shape of Go error value, not only for errors.New(text). A case is (form, sentinel(s),
// own text): the form says how the value is built (bare sentinel, %w at the start / end / in the middle, several
// levels, errors.Join, custom types with Unwrap / Is / As, value and pointer receivers, typed nil, standard
// library error structs, Timeout()/Temporary() ...), the sentinel is the well-known error that sits in the chain.
// The value is a pure function of the spec: the handler (in-process or in the stdio child) builds a fresh value
// for every call, the parent builds its own copy and takes Error() of it as the message the caller must see.

import (
	"bufio"
	"context"
	"database/sql"
	"encoding/json"
	"errors"
	"fmt"
	"io"
	"io/fs"
	"math"
	"net"
	"net/http"
	"net/url"
	"os"
	"os/exec"
	"reflect"
	"strconv"
	"syscall"
	"time"

	mcp "trpc.group/trpc-go/trpc-mcp-go"

	"verifharness/lib/kit"
	"verifharness/lib/vh"
)

// errValSpec selects the error value of a handler-error case.
type errValSpec struct {
	Form  string `json:"f"`
	Sent  string `json:"w,omitempty"`  // the sentinel in the chain ("" for forms without one)
	Sent2 string `json:"w2,omitempty"` // second sentinel of forms that carry two
}

type sentinel struct {
	name string
	err  func() error
	core bool // crossed with every form in the quick tier
}

func fixed(e error) func() error { return func() error { return e } }

// the sentinels: the ones every Go program meets, errnos, and the library's own exported ones
var sentinels = []sentinel{
	{"context.DeadlineExceeded", fixed(context.DeadlineExceeded), true},
	{"context.Canceled", fixed(context.Canceled), true},
	{"sub-context-deadline", func() error { // what a handler's own sub-operation reports when its own deadline passed
		ctx, cancel := context.WithDeadline(context.Background(), time.Unix(1, 0))
		defer cancel()
		<-ctx.Done()
		return ctx.Err()
	}, true},
	{"sub-context-cancel", func() error {
		ctx, cancel := context.WithCancel(context.Background())
		cancel()
		return ctx.Err()
	}, true},
	{"io.EOF", fixed(io.EOF), true},
	{"io.ErrUnexpectedEOF", fixed(io.ErrUnexpectedEOF), true},
	{"io.ErrClosedPipe", fixed(io.ErrClosedPipe), true},
	{"os.ErrNotExist", fixed(os.ErrNotExist), true},
	{"os.ErrDeadlineExceeded", fixed(os.ErrDeadlineExceeded), true},
	{"os.ErrPermission", fixed(os.ErrPermission), true},
	{"net.ErrClosed", fixed(net.ErrClosed), true},
	{"http.ErrAbortHandler", fixed(http.ErrAbortHandler), true},
	{"http.ErrServerClosed", fixed(http.ErrServerClosed), true},
	{"http.ErrHandlerTimeout", fixed(http.ErrHandlerTimeout), true},
	{"syscall.ECONNRESET", fixed(syscall.ECONNRESET), true},
	{"syscall.ETIMEDOUT", fixed(syscall.ETIMEDOUT), true},
	{"syscall.EPIPE", fixed(syscall.EPIPE), true},
	{"syscall.ENOENT", fixed(syscall.ENOENT), true},
	{"syscall.ECANCELED", fixed(syscall.ECANCELED), true},
	{"mcp.ErrSessionNotFound", fixed(mcp.ErrSessionNotFound), true},
	{"mcp.ErrResponseSerialization", fixed(mcp.ErrResponseSerialization), true},
	{"mcp.ErrNoClientSession", fixed(mcp.ErrNoClientSession), true},
	{"mcp.ErrSessionExpired", fixed(mcp.ErrSessionExpired), true},

	{"io.ErrShortWrite", fixed(io.ErrShortWrite), false},
	{"io.ErrNoProgress", fixed(io.ErrNoProgress), false},
	{"io.ErrShortBuffer", fixed(io.ErrShortBuffer), false},
	{"os.ErrExist", fixed(os.ErrExist), false},
	{"os.ErrClosed", fixed(os.ErrClosed), false},
	{"os.ErrInvalid", fixed(os.ErrInvalid), false},
	{"os.ErrNoDeadline", fixed(os.ErrNoDeadline), false},
	{"os.ErrProcessDone", fixed(os.ErrProcessDone), false},
	{"fs.ErrInvalid", fixed(fs.ErrInvalid), false},
	{"errors.ErrUnsupported", fixed(errors.ErrUnsupported), false},
	{"bufio.ErrTooLong", fixed(bufio.ErrTooLong), false},
	{"bufio.ErrBufferFull", fixed(bufio.ErrBufferFull), false},
	{"sql.ErrNoRows", fixed(sql.ErrNoRows), false},
	{"sql.ErrConnDone", fixed(sql.ErrConnDone), false},
	{"sql.ErrTxDone", fixed(sql.ErrTxDone), false},
	{"exec.ErrNotFound", fixed(exec.ErrNotFound), false},
	{"strconv.ErrRange", fixed(strconv.ErrRange), false},
	{"strconv.ErrSyntax", fixed(strconv.ErrSyntax), false},
	{"http.ErrBodyReadAfterClose", fixed(http.ErrBodyReadAfterClose), false},
	{"http.ErrUseLastResponse", fixed(http.ErrUseLastResponse), false},
	{"http.ErrContentLength", fixed(http.ErrContentLength), false},
	{"http.ErrNoCookie", fixed(http.ErrNoCookie), false},
	{"http.ErrMissingFile", fixed(http.ErrMissingFile), false},
	{"http.ErrLineTooLong", fixed(http.ErrLineTooLong), false},
	{"http.ErrBodyNotAllowed", fixed(http.ErrBodyNotAllowed), false},
	{"http.ErrHijacked", fixed(http.ErrHijacked), false},
	{"http.ErrNotSupported", fixed(http.ErrNotSupported), false},
	{"http.ErrSkipAltProtocol", fixed(http.ErrSkipAltProtocol), false},
	{"http.ErrNoLocation", fixed(http.ErrNoLocation), false},
	{"syscall.ECONNREFUSED", fixed(syscall.ECONNREFUSED), false},
	{"syscall.ECONNABORTED", fixed(syscall.ECONNABORTED), false},
	{"syscall.EINTR", fixed(syscall.EINTR), false},
	{"syscall.EAGAIN", fixed(syscall.EAGAIN), false},
	{"syscall.EINVAL", fixed(syscall.EINVAL), false},
	{"syscall.EACCES", fixed(syscall.EACCES), false},
	{"syscall.EPERM", fixed(syscall.EPERM), false},
	{"syscall.EEXIST", fixed(syscall.EEXIST), false},
	{"syscall.EMFILE", fixed(syscall.EMFILE), false},
	{"syscall.ENOSPC", fixed(syscall.ENOSPC), false},
	{"syscall.EBADF", fixed(syscall.EBADF), false},
	{"syscall.EHOSTUNREACH", fixed(syscall.EHOSTUNREACH), false},
	{"syscall.ENETUNREACH", fixed(syscall.ENETUNREACH), false},
	{"syscall.EIO", fixed(syscall.EIO), false},
	{"syscall.ENOTSUP", fixed(syscall.ENOTSUP), false},
	{"syscall.Errno(0)", fixed(syscall.Errno(0)), false},
	{"syscall.Errno(9999)", fixed(syscall.Errno(9999)), false},
	{"mcp.ErrStreamingNotSupported", fixed(mcp.ErrStreamingNotSupported), false},
	{"mcp.ErrMissingResultField", fixed(mcp.ErrMissingResultField), false},
	{"mcp.ErrInvalidRequestBody", fixed(mcp.ErrInvalidRequestBody), false},
	{"mcp.ErrInvalidContentType", fixed(mcp.ErrInvalidContentType), false},
	{"mcp.ErrInvalidSessionID", fixed(mcp.ErrInvalidSessionID), false},
	{"mcp.ErrSSENotSupported", fixed(mcp.ErrSSENotSupported), false},
	{"mcp.ErrInvalidEventFormat", fixed(mcp.ErrInvalidEventFormat), false},
	{"mcp.ErrNotificationSerialization", fixed(mcp.ErrNotificationSerialization), false},
	{"mcp.ErrRequestSerialization", fixed(mcp.ErrRequestSerialization), false},
	{"mcp.ErrHTTPRequestCreation", fixed(mcp.ErrHTTPRequestCreation), false},
	{"mcp.ErrHTTPRequestFailed", fixed(mcp.ErrHTTPRequestFailed), false},
	{"mcp.ErrResponseParsing", fixed(mcp.ErrResponseParsing), false},
	{"mcp.ErrInvalidResponseType", fixed(mcp.ErrInvalidResponseType), false},
	{"mcp.ErrStatelessMode", fixed(mcp.ErrStatelessMode), false},
	{"mcp.ErrBroadcastFailed", fixed(mcp.ErrBroadcastFailed), false},
	{"mcp.ErrFilteredNotificationFailed", fixed(mcp.ErrFilteredNotificationFailed), false},
}

var sentinelByName = func() map[string]func() error {
	m := map[string]func() error{}
	for _, s := range sentinels {
		m[s.name] = s.err
	}
	return m
}()

func sentinelGroup(name string) string {
	for i := 0; i < len(name); i++ {
		if name[i] == '.' {
			return name[:i]
		}
	}
	return "context" // sub-context-*
}

// ---------- custom error types ----------

// pointer receiver, Unwrap() error
type causeErr struct {
	op    string
	cause error
}

func (e *causeErr) Error() string { return "upstream " + e.op + " failed: " + e.cause.Error() }
func (e *causeErr) Unwrap() error { return e.cause }

// value receiver, Unwrap() error
type causeValErr struct {
	Op    string
	Cause error
}

func (e causeValErr) Error() string { return e.Op + " <- " + e.Cause.Error() }
func (e causeValErr) Unwrap() error { return e.Cause }

// Unwrap() []error
type multiErr struct {
	msg    string
	causes []error
}

func (e *multiErr) Error() string {
	s := e.msg + " ("
	for i, c := range e.causes {
		if i > 0 {
			s += "; "
		}
		s += c.Error()
	}
	return s + ")"
}
func (e *multiErr) Unwrap() []error { return e.causes }

// Is method, no Unwrap: errors.Is(e, like) holds although the chain ends here
type isErr struct {
	msg  string
	like error
}

func (e *isErr) Error() string { return e.msg }
func (e *isErr) Is(target error) (same bool) {
	defer func() { _ = recover() }() // comparing values of an uncomparable dynamic type panics: not the same then
	return target == e.like
}

// As method: hands out other error types on request
type asErr struct {
	msg   string
	cause error
}

func (e *asErr) Error() string { return e.msg }
func (e *asErr) As(target interface{}) bool {
	switch t := target.(type) {
	case **causeErr:
		*t = &causeErr{op: "as", cause: e.cause}
		return true
	case **net.OpError:
		*t = &net.OpError{Op: "read", Net: "tcp", Err: e.cause}
		return true
	case **os.PathError:
		*t = &os.PathError{Op: "open", Path: "/as", Err: e.cause}
		return true
	case *syscall.Errno:
		if en, ok := e.cause.(syscall.Errno); ok {
			*t = en
			return true
		}
	case *net.Error:
		*t = &netLikeErr{msg: e.msg, timeout: true, temporary: true}
		return true
	}
	return false
}

// Timeout() / Temporary(), with or without a cause
type netLikeErr struct {
	msg       string
	cause     error
	timeout   bool
	temporary bool
}

func (e *netLikeErr) Error() string {
	if e.cause != nil {
		return e.msg + ": " + e.cause.Error()
	}
	return e.msg
}
func (e *netLikeErr) Timeout() bool   { return e.timeout }
func (e *netLikeErr) Temporary() bool { return e.temporary }
func (e *netLikeErr) Unwrap() error   { return e.cause }

type ptrErr struct{ msg string }

func (e *ptrErr) Error() string { return e.msg }

type valErr struct{ Msg string }

func (e valErr) Error() string { return e.Msg }

type strErr string

func (e strErr) Error() string { return string(e) }

type fnErr func() string

func (e fnErr) Error() string { return e() }

type codeErr int

func (e codeErr) Error() string { return "upstream answered with status " + strconv.Itoa(int(e)) }

// a pointer type whose Error method is safe on a nil receiver: a typed nil is a non-nil error interface value
type nilSafeErr struct{ msg string }

func (e *nilSafeErr) Error() string {
	if e == nil {
		return "nilSafeErr(nil): the operation failed and left no detail"
	}
	return e.msg
}

// the error interface embedded in a struct (Error is promoted, Unwrap is not)
type embErr struct {
	error
	Note string
}

// implements fmt.Formatter the way github.com/pkg/errors does: %v and %s print Error(), %+v adds detail
type fmtErr struct {
	msg   string
	cause error
}

func (e *fmtErr) Error() string {
	if e.cause != nil {
		return e.msg + ": " + e.cause.Error()
	}
	return e.msg
}
func (e *fmtErr) Unwrap() error { return e.cause }
func (e *fmtErr) Format(s fmt.State, verb rune) {
	switch verb {
	case 'v':
		if s.Flag('+') {
			io.WriteString(s, e.Error()+"\n    main.handler\n        /src/handler.go:42")
			return
		}
		io.WriteString(s, e.Error())
	case 's':
		io.WriteString(s, e.Error())
	case 'q':
		fmt.Fprintf(s, "%q", e.Error())
	}
}

// also a fmt.Stringer: fmt prefers Error()
type stringerErr struct{ msg string }

func (e *stringerErr) Error() string  { return e.msg }
func (e *stringerErr) String() string { return "stringerErr{...}" }

type failingMarshaler struct{ err error }

func (f failingMarshaler) MarshalJSON() ([]byte, error) { return nil, f.err }

// ---------- forms ----------

// forms that put a sentinel into the chain (or next to the text)
var sentinelForms = []string{
	"bare", "wrap-suffix", "wrap-prefix", "wrap-middle", "wrap-2-levels", "wrap-4-levels", "wrap-two-verbs", "verb-v-not-wrapped",
	"join", "join-bare", "join-of-wrapped", "wrap-of-join",
	"unwrap-pointer-type", "unwrap-value-type", "unwrap-value-type-by-pointer", "unwrap-slice", "unwrap-custom-3-levels",
	"is-method", "as-method", "timeout-temporary-wrapping", "formatter-wrapping", "embedded-interface",
	"net.OpError", "os.PathError", "os.SyscallError", "url.Error", "json.MarshalerError", "json.MarshalerError-literal", "strconv.NumError-like",
}

// forms of the extended sentinels in the quick tier (thorough: all)
var sentinelFormsShort = []string{"bare", "wrap-suffix", "wrap-prefix", "wrap-2-levels", "join", "unwrap-pointer-type", "unwrap-value-type", "is-method", "net.OpError"}

// forms without a sentinel: the text alone in every kind of error type
var plainForms = []string{
	"errors.New", "fmt.Errorf", "pointer-receiver", "value-receiver", "value-receiver-by-pointer", "string-kind", "func-kind", "embedded-interface-plain",
	"timeout-temporary", "formatter", "stringer-too", "json.UnsupportedValueError", "json.MarshalerError-plain", "net.DNSError-timeout", "net.UnknownNetworkError",
	"net.AddrError", "http.ProtocolError", "wrapped-nil-pointer-field",
}

// forms whose text is fixed (no own text): one case per method slot
var fixedForms = []string{
	"typed-nil-pointer", "int-kind", "json.UnsupportedValueError-real", "json.UnsupportedTypeError-real", "json.SyntaxError-real", "json.UnmarshalTypeError-real",
	"http.MaxBytesError", "net.ParseError", "exec.Error", "fs.PathError-real", "net.OpError-dial-refused", "time.ParseError-real", "strconv.NumError-real",
}

func isFixedForm(f string) bool {
	for _, x := range fixedForms {
		if x == f {
			return true
		}
	}
	return false
}

// buildErrValue builds the error value of a spec; a pure function of (spec, text) up to pointer identity.
func buildErrValue(sp *errValSpec, text string) error {
	var s, s2 error
	if sp.Sent != "" {
		f := sentinelByName[sp.Sent]
		if f == nil {
			panic("unknown sentinel " + sp.Sent)
		}
		s = f()
	}
	if sp.Sent2 != "" {
		s2 = sentinelByName[sp.Sent2]()
	}
	switch sp.Form {
	// --- with a sentinel ---
	case "bare":
		return s
	case "wrap-suffix":
		return fmt.Errorf("%s: %w", text, s)
	case "wrap-prefix":
		return fmt.Errorf("%w: %s", s, text)
	case "wrap-middle":
		return fmt.Errorf("stage one (%w), then: %s", s, text)
	case "wrap-2-levels":
		return fmt.Errorf("outer %s: %w", text, fmt.Errorf("inner operation: %w", s))
	case "wrap-4-levels":
		e := fmt.Errorf("level 1: %w", s)
		e = fmt.Errorf("level 2 %s: %w", text, e)
		e = fmt.Errorf("level 3: %w", e)
		return fmt.Errorf("level 4: %w", e)
	case "wrap-two-verbs":
		return fmt.Errorf("%s: %w; also %w", text, s, s2)
	case "verb-v-not-wrapped":
		return fmt.Errorf("%s: %v", text, s)
	case "join":
		return errors.Join(errors.New(text), s, s2)
	case "join-bare":
		return errors.Join(s, s2)
	case "join-of-wrapped":
		return errors.Join(fmt.Errorf("%s: %w", text, s), fmt.Errorf("second failure: %w", s2))
	case "wrap-of-join":
		return fmt.Errorf("%s: %w", text, errors.Join(s, s2))
	case "unwrap-pointer-type":
		return &causeErr{op: text, cause: s}
	case "unwrap-value-type":
		return causeValErr{Op: text, Cause: s}
	case "unwrap-value-type-by-pointer":
		return &causeValErr{Op: text, Cause: s}
	case "unwrap-slice":
		return &multiErr{msg: text, causes: []error{s, s2}}
	case "unwrap-custom-3-levels":
		return &causeErr{op: text, cause: causeValErr{Op: "middle", Cause: &causeErr{op: "lowest", cause: s}}}
	case "is-method":
		return &isErr{msg: text, like: s}
	case "as-method":
		return &asErr{msg: text, cause: s}
	case "timeout-temporary-wrapping":
		return &netLikeErr{msg: text, cause: s, timeout: true, temporary: true}
	case "formatter-wrapping":
		return &fmtErr{msg: text, cause: s}
	case "embedded-interface":
		return embErr{error: fmt.Errorf("%s: %w", text, s), Note: "n"}
	case "net.OpError":
		return &net.OpError{Op: "read", Net: "tcp", Addr: &net.TCPAddr{IP: net.IPv4(127, 0, 0, 1), Port: 9}, Err: fmt.Errorf("%s: %w", text, s)}
	case "os.PathError":
		return &os.PathError{Op: "open", Path: text, Err: s}
	case "os.SyscallError":
		return os.NewSyscallError(text, s)
	case "url.Error":
		return &url.Error{Op: "Get", URL: "http://upstream.invalid/v1/items?id=7", Err: fmt.Errorf("%s: %w", text, s)}
	case "json.MarshalerError":
		_, err := json.Marshal(map[string]interface{}{"v": failingMarshaler{fmt.Errorf("%s: %w", text, s)}})
		if _, ok := err.(*json.MarshalerError); !ok {
			panic(fmt.Sprintf("json.Marshal returned %T, want *json.MarshalerError", err))
		}
		return err
	case "json.MarshalerError-literal":
		return &json.MarshalerError{Type: reflect.TypeOf(failingMarshaler{}), Err: fmt.Errorf("%s: %w", text, s)}
	case "strconv.NumError-like":
		return &strconv.NumError{Func: "ParseInt", Num: text, Err: s}

	// --- the text alone ---
	case "errors.New":
		return errors.New(text)
	case "fmt.Errorf":
		return fmt.Errorf("%s", text)
	case "pointer-receiver":
		return &ptrErr{msg: text}
	case "value-receiver":
		return valErr{Msg: text}
	case "value-receiver-by-pointer":
		return &valErr{Msg: text}
	case "string-kind":
		return strErr(text)
	case "func-kind":
		return fnErr(func() string { return text })
	case "embedded-interface-plain":
		return &embErr{error: &ptrErr{msg: text}}
	case "timeout-temporary":
		return &netLikeErr{msg: text, timeout: true, temporary: true}
	case "formatter":
		return &fmtErr{msg: text}
	case "stringer-too":
		return &stringerErr{msg: text}
	case "json.UnsupportedValueError":
		return &json.UnsupportedValueError{Value: reflect.ValueOf(math.NaN()), Str: text}
	case "json.MarshalerError-plain":
		return &json.MarshalerError{Type: reflect.TypeOf(failingMarshaler{}), Err: errors.New(text)}
	case "net.DNSError-timeout":
		return &net.DNSError{Err: text, Name: "upstream.invalid", Server: "127.0.0.1:53", IsTimeout: true, IsTemporary: true}
	case "net.UnknownNetworkError":
		return net.UnknownNetworkError(text)
	case "net.AddrError":
		return &net.AddrError{Err: text, Addr: "upstream.invalid:0"}
	case "http.ProtocolError":
		return &http.ProtocolError{ErrorString: text}
	case "wrapped-nil-pointer-field":
		// Unwrap returns a typed nil pointer: the chain ends in a non-nil interface holding nil
		return &fmtErr{msg: text, cause: (*nilSafeErr)(nil)}

	// --- fixed texts ---
	case "typed-nil-pointer":
		var p *nilSafeErr
		return p
	case "int-kind":
		return codeErr(503)
	case "json.UnsupportedValueError-real":
		_, err := json.Marshal(map[string]interface{}{"ratio": math.Inf(1)})
		return mustType(err, &json.UnsupportedValueError{})
	case "json.UnsupportedTypeError-real":
		_, err := json.Marshal(map[string]interface{}{"ch": make(chan int)})
		return mustType(err, &json.UnsupportedTypeError{})
	case "json.SyntaxError-real":
		var v interface{}
		return mustType(json.Unmarshal([]byte(`{"a":1,]`), &v), &json.SyntaxError{})
	case "json.UnmarshalTypeError-real":
		var v struct{ A int }
		return mustType(json.Unmarshal([]byte(`{"A":"text"}`), &v), &json.UnmarshalTypeError{})
	case "http.MaxBytesError":
		return &http.MaxBytesError{Limit: 1 << 20}
	case "net.ParseError":
		return &net.ParseError{Type: "IP address", Text: "300.1.2.3"}
	case "exec.Error":
		return &exec.Error{Name: "pdftotext", Err: exec.ErrNotFound}
	case "fs.PathError-real":
		_, err := os.Open("/nonexistent-c02/ü/file.txt")
		return mustType(err, &fs.PathError{})
	case "net.OpError-dial-refused":
		return &net.OpError{Op: "dial", Net: "tcp", Addr: &net.TCPAddr{IP: net.IPv4(127, 0, 0, 1), Port: 1}, Err: os.NewSyscallError("connect", syscall.ECONNREFUSED)}
	case "time.ParseError-real":
		_, err := time.Parse(time.RFC3339, "yesterday at \"noon\"")
		return mustType(err, &time.ParseError{})
	case "strconv.NumError-real":
		_, err := strconv.ParseInt("99999999999999999999", 10, 64)
		return mustType(err, &strconv.NumError{})
	}
	panic("unknown error form " + sp.Form)
}

func mustType(err error, want interface{}) error {
	if err == nil || reflect.TypeOf(err) != reflect.TypeOf(want) {
		panic(fmt.Sprintf("error value generator: got %T (%v), want %T", err, err, want))
	}
	return err
}

// chainFacts describes an error value for witnesses: dynamic type, types down the Unwrap chain, and the
// well-known sentinels errors.Is finds in it.
func chainFacts(err error) map[string]interface{} {
	out := map[string]interface{}{"go_type": fmt.Sprintf("%T", err)}
	var chain []string
	cur := err
	for i := 0; i < 8 && cur != nil; i++ {
		u, ok := cur.(interface{ Unwrap() error })
		if !ok {
			if m, ok := cur.(interface{ Unwrap() []error }); ok {
				chain = append(chain, fmt.Sprintf("[%d errors]", len(m.Unwrap())))
			}
			break
		}
		cur = u.Unwrap()
		chain = append(chain, fmt.Sprintf("%T", cur))
	}
	if len(chain) > 0 {
		out["unwrap_chain"] = chain
	}
	var is []string
	for _, s := range sentinels {
		if s.core && errors.Is(err, s.err()) {
			is = append(is, s.name)
		}
	}
	if len(is) > 0 {
		out["errors_is"] = is
	}
	var ne net.Error
	if errors.As(err, &ne) {
		out["net_error_timeout"] = ne.Timeout()
	}
	return out
}

// ---------- the cases ----------

func (c *caseSpec) handlerErr() error {
	text := buildText(c.Err.Class, c.Err.Salt)
	if c.EV == nil {
		return errors.New(text)
	}
	return buildErrValue(c.EV, text)
}

// evTag is the part of the coverage key / signature that names the error value.
func (c *caseSpec) evTag() string {
	if c.EV == nil {
		return ""
	}
	if c.EV.Sent == "" {
		return c.EV.Form
	}
	if c.EV.Sent2 != "" {
		return c.EV.Form + "(" + c.EV.Sent + "+" + c.EV.Sent2 + ")"
	}
	return c.EV.Form + "(" + c.EV.Sent + ")"
}

// own-text classes of error-value cases, rotated over the cases
var evTextClasses = []string{"ascii", "lf", "jsonrpc", "empty", "sse", "jsonspecial", "u2028", "punct", "crlf", "jsonfrag", "astral", "wsonly", "control", "jsonlit", "bmp", "ws", "cr", "64k"}

// addErrValueCases appends the handler-error cases that vary the error VALUE. Every (form, sentinel) pair is served
// by a tool handler, a prompt handler, a single-content and a multi-content resource handler.
func (b *tableBuilder) addErrValueCases() {
	n := 0
	slot := func(ev errValSpec, class string) {
		for m := 0; m < 4; m++ {
			method := []string{mTool, mPrompt, mRes, mRes}[m]
			e := ev
			b.add(caseSpec{Method: method, Shape: "error", Label: "error-value", Single: m == 2, EV: &e, Err: &itemSpec{Kind: kHErr, Class: class, Salt: b.rng.Int63()}})
		}
	}
	nextClass := func() string {
		n++
		cl := evTextClasses[n%len(evTextClasses)]
		if cl == "64k" && n%(4*len(evTextClasses)) != len(evTextClasses)-1 { // the long text on every fourth turn
			cl = "ascii"
		}
		return cl
	}
	var core []string
	for _, s := range sentinels {
		if s.core {
			core = append(core, s.name)
		}
	}
	for si, s := range sentinels {
		forms := sentinelForms
		if !s.core && b.tier != "thorough" {
			forms = sentinelFormsShort
		}
		s2 := core[(si+3)%len(core)]
		if s2 == s.name {
			s2 = core[(si+4)%len(core)]
		}
		for _, f := range forms {
			ev := errValSpec{Form: f, Sent: s.name}
			switch f {
			case "wrap-two-verbs", "join", "join-bare", "join-of-wrapped", "wrap-of-join", "unwrap-slice":
				ev.Sent2 = s2
			}
			cl := nextClass()
			if f == "bare" || f == "join-bare" {
				cl = "empty" // no own text in the value
			}
			slot(ev, cl)
		}
	}
	// the sentinel that matters second in a two-sentinel value: the context sentinels behind another one
	for _, f := range []string{"wrap-two-verbs", "join", "join-of-wrapped", "wrap-of-join", "unwrap-slice"} {
		for _, second := range []string{"context.DeadlineExceeded", "context.Canceled", "io.EOF", "os.ErrDeadlineExceeded", "mcp.ErrResponseSerialization"} {
			slot(errValSpec{Form: f, Sent: "syscall.ECONNRESET", Sent2: second}, nextClass())
		}
	}
	// every own-text class with the forms that keep it in different places, around the context sentinels
	for _, cl := range errClasses {
		for i, f := range []string{"wrap-suffix", "wrap-prefix", "join", "unwrap-pointer-type", "unwrap-value-type", "os.PathError"} {
			ev := errValSpec{Form: f, Sent: []string{"context.DeadlineExceeded", "context.Canceled", "io.EOF"}[i%3]}
			if f == "join" {
				ev.Sent2 = "context.Canceled"
			}
			slot(ev, cl)
		}
	}
	// the text alone in every kind of error type: every class with every form
	for _, f := range plainForms {
		for _, cl := range errClasses {
			if cl == "64k" && b.tier != "thorough" && f != "pointer-receiver" && f != "value-receiver" {
				continue
			}
			slot(errValSpec{Form: f}, cl)
		}
	}
	for _, f := range fixedForms {
		slot(errValSpec{Form: f}, "empty")
	}
}

// ---------- judgement bookkeeping ----------

// evCount counts the error values that were carried, per method slot, form and sentinel.
type evCount struct {
	forms map[string]bool // slot|form
	kinds map[string]bool // configuration|slot
	sents map[string]bool // slot|sentinel
}

func newEVCount() *evCount {
	return &evCount{forms: map[string]bool{}, kinds: map[string]bool{}, sents: map[string]bool{}}
}

func evSlot(c *caseSpec) string {
	if c.Method == mRes {
		if c.Single {
			return mRes + "(single)"
		}
		return mRes + "(multi)"
	}
	return c.Method
}

var evSlots = []string{mTool, mPrompt, mRes + "(single)", mRes + "(multi)"}

func (e *evCount) count(r *vh.Run, kind kit.Kind, c *caseSpec) {
	if c.EV == nil {
		return
	}
	sl := evSlot(c)
	r.Count("error_values_carried_"+sl, 1)
	r.SetAdd("error_value_forms_carried", sl+"|"+c.EV.Form)
	if c.EV.Sent != "" {
		r.Count("error_values_with_sentinel_in_chain_carried", 1)
		r.SetAdd("error_value_sentinels_carried", c.EV.Sent)
		e.sents[sl+"|"+c.EV.Sent] = true
		if c.EV.Form != "bare" && c.EV.Form != "verb-v-not-wrapped" {
			e.kinds[string(kind)+"|"+sl] = true
		}
	}
	e.forms[sl+"|"+c.EV.Form] = true
}

// requireObserved: a run that did not see every form and every sentinel carried for every kind of handler, and a
// wrapped sentinel on every configuration, must not claim the error-value scenarios held.
func (e *evCount) requireObserved(r *vh.Run) {
	all := append(append(append([]string{}, sentinelForms...), plainForms...), fixedForms...)
	for _, sl := range evSlots {
		for _, f := range all {
			if !e.forms[sl+"|"+f] {
				r.Require(false, "no %s handler error of the form %s was carried on any configuration", sl, f)
			}
		}
		for _, s := range sentinels {
			if !e.sents[sl+"|"+s.name] {
				r.Require(false, "no %s handler error with %s in its chain was carried on any configuration", sl, s.name)
			}
		}
		for _, k := range kit.AllKinds {
			if !e.kinds[string(k)+"|"+sl] {
				r.Require(false, "%s: no %s handler error wrapping a sentinel was carried", k, sl)
			}
		}
	}
}

// selfTestErrValues: the generator is deterministic, every value is a non-nil error, the chain forms really have
// the sentinel in their chain (errors.Is), and two builds of one spec have the same text.
func selfTestErrValues(r *vh.Run, tbl []caseSpec) {
	inChain := map[string]bool{"verb-v-not-wrapped": false, "embedded-interface": false, "as-method": false}
	nChain, nVals := 0, 0
	for i := range tbl {
		c := &tbl[i]
		if c.EV == nil {
			continue
		}
		a, b2 := c.handlerErr(), c.handlerErr()
		if a == nil || b2 == nil {
			r.Fatal("self-test: error value %s is a nil error interface", c.evTag())
		}
		if a.Error() != b2.Error() {
			r.Fatal("self-test: error value %s is not a deterministic function of its spec", c.evTag())
		}
		nVals++
		if c.EV.Sent == "" {
			continue
		}
		s := sentinelByName[c.EV.Sent]()
		want, listed := inChain[c.EV.Form]
		if !listed {
			want = true
		}
		if got := errors.Is(a, s); got != want {
			r.Fatal("self-test: errors.Is(%s, %s) = %v, want %v", c.evTag(), c.EV.Sent, got, want)
		}
		if want {
			nChain++
		}
	}
	if nVals == 0 || nChain == 0 {
		r.Fatal("self-test: no error-value cases in the table")
	}
	r.Count("selftest_error_values_built", int64(nVals))
	r.Count("selftest_error_values_with_sentinel_in_chain", int64(nChain))
}

// evFindings turns the failing error-value cases into findings. Signature tail:
// handler-error|value=<form>(<sentinel>)|<symptom>; when several forms fail for one sentinel the form becomes
// "wraps", when one form fails for at least half of the sentinels the sentinel becomes "*". A value that carries two
// sentinels is attributed to the one(s) whose single-sentinel cases fail in the same way for the same method.
func evFindings(tbl []caseSpec, runs []*kindRun) []finding {
	type fk struct{ method, symptom, key string }
	formsOf := map[fk]map[string]bool{} // (method, symptom, sentinel) -> forms failing
	sentsOf := map[fk]map[string]bool{} // (method, symptom, form) -> sentinels failing
	single := map[fk]bool{}             // (method, symptom, sentinel): a single-sentinel value fails
	add := func(m map[fk]map[string]bool, k fk, v string) {
		if m[k] == nil {
			m[k] = map[string]bool{}
		}
		m[k][v] = true
	}
	each := func(f func(kr *kindRun, c *caseSpec, res *result, d diff)) {
		for _, kr := range runs {
			for i := range tbl {
				c := &tbl[i]
				res := kr.results[i]
				if c.EV == nil || res == nil || res.TimedOut {
					continue
				}
				for _, d := range res.Diffs {
					f(kr, c, res, d)
				}
			}
		}
	}
	each(func(kr *kindRun, c *caseSpec, res *result, d diff) {
		if c.EV.Sent != "" && c.EV.Sent2 == "" {
			single[fk{c.Method, d.Symptom, c.EV.Sent}] = true
		}
	})
	label := func(c *caseSpec, sym string) []string {
		if c.EV.Sent == "" {
			return nil
		}
		if c.EV.Sent2 == "" {
			return []string{c.EV.Sent}
		}
		var out []string
		for _, s := range []string{c.EV.Sent, c.EV.Sent2} {
			if single[fk{c.Method, sym, s}] {
				out = append(out, s)
			}
		}
		if len(out) == 0 {
			out = []string{c.EV.Sent + "+" + c.EV.Sent2}
		}
		return out
	}
	each(func(kr *kindRun, c *caseSpec, res *result, d diff) {
		for _, s := range label(c, d.Symptom) {
			add(formsOf, fk{c.Method, d.Symptom, s}, c.EV.Form)
			add(sentsOf, fk{c.Method, d.Symptom, c.EV.Form}, s)
		}
	})
	var out []finding
	each(func(kr *kindRun, c *caseSpec, res *result, d diff) {
		w := witnessOf(kr.kind, res)
		w["error_value"] = chainFacts(c.handlerErr())
		labels := label(c, d.Symptom)
		if labels == nil {
			out = append(out, finding{Method: c.Method, Kind: kr.kind, Tail: fmt.Sprintf("%s|value=%s|%s", kHErr, c.EV.Form, d.Symptom),
				What: fmt.Sprintf("%s %s: handler error value %s (own text of class %s): %s", kr.kind, evSlot(c), c.evTag(), c.Err.Class, d.Detail), Witness: w})
			return
		}
		for _, s := range labels {
			form, sent := c.EV.Form, s
			if len(formsOf[fk{c.Method, d.Symptom, s}]) > 1 {
				form = "wraps"
			}
			if 2*len(sentsOf[fk{c.Method, d.Symptom, c.EV.Form}]) >= len(sentinels) {
				sent = "*"
			}
			out = append(out, finding{Method: c.Method, Kind: kr.kind, Tail: fmt.Sprintf("%s|value=%s(%s)|%s", kHErr, form, sent, d.Symptom),
				What: fmt.Sprintf("%s %s: handler error value %s (own text of class %s): %s", kr.kind, evSlot(c), c.evTag(), c.Err.Class, d.Detail), Witness: w})
		}
	})
	return out
}
