package main

// Registration histories (C02, descriptor part): the same name / URI registered more than once with another
// descriptor and another handler, through every registration entry point the servers offer (RegisterTool,
// UnregisterTools, RegisterPrompt, RegisterResource, RegisterResources), before and after the handshake. After
// every phase of a history the descriptors the client lists must equal the LAST registered ones and
// tools/call, prompts/get, resources/read must be answered by the last registered handler.
//
// The later phases run inside the server process (also in the stdio child): the fixture registers a control tool
// whose handler performs the registrations of the phase named in its argument.

import (
	"context"
	"encoding/json"
	"fmt"
	"math/rand"
	"regexp"
	"strings"
	"sync"

	mcp "trpc.group/trpc-go/trpc-mcp-go"

	"verifharness/lib/kit"
	"verifharness/lib/vh"
)

const (
	hAdvanceTool = "c02h-advance"
	hPhases      = 3 // phase 0 = before the handshake, 1 and 2 = after it
)

type hStep struct {
	Phase int
	Op    string // "reg" | "regs" (RegisterResources) | "unreg"
	Ver   int
}

type hEntry struct {
	Kind    string // tool | prompt | resource
	Name    string // tool / prompt name, resource URI
	Pattern string
	Steps   []hStep
	Tools   []*mcp.Tool
	Prompts []*mcp.Prompt
	Res     []*mcp.Resource
}

// state after all steps of phases <= phase: version registered last, entry point used, whether it is registered.
func (e *hEntry) state(phase int) (ver int, op string, present bool, regs int) {
	for _, s := range e.Steps {
		if s.Phase > phase {
			break
		}
		if s.Op == "unreg" {
			present = false
			continue
		}
		ver, op, present = s.Ver, s.Op, true
		regs++
	}
	return
}

func (e *hEntry) marker(ver int) string { return fmt.Sprintf("h|%s|%s|v%d|", e.Kind, e.Name, ver) }

type hPattern struct {
	name  string
	steps []hStep
	tools bool // uses unregister: tools only
	same  bool // version 2 carries the descriptor of version 0 again (new handler)
}

var hPatterns = []hPattern{
	{name: "once", steps: []hStep{{0, "reg", 0}}},
	{name: "twice-before", steps: []hStep{{0, "reg", 0}, {0, "reg", 1}}},
	{name: "thrice-before", steps: []hStep{{0, "reg", 0}, {0, "reg", 1}, {0, "reg", 2}}},
	{name: "before-then-after", steps: []hStep{{0, "reg", 0}, {1, "reg", 1}}},
	{name: "before-after-after", steps: []hStep{{0, "reg", 0}, {1, "reg", 1}, {2, "reg", 2}}},
	{name: "twice-before-then-after", steps: []hStep{{0, "reg", 0}, {0, "reg", 1}, {2, "reg", 2}}},
	{name: "after-only-twice", steps: []hStep{{1, "reg", 0}, {1, "reg", 1}, {2, "reg", 2}}},
	{name: "back-to-first-descriptor", steps: []hStep{{0, "reg", 0}, {1, "reg", 1}, {2, "reg", 2}}, same: true},
	{name: "unreg-rereg-before", steps: []hStep{{0, "reg", 0}, {0, "unreg", 0}, {0, "reg", 1}}, tools: true},
	{name: "unreg-rereg-after", steps: []hStep{{0, "reg", 0}, {1, "unreg", 0}, {1, "reg", 1}}, tools: true},
	{name: "unreg-gap-rereg", steps: []hStep{{0, "reg", 0}, {1, "unreg", 0}, {2, "reg", 1}}, tools: true},
	{name: "twice-unreg-rereg-twice", steps: []hStep{{0, "reg", 0}, {0, "reg", 1}, {1, "unreg", 0}, {2, "reg", 2}, {2, "reg", 0}}, tools: true},
}

func histTool(rng *rand.Rand, name string, v int) *mcp.Tool {
	opts := []mcp.ToolOption{mcp.WithDescription(fmt.Sprintf("v%d %s", v, buildText(pick(rng, descTextClasses[:11]), rng.Int63())))}
	switch rng.Intn(4) {
	case 0:
		opts = append(opts, mcp.WithInputStruct[dFlatIn]())
	case 1:
		opts = append(opts, mcp.WithInputStruct[dNestedIn]())
	default:
		for j, n := 0, rng.Intn(4); j < n; j++ {
			opts = append(opts, randProp(rng, fmt.Sprintf("v%dp%d", v, j)))
		}
	}
	if rng.Intn(2) == 0 {
		opts = append(opts, mcp.WithToolAnnotations(&mcp.ToolAnnotations{Title: fmt.Sprintf("title v%d %s", v, buildText("bmp", rng.Int63())),
			ReadOnlyHint: hintOf(rng.Intn(3)), DestructiveHint: hintOf(rng.Intn(3)), IdempotentHint: hintOf(rng.Intn(3)), OpenWorldHint: hintOf(rng.Intn(3))}))
	}
	switch rng.Intn(3) {
	case 0:
		opts = append(opts, mcp.WithOutputStruct[dOut]())
	case 1:
		opts = append(opts, mcp.WithOutputStruct[dTree]())
	}
	return mcp.NewTool(name, opts...)
}

func histPrompt(rng *rand.Rand, name string, v int) *mcp.Prompt {
	p := &mcp.Prompt{Name: name, Description: fmt.Sprintf("v%d %s", v, buildText(pick(rng, descTextClasses[:11]), rng.Int63()))}
	for j, n := 0, rng.Intn(4); j < n; j++ {
		a := mcp.PromptArgument{Name: fmt.Sprintf("v%da%d", v, j), Required: rng.Intn(2) == 0}
		if rng.Intn(2) == 0 {
			a.Description = buildText(pick(rng, descTextClasses[:11]), rng.Int63())
		}
		p.Arguments = append(p.Arguments, a)
	}
	return p
}

func histResource(rng *rand.Rand, uri string, v int) *mcp.Resource {
	r := &mcp.Resource{URI: uri, Name: fmt.Sprintf("v%d %s", v, buildText(pick(rng, descTextClasses[1:11]), rng.Int63()))}
	if rng.Intn(2) == 0 {
		r.Description = fmt.Sprintf("v%d %s", v, buildText(pick(rng, descTextClasses[:11]), rng.Int63()))
	}
	r.MimeType = textMimes[(v+rng.Intn(2))%len(textMimes)]
	if rng.Intn(2) == 0 {
		r.Size = rng.Int63n(1 << 40)
	}
	return r
}

func histReplicasFor(tier string) int {
	if tier == "thorough" {
		return 6
	}
	return 2
}

// buildHistories is a pure function of the PRNG state (the stdio child rebuilds it from seed and tier).
func buildHistories(rng *rand.Rand, replicas int) []*hEntry {
	var out []*hEntry
	n := 0
	for rep := 0; rep < replicas; rep++ {
		for _, p := range hPatterns {
			for _, kind := range []string{"tool", "prompt", "resource"} {
				if p.tools && kind != "tool" {
					continue
				}
				variants := 1
				if kind == "resource" {
					variants = 4 // entry points: all single, all multi, alternating (either start)
				}
				for va := 0; va < variants; va++ {
					n++
					e := &hEntry{Kind: kind, Pattern: p.name}
					nver := 0
					for i, s := range p.steps {
						if kind == "resource" && s.Op == "reg" {
							if va == 1 || (va == 2 && i%2 == 1) || (va == 3 && i%2 == 0) {
								s.Op = "regs"
							}
						}
						if s.Ver+1 > nver {
							nver = s.Ver + 1
						}
						e.Steps = append(e.Steps, s)
					}
					switch kind {
					case "tool":
						e.Name = fmt.Sprintf("h-tool-%d", n)
					case "prompt":
						e.Name = fmt.Sprintf("h-prompt-%d", n)
					default:
						e.Name = fmt.Sprintf("res://h/%d", n)
						e.Pattern = p.name + "/" + []string{"single", "multi", "single-multi", "multi-single"}[va]
					}
					for v := 0; v < nver; v++ {
						same := p.same && v == 2
						switch kind {
						case "tool":
							t := histTool(rng, e.Name, v)
							if same {
								c := *e.Tools[0]
								t = &c
							}
							e.Tools = append(e.Tools, t)
						case "prompt":
							q := histPrompt(rng, e.Name, v)
							if same {
								c := *e.Prompts[0]
								q = &c
							}
							e.Prompts = append(e.Prompts, q)
						default:
							q := histResource(rng, e.Name, v)
							if same {
								c := *e.Res[0]
								q = &c
							}
							e.Res = append(e.Res, q)
						}
					}
					out = append(out, e)
				}
			}
		}
	}
	return out
}

func historiesFor(seed int64, tier string) []*hEntry {
	return buildHistories((&vh.Run{Seed: seed}).Rand("c02-histories"), histReplicasFor(tier))
}

func init() {
	kit.Fixtures["c02h"] = func(in *kit.Instance) {
		seed, tier := envSeedTier()
		registerHistories(in, historiesFor(seed, tier))
	}
}

func hApplyStep(in *kit.Instance, e *hEntry, s hStep) {
	if s.Op == "unreg" {
		_ = in.UnregisterTools(e.Name)
		return
	}
	mk := e.marker(s.Ver)
	switch e.Kind {
	case "tool":
		in.RegisterTool(e.Tools[s.Ver], func(ctx context.Context, req *mcp.CallToolRequest) (*mcp.CallToolResult, error) {
			return mcp.NewTextResult(mk), nil
		})
	case "prompt":
		in.RegisterPrompt(e.Prompts[s.Ver], func(ctx context.Context, req *mcp.GetPromptRequest) (*mcp.GetPromptResult, error) {
			return &mcp.GetPromptResult{Description: mk + "description", Messages: []mcp.PromptMessage{{Role: mcp.RoleUser, Content: mcp.NewTextContent(mk + "message")}}}, nil
		})
	default:
		uri := e.Name
		if s.Op == "regs" {
			in.RegisterResources(e.Res[s.Ver], func(ctx context.Context, req *mcp.ReadResourceRequest) ([]mcp.ResourceContents, error) {
				return []mcp.ResourceContents{mcp.TextResourceContents{URI: uri, Text: mk + "multi|0"}, mcp.TextResourceContents{URI: uri, Text: mk + "multi|1"}}, nil
			})
		} else {
			in.RegisterResource(e.Res[s.Ver], func(ctx context.Context, req *mcp.ReadResourceRequest) (mcp.ResourceContents, error) {
				return mcp.TextResourceContents{URI: uri, Text: mk + "single"}, nil
			})
		}
	}
}

func hApplyPhase(in *kit.Instance, hs []*hEntry, phase int) int {
	n := 0
	for _, e := range hs {
		for _, s := range e.Steps {
			if s.Phase == phase {
				hApplyStep(in, e, s)
				n++
			}
		}
	}
	return n
}

func hControlTool() *mcp.Tool {
	return mcp.NewTool(hAdvanceTool, mcp.WithDescription("performs the registrations of one phase"), mcp.WithString("phase", mcp.Required()))
}

// registerHistories performs phase 0 and installs the control tool for the later phases.
func registerHistories(in *kit.Instance, hs []*hEntry) {
	var mu sync.Mutex
	done := map[string]bool{}
	in.RegisterTool(hControlTool(), func(ctx context.Context, req *mcp.CallToolRequest) (*mcp.CallToolResult, error) {
		ph, _ := req.Params.Arguments["phase"].(string)
		mu.Lock()
		defer mu.Unlock()
		if done[ph] {
			return mcp.NewTextResult("advanced " + ph + " again"), nil
		}
		var phase int
		if _, err := fmt.Sscanf(ph, "%d", &phase); err != nil || phase < 1 || phase >= hPhases {
			return nil, fmt.Errorf("c02h fixture: bad phase %q", ph)
		}
		done[ph] = true
		n := hApplyPhase(in, hs, phase)
		return mcp.NewTextResult(fmt.Sprintf("advanced %s steps %d", ph, n)), nil
	})
	hApplyPhase(in, hs, 0)
}

var hMarkerRe = regexp.MustCompile(`h\|(tool|prompt|resource)\|[^|"]*\|v\d+\|[a-z0-9|]*`)

type hObs struct {
	kind     kit.Kind
	diffs    []hDiff
	errs     []string
	incon    []string
	compared int // descriptors compared
	rereg    int // of them: entries whose name had been registered more than once at that time
	absent   int // unregistered tools verified absent
	served   int // calls whose answer was attributed to a handler version
	distinct map[string]bool
	sample   interface{}
}

type hDiff struct {
	descDiff
	Phase   int    `json:"phase"`
	Pattern string `json:"pattern"`
	History string `json:"history"`
}

func (e *hEntry) historyText(phase int) string {
	var b []string
	for _, s := range e.Steps {
		if s.Phase > phase {
			break
		}
		if s.Op == "unreg" {
			b = append(b, fmt.Sprintf("phase%d:unregister", s.Phase))
		} else {
			b = append(b, fmt.Sprintf("phase%d:%s(v%d)", s.Phase, map[string]string{"reg": "Register", "regs": "RegisterResources"}[s.Op], s.Ver))
		}
	}
	return strings.Join(b, " ")
}

func isDeadline(err error) bool {
	t := err.Error()
	return strings.Contains(t, "deadline exceeded") || strings.Contains(t, "context canceled") || strings.Contains(t, "timeout") || strings.Contains(t, "timed out")
}

func runHistoryKind(r *vh.Run, kind kit.Kind, hs []*hEntry) *hObs {
	x := &hObs{kind: kind, distinct: map[string]bool{}}
	s, err := openSession(kind, "c02h", r.Seed, r.Tier, func(in *kit.Instance) { registerHistories(in, hs) })
	if err != nil {
		x.errs = append(x.errs, err.Error())
		return x
	}
	defer s.close()
	byName := map[string]*hEntry{}
	for _, e := range hs {
		byName[e.Kind+":"+e.Name] = e
	}
	add := func(phase int, dfs []descDiff) {
		for _, dd := range dfs {
			h := hDiff{descDiff: dd, Phase: phase}
			k := map[string]string{"tools/list": "tool", "prompts/list": "prompt", "resources/list": "resource", "tools/call": "tool", "prompts/get": "prompt", "resources/read": "resource"}[dd.Method]
			if e := byName[k+":"+dd.Name]; e != nil {
				h.Pattern, h.History = e.Pattern, e.historyText(phase)
			}
			x.diffs = append(x.diffs, h)
		}
	}
	for phase := 0; phase < hPhases; phase++ {
		ctx, cancel := context.WithTimeout(context.Background(), callTimeout)
		if phase > 0 {
			res, err := s.c.CallTool(ctx, &mcp.CallToolRequest{Params: mcp.CallToolParams{Name: hAdvanceTool, Arguments: map[string]interface{}{"phase": fmt.Sprint(phase)}}})
			if err != nil && harnessInterference(err.Error()) {
				harnessRetries.Add(1)
				res, err = s.c.CallTool(ctx, &mcp.CallToolRequest{Params: mcp.CallToolParams{Name: hAdvanceTool, Arguments: map[string]interface{}{"phase": fmt.Sprint(phase)}}})
			}
			b, _ := json.Marshal(res)
			if err != nil || !strings.Contains(string(b), "advanced "+fmt.Sprint(phase)) {
				x.incon = append(x.incon, fmt.Sprintf("%s: phase %d of the registration histories could not be started (%v, %s)", kind, phase, err, preview(string(b))))
				cancel()
				return x
			}
		}
		// expected state
		var expT []*mcp.Tool
		var expP []*mcp.Prompt
		var expR []*mcp.Resource
		labels := map[string]string{"tool:" + hAdvanceTool: "history-control"}
		expT = append(expT, hControlTool())
		for _, e := range hs {
			ver, _, present, _ := e.state(phase)
			if !present {
				continue
			}
			labels[e.Kind+":"+e.Name] = "history=" + e.Pattern
			switch e.Kind {
			case "tool":
				expT = append(expT, e.Tools[ver])
			case "prompt":
				expP = append(expP, e.Prompts[ver])
			default:
				expR = append(expR, e.Res[ver])
			}
		}
		listed := map[string]bool{}
		okT, okP, okR := false, false, false
		if lt, err := s.c.ListTools(ctx, &mcp.ListToolsRequest{}); err != nil {
			if isDeadline(err) {
				x.incon = append(x.incon, fmt.Sprintf("%s tools/list phase %d: %v", kind, phase, err))
			} else {
				add(phase, []descDiff{{Method: "tools/list", Field: "client-error", Detail: err.Error()}})
			}
		} else {
			df, _ := cmpTools(expT, lt.Tools, labels)
			add(phase, df)
			okT = true
			for i := range lt.Tools {
				listed["tool:"+lt.Tools[i].Name] = true
			}
		}
		if lp, err := s.c.ListPrompts(ctx, &mcp.ListPromptsRequest{}); err != nil {
			if isDeadline(err) {
				x.incon = append(x.incon, fmt.Sprintf("%s prompts/list phase %d: %v", kind, phase, err))
			} else {
				add(phase, []descDiff{{Method: "prompts/list", Field: "client-error", Detail: err.Error()}})
			}
		} else {
			df, _ := cmpPrompts(expP, lp.Prompts, labels)
			add(phase, df)
			okP = true
			for i := range lp.Prompts {
				listed["prompt:"+lp.Prompts[i].Name] = true
			}
		}
		if lr, err := s.c.ListResources(ctx, &mcp.ListResourcesRequest{}); err != nil {
			if isDeadline(err) {
				x.incon = append(x.incon, fmt.Sprintf("%s resources/list phase %d: %v", kind, phase, err))
			} else {
				add(phase, []descDiff{{Method: "resources/list", Field: "client-error", Detail: err.Error()}})
			}
		} else {
			df, _ := cmpResources(expR, lr.Resources, labels)
			add(phase, df)
			okR = true
			for i := range lr.Resources {
				listed["resource:"+lr.Resources[i].URI] = true
			}
		}
		cancel()
		// served-by: every registered entry is called / got / read
		for _, e := range hs {
			ver, op, present, regs := e.state(phase)
			ok := map[string]bool{"tool": okT, "prompt": okP, "resource": okR}[e.Kind]
			if !present {
				if ok && len(e.Steps) > 0 && e.Steps[0].Phase <= phase && !listed[e.Kind+":"+e.Name] {
					x.absent++
				}
				continue
			}
			if ok && listed[e.Kind+":"+e.Name] {
				x.compared++
				if regs > 1 {
					x.rereg++
				}
				x.distinct[fmt.Sprintf("history|%s|%s|%s|phase%d", kind, e.Kind, e.Pattern, phase)] = true
			}
			method := map[string]string{"tool": "tools/call", "prompt": "prompts/get", "resource": "resources/read"}[e.Kind]
			var got interface{}
			var cerr error
			for attempt := 0; attempt < 2; attempt++ {
				cctx, ccancel := context.WithTimeout(context.Background(), callTimeout)
				switch e.Kind {
				case "tool":
					got, cerr = s.c.CallTool(cctx, &mcp.CallToolRequest{Params: mcp.CallToolParams{Name: e.Name, Arguments: map[string]interface{}{}}})
				case "prompt":
					gp := &mcp.GetPromptRequest{}
					gp.Params.Name, gp.Params.Arguments = e.Name, map[string]string{}
					got, cerr = s.c.GetPrompt(cctx, gp)
				default:
					rr := &mcp.ReadResourceRequest{}
					rr.Params.URI = e.Name
					got, cerr = s.c.ReadResource(cctx, rr)
				}
				ccancel()
				if cerr == nil || !harnessInterference(cerr.Error()) {
					break
				}
				harnessRetries.Add(1)
			}
			if cerr != nil {
				if isDeadline(cerr) || harnessInterference(cerr.Error()) {
					x.incon = append(x.incon, fmt.Sprintf("%s %s %s phase %d: %v", kind, method, e.Name, phase, cerr))
				} else {
					add(phase, []descDiff{{Method: method, Field: "call-failed", Name: e.Name, Label: "history=" + e.Pattern,
						Detail: fmt.Sprintf("registered (last: version %d) but the request fails: %s", ver, preview(cerr.Error()))}})
				}
				continue
			}
			b, _ := json.Marshal(got)
			found := hMarkerRe.FindAllString(string(b), -1)
			var want []string
			switch {
			case e.Kind == "tool":
				want = []string{e.marker(ver)}
			case e.Kind == "prompt":
				want = []string{e.marker(ver) + "description", e.marker(ver) + "message"}
			case op == "regs":
				want = []string{e.marker(ver) + "multi|0", e.marker(ver) + "multi|1"}
			default:
				want = []string{e.marker(ver) + "single"}
			}
			x.served++
			if x.sample == nil && regs > 1 {
				x.sample = map[string]interface{}{"transport": kind, "entry": e.Kind + " " + e.Name, "history": e.historyText(phase), "answered_by": found}
			}
			if strings.Join(found, " ") != strings.Join(want, " ") {
				add(phase, []descDiff{{Method: method, Field: "served-by", Name: e.Name, Label: "history=" + e.Pattern,
					Detail: fmt.Sprintf("the handler registered last (version %d, %s) returns %v; the client received %v", ver, op, want, found),
					Extra:  map[string]interface{}{"received": preview(string(b))}}})
			}
		}
	}
	return x
}

func runHistories(r *vh.Run) {
	hs := historiesFor(r.Seed, r.Tier)
	nre := 0
	for _, e := range hs {
		if len(e.Steps) > 1 {
			nre++
		}
	}
	r.Count("history_entries", int64(len(hs)))
	r.Count("history_entries_registered_more_than_once", int64(nre))
	out := make([]*hObs, len(kit.AllKinds))
	var wg sync.WaitGroup
	for ki, kind := range kit.AllKinds {
		wg.Add(1)
		go func(ki int, kind kit.Kind) {
			defer wg.Done()
			out[ki] = runHistoryKind(r, kind, hs)
		}(ki, kind)
	}
	wg.Wait()
	type key struct{ method, tail string }
	tailOf := func(dd hDiff) string {
		switch {
		case dd.Field == "client-error" || dd.Field == "call-failed" || dd.Field == "served-by":
			return "history|" + dd.Field
		case strings.HasSuffix(dd.Field, "-missing") || strings.HasSuffix(dd.Field, "-unregistered") || strings.HasSuffix(dd.Field, "-duplicated"):
			return "history|" + dd.Field
		}
		return "history|" + dd.Field + "-differs"
	}
	kinds := map[key]map[kit.Kind]bool{}
	total, rereg := 0, 0
	for _, x := range out {
		for _, e := range x.errs {
			r.Fatal("registration histories: %s", e)
		}
		for _, m := range x.incon {
			r.Inconclusive("registration histories: " + m)
		}
		r.Eval(x.compared + x.served + x.absent)
		total += x.compared
		rereg += x.rereg
		r.Count("history_descriptors_compared_"+string(x.kind), int64(x.compared))
		r.Count("history_descriptors_compared_after_reregistration_"+string(x.kind), int64(x.rereg))
		r.Count("history_unregistered_tools_seen_absent_"+string(x.kind), int64(x.absent))
		r.Count("history_answers_attributed_to_a_handler_"+string(x.kind), int64(x.served))
		for k := range x.distinct {
			r.Distinct(k)
		}
		if x.sample != nil {
			r.Sample(x.sample)
		}
		for _, dd := range x.diffs {
			k := key{dd.Method, tailOf(dd)}
			if kinds[k] == nil {
				kinds[k] = map[kit.Kind]bool{}
			}
			kinds[k][x.kind] = true
		}
	}
	anyIncon := false // nothing was cut short: then something must have been observed
	for _, x := range out {
		anyIncon = anyIncon || len(x.incon) > 0
	}
	if !anyIncon {
		r.Require(rereg > 0 && total > rereg, "registration histories: nothing compared after a re-registration (compared %d, after re-registration %d)", total, rereg)
	}
	for _, x := range out {
		for _, dd := range x.diffs {
			tr := string(x.kind)
			if len(kinds[key{dd.Method, tailOf(dd)}]) == len(kit.AllKinds) {
				tr = "*"
			}
			r.Violation(fmt.Sprintf("C02|%s|%s|%s", dd.Method, tr, tailOf(dd)),
				fmt.Sprintf("%s %s after phase %d: %s (%s; history: %s): %s", x.kind, dd.Method, dd.Phase, preview(dd.Name), dd.Label, dd.History, dd.Detail),
				map[string]interface{}{"transport": x.kind, "difference": dd})
		}
	}
}
