// C09, writer TYPE x frame SIZE dimension of the stdio server's stdout.
//
// The other stdio scenarios hand the server an in-memory writer. In production stdout is an *os.File on an
// OS pipe, and a writer may treat such a file (and frames below / above some size) differently. Here the
// server writes to a real pipe:
//
//   - ospipe-held / ospipe-free: the real transport loop (mcp.VerifServeStdio) in this process over two
//     os.Pipe pairs (the server gets *os.File for stdin and stdout). held: every writer that reaches
//     stdio.write.mid is parked there by the yield controller for a dwell during which all other writers of the
//     round (of every kind and size class) try to write, then released, one at a time. free: seeded random
//     delays at the point, 32 writers at a time.
//   - child: the library's own StdioServer.Start on os.Stdin / os.Stdout in a child PROCESS (exec.Cmd pipes),
//     whose yield function dwells at stdio.write.mid by itself (seeded).
//
// Frame sizes are exact: every writer kind is calibrated on the quiet stream (frame length for pad 0 and pad 7),
// then the pad is chosen so that the encoded frame has exactly the target length (targets around 512, 4096,
// 8192, 65536 and 1 MiB, the smallest possible frame and 100). Writer kinds: result answers, isError answers,
// JSON-RPC error answers of a failing handler, notifications a handler sends (written by the outgoing pump),
// server-issued requests (pump; answered by the harness), and the small fixed answers: ping, method-not-found,
// parse error.
//
// Oracle: the captured bytes split at LF only; every line is exactly one JSON-RPC object, no empty line, no CR,
// multiset of (message key) equals what was written and every sized frame has exactly the length it was given.
package main

import (
	"bytes"
	"context"
	"encoding/json"
	"errors"
	"fmt"
	"io"
	"math/rand"
	"os"
	"os/exec"
	"sort"
	"strconv"
	"strings"
	"sync"
	"sync/atomic"
	"time"

	mcp "trpc.group/trpc-go/trpc-mcp-go"

	"verifharness/lib/kit"
	"verifharness/lib/peer"
	"verifharness/lib/sched"
	"verifharness/lib/vh"
)

const ozMid = "stdio.write.mid"

func init() { kit.Fixtures["c09-osz"] = ozChildFixture }

// ozChildFixture runs in the stdio server child process: the tools plus a self-driven yield function.
func ozChildFixture(in *kit.Instance) {
	ozFixture(in)
	dwell, _ := strconv.Atoi(os.Getenv("C09_OSZ_DWELL_US"))
	seed, _ := strconv.ParseInt(os.Getenv("C09_OSZ_SEED"), 10, 64)
	if dwell <= 0 {
		return
	}
	var mu sync.Mutex
	rng := rand.New(rand.NewSource(seed))
	mcp.VerifSetYield(func(point string) {
		if point != ozMid {
			return
		}
		mu.Lock()
		d := time.Duration(0)
		if rng.Intn(10) < 8 {
			d = time.Duration(dwell/2+rng.Intn(dwell)) * time.Microsecond
		}
		mu.Unlock()
		if d > 0 {
			time.Sleep(d)
		}
	})
}

func ozText(nonce string, pad int) string {
	return `{"nonce":"` + nonce + `","pad":"` + strings.Repeat(string(rune('a'+len(nonce)%3)), pad) + `"}`
}

// ozFixture registers the tool whose frames have a size the caller chooses.
func ozFixture(in *kit.Instance) {
	in.RegisterTool(mcp.NewTool("osz", mcp.WithString("mode"), mcp.WithString("nonce"), mcp.WithNumber("pad"), mcp.WithNumber("rid")),
		func(ctx context.Context, req *mcp.CallToolRequest) (*mcp.CallToolResult, error) {
			a := req.Params.Arguments
			mode, _ := a["mode"].(string)
			nonce, _ := a["nonce"].(string)
			pad := numArg(a, "pad")
			switch mode {
			case "result":
				return mcp.NewTextResult(ozText(nonce, pad)), nil
			case "iserr":
				return mcp.NewErrorResult(ozText(nonce, pad)), nil
			case "error":
				return nil, errors.New(ozText(nonce, pad))
			case "notif":
				flag := "0"
				if s, ok := mcp.GetSessionFromContext(ctx); ok {
					if nc, ok := s.(interface {
						NotificationChannel() chan<- mcp.JSONRPCNotification
					}); ok {
						n := mcp.NewJSONRPCNotificationFromMap("notifications/verif", map[string]interface{}{"nonce": nonce + ".n", "pad": strings.Repeat("n", pad)})
						t := time.NewTimer(20 * time.Second)
						select {
						case nc.NotificationChannel() <- *n:
							flag = "1"
						case <-ctx.Done():
						case <-t.C:
						}
						t.Stop()
					}
				}
				return mcp.NewTextResult(`{"nonce":"` + nonce + `","sent":"` + flag + `"}`), nil
			case "srvreq":
				rq := &mcp.JSONRPCRequest{JSONRPC: "2.0"}
				rq.ID = int64(numArg(a, "rid"))
				rq.Method = "verif/ask"
				rq.Params = map[string]interface{}{"nonce": nonce + ".q", "pad": strings.Repeat("q", pad)}
				rctx, cancel := context.WithTimeout(ctx, 20*time.Second)
				defer cancel()
				flag := "1"
				if _, err := in.Stdio.SendRequest(rctx, rq); err != nil {
					flag = "2" // 0 or 1 copies
					if strings.Contains(err.Error(), "MessageChannel full") || strings.Contains(err.Error(), "no session available") {
						flag = "0"
					}
				}
				return mcp.NewTextResult(`{"nonce":"` + nonce + `","sent":"` + flag + `"}`), nil
			}
			return mcp.NewTextResult(`{"nonce":"` + nonce + `"}`), nil
		})
}

// ---- connection: the server's stdin / stdout are OS pipes ----

type ozConn struct {
	variant string
	w       io.WriteCloser
	wmu     sync.Mutex
	rec     *peer.Recorder
	nbytes  atomic.Int64
	eof     chan struct{}
	closeFn func() string // returns a description of an abnormal end ("" = none)
}

func (c *ozConn) WriteLine(b []byte) {
	c.wmu.Lock()
	c.w.Write(append(append(make([]byte, 0, len(b)+1), b...), '\n'))
	c.wmu.Unlock()
}

func (c *ozConn) pump(rd io.Reader) {
	buf := make([]byte, 64<<10)
	for {
		n, err := rd.Read(buf)
		if n > 0 {
			c.rec.Write(buf[:n])
			c.nbytes.Add(int64(n))
		}
		if err != nil {
			c.rec.Close()
			close(c.eof)
			return
		}
	}
}

// ozDialPipe: the transport loop in this process, both directions over os.Pipe (the server sees *os.File).
func ozDialPipe(r *vh.Run, variant string) *ozConn {
	in := kit.Start(kit.Stdio, kit.Opts{})
	ozFixture(in)
	inR, inW, err := os.Pipe()
	if err != nil {
		r.Fatal("os.Pipe: %v", err)
	}
	outR, outW, err := os.Pipe()
	if err != nil {
		r.Fatal("os.Pipe: %v", err)
	}
	c := &ozConn{variant: variant, w: inW, rec: peer.NewRecorder(), eof: make(chan struct{})}
	ctx, cancel := context.WithCancel(context.Background())
	served := make(chan error, 1)
	var out io.Writer = outW // what the server is given: the file itself, no wrapper
	if _, ok := out.(*os.File); !ok {
		r.Fatal("the server's stdout is not an *os.File")
	}
	go func() { served <- mcp.VerifServeStdio(ctx, in.Stdio, inR, out) }()
	go c.pump(outR)
	c.closeFn = func() string {
		inW.Close()
		cancel()
		select {
		case <-served:
		case <-time.After(5 * time.Second):
		}
		outW.Close()
		select {
		case <-c.eof:
		case <-time.After(5 * time.Second):
		}
		outR.Close()
		inR.Close()
		return ""
	}
	return c
}

// ozDialChild: the library's StdioServer.Start on os.Stdin/os.Stdout in a child process.
func ozDialChild(r *vh.Run, variant string, dwellUS int, seed int64) *ozConn {
	self, err := os.Executable()
	if err != nil {
		r.Fatal("executable: %v", err)
	}
	cmd := exec.Command(self)
	cmd.Env = append(os.Environ(), vh.ChildEnv+"=stdio-server", "VH_FIXTURE=c09-osz", "C09_OSZ_DWELL_US="+strconv.Itoa(dwellUS), "C09_OSZ_SEED="+strconv.FormatInt(seed, 10))
	var stderr bytes.Buffer
	cmd.Stderr = &stderr
	stdin, err := cmd.StdinPipe()
	if err != nil {
		r.Fatal("stdin pipe: %v", err)
	}
	stdout, err := cmd.StdoutPipe()
	if err != nil {
		r.Fatal("stdout pipe: %v", err)
	}
	if err := cmd.Start(); err != nil {
		r.Fatal("start stdio server child: %v", err)
	}
	c := &ozConn{variant: variant, w: stdin, rec: peer.NewRecorder(), eof: make(chan struct{})}
	go c.pump(stdout)
	c.closeFn = func() string {
		early := false
		select {
		case <-c.eof:
			early = true // stdout ended before we closed stdin
		default:
		}
		stdin.Close()
		select {
		case <-c.eof:
		case <-time.After(10 * time.Second):
			cmd.Process.Kill()
			<-c.eof
		}
		werr := cmd.Wait()
		if early {
			return fmt.Sprintf("the server process ended by itself (%v): %s", werr, clip(stderr.String()))
		}
		return ""
	}
	return c
}

// ---- reference reader ----

type ozLine struct {
	key    string // "id:<id>", "n:<nonce>", "q:<nonce>"
	bad    string // symptom when the line is not exactly one JSON-RPC message
	n      int
	sent   string // the "sent" flag in a tool answer's text
	id     json.RawMessage
	method string
}

func ozParse(line []byte) ozLine {
	l := ozLine{n: len(line)}
	if len(line) == 0 {
		l.bad = "empty-line"
		return l
	}
	var m map[string]json.RawMessage
	if err := json.Unmarshal(line, &m); err != nil || m == nil {
		l.bad = "frame-not-one-message"
		if err != nil && strings.Contains(err.Error(), "after top-level value") {
			l.bad = "two-messages-in-one-frame"
		}
		return l
	}
	if bytes.ContainsAny(line, "\r\n") {
		l.bad = "raw-newline-in-line"
		return l
	}
	if string(m["jsonrpc"]) != `"2.0"` {
		l.bad = "not-a-jsonrpc-message"
		return l
	}
	l.id = m["id"]
	if mt, ok := m["method"]; ok {
		json.Unmarshal(mt, &l.method)
		var p struct {
			Nonce string `json:"nonce"`
		}
		json.Unmarshal(m["params"], &p)
		if l.id != nil {
			l.key = "q:" + p.Nonce
		} else {
			l.key = "n:" + p.Nonce
		}
		return l
	}
	l.key = "id:" + string(bytes.TrimSpace(l.id))
	if l.key == "id:" {
		l.key = "id:null" // an answer without an id member: the id could not be known (parse error)
	}
	if res, ok := m["result"]; ok {
		var rs struct {
			Content []struct {
				Text string `json:"text"`
			} `json:"content"`
		}
		if json.Unmarshal(res, &rs) == nil && len(rs.Content) == 1 {
			var t struct {
				Sent string `json:"sent"`
			}
			if json.Unmarshal([]byte(rs.Content[0].Text), &t) == nil {
				l.sent = t.Sent
			}
		}
	}
	return l
}

// ozTracker follows the recorder line by line, answers server-issued requests and keeps the parsed view.
type ozTracker struct {
	c     *ozConn
	mu    sync.Mutex
	seen  map[string]int
	lens  map[string]int
	sent  map[string]string
	bad   []ozLine
	badAt []int
	lines int
	stop  chan struct{}
	done  chan struct{}
}

func ozTrack(c *ozConn) *ozTracker {
	t := &ozTracker{c: c, seen: map[string]int{}, lens: map[string]int{}, sent: map[string]string{}, stop: make(chan struct{}), done: make(chan struct{})}
	go func() {
		defer close(t.done)
		i := 0
		for {
			ln, ok := c.rec.Line(i, 20*time.Millisecond)
			if !ok {
				select {
				case <-t.stop:
					if c.rec.NLines() <= i {
						return
					}
				default:
				}
				continue
			}
			l := ozParse(ln)
			t.mu.Lock()
			t.lines++
			if l.bad != "" {
				t.bad = append(t.bad, l)
				t.badAt = append(t.badAt, i)
			} else {
				t.seen[l.key]++
				t.lens[l.key] = l.n
				if l.sent != "" {
					t.sent[l.key] = l.sent
				}
			}
			t.mu.Unlock()
			if l.bad == "" && strings.HasPrefix(l.key, "q:") {
				c.WriteLine([]byte(fmt.Sprintf(`{"jsonrpc":"2.0","id":%s,"result":{}}`, l.id)))
			}
			i++
		}
	}()
	return t
}

func (t *ozTracker) count(key string) int { t.mu.Lock(); defer t.mu.Unlock(); return t.seen[key] }
func (t *ozTracker) nbad() int            { t.mu.Lock(); defer t.mu.Unlock(); return len(t.bad) }
func (t *ozTracker) lenOf(key string) int { t.mu.Lock(); defer t.mu.Unlock(); return t.lens[key] }
func (t *ozTracker) sentOf(key string) string {
	t.mu.Lock()
	defer t.mu.Unlock()
	return t.sent[key]
}
func (t *ozTracker) close() { close(t.stop); <-t.done }

// ---- workload ----

var ozTargets = []int{1, 100, 511, 512, 513, 4095, 4096, 4097, 8191, 8192, 8193, 65535, 65536, 65537, 1 << 20}
var ozSized = []string{"result", "iserr", "error", "notif", "srvreq"}
var ozSmall = []string{"ping", "unknown", "parse"}
var ozSeq atomic.Int64

type ozOp struct {
	kind   string
	target int
	class  string
	id     int64
	nonce  string
	pad    int
	line   string
	sized  string // key of the sized frame ("" for the small kinds)
	answer string // key of the answer
}

type ozCal struct {
	base   map[string]int  // kind -> length of the sized frame at pad 0
	linear map[string]bool // kind -> the pad is carried byte for byte
	ansLen map[string]int  // kind -> length of the (small) answer of notif / srvreq
}

func ozMake(kind string, target int, cal *ozCal) *ozOp {
	s := ozSeq.Add(1)
	op := &ozOp{kind: kind, target: target, id: 2000000 + s, nonce: fmt.Sprintf("oz%07d", s)}
	op.answer = fmt.Sprintf("id:%d", op.id)
	switch kind {
	case "ping":
		op.class = "fixed"
		op.line = fmt.Sprintf(`{"jsonrpc":"2.0","id":%d,"method":"ping"}`, op.id)
		return op
	case "unknown":
		op.class = "fixed"
		op.line = fmt.Sprintf(`{"jsonrpc":"2.0","id":%d,"method":"verif/no-such-method"}`, op.id)
		return op
	case "parse":
		op.class = "fixed"
		op.answer = "id:null"
		op.line = fmt.Sprintf(`{"jsonrpc":"2.0","id":%d,"method":"ping"`, op.id) // truncated JSON
		return op
	}
	op.class = "probe"
	if cal != nil {
		switch {
		case !cal.linear[kind]:
			op.class = "fixed"
		case target-cal.base[kind] < 0:
			op.class = "min"
		default:
			op.pad = target - cal.base[kind]
			op.class = strconv.Itoa(target)
		}
	} else {
		op.pad = target
	}
	op.line = fmt.Sprintf(`{"jsonrpc":"2.0","id":%d,"method":"tools/call","params":{"name":"osz","arguments":{"mode":"%s","nonce":"%s","pad":%d,"rid":%d}}}`, op.id, kind, op.nonce, op.pad, 3000000+s)
	switch kind {
	case "notif":
		op.sized = "n:" + op.nonce + ".n"
	case "srvreq":
		op.sized = "q:" + op.nonce + ".q"
	default:
		op.sized = op.answer
	}
	return op
}

// opDone: every frame the op makes the server write has been recovered.
func (t *ozTracker) opDone(op *ozOp) bool {
	if op.kind == "parse" {
		return true // judged by count at the end
	}
	if t.count(op.answer) == 0 {
		return false
	}
	if op.kind == "notif" && t.sentOf(op.answer) == "1" && t.count(op.sized) == 0 {
		return false
	}
	return true
}

type ozSeg struct {
	r        *vh.Run
	scen     string
	variant  string
	c        *ozConn
	t        *ozTracker
	ctl      *sched.Controller
	rng      *rand.Rand
	cal      *ozCal
	ops      []*ozOp
	parse    int
	complete bool
	broken   bool
	dwell    time.Duration
}

// wait drives one round to its end. held: park / dwell / release one writer at a time.
func (s *ozSeg) wait(ops []*ozOp, parseBefore int) bool {
	allDone := func() bool {
		for _, op := range ops {
			if !s.t.opDone(op) {
				return false
			}
		}
		return s.t.count("id:null") >= parseBefore
	}
	deadline := time.Now().Add(30 * time.Second)
	var brokenSince time.Time
	for !allDone() {
		if s.t.nbad() > 0 {
			// a line that is no message: the answers it swallowed never come. Collect a little more, then judge.
			if brokenSince.IsZero() {
				brokenSince = time.Now()
			} else if time.Since(brokenSince) > 300*time.Millisecond {
				s.broken = true
				return false
			}
		}
		select {
		case <-s.c.eof:
			return false
		default:
		}
		if time.Now().After(deadline) {
			return false
		}
		if s.ctl == nil {
			time.Sleep(300 * time.Microsecond)
			continue
		}
		k := s.ctl.AwaitWaiting(ozMid, 1, 0)
		if k == 0 {
			time.Sleep(100 * time.Microsecond)
			continue
		}
		s.r.Max("osfile_writers_parked_mid_frame", int64(k))
		s.r.Count("osfile_held_writer_rounds|"+s.variant, 1)
		// who is inside its frame: the unterminated tail of the stream is its payload
		if l := ozParse(s.c.rec.Partial()); l.bad == "" {
			for _, op := range s.ops {
				if op.sized == l.key || op.answer == l.key {
					cl := op.class
					if op.sized != l.key {
						cl = "fixed"
					}
					s.r.Count("osfile_held_writer|"+op.kind+"|"+cl, 1)
					break
				}
			}
		}
		// dwell: every other writer of the round gets the chance to write while this one is inside its frame
		time.Sleep(s.dwell)
		for i := 0; i < 20; i++ {
			n := s.c.nbytes.Load()
			time.Sleep(200 * time.Microsecond)
			if s.c.nbytes.Load() == n {
				break
			}
		}
		s.ctl.ReleaseOne(ozMid, s.rng.Intn(k))
	}
	return true
}

func (s *ozSeg) round(ops []*ozOp) bool {
	for _, op := range ops {
		if op.kind == "parse" {
			s.parse++
		}
	}
	s.ops = append(s.ops, ops...)
	// the request lines go in back to back; the server runs each in a goroutine of its own
	var b []byte
	for _, op := range ops {
		b = append(b, op.line...)
		b = append(b, '\n')
	}
	s.c.wmu.Lock()
	s.c.w.Write(b)
	s.c.wmu.Unlock()
	return s.wait(ops, s.parse)
}

// calibrate measures, on the quiet stream, the frame length of every sized kind at pad 0 and pad 7.
func (s *ozSeg) calibrate() bool {
	cal := &ozCal{base: map[string]int{}, linear: map[string]bool{}, ansLen: map[string]int{}}
	for _, kind := range ozSized {
		var l [2]int
		for i, pad := range []int{0, 7} {
			op := ozMake(kind, pad, nil)
			if !s.round([]*ozOp{op}) {
				return false
			}
			l[i] = s.t.lenOf(op.sized)
			if op.sized != op.answer {
				cal.ansLen[kind] = s.t.lenOf(op.answer)
			}
		}
		cal.base[kind] = l[0]
		cal.linear[kind] = l[1] == l[0]+7
	}
	s.cal = cal
	return true
}

// ozSegment: one connection, a list of rounds, one judgement.
func ozSegment(r *vh.Run, variant string, seed int64, plan func(s *ozSeg) [][]*ozOp) {
	scen := "stdio-osfile-" + variant
	s := &ozSeg{r: r, scen: scen, variant: variant, rng: rand.New(rand.NewSource(seed)), dwell: time.Duration(r.Pick(600, 1000)) * time.Microsecond}
	switch variant {
	case "child":
		s.c = ozDialChild(r, variant, 1200, seed)
	case "child-free":
		s.c = ozDialChild(r, variant, 0, seed)
	default:
		s.c = ozDialPipe(r, variant)
	}
	s.t = ozTrack(s.c)
	// handshake
	s.c.WriteLine([]byte(`{"jsonrpc":"2.0","id":0,"method":"initialize","params":{"protocolVersion":"2025-03-26","capabilities":{"roots":{}},"clientInfo":{"name":"c09","version":"1"}}}`))
	for dl := time.Now().Add(20 * time.Second); s.t.count("id:0") == 0 && s.t.nbad() == 0 && time.Now().Before(dl); {
		time.Sleep(time.Millisecond)
	}
	if s.t.count("id:0") == 0 && s.t.nbad() == 0 {
		r.Inconclusive(scen + ": no answer to initialize")
		s.t.close()
		s.c.closeFn()
		return
	}
	s.c.WriteLine([]byte(`{"jsonrpc":"2.0","method":"notifications/initialized"}`))
	s.complete = s.calibrate()
	if s.complete {
		switch variant {
		case "ospipe-held":
			s.ctl = sched.New(10*time.Second, seed)
			s.ctl.Install()
			s.ctl.Hold(ozMid)
		case "ospipe-free":
			ctl := sched.New(10*time.Second, seed)
			ctl.RandomDelay(ozMid, 0.5, 400*time.Microsecond)
			ctl.Install()
		}
		for _, ops := range plan(s) {
			if !s.round(ops) {
				s.complete = false
				break
			}
		}
		if s.ctl != nil {
			s.ctl.Release(ozMid)
			if g := s.ctl.GaveUp(); g > 0 {
				r.Count("osfile_holds_given_up", int64(g))
			}
		}
		sched.Uninstall()
	}
	if s.complete {
		time.Sleep(20 * time.Millisecond) // stragglers (a frame nobody asked for would show up as foreign)
	}
	death := s.c.closeFn()
	s.t.close()
	s.judge(death)
}

func (s *ozSeg) judge(death string) {
	r, t := s.r, s.t
	sig := func(sym string) string { return "C09|" + s.scen + "|" + sym }
	if death != "" {
		r.Violation(sig("process-death"), s.scen+": "+death, map[string]interface{}{"what": death})
	}
	t.mu.Lock()
	defer t.mu.Unlock()
	r.Count("osfile_bytes|"+s.variant, s.c.nbytes.Load())
	r.Count("osfile_lines|"+s.variant, int64(t.lines))
	r.Count("frames_parsed", int64(t.lines))
	lines := s.c.rec.Lines(0)
	for i, l := range t.bad {
		at := t.badAt[i]
		w := map[string]interface{}{"line_index": at, "len": l.n, "line": clip(string(lines[at]))}
		if at+1 < len(lines) {
			w["next_line"] = clip(string(lines[at+1]))
		}
		r.Violation(sig(l.bad), fmt.Sprintf("%s: line %d of the server's stdout (%d bytes) is not exactly one JSON-RPC message: %s", s.scen, at, l.n, l.bad), w)
	}
	if part := s.c.rec.Partial(); len(part) > 0 && (s.complete || s.broken) {
		r.Violation(sig("unterminated-tail"), s.scen+": stdout ends with an unterminated fragment", map[string]interface{}{"tail": clip(string(part)), "len": len(part)})
	}
	// expected multiset
	type exp struct {
		min, max int
		n        int // exact length, 0 = not judged
		op       *ozOp
		sized    bool
	}
	want := map[string]*exp{"id:0": {min: 1, max: 1}}
	if s.parse > 0 {
		want["id:null"] = &exp{min: s.parse, max: s.parse}
	}
	for _, op := range s.ops {
		if op.kind == "parse" {
			continue
		}
		want[op.answer] = &exp{min: 1, max: 1, op: op}
		if op.sized == "" {
			continue
		}
		e := want[op.answer]
		if op.sized != op.answer {
			e = &exp{op: op}
			switch t.sent[op.answer] {
			case "1":
				e.min, e.max = 1, 1
			case "0":
			default:
				e.max = 1 // the answer is missing or the send ended by its deadline: 0 or 1 copies
			}
			want[op.sized] = e
		}
		e.sized = true
		if s.cal != nil && s.cal.linear[op.kind] {
			e.n = s.cal.base[op.kind] + op.pad
		}
	}
	missing, dup, foreign, wrongLen := 0, 0, 0, 0
	var exMissing, exForeign, exLen []string
	for k, e := range want {
		g := t.seen[k]
		switch {
		case g < e.min:
			missing++
			if len(exMissing) < 5 {
				exMissing = append(exMissing, k)
			}
		case g > e.max:
			dup++
		}
		if g >= 1 && e.n > 0 && t.lens[k] != e.n {
			wrongLen++
			if len(exLen) < 5 {
				exLen = append(exLen, fmt.Sprintf("%s: %d bytes, written with %d", k, t.lens[k], e.n))
			}
		}
		if g >= 1 && g <= e.max && e.op != nil && (e.n == 0 || t.lens[k] == e.n) {
			kind, class := e.op.kind, e.op.class
			if !e.sized {
				kind, class = kind+"-answer", "fixed"
				if e.op.sized == "" {
					kind = e.op.kind
				}
			}
			r.Count("osfile_frames|"+kind+"|"+class, 1)
			r.Count("osfile_frames_total|"+s.variant, 1)
			if e.sized {
				r.Distinct("osfile|" + s.variant + "|" + kind + "|" + class)
			}
		}
	}
	if s.parse > 0 && t.seen["id:null"] == s.parse {
		r.Count("osfile_frames|parse|fixed", int64(s.parse))
		r.Count("osfile_frames_total|"+s.variant, int64(s.parse))
	}
	for k := range t.seen {
		if _, ok := want[k]; !ok {
			foreign++
			if len(exForeign) < 5 {
				exForeign = append(exForeign, k)
			}
		}
	}
	sort.Strings(exMissing)
	r.Eval(len(want))
	if !s.complete && !s.broken && len(t.bad) == 0 {
		r.Inconclusive(fmt.Sprintf("%s: a round did not finish within its watchdog (%d of %d messages still missing); missing messages not judged", s.scen, missing, len(want)))
		missing = 0
	}
	if missing+dup+foreign > 0 {
		r.Violation(sig("multiset-differs"), fmt.Sprintf("%s: the line reader recovered a different multiset: %d written messages missing, %d duplicated, %d foreign (of %d)", s.scen, missing, dup, foreign, len(want)),
			map[string]interface{}{"written": len(want), "missing": missing, "duplicated": dup, "foreign": foreign, "missing_keys": exMissing, "foreign_keys": exForeign})
	}
	if wrongLen > 0 {
		r.Violation(sig("frame-length-differs"), fmt.Sprintf("%s: %d recovered frames do not have the length of the message that was written", s.scen, wrongLen), map[string]interface{}{"examples": exLen})
	}
}

// ozPlans: the rounds of one segment.
//
//	matrix:   every (sized kind x target size) once, in seeded order, w sized writers per round plus ping,
//	          method-not-found and parse-error writers
//	boundary: for every pair of adjacent target sizes and every sized kind: that kind at the larger size, a seeded
//	          other kind at the smaller size, and a ping
func ozMatrix(w int) func(s *ozSeg) [][]*ozOp {
	return func(s *ozSeg) [][]*ozOp {
		type kt struct {
			k string
			t int
		}
		var all []kt
		for _, k := range ozSized {
			for _, t := range ozTargets {
				all = append(all, kt{k, t})
			}
		}
		s.rng.Shuffle(len(all), func(i, j int) { all[i], all[j] = all[j], all[i] })
		var rounds [][]*ozOp
		for len(all) > 0 {
			n := w
			if n > len(all) {
				n = len(all)
			}
			var ops []*ozOp
			for _, x := range all[:n] {
				ops = append(ops, ozMake(x.k, x.t, s.cal))
			}
			all = all[n:]
			for _, k := range ozSmall {
				ops = append(ops, ozMake(k, 0, s.cal))
			}
			s.rng.Shuffle(len(ops), func(i, j int) { ops[i], ops[j] = ops[j], ops[i] })
			rounds = append(rounds, ops)
		}
		return rounds
	}
}

func ozBoundary(s *ozSeg) [][]*ozOp {
	var rounds [][]*ozOp
	for i := 0; i+1 < len(ozTargets); i++ {
		for _, k := range ozSized {
			ops := []*ozOp{ozMake(k, ozTargets[i+1], s.cal), ozMake(ozSized[s.rng.Intn(len(ozSized))], ozTargets[i], s.cal), ozMake("ping", 0, s.cal)}
			s.rng.Shuffle(len(ops), func(i, j int) { ops[i], ops[j] = ops[j], ops[i] })
			rounds = append(rounds, ops)
		}
	}
	return rounds
}

func stdioOSFile(r *vh.Run, variant string) {
	rng := r.Rand("c09-osfile-" + variant)
	reps := r.Pick(4, 16)
	w := 9
	if strings.HasSuffix(variant, "free") {
		w, reps = 29, r.Pick(8, 40)
	}
	for rep := 0; rep < reps; rep++ {
		ozSegment(r, variant, rng.Int63(), ozMatrix(w))
		if rep%2 == 0 || !r.Quick() {
			ozSegment(r, variant, rng.Int63(), ozBoundary)
		}
	}
	if r.Counter("osfile_frames_total|"+variant) == 0 {
		r.Inconclusive("stdio-osfile-" + variant + ": no frame was recovered; the scenario observed nothing")
	}
	if variant == "ospipe-held" && r.Counter("osfile_held_writer_rounds|"+variant) == 0 {
		r.Inconclusive("stdio-osfile-" + variant + ": no writer was ever parked inside its frame")
	}
	r.Sample(map[string]interface{}{"scenario": "stdio-osfile-" + variant, "segments": reps, "writers_per_round": w + len(ozSmall),
		"frames": r.Counter("osfile_frames_total|" + variant), "bytes": r.Counter("osfile_bytes|" + variant), "held_writer_rounds": r.Counter("osfile_held_writer_rounds|" + variant)})
}
