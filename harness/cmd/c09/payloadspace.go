// C09, the payload dimension: "a conforming reader recovers exactly the messages that were written, each parseable
// on its own" for ALL payloads - not only for the ones that are special to the frame syntax itself (CR, LF,
// U+2028/2029, sizes around buffer boundaries; main.go) but also for the ones that are special to any layer a frame
// passes through on its way out: formatting functions (percent signs in every position), string escaping
// (backslashes, quotes, \u-escapes, NUL and the other control characters, invalid UTF-8, lone surrogates), SSE field
// syntax inside data (data:, id:, event:, retry:, a leading colon, leading / trailing blanks, a BOM), stdio line
// syntax (tab, form feed, NEL), template / replacement syntax ($1, ${x}, {{.}}), very long single lines and very many
// short lines.
//
// Every payload class is sent in every message kind that has free text (tool / prompt / resource results, JSON-RPC
// errors carrying handler messages or echoing request text, string ids, object keys, method names, in-call and
// out-of-band notifications, server-issued requests) on every stream kind the check drives (POST SSE stream,
// GET listening stream, legacy SSE stream, stdio stdout), a few writers at a time.
//
// Oracle (text of C09): every frame is exactly one JSON value, and the multiset of messages recovered equals the
// multiset written, compared by CONTENT. What "the message written" is for a payload P is taken from the library
// itself: per (stream, message kind) one probe with a harmless token as payload is run on the quiet stream; the
// decoded probe frames are the templates, and the message expected for P is the template with the token replaced by
// P as Go's encoding/json delivers it (invalid UTF-8 becomes U+FFFD), the probe's nonce / ids replaced by the case's.
// Nothing is assumed about the shape of the library's messages, only that a payload is carried opaquely. Expected and
// recovered messages are compared as canonical JSON (decoded, keys sorted), i.e. byte for byte after JSON decoding.
// A send the API reported as failed may be on the wire 0 or 1 times; a message is reported missing only when the
// stream has demonstrably moved on (the exchange ended / a fence written afterwards arrived).
package main

import (
	"bytes"
	"context"
	"encoding/json"
	"errors"
	"fmt"
	"io"
	"sort"
	"strconv"
	"strings"
	"sync"
	"sync/atomic"
	"time"

	mcp "trpc.group/trpc-go/trpc-mcp-go"

	"verifharness/lib/kit"
	"verifharness/lib/vh"
)

// ---------------------------------------------------------------------------------------------------
// payload classes
// ---------------------------------------------------------------------------------------------------

type hpay struct{ Class, Fam, S string }

var (
	hpOnce sync.Once
	hpTab  []hpay
)

const (
	calibTok   = "qZcalibZq"    // the harmless payload of the probes
	calibNonce = "pxCALIBNONCE" // the nonce of the probes
	calibID    = 4999999        // the numeric JSON-RPC id of the probes
	calibRID   = 8999999        // the numeric id of the server-issued request of the probes
)

// hostile returns the payload classes (deterministic; the order is part of nothing).
func hostile() []hpay {
	hpOnce.Do(func() {
		add := func(fam, class, s string) { hpTab = append(hpTab, hpay{class, fam, s}) }
		// formatting functions
		for i, s := range []string{"%", "%s", "%d", "%v", "%!", "100%", "%%", "a%20b", "abc%", "%abc", "50%, then 100%", "%q%x%T%p%+v%#v%08.3f%[1]d%*d%c%U%e%t%b%o%w",
			"%!(EXTRA string=x)", "%!s(MISSING)", "%(", "% d", "%-5s|", "%n", "%1$s", "%.", "%[", "%[9]s", "%*", "file:///tmp/a%20b%2Fc.txt", "LIKE '%abc%'", "%\x00", "%\u00e9", "%\xff"} {
			add("pct", fmt.Sprintf("pct-%02d", i), s)
		}
		add("pct", "pct-before-quote", `x%"y`)
		add("pct", "pct-before-quote-end", `say "100%"`)
		add("pct", "pct-before-backslash", `50%\n`)
		add("pct", "pct-before-lf", "50%\nnext")
		add("pct", "pct-before-tab", "50%\t%")
		add("pct", "pct-x200", strings.Repeat("%", 200))
		add("pct", "pct-s-x100", strings.Repeat("%s", 100))
		add("pct", "pct-every-position", "%a%b%c%d%e%f%g%h%i%j%k%l%m%n%o%p%q%r%s%t%u%v%w%x%y%z%A%B%C%D%E%F%G%H%I%J%K%L%M%N%O%P%Q%R%S%T%U%V%W%X%Y%Z%0%1%9% %#%+%-%.%")
		// template / replacement syntax of other layers
		for i, s := range []string{"$1", "${name}", "$$", "$0 and \\1", "{{.}}", "{{ printf \"%s\" . }}", "{0} {} {", "#{x}", "`cmd`", "$(cmd)", "<script>alert(1)&amp;</script>", "&<>"} {
			add("tmpl", fmt.Sprintf("tmpl-%02d", i), s)
		}
		// string escaping
		for i, s := range []string{`\`, `\\`, `a\b`, `\n`, `abc\`, `\"`, `\u0041`, `\u2028`, `\ud800`, `\x00`, `\0`, `\\\`, `C:\dir\new\table`, `"`, `""`, `'`, "`", `a"b"c`, `"}`,
			`","id":1,"x":"`, `{"jsonrpc":"2.0","id":1,"result":{}}`, `}` + "\n" + `{`, `[`, `]]`, `null`, `\"},{\"`} {
			add("esc", fmt.Sprintf("esc-%02d", i), s)
		}
		add("ctl", "nul", "\x00")
		add("ctl", "nul-inside", "a\x00b")
		var ctl strings.Builder
		for c := 1; c < 0x20; c++ {
			ctl.WriteByte(byte(c))
		}
		add("ctl", "c0-all", ctl.String())
		add("ctl", "del-esc", "\x7f\x1b[31mred\x1b[0m\x08\x07")
		add("ctl", "c1", "\u0080\u0085\u009b\u009f")
		for i, s := range []string{"\xff", "a\xc3", "\xe2\x80", "\xed\xa0\x80", "\xed\xb0\x80x", "\xc0\xaf", "\xf4\x90\x80\x80", "ok\x80ok", "\xfe\xff", "\xef\xbf"} {
			add("utf8", fmt.Sprintf("invalid-utf8-%02d", i), s)
		}
		add("utf8", "replacement-char", "\ufffd")
		add("utf8", "noncharacters", "\ufffe\uffff\U0010ffff")
		add("utf8", "astral", "\U0001f600\U00010000 \U0001f468\u200d\U0001f469")
		add("utf8", "combining-rtl", "e\u0301 \u202eabc\u202c \u200b")
		// SSE field syntax inside data
		for i, s := range []string{"data: x", "data:x", "id: 7", "id:", "event: endpoint", "event: message", "retry: 10", ": comment", ":", "\ndata: x\n\n", "\n\nid: 99\nevent: endpoint\ndata: /evil\n\n",
			"\r\rdata:", "x\n\ndata: {\"jsonrpc\":\"2.0\"}\n\n", " x", "  x", "x ", "x  ", "\tx", "x\t", " ", "\t", "\ufeffx", "\ufeff", "x\ufeff", "\ufeffdata: x", "data", "data\n", "event"} {
			add("sse", fmt.Sprintf("sse-%02d", i), s)
		}
		// stdio line syntax
		for i, s := range []string{"a\tb", "\f", "a\fb", "\v", "\u0085", "a\u0085b", "a\u2028b\u2029c", "\r", "a\r", "\n", "\n\n\n", "a\r\n", "\r\n\r\n", "\n\r", "a\x1eb", "a\x1cb\x1d", "a\u000bb", "line1\\\nline2"} {
			add("line", fmt.Sprintf("line-%02d", i), s)
		}
		// very long single lines and many short lines
		long := func(n int, every int, ins string) string {
			var b strings.Builder
			b.Grow(n + n/every*len(ins) + 8)
			for i := 0; b.Len() < n; i++ {
				if i%every == every-1 {
					b.WriteString(ins)
				} else {
					b.WriteByte(byte('a' + i%26))
				}
			}
			return b.String()
		}
		add("long", "long-70k-plain", long(70000, 1<<30, ""))
		add("long", "long-70k-pct", long(70000, 997, "%"))
		add("long", "long-150k-pct-quote-backslash", long(150000, 1013, `%"\`))
		add("long", "long-8k-pct-s", long(8192, 61, "%s"))
		add("long", "lines-5000-lf", strings.Repeat("x\n", 5000))
		add("long", "lines-3000-crlf-pct", strings.Repeat("%\r\n", 3000))
		add("long", "lines-2000-data", strings.Repeat("data: x\n\n", 2000))
		add("long", "lines-4000-empty", strings.Repeat("\n", 4000))
	})
	return hpTab
}

// smallHostile: the classes short enough to be sent tens of thousands of times.
func smallHostile() []hpay {
	var out []hpay
	for _, p := range hostile() {
		if len(p.S) <= 256 {
			out = append(out, p)
		}
	}
	return out
}

// rt is what a Go string is after one trip through encoding/json (invalid UTF-8 becomes U+FFFD).
func rt(s string) string {
	b, err := json.Marshal(s)
	if err != nil {
		return s
	}
	var o string
	if json.Unmarshal(b, &o) != nil {
		return s
	}
	return o
}

func jstr(s string) string { b, _ := json.Marshal(s); return string(b) }

// payloadOf: index -1 is the probe token.
func payloadOf(pi int) string {
	if pi < 0 || pi >= len(hostile()) {
		return calibTok
	}
	return hostile()[pi].S
}

// ---------------------------------------------------------------------------------------------------
// strict decoding, canonical form, templates
// ---------------------------------------------------------------------------------------------------

// decodeStrict: the frame must be exactly one JSON value.
func decodeStrict(f string) (interface{}, error) {
	dec := json.NewDecoder(strings.NewReader(f))
	dec.UseNumber()
	var v interface{}
	if err := dec.Decode(&v); err != nil {
		return nil, err
	}
	if _, err := dec.Token(); err != io.EOF {
		return nil, errors.New("data after the first JSON value")
	}
	return v, nil
}

func canonOf(v interface{}) string {
	var b bytes.Buffer
	enc := json.NewEncoder(&b)
	enc.SetEscapeHTML(false)
	_ = enc.Encode(v)
	return strings.TrimSuffix(b.String(), "\n")
}

// substitute rebuilds a decoded template with strings (values and keys) and numbers replaced.
func substitute(v interface{}, str func(string) string, num map[string]json.Number) interface{} {
	switch x := v.(type) {
	case string:
		return str(x)
	case json.Number:
		if n, ok := num[x.String()]; ok {
			return n
		}
		return x
	case []interface{}:
		out := make([]interface{}, len(x))
		for i := range x {
			out[i] = substitute(x[i], str, num)
		}
		return out
	case map[string]interface{}:
		out := make(map[string]interface{}, len(x))
		for k, e := range x {
			out[str(k)] = substitute(e, str, num)
		}
		return out
	default:
		return v
	}
}

func containsTok(v interface{}) bool {
	found := false
	substitute(v, func(s string) string {
		if strings.Contains(s, calibTok) {
			found = true
		}
		return s
	}, nil)
	return found
}

type tmpl struct {
	role string // response | notification | request
	v    interface{}
}

func roleOf(v interface{}) string {
	m, ok := v.(map[string]interface{})
	if !ok {
		return "other"
	}
	_, hasID := m["id"]
	_, hasMeth := m["method"]
	switch {
	case hasMeth && hasID:
		return "request"
	case hasMeth:
		return "notification"
	case hasID:
		return "response"
	}
	return "other"
}

// attrKeys: by what a decoded frame can be attributed to a case (nonce in params, id).
func attrKeys(v interface{}) []string {
	m, ok := v.(map[string]interface{})
	if !ok {
		return nil
	}
	var keys []string
	if p, ok := m["params"].(map[string]interface{}); ok {
		if n, ok := p["nonce"].(string); ok {
			keys = append(keys, "n:"+n)
		}
	}
	switch id := m["id"].(type) {
	case json.Number:
		keys = append(keys, "i:"+id.String())
	case string:
		if i := strings.IndexByte(id, '|'); i > 0 {
			keys = append(keys, "n:"+id[:i])
		} else {
			keys = append(keys, "n:"+id)
		}
	}
	return keys
}

// expMsg is one message the stream has to carry.
type expMsg struct {
	canon   string
	kind    string
	pi      int
	certain bool // false: the API reported a failure, 0 or 1 copies
	keys    []string
	hasTok  bool
	matched bool
}

func famOf(pi int) (fam, class string) {
	if pi < 0 || pi >= len(hostile()) {
		return "probe", "probe"
	}
	return hostile()[pi].Fam, hostile()[pi].Class
}

// ---------------------------------------------------------------------------------------------------
// judgement of one stream (or one POST exchange)
// ---------------------------------------------------------------------------------------------------

type contentJudge struct {
	r      *vh.Run
	stream string
	stdio  bool
	ignore func(v interface{}) bool // frames that belong to the harness (fences)
}

// judge compares frames with exp. complete=false: the stream could not be shown to have moved on, missing messages
// are not judged. It returns the number of expected messages recovered with equal content.
func (j contentJudge) judge(frames []string, exp []*expMsg, complete bool) int {
	r := j.r
	type gotF struct {
		raw   string
		v     interface{}
		canon string
		used  bool
	}
	var got []*gotF
	byCanon := map[string][]*gotF{}
	var broken []string
	for _, f := range frames {
		r.Count("frames_parsed", 1)
		v, err := decodeStrict(f)
		if err != nil {
			broken = append(broken, f)
			continue
		}
		if j.stdio && strings.ContainsAny(f, "\r\n") {
			r.Violation(fmt.Sprintf("C09|payload|%s|raw-newline-in-line", j.stream), "a stdio line contains a raw CR/LF", map[string]interface{}{"frame": clip(f)})
		}
		if j.ignore != nil && j.ignore(v) {
			continue
		}
		g := &gotF{raw: f, v: v, canon: canonOf(v)}
		got = append(got, g)
		byCanon[g.canon] = append(byCanon[g.canon], g)
	}
	verified := 0
	take := func(e *expMsg) bool {
		for _, g := range byCanon[e.canon] {
			if !g.used {
				g.used = true
				e.matched = true
				return true
			}
		}
		return false
	}
	for _, e := range exp {
		if e.certain && take(e) {
			verified++
		}
	}
	for _, e := range exp {
		if !e.certain && take(e) {
			verified++
		}
	}
	byKey := map[string][]*expMsg{}
	for _, e := range exp {
		for _, k := range e.keys {
			byKey[k] = append(byKey[k], e)
		}
	}
	// frames that equal no expected message
	for _, g := range got {
		if g.used {
			continue
		}
		var cand, any *expMsg
		role := roleOf(g.v)
		for _, k := range attrKeys(g.v) {
			for _, e := range byKey[k] {
				any = e
				if !e.matched && cand == nil && e.kind != "" {
					var ev interface{}
					_ = json.Unmarshal([]byte(e.canon), &ev)
					if roleOf(ev) == role {
						cand = e
					}
				}
			}
		}
		switch {
		case cand != nil:
			cand.matched = true
			fam, class := famOf(cand.pi)
			r.Violation(fmt.Sprintf("C09|payload|%s|%s|%s|content-differs", j.stream, cand.kind, fam),
				fmt.Sprintf("%s: the %s recovered for a %s with payload class %s is not the message that was written", j.stream, role, cand.kind, class),
				map[string]interface{}{"kind": cand.kind, "payload_class": class, "payload": clip(fmt.Sprintf("%q", payloadOf(cand.pi))), "written": clip(cand.canon), "recovered_frame": clip(g.raw)})
		case any != nil:
			fam, class := famOf(any.pi)
			r.Violation(fmt.Sprintf("C09|payload|%s|%s|%s|extra-copy", j.stream, any.kind, fam),
				fmt.Sprintf("%s: a further %s was recovered for a %s (payload class %s) whose messages had all been recovered already", j.stream, role, any.kind, class),
				map[string]interface{}{"kind": any.kind, "payload_class": class, "recovered_frame": clip(g.raw)})
		default:
			r.Violation(fmt.Sprintf("C09|payload|%s|foreign-frame", j.stream), fmt.Sprintf("%s: a frame was recovered that corresponds to no message written", j.stream), map[string]interface{}{"recovered_frame": clip(g.raw)})
		}
	}
	// frames that are not one JSON value: attribute leniently (the nonce / id text is usually still readable)
	for _, f := range broken {
		_, err := decodeStrict(f)
		var cand *expMsg
		for _, e := range exp {
			if e.matched {
				continue
			}
			for _, k := range e.keys {
				if (strings.HasPrefix(k, "n:") && strings.Contains(f, k[2:])) || (strings.HasPrefix(k, "i:") && strings.Contains(f, `"id":`+k[2:])) {
					cand = e
				}
			}
			if cand != nil {
				break
			}
		}
		if cand != nil {
			cand.matched = true
			fam, class := famOf(cand.pi)
			r.Violation(fmt.Sprintf("C09|payload|%s|%s|%s|frame-not-one-message", j.stream, cand.kind, fam),
				fmt.Sprintf("%s: the frame of a %s with payload class %s is not one JSON-RPC message (%v)", j.stream, cand.kind, class, err),
				map[string]interface{}{"kind": cand.kind, "payload_class": class, "payload": clip(fmt.Sprintf("%q", payloadOf(cand.pi))), "written": clip(cand.canon), "frame": clip(f), "len": len(f)})
		} else {
			r.Violation(fmt.Sprintf("C09|payload|%s|frame-not-one-message", j.stream), fmt.Sprintf("%s: a frame is not one JSON-RPC message (%v)", j.stream, err), map[string]interface{}{"frame": clip(f), "len": len(f)})
		}
	}
	// written, not recovered
	open := 0
	for _, e := range exp {
		if e.matched || !e.certain {
			continue
		}
		if !complete {
			open++
			continue
		}
		fam, class := famOf(e.pi)
		r.Violation(fmt.Sprintf("C09|payload|%s|%s|%s|missing", j.stream, e.kind, fam),
			fmt.Sprintf("%s: a message that was written (%s, payload class %s) was not recovered although the stream has moved on", j.stream, e.kind, class),
			map[string]interface{}{"kind": e.kind, "payload_class": class, "written": clip(e.canon)})
	}
	if open > 0 {
		r.Inconclusive(fmt.Sprintf("payload|%s: %d written messages had not arrived when the wait ended and the stream could not be shown to have moved on", j.stream, open))
	}
	for _, e := range exp {
		if e.matched && e.kind != "" {
			r.Count(fmt.Sprintf("payload_msgs_recovered_equal|%s|%s", j.stream, e.kind), 1)
		}
	}
	r.Eval(len(exp))
	return verified
}

// ---------------------------------------------------------------------------------------------------
// server side fixture
// ---------------------------------------------------------------------------------------------------

type callRec struct {
	mu         sync.Mutex
	notif, req int // stYes / stNo / stMaybe; 0 (= stNo) also when nothing was attempted
	notifTried bool
	reqTried   bool
	done       bool // the handler has finished its sends
}

// states returns the outcome of the handler's sends; while the handler has not finished they are open (0 or 1).
func (c *callRec) states(wantNotif, wantReq bool) (ns, qs int) {
	if c == nil {
		ns, qs = stNo, stNo
		if wantNotif {
			ns = stMaybe
		}
		if wantReq {
			qs = stMaybe
		}
		return
	}
	c.mu.Lock()
	defer c.mu.Unlock()
	ns, qs = c.notif, c.req
	if wantNotif && (!c.done || !c.notifTried) {
		ns = stMaybe
	}
	if wantReq && (!c.done || !c.reqTried) {
		qs = stMaybe
	}
	return
}

type pfState struct {
	in    *kit.Instance
	calls sync.Map // nonce -> *callRec
}

func (st *pfState) rec(nonce string) *callRec {
	v, _ := st.calls.LoadOrStore(nonce, &callRec{})
	return v.(*callRec)
}

func sidOf(ctx context.Context) string {
	if s, ok := mcp.GetSessionFromContext(ctx); ok && s != nil {
		return s.GetID()
	}
	if s := mcp.ClientSessionFromContext(ctx); s != nil {
		return s.GetID()
	}
	return ""
}

// inCallNotify sends one notification from inside a handler by the means the server kind offers.
func (st *pfState) inCallNotify(ctx context.Context, mode, nonce, p string) int {
	method, params := "notifications/verif", map[string]interface{}{"nonce": nonce, "p": p}
	switch mode {
	case "n-method":
		method, params = "notifications/verif/"+p, map[string]interface{}{"nonce": nonce}
	case "n-key":
		params = map[string]interface{}{"nonce": nonce, "k|" + p: "v"}
	}
	state := func(err error) int {
		if err == nil {
			return stYes
		}
		return stMaybe
	}
	switch {
	case st.in.Server != nil:
		sender, ok := mcp.GetNotificationSender(ctx)
		if !ok {
			return stNo
		}
		switch mode {
		case "n-progress":
			return state(sender.SendProgress(0.5, p))
		case "n-log":
			return state(sender.SendLogMessage("info", p))
		}
		return state(sender.SendCustomNotification(method, params))
	case st.in.SSE != nil:
		if mode == "n-progress" || mode == "n-log" {
			return stNo
		}
		err := st.in.SSE.SendNotification(sidOf(ctx), method, params)
		if err != nil && (strings.Contains(err.Error(), "channel full") || strings.Contains(err.Error(), "not found") || strings.Contains(err.Error(), "not initialized")) {
			return stNo
		}
		return state(err)
	default:
		if mode == "n-progress" || mode == "n-log" {
			return stNo
		}
		s, ok := mcp.GetSessionFromContext(ctx)
		if !ok {
			return stNo
		}
		nc, ok := s.(interface {
			NotificationChannel() chan<- mcp.JSONRPCNotification
		})
		if !ok {
			return stNo
		}
		n := mcp.NewJSONRPCNotificationFromMap(method, params)
		select {
		case nc.NotificationChannel() <- *n:
			return stYes
		default:
			return stNo
		}
	}
}

// serverRequest issues one server-to-client request (someone answers it: the responder of the scenario).
func (st *pfState) serverRequest(ctx context.Context, sid, mode, nonce, p string, rid int64) int {
	rq := &mcp.JSONRPCRequest{JSONRPC: "2.0"}
	rq.Method = "verif/ask"
	rq.Params = map[string]interface{}{"nonce": nonce, "p": p}
	rq.ID = rid
	switch mode {
	case "q-method":
		rq.Method = "verif/ask/" + p
		rq.Params = map[string]interface{}{"nonce": nonce}
	case "q-key":
		rq.Params = map[string]interface{}{"nonce": nonce, "k|" + p: "v"}
	case "q-strid":
		rq.ID = nonce + "|" + p
	}
	rctx, cancel := context.WithTimeout(ctx, 4*time.Second)
	defer cancel()
	var err error
	switch {
	case st.in.Server != nil:
		if mode != "q-strid" {
			rq.ID = nonce // the Streamable server takes string ids
		}
		_, err = st.in.Server.SendRequest(rctx, sid, rq)
		if err != nil && refused(err) {
			return stNo
		}
	case st.in.SSE != nil:
		_, err = st.in.SSE.SendRequest(rctx, sid, rq)
		if err != nil && (strings.Contains(err.Error(), "queue full") || strings.Contains(err.Error(), "session not found")) {
			return stNo
		}
	default:
		_, err = st.in.Stdio.SendRequest(rctx, rq)
		if err != nil && (strings.Contains(err.Error(), "MessageChannel full") || strings.Contains(err.Error(), "no session available")) {
			return stNo
		}
	}
	if err == nil {
		return stYes
	}
	return stMaybe
}

func numArg(a map[string]interface{}, k string) int {
	f, _ := a[k].(float64)
	return int(f)
}

func payloadFixture(in *kit.Instance) *pfState {
	st := &pfState{in: in}
	in.RegisterTool(mcp.NewTool("ptool", mcp.WithString("nonce"), mcp.WithString("mode"), mcp.WithNumber("pi"), mcp.WithNumber("rid")),
		func(ctx context.Context, req *mcp.CallToolRequest) (*mcp.CallToolResult, error) {
			a := req.Params.Arguments
			nonce, _ := a["nonce"].(string)
			mode, _ := a["mode"].(string)
			p := payloadOf(numArg(a, "pi"))
			switch {
			case mode == "result":
				return mcp.NewTextResult(p), nil
			case mode == "iserr":
				return mcp.NewErrorResult(p), nil
			case mode == "structured":
				return &mcp.CallToolResult{Content: []mcp.Content{mcp.NewTextContent("s")}, StructuredContent: map[string]interface{}{"p": p, "k|" + p: []interface{}{p, map[string]interface{}{p: p}}}}, nil
			case mode == "two-texts":
				return &mcp.CallToolResult{Content: []mcp.Content{mcp.NewTextContent(p), mcp.NewTextContent(p + p)}}, nil
			case mode == "fail":
				return nil, errors.New(p)
			case strings.HasPrefix(mode, "n-"):
				rec := st.rec(nonce)
				res := st.inCallNotify(ctx, mode, nonce, p)
				rec.mu.Lock()
				rec.notifTried, rec.notif, rec.done = true, res, true
				rec.mu.Unlock()
				return mcp.NewTextResult("sent"), nil
			case strings.HasPrefix(mode, "q-"):
				rec := st.rec(nonce)
				res := st.serverRequest(ctx, sidOf(ctx), mode, nonce, p, int64(numArg(a, "rid")))
				rec.mu.Lock()
				rec.reqTried, rec.req, rec.done = true, res, true
				rec.mu.Unlock()
				return mcp.NewTextResult("asked"), nil
			}
			return mcp.NewTextResult("?"), nil
		})
	in.RegisterPrompt(&mcp.Prompt{Name: "pprompt", Arguments: []mcp.PromptArgument{{Name: "pi"}, {Name: "mode"}}},
		func(ctx context.Context, req *mcp.GetPromptRequest) (*mcp.GetPromptResult, error) {
			pi, _ := strconv.Atoi(req.Params.Arguments["pi"])
			p := payloadOf(pi)
			if req.Params.Arguments["mode"] == "fail" {
				return nil, errors.New(p)
			}
			return &mcp.GetPromptResult{Description: p, Messages: []mcp.PromptMessage{{Role: mcp.RoleUser, Content: mcp.NewTextContent(p)}}}, nil
		})
	for i := -1; i < len(hostile()); i++ {
		p := payloadOf(i)
		uri := fmt.Sprintf("pres://r/%d", i)
		in.RegisterResource(&mcp.Resource{URI: uri, Name: fmt.Sprintf("r%d", i)}, func(ctx context.Context, req *mcp.ReadResourceRequest) (mcp.ResourceContents, error) {
			return mcp.TextResourceContents{URI: "file:///" + p, MIMEType: "text/plain", Text: p}, nil
		})
		in.RegisterResource(&mcp.Resource{URI: fmt.Sprintf("pres://f/%d", i), Name: fmt.Sprintf("f%d", i)}, func(ctx context.Context, req *mcp.ReadResourceRequest) (mcp.ResourceContents, error) {
			return nil, errors.New(p)
		})
	}
	return st
}

// ---------------------------------------------------------------------------------------------------
// message kinds
// ---------------------------------------------------------------------------------------------------

// reqKind is a message kind caused by a request of the peer; build renders the raw request.
type reqKind struct {
	name  string
	build func(id, nonce string, pi int, rid int64) string
	notif bool // the handler sends one in-call notification
	req   bool // the handler issues one server request
	only  func(in *kit.Instance) bool
}

func toolCall(mode string) func(id, nonce string, pi int, rid int64) string {
	return func(id, nonce string, pi int, rid int64) string {
		return fmt.Sprintf(`{"jsonrpc":"2.0","id":%s,"method":"tools/call","params":{"name":"ptool","arguments":{"nonce":%s,"mode":%s,"pi":%d,"rid":%d}}}`, id, jstr(nonce), jstr(mode), pi, rid)
	}
}

func reqKinds() []reqKind {
	streamable := func(in *kit.Instance) bool { return in.Server != nil }
	stdioOnly := func(in *kit.Instance) bool { return in.Stdio != nil }
	return []reqKind{
		{name: "result-text", build: toolCall("result")},
		{name: "result-iserror-text", build: toolCall("iserr")},
		{name: "result-structured-keys+values", build: toolCall("structured")},
		{name: "result-two-texts", build: toolCall("two-texts")},
		{name: "error-tool-handler-message", build: toolCall("fail")},
		{name: "error-unknown-tool-name", build: func(id, nonce string, pi int, rid int64) string {
			return fmt.Sprintf(`{"jsonrpc":"2.0","id":%s,"method":"tools/call","params":{"name":%s,"arguments":{}}}`, id, jstr("nt|"+payloadOf(pi)))
		}},
		{name: "result-prompt", build: func(id, nonce string, pi int, rid int64) string {
			return fmt.Sprintf(`{"jsonrpc":"2.0","id":%s,"method":"prompts/get","params":{"name":"pprompt","arguments":{"pi":"%d","mode":"ok"}}}`, id, pi)
		}},
		{name: "error-prompt-handler-message", build: func(id, nonce string, pi int, rid int64) string {
			return fmt.Sprintf(`{"jsonrpc":"2.0","id":%s,"method":"prompts/get","params":{"name":"pprompt","arguments":{"pi":"%d","mode":"fail"}}}`, id, pi)
		}},
		{name: "error-unknown-prompt-name", build: func(id, nonce string, pi int, rid int64) string {
			return fmt.Sprintf(`{"jsonrpc":"2.0","id":%s,"method":"prompts/get","params":{"name":%s}}`, id, jstr("np|"+payloadOf(pi)))
		}},
		{name: "result-resource-uri+text", build: func(id, nonce string, pi int, rid int64) string {
			return fmt.Sprintf(`{"jsonrpc":"2.0","id":%s,"method":"resources/read","params":{"uri":"pres://r/%d"}}`, id, pi)
		}},
		{name: "error-resource-handler-message", build: func(id, nonce string, pi int, rid int64) string {
			return fmt.Sprintf(`{"jsonrpc":"2.0","id":%s,"method":"resources/read","params":{"uri":"pres://f/%d"}}`, id, pi)
		}},
		{name: "error-unknown-resource-uri", build: func(id, nonce string, pi int, rid int64) string {
			return fmt.Sprintf(`{"jsonrpc":"2.0","id":%s,"method":"resources/read","params":{"uri":%s}}`, id, jstr("nores://"+payloadOf(pi)))
		}},
		{name: "string-id", build: func(id, nonce string, pi int, rid int64) string {
			return fmt.Sprintf(`{"jsonrpc":"2.0","id":%s,"method":"ping"}`, jstr(nonce+"|"+payloadOf(pi)))
		}},
		{name: "string-id-error", build: func(id, nonce string, pi int, rid int64) string {
			return fmt.Sprintf(`{"jsonrpc":"2.0","id":%s,"method":"verif/no-such-method"}`, jstr(nonce+"|"+payloadOf(pi)))
		}},
		{name: "in-call-notification-param", build: toolCall("n-custom"), notif: true},
		{name: "in-call-notification-method", build: toolCall("n-method"), notif: true},
		{name: "in-call-notification-key", build: toolCall("n-key"), notif: true},
		{name: "in-call-progress-message", build: toolCall("n-progress"), notif: true, only: streamable},
		{name: "in-call-log-message", build: toolCall("n-log"), notif: true, only: streamable},
		{name: "in-call-server-request-param", build: toolCall("q-custom"), req: true, only: stdioOnly},
		{name: "in-call-server-request-method", build: toolCall("q-method"), req: true, only: stdioOnly},
		{name: "in-call-server-request-key", build: toolCall("q-key"), req: true, only: stdioOnly},
	}
}

// oobKind is a message the server sends on its own account (harness goroutine calls the API).
type oobKind struct {
	name string
	send func(st *pfState, sid, nonce string, pi int, rid int64) (state, copies int)
	only func(in *kit.Instance) bool
}

func oobKinds() []oobKind {
	streamable := func(in *kit.Instance) bool { return in.Server != nil }
	notif := func(mode string) func(st *pfState, sid, nonce string, pi int, rid int64) (int, int) {
		return func(st *pfState, sid, nonce string, pi int, rid int64) (int, int) {
			p := payloadOf(pi)
			method, params := "notifications/verif", map[string]interface{}{"nonce": nonce, "p": p}
			switch mode {
			case "method":
				method, params = "notifications/verif/"+p, map[string]interface{}{"nonce": nonce}
			case "key":
				params = map[string]interface{}{"nonce": nonce, "k|" + p: "v"}
			}
			var err error
			if st.in.Server != nil {
				err = st.in.Server.SendNotification(sid, method, params)
				if err != nil && refused(err) {
					return stNo, 0
				}
			} else {
				err = st.in.SSE.SendNotification(sid, method, params)
				if err != nil && (strings.Contains(err.Error(), "channel full") || strings.Contains(err.Error(), "not found") || strings.Contains(err.Error(), "not initialized")) {
					return stNo, 0
				}
			}
			if err != nil {
				return stMaybe, 1
			}
			return stYes, 1
		}
	}
	request := func(mode string) func(st *pfState, sid, nonce string, pi int, rid int64) (int, int) {
		return func(st *pfState, sid, nonce string, pi int, rid int64) (int, int) {
			return st.serverRequest(context.Background(), sid, mode, nonce, payloadOf(pi), rid), 1
		}
	}
	return []oobKind{
		{name: "notification-param", send: notif("param")},
		{name: "notification-method", send: notif("method")},
		{name: "notification-key", send: notif("key")},
		{name: "server-request-param", send: request("q-custom")},
		{name: "server-request-method", send: request("q-method")},
		{name: "server-request-key", send: request("q-key")},
		{name: "server-request-string-id", send: request("q-strid"), only: streamable},
		{name: "broadcast-param", only: streamable, send: func(st *pfState, sid, nonce string, pi int, rid int64) (int, int) {
			n, err := st.in.Server.BroadcastNotification("notifications/verif", map[string]interface{}{"nonce": nonce, "p": payloadOf(pi)})
			if err != nil {
				return stMaybe, 1
			}
			return stYes, n
		}},
	}
}

// ---------------------------------------------------------------------------------------------------
// the scenario: one server kind, all message kinds x all payload classes
// ---------------------------------------------------------------------------------------------------

type pcase struct {
	kind  string
	rk    *reqKind
	ok    *oobKind
	pi    int
	nonce string
	id    int
	rid   int64
}

type matrix struct {
	r      *vh.Run
	in     *kit.Instance
	st     *pfState
	c      *kit.RawConn
	stream string // label of the asynchronous stream (get-stream / legacy-sse / stdio-stdout)
	post   string // label of the per-exchange stream (post-sse), "" when answers travel on the asynchronous stream
	tm     map[string][]tmpl

	mu    sync.Mutex
	exp   []*expMsg // expected on the asynchronous stream
	fence atomic.Int64
	slow  atomic.Int64

	aborted string // why the scenario cannot go on (a probe with a harmless payload failed)
	stop    chan struct{}
}

// label: the stream the answers to requests travel on.
func (m *matrix) label() string {
	if m.post != "" {
		return m.post
	}
	return m.stream
}

func (m *matrix) isFence(v interface{}) bool {
	mm, ok := v.(map[string]interface{})
	if !ok {
		return false
	}
	if id, ok := mm["id"].(string); ok && strings.HasPrefix(id, "pfence-") {
		return true
	}
	if meth, ok := mm["method"].(string); ok && meth == "notifications/pfence" {
		return true
	}
	return false
}

// answer server-issued requests like a client would (liveness only; lenient on purpose)
func (m *matrix) responder() {
	i := 0
	ctx := context.Background()
	for {
		select {
		case <-m.stop:
			return
		default:
		}
		fr := m.c.Log.Since(i)
		if len(fr) == 0 {
			time.Sleep(time.Millisecond)
			continue
		}
		i += len(fr)
		for _, f := range fr {
			var h struct {
				ID     json.RawMessage `json:"id"`
				Method string          `json:"method"`
			}
			if json.Unmarshal([]byte(f.Data), &h) != nil || h.Method == "" || len(h.ID) == 0 {
				continue
			}
			ans := []byte(fmt.Sprintf(`{"jsonrpc":"2.0","id":%s,"result":{}}`, h.ID))
			switch m.in.Kind {
			case kit.Stdio:
				_ = m.c.WriteLine(ans)
			default:
				go m.c.Post(ctx, ans, kit.PostOpts{NoWait: true})
			}
		}
	}
}

// templates of one case from the decoded probe frames
func (m *matrix) expectFor(kind string, tms []tmpl, cs pcase, notifState, reqState int, copies int) []*expMsg {
	p := rt(payloadOf(cs.pi))
	rep := strings.NewReplacer(calibTok, p, calibNonce, cs.nonce)
	num := map[string]json.Number{strconv.Itoa(calibID): json.Number(strconv.Itoa(cs.id)), strconv.Itoa(calibRID): json.Number(strconv.FormatInt(cs.rid, 10))}
	var out []*expMsg
	for _, t := range tms {
		state := stYes
		switch t.role {
		case "notification":
			state = notifState
		case "request":
			state = reqState
		}
		if state == stNo {
			continue
		}
		v := substitute(t.v, rep.Replace, num)
		for k := 0; k < copies; k++ {
			out = append(out, &expMsg{canon: canonOf(v), kind: kind, pi: cs.pi, certain: state == stYes, keys: attrKeys(v), hasTok: containsTok(t.v)})
		}
	}
	return out
}

// waitAsync waits until pred holds for the frames of the asynchronous stream from index `from`, or the stream has
// been idle for `idle`.
func (m *matrix) waitAsync(from int, idle time.Duration, pred func(frames []kit.Frame) bool) bool {
	last, lastAt := -1, time.Now()
	for {
		closed := m.c.Log.Closed()
		fr := m.c.Log.Since(from)
		if pred(fr) {
			return true
		}
		if closed {
			return false // the stream has ended: nothing more can arrive
		}
		if len(fr) != last {
			last, lastAt = len(fr), time.Now()
		} else if time.Since(lastAt) > idle {
			return false
		}
		time.Sleep(time.Millisecond)
	}
}

// sendReq sends one raw request; Streamable: the exchange is returned; otherwise the answer arrives on the
// asynchronous stream.
func (m *matrix) sendReq(body string) *kit.Exchange {
	ctx, cancel := context.WithTimeout(context.Background(), 60*time.Second)
	defer cancel()
	if m.in.Kind == kit.Stdio {
		_ = m.c.WriteLine([]byte(body))
		return nil
	}
	return m.c.Post(ctx, []byte(body), kit.PostOpts{NoWait: true})
}

func idKeyOfFrame(data string) string {
	v, err := decodeStrict(data)
	if err != nil {
		return ""
	}
	mm, ok := v.(map[string]interface{})
	if !ok {
		return ""
	}
	if _, isReq := mm["method"]; isReq {
		return ""
	}
	switch id := mm["id"].(type) {
	case json.Number:
		return "i:" + id.String()
	case string:
		return "s:" + id
	}
	return ""
}

// idKeyOfCase: the decoded id the answer to this case carries.
func idKeyOfCase(cs pcase) string {
	if strings.HasPrefix(cs.kind, "string-id") {
		return "s:" + rt(cs.nonce+"|"+payloadOf(cs.pi))
	}
	return "i:" + strconv.Itoa(cs.id)
}

// probe runs the request kind once with the token payload on the quiet stream and returns the templates.
func (m *matrix) probeReq(k *reqKind) []tmpl {
	cs := pcase{kind: k.name, rk: k, pi: -1, nonce: calibNonce, id: calibID, rid: calibRID}
	m.st.calls.Delete(calibNonce)
	from := m.c.Log.Len()
	ex := m.sendReq(k.build(strconv.Itoa(cs.id), cs.nonce, cs.pi, cs.rid))
	var frames []string
	if m.post != "" {
		if ex == nil || ex.HTTP == nil || ex.HTTP.Status != 200 {
			m.aborted = fmt.Sprintf("the probe of %s on %s got no answer (%s)", k.name, m.post, exErr(ex))
			return nil
		}
		frames = ex.HTTP.Frames()
	} else {
		if ex != nil && ex.HTTP != nil && ex.HTTP.Status != 202 {
			// the legacy server answered in the HTTP response: not a frame of the stream
			return nil
		}
		want := idKeyOfCase(cs)
		ok := m.waitAsync(from, 15*time.Second, func(fr []kit.Frame) bool {
			seen := false
			others := 0
			for _, f := range fr {
				if idKeyOfFrame(f.Data) == want {
					seen = true
				} else if strings.Contains(f.Data, calibNonce) {
					others++
				}
			}
			need := 0
			if rec, ok := m.st.calls.Load(calibNonce); ok {
				ns, qs := rec.(*callRec).states(false, false)
				if ns == stYes {
					need++
				}
				if qs == stYes {
					need++
				}
			}
			return seen && others >= need
		})
		if !ok {
			m.aborted = fmt.Sprintf("the answer to the probe of %s did not arrive on %s within 15 s of silence", k.name, m.stream)
			return nil
		}
		time.Sleep(20 * time.Millisecond)
		for _, f := range m.c.Log.Since(from) {
			frames = append(frames, f.Data)
		}
	}
	var out []tmpl
	for _, f := range frames {
		v, err := decodeStrict(f)
		if err != nil {
			m.r.Violation(fmt.Sprintf("C09|payload|%s|%s|probe|frame-not-one-message", m.label(), k.name), fmt.Sprintf("%s: the frame of a %s with a harmless payload is not one JSON-RPC message (%v)", m.label(), k.name, err), map[string]interface{}{"frame": clip(f), "len": len(f)})
			m.aborted = "a probe frame did not parse (reported)"
			return nil
		}
		if m.isFence(v) {
			continue
		}
		out = append(out, tmpl{roleOf(v), v})
	}
	if k.notif || k.req {
		rec, _ := m.st.calls.Load(calibNonce)
		n := 0
		for _, t := range out {
			if t.role != "response" {
				n++
			}
		}
		if rec == nil || n == 0 {
			// this server kind offers no way to send the message from inside a call: the kind is not run
			return nil
		}
	}
	return out
}

func (m *matrix) probeOOB(k *oobKind) []tmpl {
	from := m.c.Log.Len()
	state, copies := k.send(m.st, m.c.SessionID, calibNonce, -1, calibRID)
	if state != stYes || copies != 1 {
		m.r.Inconclusive(fmt.Sprintf("payload|%s: the probe of %s was not sent (state %d, copies %d); the kind is not run", m.stream, k.name, state, copies))
		return nil
	}
	ok := m.waitAsync(from, 15*time.Second, func(fr []kit.Frame) bool {
		for _, f := range fr {
			if strings.Contains(f.Data, calibNonce) {
				return true
			}
		}
		return false
	})
	if !ok {
		m.aborted = fmt.Sprintf("the probe of %s, reported as sent, did not arrive on %s within 15 s of silence", k.name, m.stream)
		return nil
	}
	time.Sleep(20 * time.Millisecond)
	var out []tmpl
	for _, f := range m.c.Log.Since(from) {
		v, err := decodeStrict(f.Data)
		if err != nil {
			m.r.Violation(fmt.Sprintf("C09|payload|%s|oob-%s|probe|frame-not-one-message", m.stream, k.name), fmt.Sprintf("%s: the frame of a %s with a harmless payload is not one JSON-RPC message (%v)", m.stream, k.name, err), map[string]interface{}{"frame": clip(f.Data), "len": len(f.Data)})
			m.aborted = "a probe frame did not parse (reported)"
			return nil
		}
		if m.isFence(v) {
			continue
		}
		out = append(out, tmpl{roleOf(v), v})
	}
	return out
}

func payloadMatrix(r *vh.Run, kind kit.Kind, workers int) {
	opts := kit.Opts{}
	m := &matrix{r: r, tm: map[string][]tmpl{}, stop: make(chan struct{})}
	switch kind {
	case kit.SSSE:
		m.stream, m.post = "get-stream", "post-sse-stream"
	case kit.LSSE:
		m.stream = "legacy-sse-stream"
		opts.KeepAlive = 2 * time.Millisecond
	case kit.Stdio:
		m.stream = "stdio-stdout"
	}
	in := kit.Start(kind, opts)
	defer in.Close()
	m.in = in
	m.st = payloadFixture(in)
	ctx := context.Background()
	c, err := in.Dial(ctx)
	if err != nil {
		r.Fatal("payload matrix %s: dial: %v", kind, err)
	}
	defer c.Close()
	m.c = c
	if err := c.Handshake(ctx); err != nil {
		r.Fatal("payload matrix %s: handshake: %v", kind, err)
	}
	if kind == kit.SSSE {
		if re, err := c.OpenGet(ctx); err != nil {
			r.Fatal("payload matrix: GET: %v %+v", err, re)
		}
	}
	time.Sleep(20 * time.Millisecond)
	go m.responder()
	defer close(m.stop)

	// 1. probes
	rks, oks := reqKinds(), oobKinds()
	var cases []pcase
	hp := hostile()
	noTok := 0
	for i := range rks {
		k := &rks[i]
		if k.only != nil && !k.only(in) {
			continue
		}
		tms := m.probeReq(k)
		if m.aborted != "" {
			r.Inconclusive(fmt.Sprintf("payload|%s: %s; the payload matrix was not run", kind, m.aborted))
			return
		}
		if len(tms) == 0 {
			r.Count("payload_kinds_not_available|"+m.stream, 1)
			continue
		}
		has := false
		for _, t := range tms {
			if containsTok(t.v) {
				has = true
			}
		}
		if !has {
			noTok++
			r.Note(fmt.Sprintf("payload|%s: the messages of kind %s do not carry the payload (judged for framing only)", kind, k.name))
		}
		m.tm[k.name] = tms
		for pi := range hp {
			cases = append(cases, pcase{kind: k.name, rk: k, pi: pi})
		}
	}
	if kind != kit.Stdio {
		for i := range oks {
			k := &oks[i]
			if k.only != nil && !k.only(in) {
				continue
			}
			tms := m.probeOOB(k)
			if m.aborted != "" {
				r.Inconclusive(fmt.Sprintf("payload|%s: %s; the payload matrix was not run", kind, m.aborted))
				return
			}
			if len(tms) == 0 {
				continue
			}
			m.tm["oob-"+k.name] = tms
			for pi := range hp {
				cases = append(cases, pcase{kind: "oob-" + k.name, ok: k, pi: pi})
			}
		}
	}
	rng := r.Rand(fmt.Sprintf("c09-payload-%s-%d", kind, workers))
	rng.Shuffle(len(cases), func(i, j int) { cases[i], cases[j] = cases[j], cases[i] })
	for i := range cases {
		cases[i].nonce = fmt.Sprintf("px%d-%dq", r.Seed%1000, i+1)
		cases[i].id = 5000000 + i
		cases[i].rid = int64(9000000 + i)
	}
	from := c.Log.Len()

	// 2. all cases, a few writers at a time
	var wg sync.WaitGroup
	ch := make(chan pcase)
	postVerified := map[string]int{}
	var pvMu sync.Mutex
	for w := 0; w < workers; w++ {
		wg.Add(1)
		go func() {
			defer wg.Done()
			for cs := range ch {
				r.SetAdd("payload_classes", hp[cs.pi].Class)
				if cs.ok != nil {
					state, copies := cs.ok.send(m.st, c.SessionID, cs.nonce, cs.pi, cs.rid)
					notifState, reqState := state, state
					exp := m.expectFor(cs.kind, m.tm[cs.kind], cs, notifState, reqState, copies)
					m.mu.Lock()
					m.exp = append(m.exp, exp...)
					m.mu.Unlock()
					continue
				}
				body := cs.rk.build(strconv.Itoa(cs.id), cs.nonce, cs.pi, cs.rid)
				start := c.Log.Len()
				ex := m.sendReq(body)
				var rec *callRec
				if m.post != "" {
					// the POST stream of this exchange is complete: judge it on its own
					if ex == nil || ex.HTTP == nil || ex.HTTP.Status != 200 || ex.HTTP.Err != "" {
						r.Inconclusive(fmt.Sprintf("payload|%s: exchange of a %s did not complete (%v)", m.post, cs.kind, exErr(ex)))
						continue
					}
					if v, ok := m.st.calls.Load(cs.nonce); ok {
						rec = v.(*callRec)
					}
					ns, qs := rec.states(cs.rk.notif, cs.rk.req)
					exp := m.expectFor(cs.kind, m.tm[cs.kind], cs, ns, qs, 1)
					label := m.post
					if !ex.HTTP.IsSSE {
						label = "post-json-body"
					}
					n := contentJudge{r: r, stream: label}.judge(ex.HTTP.Frames(), exp, true)
					if ex.HTTP.IsSSE {
						checkEvents(r, "payload|"+label, drained{data: ex.HTTP.Frames(), evs: ex.HTTP.Events})
						raw := string(ex.HTTP.Body)
						if len(raw) > 0 && !strings.HasSuffix(raw, "\n\n") {
							r.Violation("C09|payload|"+label+"|unterminated-tail", label+": the POST stream ends inside an event", map[string]interface{}{"kind": cs.kind, "payload_class": hp[cs.pi].Class, "tail": clip(raw)})
						}
					}
					pvMu.Lock()
					postVerified[label+"|"+cs.kind] += n
					pvMu.Unlock()
					continue
				}
				// asynchronous transports: the answer (and whatever the handler sent) arrives on the stream
				if ex != nil && ex.HTTP != nil && ex.HTTP.Status != 202 {
					r.Count("payload_requests_answered_in_the_http_response|"+m.stream, 1)
					continue
				}
				// keep at most `workers` requests in flight: wait for this answer (liveness only)
				m.waitAnswer(start, cs, 30*time.Second)
				if v, ok := m.st.calls.Load(cs.nonce); ok {
					rec = v.(*callRec)
				}
				ns, qs := rec.states(cs.rk.notif, cs.rk.req)
				exp := m.expectFor(cs.kind, m.tm[cs.kind], cs, ns, qs, 1)
				m.mu.Lock()
				m.exp = append(m.exp, exp...)
				m.mu.Unlock()
			}
		}()
	}
	for _, cs := range cases {
		ch <- cs
	}
	close(ch)
	wg.Wait()

	// 3. the asynchronous stream: wait until everything certain is there or the stream is idle, then fence
	m.mu.Lock()
	exp := m.exp
	m.mu.Unlock()
	certain := 0
	for _, e := range exp {
		if e.certain {
			certain++
		}
	}
	m.waitAsync(from, 10*time.Second, func(fr []kit.Frame) bool { return len(fr) >= len(exp) })
	r.Count("payload_msgs_written_certainly|"+m.stream, int64(certain))
	complete := m.fenceAsync()
	var frames []string
	var evTypes = map[string]int{}
	for _, f := range c.Log.Since(from) {
		frames = append(frames, f.Data)
		evTypes[f.Event]++
	}
	if kind == kit.LSSE {
		for t, n := range evTypes {
			if t != "message" {
				r.Violation("C09|payload|"+m.stream+"|unexpected-event-type", fmt.Sprintf("%d events of type %q on the legacy stream", n, t), nil)
			}
		}
		r.Count("keepalive_comments_seen", int64(c.LegacyComments()))
	}
	if kind == kit.Stdio {
		if part := c.Rec.Partial(); len(part) > 0 {
			r.Violation("C09|payload|"+m.stream+"|unterminated-tail", "stdout ends with an unterminated fragment", map[string]interface{}{"tail": clip(string(part))})
		}
	}
	contentJudge{r: r, stream: m.stream, stdio: kind == kit.Stdio, ignore: m.isFence}.judge(frames, exp, complete)

	// 4. evidence: what was observed per (stream, kind)
	perKind := map[string]int{}
	perKindTok := map[string]bool{}
	for _, e := range exp {
		if e.matched {
			perKind[m.stream+"|"+e.kind]++
			if e.hasTok {
				perKindTok[m.stream+"|"+e.kind] = true
			}
		}
	}
	for k, n := range postVerified {
		perKind[k] += n
		kindName := k[strings.IndexByte(k, '|')+1:]
		for _, t := range m.tm[kindName] {
			if containsTok(t.v) {
				perKindTok[k] = true
			}
		}
	}
	var keys []string
	for k := range perKind {
		keys = append(keys, k)
	}
	sort.Strings(keys)
	for _, k := range keys {
		if perKind[k] > 0 && perKindTok[k] {
			r.Distinct("payload|" + k)
		}
	}
	for name := range m.tm {
		seen := false
		for k, n := range perKind {
			if strings.HasSuffix(k, "|"+name) && n > 0 {
				seen = true
			}
		}
		if !seen {
			r.Inconclusive(fmt.Sprintf("payload|%s: no message of kind %s was recovered with equal content (nothing observed for it)", kind, name))
		}
	}
	r.Sample(map[string]interface{}{"scenario": "payload-matrix", "server": string(kind), "payload_classes": len(hp), "message_kinds": len(m.tm), "cases": len(cases), "writers": workers,
		"frames_on_" + m.stream: len(frames), "kinds_without_payload_in_message": noTok, "recovered_equal_per_stream_and_kind": perKind})
}

func exErr(ex *kit.Exchange) string {
	if ex == nil || ex.HTTP == nil {
		return "no reaction"
	}
	return fmt.Sprintf("status %d err %q", ex.HTTP.Status, ex.HTTP.Err)
}

// waitAnswer waits for the answer of a case (throttling only; nothing is decided here): the frame carrying the decoded
// id, or any frame in which the id / nonce of the case is still readable. After a few waits have run out the
// remaining ones are kept short.
func (m *matrix) waitAnswer(from int, cs pcase, d time.Duration) bool {
	if m.slow.Load() >= 3 {
		d = 300 * time.Millisecond
	}
	key := idKeyOfCase(cs)
	idText := `"id":` + strconv.Itoa(cs.id)
	_, ok := m.c.Log.WaitFor(from, d, func(f kit.Frame) bool {
		if strings.Contains(f.Data, idText) || (strings.HasPrefix(cs.kind, "string-id") && strings.Contains(f.Data, cs.nonce)) {
			return true
		}
		if !strings.Contains(f.Data, `"id"`) {
			return false
		}
		return idKeyOfFrame(f.Data) == key
	})
	if !ok {
		m.slow.Add(1)
	}
	return ok
}

// fenceAsync writes one more message through every pump of the asynchronous stream after everything else and waits
// for it: when the fence has arrived, messages written before it through the same pump have been written.
func (m *matrix) fenceAsync() bool {
	n := m.fence.Add(1)
	from := m.c.Log.Len()
	needPing, needNotif := false, false
	switch m.in.Kind {
	case kit.SSSE:
		if err := m.in.Server.SendNotification(m.c.SessionID, "notifications/pfence", map[string]interface{}{"n": n}); err != nil {
			return false
		}
		needNotif = true
	case kit.LSSE:
		if err := m.in.SSE.SendNotification(m.c.SessionID, "notifications/pfence", map[string]interface{}{"n": n}); err != nil {
			return false
		}
		needNotif = true
		m.sendReq(fmt.Sprintf(`{"jsonrpc":"2.0","id":"pfence-%d","method":"ping"}`, n))
		needPing = true
	case kit.Stdio:
		m.sendReq(fmt.Sprintf(`{"jsonrpc":"2.0","id":"pfence-%d","method":"ping"}`, n))
		needPing = true
	}
	ok := m.waitAsync(from, 20*time.Second, func(fr []kit.Frame) bool {
		p, q := !needPing, !needNotif
		for _, f := range fr {
			if strings.Contains(f.Data, fmt.Sprintf(`"pfence-%d"`, n)) {
				p = true
			}
			if strings.Contains(f.Data, `"notifications/pfence"`) {
				q = true
			}
		}
		return p && q
	})
	if ok {
		time.Sleep(50 * time.Millisecond)
	}
	return ok
}
