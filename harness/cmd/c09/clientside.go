// C09, client-to-server direction: everything a library CLIENT writes must also be one message per frame.
//
//   - stdio: the child's stdin stream carries the application's requests and notifications (written by the
//     application goroutines), the answers to server-issued roots/list and the method-not-found answers to
//     server-issued requests the client does not implement (both written by the client's read loop).
//   - Streamable / legacy SSE clients: the frame is the POST body.
//
// The peer is a scripted server written without the library. It records what it receives strictly frame by
// frame (stdin split at LF only, never with a json.Decoder; POST bodies as received) and floods the client
// with server-issued requests of every kind while N application goroutines send. For its own liveness the
// scripted server answers leniently (it extracts every JSON value of a damaged line); the judgement is made
// on the strict recording only.
package main

import (
	"bufio"
	"bytes"
	"context"
	"encoding/json"
	"fmt"
	"io"
	"math/rand"
	"net"
	"net/http"
	"os"
	"path/filepath"
	"strconv"
	"strings"
	"sync"
	"time"

	mcp "trpc.group/trpc-go/trpc-mcp-go"

	"verifharness/lib/kit"
	"verifharness/lib/vh"
)

// ---------------------------------------------------------------------------------------------------
// server-issued requests (shared by the stdio child and the scripted HTTP servers)
// ---------------------------------------------------------------------------------------------------

type srvKind struct {
	Name   string // evidence label
	Method string
	Params string // raw JSON ("" = no params member)
}

var srvKinds = []srvKind{
	{"roots/list", "roots/list", ""},
	{"sampling/createMessage", "sampling/createMessage", `{"messages":[{"role":"user","content":{"type":"text","text":"hi"}}],"maxTokens":16}`},
	{"elicitation/create", "elicitation/create", `{"message":"your name?","requestedSchema":{"type":"object","properties":{"name":{"type":"string"}}}}`},
	{"ping", "ping", ""},
	{"unknown-method", "verif/unknown", `{"k":"v"}`},
	{"roots/list+params", "roots/list", `{"_meta":{"progressToken":"t"}}`},
	{"wrong-direction", "tools/list", `{}`},
	{"method-with-line-breaks", "verif/line\nbreak\r\n sep x", `{"text":"a\nb"}`},
	{"sampling-8KiB-params", "sampling/createMessage", ""}, // params filled in by srvRequest
	{"method-hostile-text", "", `{"k":"v"}`},                // method filled in by srvRequest: "verif/h|" + a hostile payload class
}

// srvPayloadID / srvPayloadMethod: the hostile payload class (payloadspace.go) the n-th server-issued request carries
// in its string id (every 7th request) / in its method (kind method-hostile-text).
func srvPayloadID(n int) hpay {
	sm := smallHostile()
	return sm[(n/7)%len(sm)]
}

func srvPayloadMethod(n int) hpay {
	sm := smallHostile()
	return sm[(n/len(srvKinds))%len(sm)]
}

var blob8k = strings.Repeat("0123456789abcdef", 512)

// srvID is the JSON-RPC id (raw JSON) of the n-th server-issued request: mostly numbers, every 7th a string that
// carries a hostile payload class.
func srvID(n int) string {
	if n%7 == 3 {
		return jstr(fmt.Sprintf("s-%d|%s", n, srvPayloadID(n).S))
	}
	return strconv.Itoa(500000 + n)
}

// idKey is the decoded form of a raw JSON id (what a peer compares: the value, not its spelling).
func idKey(raw json.RawMessage) string {
	dec := json.NewDecoder(bytes.NewReader(raw))
	dec.UseNumber()
	var v interface{}
	if dec.Decode(&v) != nil {
		return "raw:" + string(raw)
	}
	switch x := v.(type) {
	case string:
		return "s:" + x
	case json.Number:
		return "n:" + x.String()
	}
	return "raw:" + canonID(raw)
}

// srvRequest renders the n-th (n >= 1) server-issued request; the kind cycles through srvKinds.
func srvRequest(n int) (id string, kind srvKind, msg string) {
	kind = srvKinds[n%len(srvKinds)]
	id = srvID(n)
	if kind.Name == "method-hostile-text" {
		kind.Method = "verif/h|" + srvPayloadMethod(n).S
	}
	m, _ := json.Marshal(kind.Method)
	params := kind.Params
	if kind.Name == "sampling-8KiB-params" {
		params = `{"messages":[{"role":"user","content":{"type":"text","text":"` + blob8k + `"}}],"maxTokens":16}`
	}
	if params == "" {
		return id, kind, fmt.Sprintf(`{"jsonrpc":"2.0","id":%s,"method":%s}`, id, m)
	}
	return id, kind, fmt.Sprintf(`{"jsonrpc":"2.0","id":%s,"method":%s,"params":%s}`, id, m, params)
}

// canonID is the compact form of a raw JSON id.
func canonID(raw json.RawMessage) string {
	var b bytes.Buffer
	if json.Compact(&b, raw) != nil {
		return string(raw)
	}
	return b.String()
}

// head is the lenient view the scripted servers need to keep the conversation going.
type head struct {
	ID     json.RawMessage `json:"id"`
	Method string          `json:"method"`
	Params struct {
		Name string `json:"name"`
	} `json:"params"`
	Result json.RawMessage `json:"result"`
	Error  json.RawMessage `json:"error"`
}

// heads extracts every JSON object found in a frame (liveness only; never used for the judgement).
func heads(frame []byte) []head {
	var out []head
	dec := json.NewDecoder(bytes.NewReader(frame))
	for {
		var h head
		if err := dec.Decode(&h); err != nil {
			return out
		}
		out = append(out, h)
	}
}

func plainResult(method string) string {
	switch method {
	case "initialize":
		return `{"protocolVersion":"2025-03-26","capabilities":{"tools":{},"prompts":{},"resources":{}},"serverInfo":{"name":"c09-scripted","version":"1"}}`
	case "tools/list":
		return `{"tools":[{"name":"echo","description":"d","inputSchema":{"type":"object"}}]}`
	case "tools/call":
		return `{"content":[{"type":"text","text":"ok"}]}`
	case "prompts/list":
		return `{"prompts":[{"name":"p"}]}`
	case "prompts/get":
		return `{"description":"d","messages":[{"role":"user","content":{"type":"text","text":"hello"}}]}`
	case "resources/list":
		return `{"resources":[{"uri":"res://ok","name":"ok"}]}`
	case "resources/read":
		return `{"contents":[{"uri":"res://ok","mimeType":"text/plain","text":"t"}]}`
	default:
		return `{}`
	}
}

// script is the conversation logic of a scripted server: what to answer, when to flood, when the flood
// has been answered completely. Output goes through emit (never blocks: unbounded queue).
type script struct {
	mu       sync.Mutex
	cond     *sync.Cond
	budget   int // server-issued requests still allowed
	issued   int
	answered map[string]int // canonical id -> answers seen (lenient count)
	nAnsw    int
	progress int64 // bumps whenever anything arrives
	emit     func(msg string)
	perCall, perReq, perNotif int // server requests issued per tools/call, other request, notification received
}

func newScript(budget int, emit func(string), perCall, perReq, perNotif int) *script {
	s := &script{budget: budget, answered: map[string]int{}, emit: emit, perCall: perCall, perReq: perReq, perNotif: perNotif}
	s.cond = sync.NewCond(&s.mu)
	return s
}

// flood issues up to k server requests.
func (s *script) flood(k int) {
	for i := 0; i < k; i++ {
		s.mu.Lock()
		if s.budget <= 0 {
			s.mu.Unlock()
			return
		}
		s.budget--
		s.issued++
		n := s.issued
		s.mu.Unlock()
		_, _, msg := srvRequest(n)
		s.emit(msg)
	}
}

// seen is called for every JSON object the client sent; answer (if any) is what the server says back.
// drain=true: the caller must answer with waitDrained() once the flood has been answered.
func (s *script) seen(h head) (answer string, drain bool) {
	s.mu.Lock()
	s.progress++
	s.cond.Broadcast()
	s.mu.Unlock()
	switch {
	case h.Method != "" && len(h.ID) > 0: // request
		if h.Method == "tools/call" && h.Params.Name == "c09-drain" {
			return "", true
		}
		switch h.Method {
		case "initialize":
		case "tools/call":
			s.flood(s.perCall)
		default:
			s.flood(s.perReq)
		}
		return fmt.Sprintf(`{"jsonrpc":"2.0","id":%s,"result":%s}`, h.ID, plainResult(h.Method)), false
	case h.Method != "": // notification
		if h.Method != "notifications/initialized" {
			s.flood(s.perNotif)
		}
	case len(h.ID) > 0 && (h.Result != nil || h.Error != nil): // answer to a server-issued request
		s.mu.Lock()
		s.answered[canonID(h.ID)]++
		if s.answered[canonID(h.ID)] == 1 {
			s.nAnsw++
		}
		s.cond.Broadcast()
		s.mu.Unlock()
	}
	return "", false
}

// waitDrained blocks until every issued request has been answered, or nothing at all has arrived for
// `stall` (a watchdog: the verdict on missing answers then is "inconclusive"). It renders the drain answer.
func (s *script) waitDrained(id json.RawMessage, stall time.Duration) string {
	stop := make(chan struct{})
	defer close(stop)
	go func() { // wake the waiter periodically so that it can look at the clock
		t := time.NewTicker(200 * time.Millisecond)
		defer t.Stop()
		for {
			select {
			case <-stop:
				return
			case <-t.C:
				s.mu.Lock()
				s.cond.Broadcast()
				s.mu.Unlock()
			}
		}
	}()
	s.mu.Lock()
	s.budget = 0 // nothing new after the drain request
	last, lastAt := s.progress, time.Now()
	state := "complete"
	for s.nAnsw < s.issued {
		if s.progress != last {
			last, lastAt = s.progress, time.Now()
		} else if time.Since(lastAt) > stall {
			state = "stalled"
			break
		}
		s.cond.Wait()
	}
	issued, answered := s.issued, s.nAnsw
	s.mu.Unlock()
	text := fmt.Sprintf(`{\"state\":\"%s\",\"issued\":%d,\"answered\":%d}`, state, issued, answered)
	return fmt.Sprintf(`{"jsonrpc":"2.0","id":%s,"result":{"content":[{"type":"text","text":"%s"}]}}`, id, text)
}

// unboundedQ is a FIFO whose Put never blocks.
type unboundedQ struct {
	mu     sync.Mutex
	cond   *sync.Cond
	items  []string
	closed bool
}

func newQ() *unboundedQ { q := &unboundedQ{}; q.cond = sync.NewCond(&q.mu); return q }

func (q *unboundedQ) Put(s string) {
	q.mu.Lock()
	q.items = append(q.items, s)
	q.cond.Signal()
	q.mu.Unlock()
}

func (q *unboundedQ) Close() {
	q.mu.Lock()
	q.closed = true
	q.cond.Broadcast()
	q.mu.Unlock()
}

// Get blocks for the next item; more reports whether further items are already queued.
func (q *unboundedQ) Get() (s string, more, ok bool) {
	q.mu.Lock()
	defer q.mu.Unlock()
	for len(q.items) == 0 && !q.closed {
		q.cond.Wait()
	}
	if len(q.items) == 0 {
		return "", false, false
	}
	s = q.items[0]
	q.items = q.items[1:]
	return s, len(q.items) > 0, true
}

// ---------------------------------------------------------------------------------------------------
// stdio: the scripted server child
// ---------------------------------------------------------------------------------------------------

// stdinChild is the scripted stdio server. The reader goroutine does nothing but read stdin line by line,
// append each line (terminator included) to the record file and hand it to the script; it never waits for
// stdout (answers and the flood go through an unbounded queue to a writer goroutine), so the client can
// never dead-lock against it.
func stdinChild() {
	rec, err := os.Create(os.Getenv("C09_STDIN_REC"))
	if err != nil {
		os.Exit(4)
	}
	budget, _ := strconv.Atoi(os.Getenv("C09_FLOOD"))
	q := newQ()
	go func() {
		out := bufio.NewWriterSize(os.Stdout, 1<<16)
		for {
			s, more, ok := q.Get()
			if !ok {
				out.Flush()
				return
			}
			out.WriteString(s)
			out.WriteByte('\n')
			if !more {
				out.Flush()
			}
		}
	}()
	sc := newScript(budget, q.Put, 16, 6, 3)
	rd := bufio.NewReaderSize(os.Stdin, 1<<16)
	for {
		line, err := rd.ReadBytes('\n')
		if len(line) > 0 {
			rec.Write(line) // unbuffered: the client kills this process on Close
		}
		for _, h := range heads(line) {
			ans, drain := sc.seen(h)
			if drain {
				id := h.ID
				go func() { q.Put(sc.waitDrained(id, 20*time.Second)) }()
			} else if ans != "" {
				q.Put(ans)
			}
		}
		if err != nil {
			rec.Close()
			return
		}
	}
}

// ---------------------------------------------------------------------------------------------------
// expectation and judgement
// ---------------------------------------------------------------------------------------------------

// cliWant is what the application sent through the client's API.
type cliWant struct {
	mu         sync.Mutex
	reqs       map[string]bool // nonce -> true: certainly written once; false: the API reported a send failure (0 or 1)
	notifOK    int             // roots/list_changed notifications whose send returned nil
	notifMaybe int             // ... whose send returned an error (0 or 1 copies each)
	handshake  bool            // initialize + notifications/initialized were sent by Initialize
	content    map[string]map[string]string // nonce -> free-text fields of the request as the application passed them (after one trip through encoding/json)
	fam        map[string]string            // nonce -> payload family
	roots      string                       // canonical JSON of the roots the provider returns
}

// addContent records the free text the application put into a request.
func (w *cliWant) addContent(nonce, fam string, fields map[string]string) {
	w.mu.Lock()
	if w.content == nil {
		w.content, w.fam = map[string]map[string]string{}, map[string]string{}
	}
	for k, v := range fields {
		fields[k] = rt(v)
	}
	w.content[nonce], w.fam[nonce] = fields, fam
	w.mu.Unlock()
}

func (w *cliWant) addReq(nonce string) {
	w.mu.Lock()
	w.reqs[nonce] = true
	w.mu.Unlock()
}

func (w *cliWant) reqResult(nonce string, err error) {
	if err == nil {
		return
	}
	e := err.Error()
	// only a failure to hand the message to the transport leaves "written?" open; a missing or late answer does not
	for _, open := range []string{"failed to send", "transport is closed", "failed to start", "HTTP request failed", "failed to create HTTP request", "failed to serialize request", "before-request failed", "endpoint URL not received", "not initialized"} {
		if !strings.Contains(e, open) {
			continue
		}
		w.mu.Lock()
		w.reqs[nonce] = false
		w.mu.Unlock()
		return
	}
}

// reqNonce finds the nonce the application put into a request: arguments.nonce (tools/call, prompts/get),
// uri (resources/read), cursor (the list requests).
func reqNonce(params json.RawMessage) string {
	var p struct {
		Arguments map[string]interface{} `json:"arguments"`
		URI       string                 `json:"uri"`
		Cursor    string                 `json:"cursor"`
	}
	if json.Unmarshal(params, &p) != nil {
		return ""
	}
	if n, ok := p.Arguments["nonce"].(string); ok && n != "" {
		return n
	}
	if strings.HasPrefix(p.URI, "res://") {
		n := strings.TrimPrefix(p.URI, "res://")
		if i := strings.IndexByte(n, '/'); i >= 0 {
			n = n[:i]
		}
		return n
	}
	if i := strings.IndexByte(p.Cursor, '|'); i >= 0 {
		return p.Cursor[:i]
	}
	return p.Cursor
}

// reqFields extracts the free-text fields of a request's params.
func reqFields(params json.RawMessage) map[string]string {
	var p struct {
		Name      *string                `json:"name"`
		Arguments map[string]interface{} `json:"arguments"`
		URI       *string                `json:"uri"`
		Cursor    *string                `json:"cursor"`
	}
	out := map[string]string{}
	if json.Unmarshal(params, &p) != nil {
		return out
	}
	if p.Name != nil {
		out["name"] = *p.Name
	}
	if p.URI != nil {
		out["uri"] = *p.URI
	}
	if p.Cursor != nil {
		out["cursor"] = *p.Cursor
	}
	if v, ok := p.Arguments["p"].(string); ok {
		out["p"] = v
	}
	return out
}

type cliVerdict struct {
	Frames, Empty, Requests, Notifications, ResultAnswers, ErrorAnswers int
	Bad                                                                  int
}

// judgeClientSide: frames are the strict frames of the client->server stream (stdio lines without their
// LF / POST bodies). issued server requests carry the ids srvID(1..issued). complete=false means the
// scripted server gave up waiting for answers (watchdog): missing answers are then not judged.
func judgeClientSide(r *vh.Run, scen string, stdio bool, frames []string, want *cliWant, issued int, complete bool) cliVerdict {
	var v cliVerdict
	for _, f := range frames {
		r.Count("cli_frame_size|"+scen+"|"+cliSizeClass(len(f)+1), 1)
	}
	gotReq := map[string]int{}
	gotAns := map[string]int{}
	gotInit, gotInitialized, gotRootsChanged := 0, 0, 0
	ansKinds := map[string]int{}
	kindOf := map[string]string{}
	nOf := map[string]int{}
	for n := 1; n <= issued; n++ {
		id, k, _ := srvRequest(n)
		kindOf[idKey(json.RawMessage(id))] = k.Name
		nOf[idKey(json.RawMessage(id))] = n
	}
	type echo struct {
		n    int
		msg  string
		kind string
		f    string
	}
	var echoes []echo
	embedsMethod := false
	contentOK, rootsOK := map[string]int{}, 0
	bad := func(sym, what string, i int, f string) {
		v.Bad++
		r.Violation(fmt.Sprintf("C09|%s|%s", scen, sym), fmt.Sprintf("%s: frame %d %s", scen, i, what), map[string]interface{}{"frame_index": i, "frame": clip(f), "len": len(f)})
	}
	for i, f := range frames {
		if stdio && f == "" {
			// an empty line carries no message; a line reader skips it (counted, never produced by a sound writer)
			v.Empty++
			continue
		}
		v.Frames++
		var m map[string]json.RawMessage
		dec := json.NewDecoder(strings.NewReader(f))
		if err := dec.Decode(&m); err != nil || m == nil {
			bad("frame-not-one-message", fmt.Sprintf("is not one JSON-RPC message (%v)", err), i, f)
			continue
		}
		if dec.More() {
			bad("two-messages-in-one-frame", "holds more than one JSON value", i, f)
			continue
		}
		if stdio && strings.ContainsAny(f, "\r\n") {
			bad("raw-newline-in-line", "contains a raw CR/LF", i, f)
		}
		var ver, meth string
		json.Unmarshal(m["jsonrpc"], &ver)
		_, hasMeth := m["method"]
		json.Unmarshal(m["method"], &meth)
		id, hasID := m["id"]
		_, hasRes := m["result"]
		_, hasErr := m["error"]
		switch {
		case ver != "2.0":
			bad("unknown-frame", "is a JSON object but no JSON-RPC 2.0 message", i, f)
		case hasMeth && hasID:
			v.Requests++
			if meth == "initialize" {
				gotInit++
			} else if n := reqNonce(m["params"]); n != "" {
				gotReq[n]++
				// the free text of the request, byte for byte after JSON decoding
				want.mu.Lock()
				exp, fam := want.content[n], want.fam[n]
				want.mu.Unlock()
				if exp != nil {
					gotF := reqFields(m["params"])
					same := true
					for k, ev := range exp {
						if gotF[k] != ev {
							same = false
							v.Bad++
							r.Violation(fmt.Sprintf("C09|%s|request-content-differs|%s|%s", scen, k, fam), fmt.Sprintf("%s: frame %d is request %s, but its %s is not what the application passed (payload family %s)", scen, i, n, k, fam),
								map[string]interface{}{"frame_index": i, "field": k, "passed": clip(fmt.Sprintf("%q", ev)), "recovered": clip(fmt.Sprintf("%q", gotF[k])), "frame": clip(f)})
						}
					}
					if same {
						contentOK[fam]++
					}
				}
			} else {
				bad("unknown-frame", "is a request the application never sent", i, f)
			}
		case hasMeth:
			v.Notifications++
			switch meth {
			case "notifications/initialized":
				gotInitialized++
			case "notifications/roots/list_changed":
				gotRootsChanged++
			default:
				bad("unknown-frame", "is a notification the application never sent", i, f)
			}
		case hasID && (hasRes != hasErr):
			cid := idKey(id)
			if hasRes {
				v.ResultAnswers++
			} else {
				v.ErrorAnswers++
			}
			gotAns[cid]++
			if k, ok := kindOf[cid]; ok {
				ansKinds[k]++
				switch {
				case hasRes && strings.HasPrefix(k, "roots/list") && want.roots != "":
					var res struct {
						Roots json.RawMessage `json:"roots"`
					}
					json.Unmarshal(m["result"], &res)
					rv, err := decodeStrict(string(res.Roots))
					if err != nil || canonOf(rv) != want.roots {
						v.Bad++
						r.Violation(fmt.Sprintf("C09|%s|roots-answer-content-differs", scen), fmt.Sprintf("%s: frame %d answers roots/list, but the roots are not the ones the provider returned", scen, i),
							map[string]interface{}{"frame_index": i, "provided": clip(want.roots), "frame": clip(f)})
					} else {
						rootsOK++
					}
				case hasErr && (k == "unknown-method" || k == "method-hostile-text" || k == "method-with-line-breaks"):
					var e struct {
						Message string `json:"message"`
					}
					json.Unmarshal(m["error"], &e)
					if k == "unknown-method" {
						if strings.Contains(e.Message, "verif/unknown") {
							embedsMethod = true
						}
					} else {
						echoes = append(echoes, echo{nOf[cid], e.Message, k, f})
					}
				}
			}
		default:
			bad("unknown-frame", "is neither request, notification nor answer", i, f)
		}
	}
	// error answers that name the method they refuse (only if this client is seen to do that for a harmless name)
	methodOK := 0
	if embedsMethod {
		for _, e := range echoes {
			_, k, _ := srvRequest(e.n)
			fam := "line"
			if e.kind == "method-hostile-text" {
				fam = srvPayloadMethod(e.n).Fam
			}
			if strings.Contains(e.msg, rt(k.Method)) {
				methodOK++
				continue
			}
			v.Bad++
			r.Violation(fmt.Sprintf("C09|%s|error-answer-method-differs|%s", scen, fam), fmt.Sprintf("%s: the error answer to a server-issued request names a method that is not the one refused (payload family %s)", scen, fam),
				map[string]interface{}{"method": clip(fmt.Sprintf("%q", rt(k.Method))), "error_message": clip(fmt.Sprintf("%q", e.msg)), "frame": clip(e.f)})
		}
	}
	r.Count("cli_roots_answers_with_equal_content|"+scen, int64(rootsOK))
	r.Count("cli_error_answers_naming_the_refused_method_exactly|"+scen, int64(methodOK))
	for fam, n := range contentOK {
		r.Count("cli_requests_with_equal_free_text|"+scen+"|"+fam, int64(n))
		r.Distinct(fmt.Sprintf("%s|request-content|%s", scen, fam))
	}
	// the multiset
	missing, dup, foreign, openMissing := 0, 0, 0, 0
	var examples []string
	note := func(s string) {
		if len(examples) < 6 {
			examples = append(examples, s)
		}
	}
	want.mu.Lock()
	for n, certain := range want.reqs {
		switch g := gotReq[n]; {
		case g > 1:
			dup++
			note("request " + n + " recovered " + strconv.Itoa(g) + " times")
		case g == 0 && certain:
			missing++
			note("request " + n + " not recovered")
		}
	}
	for n := range gotReq {
		if _, ok := want.reqs[n]; !ok {
			foreign++
			note("request " + n + " was never sent")
		}
	}
	if want.handshake {
		if gotInit != 1 {
			note(fmt.Sprintf("initialize recovered %d times", gotInit))
			if gotInit == 0 {
				missing++
			} else {
				dup++
			}
		}
		if gotInitialized != 1 {
			note(fmt.Sprintf("notifications/initialized recovered %d times", gotInitialized))
			if gotInitialized == 0 {
				missing++
			} else {
				dup++
			}
		}
	}
	if gotRootsChanged < want.notifOK {
		missing += want.notifOK - gotRootsChanged
		note(fmt.Sprintf("roots/list_changed: %d sent, %d recovered", want.notifOK, gotRootsChanged))
	} else if gotRootsChanged > want.notifOK+want.notifMaybe {
		dup += gotRootsChanged - want.notifOK - want.notifMaybe
		note(fmt.Sprintf("roots/list_changed: %d sent, %d recovered", want.notifOK+want.notifMaybe, gotRootsChanged))
	}
	nWant := len(want.reqs) + want.notifOK + issued + 2
	want.mu.Unlock()
	for id := range kindOf {
		switch g := gotAns[id]; {
		case g > 1:
			dup++
			note("server request " + id + " answered " + strconv.Itoa(g) + " times")
		case g == 0 && complete:
			missing++
			note("answer to server request " + id + " not recovered")
		case g == 0:
			openMissing++
		}
	}
	for id := range gotAns {
		if _, ok := kindOf[id]; !ok {
			foreign++
			note("answer with id " + id + " matches no server-issued request")
		}
	}
	r.Eval(nWant)
	if missing+dup+foreign > 0 {
		r.Violation(fmt.Sprintf("C09|%s|multiset-differs", scen), fmt.Sprintf("%s: the frame reader recovered a different multiset than the client wrote: %d messages missing, %d duplicated, %d foreign (of %d)", scen, missing, dup, foreign, nWant),
			map[string]interface{}{"written": nWant, "missing": missing, "duplicated": dup, "foreign": foreign, "examples": examples})
	}
	if openMissing > 0 {
		r.Inconclusive(fmt.Sprintf("%s: the scripted server stopped waiting (watchdog) with %d of %d server-issued requests unanswered; missing answers not judged", scen, openMissing, issued))
	}
	r.Count("cli_frames_parsed|"+scen, int64(v.Frames))
	r.Count("cli_app_requests_seen|"+scen, int64(v.Requests))
	r.Count("cli_app_notifications_seen|"+scen, int64(v.Notifications))
	r.Count("cli_result_answers_seen|"+scen, int64(v.ResultAnswers))
	r.Count("cli_error_answers_seen|"+scen, int64(v.ErrorAnswers))
	r.Count("cli_empty_lines|"+scen, int64(v.Empty))
	for k, n := range ansKinds {
		if n > 0 {
			r.SetAdd("cli_answered_server_request_kinds", k)
			r.Distinct(fmt.Sprintf("%s|answers-to=%s", scen, k))
		}
	}
	return v
}

// drainState parses the text of the c09-drain answer.
func drainState(res *mcp.CallToolResult, err error) (state string, issued int) {
	if err != nil || res == nil {
		return "no-answer", 0
	}
	for _, c := range res.Content {
		if tc, ok := c.(mcp.TextContent); ok {
			var d struct {
				State  string `json:"state"`
				Issued int    `json:"issued"`
			}
			if json.Unmarshal([]byte(tc.Text), &d) == nil {
				return d.State, d.Issued
			}
		}
	}
	return "no-answer", 0
}

// appClient is the part of the client API the application goroutines use (StdioClient and Client both have it).
type appClient interface {
	CallTool(ctx context.Context, req *mcp.CallToolRequest) (*mcp.CallToolResult, error)
	ListTools(ctx context.Context, req *mcp.ListToolsRequest) (*mcp.ListToolsResult, error)
	ListPrompts(ctx context.Context, req *mcp.ListPromptsRequest) (*mcp.ListPromptsResult, error)
	GetPrompt(ctx context.Context, req *mcp.GetPromptRequest) (*mcp.GetPromptResult, error)
	ReadResource(ctx context.Context, req *mcp.ReadResourceRequest) (*mcp.ReadResourceResult, error)
	SendRootsListChangedNotification(ctx context.Context) error
}

// hostileRoots: the roots/list answer itself carries line breaks, separators and a long name.
func hostileRoots() mcp.RootsProvider {
	return mcp.NewDefaultRootsProvider(hostileRootList()...)
}

// hostileRootList: besides the first two, one root per hostile payload class (payloadspace.go) of at most 64 bytes
// (every class of the formatting family, every third of the others), the payload in the name and in the URI.
func hostileRootList() []mcp.Root {
	roots := []mcp.Root{
		{URI: "file:///x", Name: strings.Repeat("n", 3000)},
		{URI: "file:///a\nb", Name: "line\nbreak\r\n sep end"},
	}
	k := 0
	for _, p := range smallHostile() {
		if len(p.S) > 64 {
			continue
		}
		if k++; k%3 == 0 || p.Fam == "pct" {
			roots = append(roots, mcp.Root{URI: "file:///" + p.S, Name: p.S})
		}
	}
	return roots
}

// rootsCanon: the canonical JSON of the roots as encoding/json delivers them.
func rootsCanon() string {
	b, err := json.Marshal(hostileRootList())
	if err != nil {
		return ""
	}
	v, err := decodeStrict(string(b))
	if err != nil {
		return ""
	}
	return canonOf(v)
}

// senderPools: the payloads the application goroutines put into their requests. small: the classes of at most
// 4300 bytes (line breaks, separators, every hostile class of payloadspace.go below that size); all: the large ones
// too (stdio only).
func senderPools(rng *rand.Rand, big bool) (small, all []hpay) {
	for _, p := range payloads(rng) {
		hp := hpay{Class: p.Class, Fam: "frame", S: p.S}
		if len(p.S) <= 4300 {
			small = append(small, hp)
		}
		if big || len(p.S) <= 4300 {
			all = append(all, hp)
		}
	}
	for _, p := range hostile() {
		if len(p.S) <= 4300 {
			small = append(small, p)
		}
		if big || len(p.S) <= 4300 {
			all = append(all, p)
		}
	}
	// sizes that put the request frame on both sides of (and now and then exactly on) 512, 4096, 8192, 65536 and
	// 1 MiB: the frame is the payload plus 100-300 bytes of envelope, so the payload is the threshold minus a
	// seeded 0-400 bytes (counted as observed: cli_frame_size|* in judgeClientSide)
	for _, t := range []int{512, 4096, 8192, 65536, 1 << 20} {
		for k := 0; k < 3; k++ {
			n := t - rng.Intn(401)
			b := make([]byte, n)
			for i := range b {
				b[i] = byte('a' + rng.Intn(26))
			}
			hp := hpay{Class: fmt.Sprintf("near-%d", t), Fam: "frame", S: string(b)}
			if n <= 4300 {
				small = append(small, hp)
			}
			if big || n <= 4300 {
				all = append(all, hp)
			}
		}
	}
	return small, all
}

// cliSizeClass names the size class of a client frame relative to the usual buffer thresholds.
func cliSizeClass(n int) string {
	for _, t := range []int{512, 4096, 8192, 65536, 1 << 20} {
		if n >= t-1 && n <= t+1 {
			return fmt.Sprintf("at-%d(+-1)", t)
		}
	}
	switch {
	case n < 512:
		return "<512"
	case n < 4096:
		return "<4096"
	case n < 8192:
		return "<8192"
	case n < 65536:
		return "<65536"
	case n < 1<<20:
		return "<1MiB"
	}
	return ">=1MiB"
}

// runSenders: conc application goroutines, each a seeded sequence of iters operations. Every request carries a
// payload class in each of its free-text fields (tool / prompt name, arguments, resource URI, cursor).
func runSenders(ctx context.Context, r *vh.Run, cl appClient, label string, conc, iters int, big bool, want *cliWant) {
	var wg sync.WaitGroup
	for g := 0; g < conc; g++ {
		rng := r.Rand(fmt.Sprintf("%s-sender-%d", label, g))
		small, all := senderPools(rng, big)
		wg.Add(1)
		go func(g int, rng *rand.Rand) {
			defer wg.Done()
			for i := 0; i < iters; i++ {
				cctx, cc := context.WithTimeout(ctx, 60*time.Second)
				nonce := nextNonce("cs")
				var p hpay
				if rng.Intn(10) == 0 {
					p = all[rng.Intn(len(all))] // any class, the large ones included
				} else {
					p = small[rng.Intn(len(small))]
				}
				q := small[rng.Intn(len(small))] // the class in the name / URI / cursor
				if len(q.S) > 256 {
					q = small[0]
				}
				r.SetAdd("cli_payload_classes", p.Class)
				r.SetAdd("cli_payload_classes", q.Class)
				switch op := rng.Intn(10); {
				case op < 3: // a burst of notifications: no answer to wait for, back-to-back writes
					for k := 0; k < 6; k++ {
						err := cl.SendRootsListChangedNotification(cctx)
						want.mu.Lock()
						if err == nil {
							want.notifOK++
						} else {
							want.notifMaybe++
						}
						want.mu.Unlock()
					}
				case op < 7:
					want.addReq(nonce)
					rq := &mcp.CallToolRequest{}
					rq.Params.Name = "t|" + q.S
					rq.Params.Arguments = map[string]interface{}{"nonce": nonce, "p": p.S}
					want.addContent(nonce, p.Fam, map[string]string{"name": rq.Params.Name, "p": p.S})
					_, err := cl.CallTool(cctx, rq)
					want.reqResult(nonce, err)
				case op == 7:
					want.addReq(nonce)
					rq := &mcp.ListToolsRequest{}
					rq.Params.Cursor = mcp.Cursor(nonce + "|" + q.S)
					want.addContent(nonce, q.Fam, map[string]string{"cursor": string(rq.Params.Cursor)})
					_, err := cl.ListTools(cctx, rq)
					want.reqResult(nonce, err)
				case op == 8:
					want.addReq(nonce)
					rq := &mcp.GetPromptRequest{}
					rq.Params.Name = "p|" + q.S
					rq.Params.Arguments = map[string]string{"nonce": nonce, "p": p.S}
					want.addContent(nonce, p.Fam, map[string]string{"name": rq.Params.Name, "p": p.S})
					_, err := cl.GetPrompt(cctx, rq)
					want.reqResult(nonce, err)
				default:
					want.addReq(nonce)
					rq := &mcp.ReadResourceRequest{}
					rq.Params.URI = "res://" + nonce + "/" + q.S
					want.addContent(nonce, q.Fam, map[string]string{"uri": rq.Params.URI})
					_, err := cl.ReadResource(cctx, rq)
					want.reqResult(nonce, err)
				}
				cc()
			}
		}(g, rng)
	}
	wg.Wait()
}

// ---- (e) stdio client stdin ----
func clientStdin(r *vh.Run, conc, iters, budget int) map[string]interface{} {
	scen := "stdio-client-stdin"
	recFile := filepath.Join(r.OutDir, fmt.Sprintf("client-stdin-%d.rec", conc))
	os.Remove(recFile)
	self, _ := os.Executable()
	cl, err := mcp.NewStdioClient(mcp.StdioTransportConfig{
		ServerParams: mcp.StdioServerParameters{Command: self, Env: map[string]string{vh.ChildEnv: "c09-stdin", "C09_STDIN_REC": recFile, "C09_FLOOD": strconv.Itoa(budget)}},
		Timeout:      120 * time.Second,
	}, kit.ClientInfo, mcp.WithStdioLogger(kit.Quiet{}))
	if err != nil {
		r.Fatal("stdio client: %v", err)
	}
	ctx, cancel := context.WithTimeout(context.Background(), 10*time.Minute)
	defer cancel()
	if _, err := cl.Initialize(ctx, &mcp.InitializeRequest{}); err != nil {
		r.Inconclusive(scen + ": initialize against the scripted server failed: " + err.Error())
		cl.Close()
		return map[string]interface{}{"scenario": scen, "senders": conc, "not_run": "initialize failed"}
	}
	cl.SetRootsProvider(hostileRoots())
	want := &cliWant{reqs: map[string]bool{}, handshake: true, roots: rootsCanon()}
	runSenders(ctx, r, cl, fmt.Sprintf("c09-stdin-%d", conc), conc, iters, true, want)
	// everything the application wanted to send is out; wait until the flood has been answered
	drq := &mcp.CallToolRequest{}
	drq.Params.Name = "c09-drain"
	drq.Params.Arguments = map[string]interface{}{"nonce": "drain"}
	want.addReq("drain")
	dctx, dc := context.WithTimeout(ctx, 100*time.Second)
	state, issued := drainState(cl.CallTool(dctx, drq))
	dc()
	done := make(chan struct{})
	go func() { cl.Close(); close(done) }()
	select {
	case <-done:
	case <-time.After(15 * time.Second):
	}
	raw, _ := os.ReadFile(recFile)
	if state == "no-answer" {
		// the drain request got no (parseable) answer: the ids issued are unknown; judge the frames only
		r.Inconclusive(scen + ": no answer to the drain request; answers to server-issued requests not judged")
	}
	frames := strings.Split(string(raw), "\n")
	tail := frames[len(frames)-1]
	frames = frames[:len(frames)-1]
	if tail != "" && state == "complete" {
		r.Violation("C09|"+scen+"|unterminated-tail", "the client's stdin stream ends with an unterminated fragment although the client had nothing left to write", map[string]interface{}{"tail": clip(tail)})
	}
	if state == "no-answer" {
		issued = countIssuedFromAnswers(frames)
	}
	v := judgeClientSide(r, scen, true, frames, want, issued, state == "complete")
	if v.ErrorAnswers > 0 && v.ResultAnswers > 0 && v.Requests > 0 && v.Notifications > 1 {
		r.Distinct(fmt.Sprintf("%s|conc=%d", scen, conc))
	} else {
		r.Inconclusive(fmt.Sprintf("%s conc=%d: the workload did not produce all four kinds of client writes (%+v)", scen, conc, v))
	}
	if v.Bad == 0 {
		os.Remove(recFile)
	}
	return map[string]interface{}{"scenario": scen, "senders": conc, "ops_per_sender": iters, "drain": state, "server_requests_issued": issued,
		"lines": v.Frames, "app_requests": v.Requests, "app_notifications": v.Notifications, "result_answers": v.ResultAnswers, "error_answers": v.ErrorAnswers, "bad_lines": v.Bad}
}

// countIssuedFromAnswers: without a drain answer the number of issued requests is unknown; take the
// highest n whose id was answered (ids are srvID(1..issued)) so that answers are not reported as foreign.
func countIssuedFromAnswers(frames []string) int {
	max := 0
	for _, f := range frames {
		for _, h := range heads([]byte(f)) {
			if h.Method != "" || len(h.ID) == 0 {
				continue
			}
			s := strings.Trim(canonID(h.ID), `"`)
			s = strings.TrimPrefix(s, "s-")
			if i := strings.IndexByte(s, '|'); i >= 0 {
				s = s[:i]
			}
			n, err := strconv.Atoi(s)
			if err != nil {
				continue
			}
			if n > 500000 {
				n -= 500000
			}
			if n > max {
				max = n
			}
		}
	}
	return max
}

// ---------------------------------------------------------------------------------------------------
// HTTP: scripted Streamable / legacy SSE server recording POST bodies
// ---------------------------------------------------------------------------------------------------

type scriptedHTTP struct {
	legacy bool
	srv    *http.Server
	base   string
	sc     *script
	q      *unboundedQ // messages for the SSE stream (flood; legacy: answers as well)

	mu     sync.Mutex
	bodies []string
	conns  map[net.Conn]struct{}
	gets   int
}

func newScriptedHTTP(legacy bool, budget int) (*scriptedHTTP, error) {
	s := &scriptedHTTP{legacy: legacy, q: newQ(), conns: map[net.Conn]struct{}{}}
	s.sc = newScript(budget, s.q.Put, 3, 1, 1)
	var ln net.Listener
	var err error
	for attempt := 0; attempt < 80; attempt++ { // a resource wait (ports in TIME_WAIT on a shared machine), nothing is decided by it
		ln, err = net.Listen("tcp", "127.0.0.1:0")
		if err == nil || !strings.Contains(err.Error(), "address already in use") {
			break
		}
		time.Sleep(250 * time.Millisecond)
	}
	if err != nil {
		return nil, err
	}
	s.base = "http://" + ln.Addr().String()
	s.srv = &http.Server{Handler: http.HandlerFunc(s.serve), ConnState: func(c net.Conn, st http.ConnState) {
		s.mu.Lock()
		switch st {
		case http.StateNew:
			s.conns[c] = struct{}{}
		case http.StateClosed, http.StateHijacked:
			delete(s.conns, c)
		}
		s.mu.Unlock()
	}}
	go func() { _ = s.srv.Serve(ln) }()
	return s, nil
}

func (s *scriptedHTTP) url() string {
	if s.legacy {
		return s.base + "/sse"
	}
	return s.base + "/mcp"
}

func (s *scriptedHTTP) close() {
	s.q.Close()
	_ = s.srv.Close()
	s.mu.Lock()
	for c := range s.conns {
		_ = c.Close()
	}
	s.mu.Unlock()
}

func (s *scriptedHTTP) stream(w http.ResponseWriter, r *http.Request) {
	fl, ok := w.(http.Flusher)
	if !ok {
		http.Error(w, "no flusher", 500)
		return
	}
	s.mu.Lock()
	s.gets++
	first := s.gets == 1
	s.mu.Unlock()
	if !first {
		// one listening stream only: the queue has a single consumer
		http.Error(w, "stream already open", http.StatusConflict)
		return
	}
	w.Header().Set("Content-Type", "text/event-stream")
	w.Header().Set("Cache-Control", "no-cache")
	w.WriteHeader(200)
	if s.legacy {
		fmt.Fprintf(w, "event: endpoint\ndata: /message?sessionId=c09\n\n")
	}
	fl.Flush()
	go func() { <-r.Context().Done(); s.q.Close() }()
	n := 0
	for {
		msg, more, ok := s.q.Get()
		if !ok {
			return
		}
		n++
		if s.legacy {
			fmt.Fprintf(w, "event: message\ndata: %s\n\n", msg)
		} else {
			fmt.Fprintf(w, "id: e%d\ndata: %s\n\n", n, msg)
		}
		if !more {
			fl.Flush()
		}
	}
}

func (s *scriptedHTTP) serve(w http.ResponseWriter, r *http.Request) {
	switch {
	case r.Method == http.MethodGet:
		s.stream(w, r)
	case r.Method == http.MethodDelete:
		w.WriteHeader(200)
	case r.Method == http.MethodPost:
		body, _ := io.ReadAll(r.Body)
		s.mu.Lock()
		s.bodies = append(s.bodies, string(body))
		s.mu.Unlock()
		var answer string
		answered := false
		for _, h := range heads(body) {
			ans, drain := s.sc.seen(h)
			if drain && s.legacy {
				id := h.ID
				go func() { s.q.Put(s.sc.waitDrained(id, 20*time.Second)) }()
				continue
			}
			if drain {
				ans = s.sc.waitDrained(h.ID, 20*time.Second)
			}
			if ans == "" {
				continue
			}
			if s.legacy {
				s.q.Put(ans) // legacy transport: answers travel on the event stream
			} else if !answered {
				answer, answered = ans, true
			}
		}
		if answered {
			w.Header().Set("Content-Type", "application/json")
			w.Header().Set("Mcp-Session-Id", "c09-session")
			w.WriteHeader(200)
			io.WriteString(w, answer)
			return
		}
		w.WriteHeader(http.StatusAccepted)
	default:
		w.WriteHeader(http.StatusMethodNotAllowed)
	}
}

// pooledHandler is the client's HTTP request handler: the library's default uses http.DefaultTransport
// (2 idle connections per host), which under 4-8 concurrent senders opens and drops thousands of loopback
// connections. Same behaviour, bigger idle pool.
type pooledHandler struct{ c *http.Client }

func (p *pooledHandler) Handle(ctx context.Context, _ *http.Client, req *http.Request) (*http.Response, error) {
	return p.c.Do(req)
}

// ---- (f) HTTP clients: one JSON-RPC message per POST body ----
func clientHTTP(r *vh.Run, legacy bool, conc, iters, budget int) map[string]interface{} {
	scen := "streamable-client-post"
	if legacy {
		scen = "legacy-client-post"
	}
	srv, err := newScriptedHTTP(legacy, budget)
	if err != nil {
		r.Inconclusive(scen + ": no loopback port for the scripted server: " + err.Error())
		return map[string]interface{}{"scenario": scen, "senders": conc, "not_run": "no port"}
	}
	defer srv.close()
	tr := &http.Transport{MaxIdleConns: 256, MaxIdleConnsPerHost: 64, IdleConnTimeout: 30 * time.Second}
	defer tr.CloseIdleConnections()
	opts := []mcp.ClientOption{mcp.WithClientLogger(kit.Quiet{}), mcp.WithHTTPReqHandler(&pooledHandler{&http.Client{Transport: tr}})}
	var cl *mcp.Client
	if legacy {
		cl, err = mcp.NewSSEClient(srv.url(), kit.ClientInfo, opts...)
	} else {
		cl, err = mcp.NewClient(srv.url(), kit.ClientInfo, opts...)
	}
	if err != nil {
		r.Inconclusive(scen + ": client construction failed: " + err.Error())
		return map[string]interface{}{"scenario": scen, "senders": conc, "not_run": "client construction failed"}
	}
	ctx, cancel := context.WithTimeout(context.Background(), 10*time.Minute)
	defer cancel()
	if _, err := cl.Initialize(ctx, &mcp.InitializeRequest{}); err != nil {
		r.Inconclusive(scen + ": initialize against the scripted server failed: " + err.Error())
		cl.Close()
		return map[string]interface{}{"scenario": scen, "senders": conc, "not_run": "initialize failed"}
	}
	cl.SetRootsProvider(hostileRoots())
	want := &cliWant{reqs: map[string]bool{}, handshake: true, roots: rootsCanon()}
	runSenders(ctx, r, cl, fmt.Sprintf("c09-http-%v-%d", legacy, conc), conc, iters, false, want)
	drq := &mcp.CallToolRequest{}
	drq.Params.Name = "c09-drain"
	drq.Params.Arguments = map[string]interface{}{"nonce": "drain"}
	want.addReq("drain")
	dctx, dc := context.WithTimeout(ctx, 100*time.Second)
	state, issued := drainState(cl.CallTool(dctx, drq))
	dc()
	srv.mu.Lock()
	frames := append([]string{}, srv.bodies...)
	srv.mu.Unlock()
	done := make(chan struct{})
	go func() { cl.Close(); close(done) }()
	select {
	case <-done:
	case <-time.After(15 * time.Second):
	}
	if state == "no-answer" {
		r.Inconclusive(scen + ": no answer to the drain request; answers to server-issued requests not judged")
		issued = countIssuedFromAnswers(frames)
	}
	v := judgeClientSide(r, scen, false, frames, want, issued, state == "complete")
	if v.ErrorAnswers > 0 && v.ResultAnswers > 0 && v.Requests > 0 && v.Notifications > 1 {
		r.Distinct(fmt.Sprintf("%s|conc=%d", scen, conc))
	} else {
		r.Inconclusive(fmt.Sprintf("%s conc=%d: the workload did not produce all four kinds of client writes (%+v)", scen, conc, v))
	}
	return map[string]interface{}{"scenario": scen, "senders": conc, "ops_per_sender": iters, "drain": state, "server_requests_issued": issued,
		"post_bodies": v.Frames, "app_requests": v.Requests, "app_notifications": v.Notifications, "result_answers": v.ResultAnswers, "error_answers": v.ErrorAnswers, "bad_bodies": v.Bad}
}
