// C09, second part of the server-to-client direction: every writer of a Streamable stream raced against every
// other writer of the same stream.
//
// main.go races notifications against server requests on a listening stream that is opened once. The scenarios
// here add the writers that exist only around the life cycle of a stream:
//
//   - what the server writes when a listening stream is opened (headers) and when it is opened as a RECONNECT with a
//     Last-Event-ID header (the stream/resumed notice),
//   - the teardown of a superseded stream (a newer GET of the same session replaces it) and of a stream the client
//     dropped, while senders still hold the old stream,
//   - the end of the stream at DELETE (session termination),
//   - broadcasts to many sessions at once next to per-session senders,
//   - on the POST-SSE stream: the responder's final answer against in-call notifications of goroutines the handler
//     started and did not join,
//   - whatever else shows up on the stream (keep-alive comments, list_changed notifications caused by registrations
//     that run during the workload) is read by the same strict reader and judged for framing.
//
// Oracle (the text of C09, nothing more): every event the WHATWG reader dispatches is exactly one JSON-RPC message
// (one id: line, no stray line, one JSON document), and the multiset of nonce-carrying messages recovered from all
// streams of a session equals the multiset of sends that reported success. Messages the server writes on its own
// account (stream/resumed, list_changed) are judged for framing only. A send that failed inside the write may or may
// not be on the wire (0 or 1 copy). A message may be missing only when it can have been written to a stream the
// CLIENT cut and was not followed on that stream by a message that did arrive (bytes in flight at the cut).
package main

import (
	"context"
	"encoding/json"
	"errors"
	"fmt"
	"io"
	"math/rand"
	"runtime"
	"strings"
	"sync"
	"sync/atomic"
	"time"

	mcp "trpc.group/trpc-go/trpc-mcp-go"

	"verifharness/lib/kit"
	"verifharness/lib/peer"
	"verifharness/lib/sched"
	"verifharness/lib/vh"
)

// logical clock ordering the calls of the senders and the opening of streams
var wclk atomic.Int64

func wtick() int64 { return wclk.Add(1) }

const (
	stNo    = 0  // the API reported that nothing was written
	stYes   = 1  // the API reported success
	stMaybe = -1 // the API reported a failure inside the write: 0 or 1 copy
)

type sendRec struct {
	Nonce     string
	Kind      string
	Call, Ret int64
	State     int
	Copies    int // expected copies over all sessions (broadcast: the count the API returned)
}

type sendLog struct {
	mu   sync.Mutex
	recs map[string]*sendRec
	ok   atomic.Int64
}

func newSendLog() *sendLog { return &sendLog{recs: map[string]*sendRec{}} }

func (l *sendLog) add(rec *sendRec) {
	l.mu.Lock()
	l.recs[rec.Nonce] = rec
	l.mu.Unlock()
	if rec.State == stYes {
		l.ok.Add(1)
	}
}

// capStream is one listening stream read by the strict reader; every dispatched event is kept.
type capStream struct {
	idx       int
	resumed   bool         // opened with a Last-Event-ID header
	openStart int64        // clock before the GET was issued
	open      int64        // clock after the response headers had arrived
	firstRecv atomic.Int64 // clock when the first event arrived: proof that senders find this stream from then on
	dropped   bool         // ended by the client (bytes in flight may be lost)
	s         *peer.Stream
	mu        sync.Mutex
	evs       []peer.SSEEvent
	n         atomic.Int64
	notices   atomic.Int64
	done      chan struct{}
}

func (cs *capStream) collect() {
	for ev := range cs.s.Events {
		cs.mu.Lock()
		cs.evs = append(cs.evs, ev)
		cs.mu.Unlock()
		if cs.firstRecv.Load() == 0 {
			cs.firstRecv.Store(wtick())
		}
		if strings.Contains(ev.Data, `"stream/resumed"`) {
			cs.notices.Add(1)
		}
		cs.n.Add(1)
	}
	close(cs.done)
}

func (cs *capStream) lastID() string {
	cs.mu.Lock()
	defer cs.mu.Unlock()
	if len(cs.evs) == 0 {
		return ""
	}
	return cs.evs[len(cs.evs)-1].ID
}

// wsession is one Streamable session with all the listening streams it has had.
type wsession struct {
	in      *kit.Instance
	sid     string
	hp      *peer.HTTPPeer
	streams []*capStream
	lastID  string
}

func newWSession(r *vh.Run, in *kit.Instance) *wsession {
	ctx := context.Background()
	c, _ := in.Dial(ctx)
	if err := c.Handshake(ctx); err != nil {
		r.Fatal("handshake: %v", err)
	}
	c.Close()
	return &wsession{in: in, sid: c.SessionID, hp: peer.NewHTTPPeer()}
}

func (ws *wsession) cur() *capStream {
	if len(ws.streams) == 0 {
		return nil
	}
	return ws.streams[len(ws.streams)-1]
}

// openStream issues a GET for the session; with resume it carries the id of the last event seen on any stream.
func (ws *wsession) openStream(resume bool) (*capStream, *peer.Reaction) {
	hdr := map[string]string{"Accept": "text/event-stream", "Mcp-Session-Id": ws.sid}
	if prev := ws.cur(); prev != nil {
		if id := prev.lastID(); id != "" {
			ws.lastID = id
		}
	}
	cs := &capStream{idx: len(ws.streams), done: make(chan struct{})}
	if resume && ws.lastID != "" {
		hdr["Last-Event-ID"] = ws.lastID
		cs.resumed = true
	}
	cs.openStart = wtick()
	s, re := ws.hp.OpenStream(context.Background(), "GET", ws.in.URL(), hdr, 1<<14)
	if s == nil {
		return nil, re
	}
	cs.open = wtick()
	cs.s = s
	go cs.collect()
	ws.streams = append(ws.streams, cs)
	return cs, re
}

// drop ends a stream from the client's side.
func (ws *wsession) drop(cs *capStream) {
	cs.dropped = true
	cs.s.Close()
	<-cs.done
}

// del terminates the session.
func (ws *wsession) del() *peer.Reaction {
	return ws.hp.Do(context.Background(), "DELETE", ws.in.URL(), map[string]string{"Mcp-Session-Id": ws.sid}, nil)
}

// awaitEnd waits until the server has ended every stream (each was superseded or its session deleted). A stream that
// does not end is cut and reported as inconclusive (its tail is then treated like a dropped stream's).
func (ws *wsession) awaitEnd(r *vh.Run, scen string) {
	for _, cs := range ws.streams {
		select {
		case <-cs.done:
		case <-time.After(15 * time.Second):
			r.Inconclusive(fmt.Sprintf("%s: listening stream %d of a terminated session was still open after 15 s", scen, cs.idx))
			ws.drop(cs)
		}
	}
	ws.hp.Close()
}

const (
	kNotif = "notification"
	kReq   = "server-request"
)

// sendTo sends one nonce-carrying message to the session through the server API and classifies the outcome.
func sendTo(in *kit.Instance, sid, kind, nonce, p string, lg *sendLog) int {
	rec := &sendRec{Nonce: nonce, Kind: kind, Copies: 1}
	rec.Call = wtick()
	var err error
	switch kind {
	case kReq:
		// The request is written first and only then does the call wait for an answer: with a context that is
		// already cancelled it returns context.Canceled right after a complete write.
		ctx, cancel := context.WithCancel(context.Background())
		cancel()
		rq := &mcp.JSONRPCRequest{JSONRPC: "2.0", ID: nonce}
		rq.Method = "verif/ask"
		rq.Params = map[string]interface{}{"nonce": nonce, "p": p}
		_, err = in.Server.SendRequest(ctx, sid, rq)
		switch {
		case err == nil:
			rec.State = stYes
		case refused(err):
			rec.State = stNo
		case errors.Is(err, context.Canceled) && !strings.Contains(err.Error(), "failed to send") && cancelledRequestIsWritten.Load():
			rec.State = stYes
		default:
			rec.State = stMaybe
		}
	default:
		err = in.Server.SendNotification(sid, "notifications/verif", map[string]interface{}{"nonce": nonce, "p": p})
		switch {
		case err == nil:
			rec.State = stYes
		case refused(err):
			rec.State = stNo
		default:
			rec.State = stMaybe
		}
	}
	rec.Ret = wtick()
	lg.add(rec)
	return rec.State
}

// refused: the API says that it found no stream to write to (nothing is on the wire). Every other failure is taken as
// "0 or 1 copy".
func refused(err error) bool {
	if strings.Contains(err.Error(), "via SSE") { // the failure happened inside the write
		return false
	}
	return errors.Is(err, mcp.ErrSessionNotFound) || strings.Contains(err.Error(), "no GET SSE connection") || strings.Contains(err.Error(), "no sessions found")
}

// cancelledRequestIsWritten: SendRequest with an already cancelled context returns context.Canceled. Whether the
// request was written before that is the implementation's choice (this one writes first and then waits); the
// probe below finds out once per process, on a quiet stream, and the scenarios count such a send as "written" only
// if the probe saw the request arrive.
var cancelledRequestIsWritten atomic.Bool
var probeOnce sync.Once

func probeCancelledRequest(r *vh.Run) {
	probeOnce.Do(func() {
		in := kit.Start(kit.SSSE, kit.Opts{})
		defer in.Close()
		ws := newWSession(r, in)
		cs, re := ws.openStream(false)
		if cs == nil {
			r.Fatal("probe: GET refused: %+v", re)
		}
		ctx, cancel := context.WithCancel(context.Background())
		cancel()
		rq := &mcp.JSONRPCRequest{JSONRPC: "2.0", ID: "probe"}
		rq.Method = "verif/ask"
		rq.Params = map[string]interface{}{"nonce": "probe-0"}
		_, err := in.Server.SendRequest(ctx, ws.sid, rq)
		if err != nil && errors.Is(err, context.Canceled) {
			for i := 0; i < 2000 && cs.n.Load() == 0; i++ {
				time.Sleep(time.Millisecond)
			}
			cancelledRequestIsWritten.Store(cs.n.Load() > 0)
		}
		ws.del()
		ws.awaitEnd(r, "probe")
		if !cancelledRequestIsWritten.Load() {
			r.Note("a server request sent with a cancelled context was not seen on the stream: such sends are counted as 0-or-1 copy")
		}
	})
}

// small payload classes for the life-cycle scenarios (the size classes are covered by getStream)
func lightPayloads(rng *rand.Rand) []struct{ Class, S string } {
	all := payloads(rng)
	var out []struct{ Class, S string }
	for _, p := range all {
		if len(p.S) <= 4300 {
			out = append(out, p)
		}
	}
	return out
}

// releaseSettled lets parked writers go one at a time in seeded order, but only after the number parked has stopped
// growing for a moment: writers that are not serialised by a lock then all get inside their event before the
// first one continues. (Timing here only shapes the exploration, never the verdict.)
func releaseSettled(ctl *sched.Controller, point string, rng *rand.Rand, cond func() bool, r *vh.Run, gauge string) bool {
	deadline := time.Now().Add(15 * time.Second)
	last, stable := -1, 0
	for !cond() && time.Now().Before(deadline) {
		k := ctl.AwaitWaiting(point, 1, 0) // d=0: non-blocking read of the number parked
		switch {
		case k == 0:
			last, stable = -1, 0
			time.Sleep(200 * time.Microsecond)
		case k != last:
			last, stable = k, 0
			time.Sleep(300 * time.Microsecond)
		case stable < 3:
			stable++
			time.Sleep(300 * time.Microsecond)
		default:
			r.Max(gauge, int64(k))
			if k > 1 {
				r.Count("release_steps_with_2+_writers_inside_an_event", 1)
			}
			ctl.ReleaseOne(point, rng.Intn(k))
			last, stable = -1, 0
		}
	}
	ctl.Release(point)
	return cond()
}

func serverOwn(m map[string]json.RawMessage) (string, bool) {
	var meth string
	json.Unmarshal(m["method"], &meth)
	if meth == "stream/resumed" || strings.HasSuffix(meth, "list_changed") {
		return meth, true
	}
	return meth, false
}

// judgeSessions applies the oracle to the streams of the given sessions (which share one send log).
func judgeSessions(r *vh.Run, scen string, sess []*wsession, lg *sendLog) {
	var frames []string
	got := map[string]int{}
	maxRecvCall := map[*capStream]int64{}
	lg.mu.Lock()
	defer lg.mu.Unlock()
	var all []*capStream
	for _, ws := range sess {
		for _, cs := range ws.streams {
			all = append(all, cs)
			cs.mu.Lock()
			evs := cs.evs
			cs.mu.Unlock()
			r.Count("listening_streams_judged", 1)
			if cs.resumed {
				r.Count("streams_opened_with_last_event_id", 1)
			}
			var d drained
			perStream := map[string]int{}
			for _, ev := range evs {
				d.evs = append(d.evs, ev)
				d.data = append(d.data, ev.Data)
				frames = append(frames, ev.Data)
				r.Count("get_stream_comments", int64(len(ev.Comments)))
				if n := nonceOf(ev.Data); n != "" {
					got[n]++
					perStream[n]++
					if rec := lg.recs[n]; rec != nil && rec.Call > maxRecvCall[cs] {
						maxRecvCall[cs] = rec.Call
					}
				}
			}
			checkEvents(r, scen, d)
			for n, k := range perStream {
				if k > 1 {
					r.Violation(fmt.Sprintf("C09|%s|duplicate-on-one-stream", scen), fmt.Sprintf("%s: one message was recovered %d times from one listening stream", scen, k), map[string]interface{}{"nonce": n, "stream": cs.idx})
				}
			}
			// a stream the server ended on its own (superseded / session deleted) ends at an event boundary
			if !cs.dropped && cs.s.Err == io.EOF {
				raw := cs.s.Raw()
				if len(raw) > 0 && !strings.HasSuffix(string(raw), "\n\n") && !strings.HasSuffix(string(raw), "\r\n\r\n") {
					tail := string(raw)
					if len(tail) > 300 {
						tail = tail[len(tail)-300:]
					}
					r.Violation(fmt.Sprintf("C09|%s|unterminated-tail", scen), fmt.Sprintf("%s: a listening stream the server closed ends inside an event", scen), map[string]interface{}{"stream": cs.idx, "tail": tail})
				}
			}
		}
	}
	want := map[string]int{}
	for n, rec := range lg.recs {
		switch rec.State {
		case stYes:
			want[n] = rec.Copies
			if got[n] < rec.Copies && excusable(rec, all, maxRecvCall) {
				want[n] = got[n]
				r.Count("unreceived_in_flight_at_a_client_cut", int64(rec.Copies-got[n]))
			}
		case stMaybe:
			r.Count("sends_failed_inside_the_write", 1)
			if got[n] <= rec.Copies {
				want[n] = got[n]
			} else {
				want[n] = rec.Copies
			}
		}
	}
	frameCheck{r, scen}.judge(frames, want, func(m map[string]json.RawMessage) bool {
		meth, ok := serverOwn(m)
		if ok {
			r.Count("server_own_messages|"+meth, 1)
		}
		return ok
	})
}

// excusable: the message can have been written to a stream the client cut, after everything that arrived on it.
// (A sender looks the stream up between its call and its return; stream k was registered from somewhere inside
// its opening until somewhere inside the opening of stream k+1. If the message was written to k before a message X
// that arrived on k was even called, it precedes X in the byte stream and must have arrived too.)
func excusable(rec *sendRec, all []*capStream, maxRecvCall map[*capStream]int64) bool {
	if rec.Copies != 1 {
		return false
	}
	for i, cs := range all {
		if !cs.dropped {
			continue
		}
		if rec.Ret < cs.openStart {
			continue
		}
		// the next stream of the same session (streams of one session are adjacent in `all`): once an event has
		// arrived on it, senders that start later cannot find the older stream any more
		if i+1 < len(all) && all[i+1].idx == cs.idx+1 {
			if fr := all[i+1].firstRecv.Load(); fr != 0 && rec.Call > fr {
				continue
			}
		}
		if rec.Ret < maxRecvCall[cs] {
			continue
		}
		return true
	}
	return false
}

// ---- listening stream life cycle, writers parked inside their event ----
//
// Per session: round 0 opens the first stream, the following rounds reopen it with Last-Event-ID (superseding the
// old stream or after dropping it), the last round DELETEs the session; in every round `writers` senders send to
// the session while the point between the lines of an event is held, in three seeded orders (life-cycle action
// first and senders once its writer is parked, senders first, both at once).
func getLifecycleHeld(r *vh.Run, sessions, reconnects, writers int, point string) {
	probeCancelledRequest(r)
	scen := "get-lifecycle-held@" + point
	in := kit.Start(kit.SSSE, kit.Opts{})
	defer in.Close()
	kit.StdFixture(in)
	rng := r.Rand(fmt.Sprintf("c09-lifecycle-%s-%d", point, writers))
	pl := lightPayloads(rng)
	ctl := sched.New(5*time.Second, r.Seed)
	ctl.Install()
	defer sched.Uninstall()
	noticesExpected := true
	orderOff := rng.Intn(3)
	resumedStreams := 0
	for sn := 0; sn < sessions; sn++ {
		ws := newWSession(r, in)
		lg := newSendLog()
		for round := 0; round <= reconnects+1; round++ {
			action := "reopen-superseding"
			switch {
			case round == 0:
				action = "first-open"
			case round == reconnects+1:
				action = "delete"
			case rng.Intn(3) == 0:
				action = "reopen-after-drop"
			}
			order := []string{"action-first", "senders-first", "together"}[(round+sn+orderOff)%3]
			overlapSeen := false
			ctl.Hold(point)
			var finished atomic.Int64
			var wg sync.WaitGroup
			startSenders := func() {
				for w := 0; w < writers; w++ {
					wg.Add(1)
					p := pl[rng.Intn(len(pl))]
					r.SetAdd("payload_classes", p.Class)
					kind := kNotif
					if rng.Intn(3) == 0 {
						kind = kReq
					}
					nonce := nextNonce("lc")
					go func() {
						defer wg.Done()
						defer finished.Add(1)
						sendTo(in, ws.sid, kind, nonce, p.S, lg)
					}()
				}
			}
			var opened *capStream
			act := func() {
				switch action {
				case "first-open":
					cs, re := ws.openStream(false)
					if cs == nil {
						r.Fatal("%s: GET refused: %+v", scen, re)
					}
					opened = cs
				case "reopen-superseding", "reopen-after-drop":
					if action == "reopen-after-drop" {
						ws.drop(ws.cur())
					}
					cs, re := ws.openStream(true)
					if cs == nil {
						r.Fatal("%s: GET with Last-Event-ID refused: %+v", scen, re)
					}
					opened = cs
				case "delete":
					if re := ws.del(); re.Status != 200 {
						r.Fatal("%s: DELETE: %+v", scen, re)
					}
				}
			}
			parkedBefore := func() bool { return ctl.AwaitWaiting(point, 1, 0) > 0 }
			waitParked := func() {
				for i := 0; i < 2000 && !parkedBefore(); i++ {
					time.Sleep(200 * time.Microsecond)
				}
			}
			actDone := make(chan struct{})
			switch order {
			case "action-first":
				act()
				close(actDone)
				if opened != nil && opened.resumed {
					waitParked() // the notice's writer is inside its event
					if parkedBefore() && finished.Load() < int64(writers) {
						r.Count("rounds_senders_started_while_a_lifecycle_writer_was_inside_its_event", 1)
						overlapSeen = true
					}
				}
				startSenders()
			case "senders-first":
				startSenders()
				if round > 0 {
					waitParked() // a sender is inside its event on the stream that is about to be replaced / ended
					if parkedBefore() {
						r.Count("rounds_lifecycle_action_while_a_sender_was_inside_its_event", 1)
						overlapSeen = true
					}
				}
				go func() { act(); close(actDone) }()
			default:
				startSenders()
				go func() { act(); close(actDone) }()
			}
			cond := func() bool {
				select {
				case <-actDone:
				default:
					return false
				}
				if finished.Load() < int64(writers) {
					return false
				}
				if noticesExpected && opened != nil && opened.resumed && opened.notices.Load() == 0 {
					return false
				}
				return true
			}
			if !releaseSettled(ctl, point, rng, cond, r, "writers_parked_"+point) {
				select {
				case <-actDone:
				case <-time.After(15 * time.Second):
					r.Inconclusive(fmt.Sprintf("%s: %s did not return within 15 s", scen, action))
					return
				}
				if opened != nil && opened.resumed && opened.notices.Load() == 0 && finished.Load() >= int64(writers) {
					// the statement does not promise a resumption notice: stop waiting for one
					noticesExpected = false
					r.Note(scen + ": a stream opened with Last-Event-ID showed no stream/resumed notice")
				}
			}
			wg.Wait()
			// the next round reconnects with the last event id: make sure the stream has carried an event
			if cs := ws.cur(); action != "delete" && cs != nil && cs.n.Load() == 0 && ws.lastID == "" {
				if sendTo(in, ws.sid, kNotif, nextNonce("lc"), "x", lg) == stYes {
					for i := 0; i < 5000 && cs.n.Load() == 0; i++ {
						time.Sleep(time.Millisecond)
					}
				}
			}
			r.Count("lifecycle_rounds|"+action, 1)
			if opened != nil && opened.resumed {
				resumedStreams++
			}
			// a round counts as a distinct case of its order only if the overlap it is meant to produce was seen
			if order == "together" || overlapSeen || (order == "action-first" && round == 0) {
				r.Distinct(fmt.Sprintf("%s|%s|%s|writers=%d", scen, action, order, writers))
			}
		}
		ws.awaitEnd(r, scen)
		judgeSessions(r, scen, []*wsession{ws}, lg)
		for _, cs := range ws.streams {
			r.Count("resumption_notices_seen", cs.notices.Load())
		}
	}
	if resumedStreams == 0 {
		r.Inconclusive(scen + ": no stream could be opened with a Last-Event-ID (no event id was ever seen)")
	}
	r.Sample(map[string]interface{}{"scenario": scen, "sessions": sessions, "reconnects_per_session": reconnects, "writers": writers, "streams_opened_with_last_event_id": resumedStreams})
}

// ---- listening stream life cycle, free running: reconnect loop under constant sending ----
//
// `writers` goroutines each send `each` messages to one session without pause (they start before the first GET);
// meanwhile the client opens the stream, receives a seeded number of events, reopens it with the last id it saw
// (superseding the old stream, or dropping it first), again and again, and DELETEs the session when most sends are
// out. Registrations run on the server all the time. Random short delays at the points between the lines of an
// event widen every writer's window.
func getLifecycleFree(r *vh.Run, writers, each int, mode string) {
	probeCancelledRequest(r)
	scen := "get-lifecycle-free|" + mode
	in := kit.Start(kit.SSSE, kit.Opts{})
	defer in.Close()
	kit.StdFixture(in)
	rng := r.Rand(fmt.Sprintf("c09-lifecycle-free-%s-%d", mode, writers))
	pl := lightPayloads(rng)
	ctl := sched.New(5*time.Second, r.Seed)
	ctl.RandomDelay("sse.write.afterid", 0.15, 80*time.Microsecond)
	ctl.RandomDelay("sse.write.beforeterm", 0.15, 80*time.Microsecond)
	ctl.Install()
	defer sched.Uninstall()
	ws := newWSession(r, in)
	lg := newSendLog()
	total := int64(writers * each)
	var calls atomic.Int64
	var wg sync.WaitGroup
	type plan struct {
		kind, nonce, p string
	}
	for w := 0; w < writers; w++ {
		plans := make([]plan, each)
		for i := range plans {
			p := pl[rng.Intn(len(pl))]
			r.SetAdd("payload_classes", p.Class)
			kind := kNotif
			if rng.Intn(4) == 0 {
				kind = kReq
			}
			plans[i] = plan{kind, nextNonce("lf"), p.S}
		}
		wg.Add(1)
		go func(plans []plan) {
			defer wg.Done()
			for i, pn := range plans {
				st := sendTo(in, ws.sid, pn.kind, pn.nonce, pn.p, lg)
				calls.Add(1)
				if st == stNo {
					time.Sleep(100 * time.Microsecond) // no stream at the moment: do not burn the plan on refusals
				} else if i%8 == 7 {
					runtime.Gosched()
				}
			}
		}(plans)
	}
	// registrations during the traffic (a server that announces them writes list_changed notifications)
	stopReg := make(chan struct{})
	var regs atomic.Int64
	var regWG sync.WaitGroup
	regWG.Add(1)
	go func() {
		defer regWG.Done()
		for i := 0; ; i++ {
			select {
			case <-stopReg:
				return
			default:
			}
			name := fmt.Sprintf("dyn-%d", i%4)
			in.RegisterTool(mcp.NewTool(name, mcp.WithString("x")), func(ctx context.Context, req *mcp.CallToolRequest) (*mcp.CallToolResult, error) {
				return mcp.NewTextResult("{}"), nil
			})
			in.RegisterPrompt(&mcp.Prompt{Name: name}, func(ctx context.Context, req *mcp.GetPromptRequest) (*mcp.GetPromptResult, error) {
				return &mcp.GetPromptResult{}, nil
			})
			if i%2 == 1 {
				in.UnregisterTools(name)
			}
			regs.Add(1)
			time.Sleep(300 * time.Microsecond)
		}
	}()
	cs, re := ws.openStream(false)
	if cs == nil {
		r.Fatal("%s: GET refused: %+v", scen, re)
	}
	reconnects, underTraffic := 0, 0
	deleteAt := total * 85 / 100
	for calls.Load() < deleteAt {
		need := cs.n.Load() + int64(1+rng.Intn(30))
		for cs.n.Load() < need && calls.Load() < deleteAt {
			time.Sleep(50 * time.Microsecond)
		}
		before := lg.ok.Load()
		how := mode
		if mode == "mixed" {
			how = []string{"supersede", "drop"}[rng.Intn(2)]
		}
		if how == "drop" {
			ws.drop(cs)
		}
		ncs, re := ws.openStream(true)
		if ncs == nil {
			r.Fatal("%s: GET with Last-Event-ID refused: %+v", scen, re)
		}
		cs = ncs
		reconnects++
		r.Count("free_reconnects|"+how, 1)
		// let the new stream carry something before the next reconnect decision is made
		for i := 0; i < 200 && lg.ok.Load() == before && calls.Load() < deleteAt; i++ {
			time.Sleep(50 * time.Microsecond)
		}
		if lg.ok.Load() > before {
			underTraffic++
		}
	}
	if re := ws.del(); re.Status != 200 {
		r.Fatal("%s: DELETE: %+v", scen, re)
	}
	wg.Wait()
	close(stopReg)
	regWG.Wait()
	ws.awaitEnd(r, scen)
	judgeSessions(r, scen, []*wsession{ws}, lg)
	var notices int64
	for _, s := range ws.streams {
		notices += s.notices.Load()
	}
	r.Count("resumption_notices_seen", notices)
	r.Count("free_reconnects_with_successful_sends_around_them", int64(underTraffic))
	r.Count("registrations_during_traffic", regs.Load())
	if underTraffic == 0 {
		r.Inconclusive(scen + ": no reconnect overlapped successful sends")
	} else {
		r.Distinct(fmt.Sprintf("%s|writers=%d", scen, writers))
	}
	r.Sample(map[string]interface{}{"scenario": scen, "writers": writers, "sends": total, "sends_ok": lg.ok.Load(), "reconnects": reconnects, "reconnects_under_traffic": underTraffic, "resumption_notices": notices})
}

// ---- broadcasts to many sessions next to per-session senders ----
func broadcastStreams(r *vh.Run, nsess, casters, each int, point string) {
	probeCancelledRequest(r)
	scen := "get-broadcast"
	in := kit.Start(kit.SSSE, kit.Opts{})
	defer in.Close()
	kit.StdFixture(in)
	rng := r.Rand(fmt.Sprintf("c09-broadcast-%s-%d", point, nsess))
	pl := lightPayloads(rng)
	ctl := sched.New(5*time.Second, r.Seed)
	if point != "" {
		scen = "get-broadcast-held@" + point
	} else {
		ctl.RandomDelay("sse.write.afterid", 0.15, 80*time.Microsecond)
		ctl.RandomDelay("sse.write.beforeterm", 0.15, 80*time.Microsecond)
	}
	ctl.Install()
	defer sched.Uninstall()
	var sess []*wsession
	for i := 0; i < nsess; i++ {
		ws := newWSession(r, in)
		if cs, re := ws.openStream(false); cs == nil {
			r.Fatal("%s: GET refused: %+v", scen, re)
		}
		sess = append(sess, ws)
	}
	lg := newSendLog()
	if point != "" {
		ctl.Hold(point)
	}
	var wg sync.WaitGroup
	var finished atomic.Int64
	var goroutines int64
	type plan struct{ kind, nonce, p string }
	mk := func(prefix string, withReq bool) []plan {
		ps := make([]plan, each)
		for i := range ps {
			p := pl[rng.Intn(len(pl))]
			r.SetAdd("payload_classes", p.Class)
			kind := kNotif
			if withReq && rng.Intn(3) == 0 {
				kind = kReq
			}
			ps[i] = plan{kind, nextNonce(prefix), p.S}
		}
		return ps
	}
	for b := 0; b < casters; b++ {
		ps := mk("bc", false)
		wg.Add(1)
		goroutines++
		go func() {
			defer wg.Done()
			defer finished.Add(1)
			for _, pn := range ps {
				rec := &sendRec{Nonce: pn.nonce, Kind: "broadcast", State: stYes}
				rec.Call = wtick()
				n, err := in.Server.BroadcastNotification("notifications/verif", map[string]interface{}{"nonce": pn.nonce, "p": pn.p})
				rec.Ret = wtick()
				if err != nil {
					n = 0
				}
				rec.Copies = n
				lg.add(rec)
				r.Count("broadcast_copies_reported", int64(n))
			}
		}()
	}
	for _, ws := range sess {
		ps := mk("bd", true)
		wg.Add(1)
		goroutines++
		go func(ws *wsession) {
			defer wg.Done()
			defer finished.Add(1)
			for _, pn := range ps {
				sendTo(in, ws.sid, pn.kind, pn.nonce, pn.p, lg)
			}
		}(ws)
	}
	// half of the sessions are terminated while the broadcasts are still running
	delDone := make(chan struct{})
	go func() {
		defer close(delDone)
		for lg.ok.Load() < int64(each*(casters+nsess))/3 && finished.Load() < goroutines {
			time.Sleep(100 * time.Microsecond)
		}
		for i, ws := range sess {
			if i%2 == 1 {
				ws.del()
			}
		}
	}()
	if point != "" {
		releaseSettled(ctl, point, rng, func() bool { return finished.Load() >= goroutines }, r, "writers_parked_"+point)
	}
	wg.Wait()
	<-delDone
	for i, ws := range sess {
		if i%2 == 0 {
			ws.del()
		}
	}
	for _, ws := range sess {
		ws.awaitEnd(r, scen)
	}
	judgeSessions(r, scen, sess, lg)
	// a broadcast reaches one session at most once
	for _, ws := range sess {
		seen := map[string]int{}
		for _, cs := range ws.streams {
			for _, ev := range cs.evs {
				if n := nonceOf(ev.Data); strings.HasPrefix(n, "bc-") {
					seen[n]++
				}
			}
		}
		for n, k := range seen {
			if k > 1 {
				r.Violation(fmt.Sprintf("C09|%s|broadcast-twice-in-one-session", scen), fmt.Sprintf("%s: one broadcast was recovered %d times by one session", scen, k), map[string]interface{}{"nonce": n})
			}
		}
	}
	r.Distinct(fmt.Sprintf("%s|sessions=%d|casters=%d", scen, nsess, casters))
	r.Sample(map[string]interface{}{"scenario": scen, "sessions": nsess, "broadcasters": casters, "each": each, "sends_ok": lg.ok.Load()})
}

// ---- POST-SSE stream: the final answer against notifications of goroutines the handler did not join ----
type unjoinedCall struct {
	wg     sync.WaitGroup
	mu     sync.Mutex
	sent   map[string]int
	maybe  map[string]int
	panics []string
	count  atomic.Int64
	live   atomic.Int64
}

var unjoined sync.Map // call nonce -> *unjoinedCall

func postUnjoined(r *vh.Run, calls, senders int, point string) {
	scen := "post-sse-unjoined"
	in := kit.Start(kit.SSSE, kit.Opts{})
	defer in.Close()
	kit.StdFixture(in)
	in.RegisterTool(mcp.NewTool("fanout-nojoin", mcp.WithString("nonce"), mcp.WithNumber("senders"), mcp.WithNumber("each"), mcp.WithNumber("after"), mcp.WithNumber("join"), mcp.WithString("p")),
		func(ctx context.Context, req *mcp.CallToolRequest) (*mcp.CallToolResult, error) {
			a := req.Params.Arguments
			nonce, _ := a["nonce"].(string)
			ns, _ := a["senders"].(float64)
			each, _ := a["each"].(float64)
			after, _ := a["after"].(float64)
			join, _ := a["join"].(float64)
			p, _ := a["p"].(string)
			v, _ := unjoined.Load(nonce)
			st, _ := v.(*unjoinedCall)
			sender, ok := mcp.GetNotificationSender(ctx)
			if !ok || st == nil {
				return mcp.NewTextResult(`{"nonce":"` + nonce + `"}`), nil
			}
			var joined sync.WaitGroup
			for g := 0; g < int(ns); g++ {
				st.wg.Add(1)
				st.live.Add(1)
				if g < int(join) {
					joined.Add(1)
				}
				go func(g int) {
					defer st.wg.Done()
					defer st.live.Add(-1)
					if g < int(join) {
						defer joined.Done()
					}
					cur := ""
					defer func() {
						if x := recover(); x != nil {
							st.mu.Lock()
							st.panics = append(st.panics, fmt.Sprint(x))
							if cur != "" {
								st.maybe[cur]++
							}
							st.mu.Unlock()
						}
					}()
					for i := 0; i < int(each); i++ {
						nn := fmt.Sprintf("%s.g%d.%d", nonce, g, i)
						cur = nn
						var err error
						switch i % 3 {
						case 0:
							err = sender.SendCustomNotification("notifications/verif", map[string]interface{}{"nonce": nn, "p": p})
						case 1:
							err = sender.SendProgress(0.5, `{"nonce":"`+nn+`"}`)
						default:
							err = sender.SendLogMessage("info", `{"nonce":"`+nn+`"}`)
						}
						cur = ""
						if err != nil {
							// the stream is over (or the write failed half-way): this goroutine stops
							st.mu.Lock()
							st.maybe[nn]++
							st.mu.Unlock()
							return
						}
						st.mu.Lock()
						st.sent[nn]++
						st.mu.Unlock()
						st.count.Add(1)
					}
				}(g)
			}
			joined.Wait()
			// return while the other goroutines are still sending
			for st.count.Load() < int64(after) && st.live.Load() > 0 {
				time.Sleep(20 * time.Microsecond)
			}
			return mcp.NewTextResult(`{"nonce":"` + nonce + `"}`), nil
		})
	ctx := context.Background()
	c, _ := in.Dial(ctx)
	defer c.Close()
	if err := c.Handshake(ctx); err != nil {
		r.Fatal("handshake: %v", err)
	}
	rng := r.Rand(fmt.Sprintf("c09-post-unjoined-%s-%d", point, senders))
	ctl := sched.New(5*time.Second, r.Seed)
	if point != "" {
		scen = "post-sse-unjoined-held@" + point
	} else {
		ctl.RandomDelay("sse.write.afterid", 0.15, 80*time.Microsecond)
		ctl.RandomDelay("sse.write.beforeterm", 0.15, 80*time.Microsecond)
	}
	ctl.Install()
	defer sched.Uninstall()
	pl := lightPayloads(rng)
	overlapped := 0
	for k := 0; k < calls; k++ {
		nonce := nextNonce("pu")
		p := pl[rng.Intn(len(pl))]
		r.SetAdd("payload_classes", p.Class)
		each := 6
		if point == "" {
			each = 40
		}
		after := rng.Intn(senders*each/2 + 1)
		join := rng.Intn(senders) // at least one goroutine is never joined
		st := &unjoinedCall{sent: map[string]int{}, maybe: map[string]int{}}
		unjoined.Store(nonce, st)
		args, _ := json.Marshal(map[string]interface{}{"nonce": nonce, "senders": senders, "each": each, "after": after, "join": join, "p": p.S})
		body := []byte(fmt.Sprintf(`{"jsonrpc":"2.0","id":%d,"method":"tools/call","params":{"name":"fanout-nojoin","arguments":%s}}`, 9000+k, args))
		var ex *kit.Exchange
		doneCh := make(chan struct{})
		if point != "" {
			ctl.Hold(point)
		}
		go func() { ex = c.Post(ctx, body, kit.PostOpts{}); close(doneCh) }()
		allDone := make(chan struct{})
		go func() { <-doneCh; st.wg.Wait(); close(allDone) }()
		isDone := func() bool {
			select {
			case <-allDone:
				return true
			default:
				return false
			}
		}
		if point != "" {
			releaseSettled(ctl, point, rng, isDone, r, "writers_parked_"+point)
		}
		select {
		case <-allDone:
		case <-time.After(20 * time.Second):
			r.Inconclusive(scen + ": the call or its goroutines did not end within 20 s")
			return
		}
		unjoined.Delete(nonce)
		st.mu.Lock()
		want := map[string]int{nonce: 1}
		var frames []string
		var evs []peer.SSEEvent
		if ex.HTTP != nil {
			evs = ex.HTTP.Events
			for _, e := range evs {
				frames = append(frames, e.Data)
			}
		}
		got := map[string]int{}
		for _, f := range frames {
			got[nonceOf(f)]++
		}
		for n, v := range st.sent {
			want[n] = v
		}
		for n := range st.maybe { // a send that reported failure (or panicked): 0 or 1 copy
			if got[n] <= 1 {
				want[n] = got[n]
			} else {
				want[n] = 1
			}
		}
		if len(st.maybe) > 0 || int(st.count.Load()) > after {
			overlapped++ // goroutines were still sending when the handler returned
		}
		for _, px := range st.panics {
			r.Violation(fmt.Sprintf("C09|%s|writer-panic", scen), fmt.Sprintf("%s: an in-call notification panicked inside the library while the final answer was written: %s", scen, clip(px)), map[string]interface{}{"panic": clip(px)})
		}
		st.mu.Unlock()
		if ex.HTTP != nil && ex.HTTP.IsSSE {
			raw := string(ex.HTTP.Body)
			if ex.HTTP.Err == "" && len(raw) > 0 && !strings.HasSuffix(raw, "\n\n") {
				r.Violation(fmt.Sprintf("C09|%s|unterminated-tail", scen), scen+": the POST stream ends inside an event", map[string]interface{}{"tail": clip(raw)})
			}
		}
		frameCheck{r, scen}.judge(frames, want, nil)
		checkEvents(r, scen, drained{data: frames, evs: evs})
	}
	r.Count("unjoined_calls_with_sends_after_the_handler_returned", int64(overlapped))
	if overlapped == 0 {
		r.Inconclusive(scen + ": no call had goroutines still sending when its handler returned")
	} else {
		r.Distinct(fmt.Sprintf("%s|senders=%d", scen, senders))
	}
	r.Sample(map[string]interface{}{"scenario": scen, "calls": calls, "senders_per_handler": senders, "calls_with_sends_after_return": overlapped})
}
