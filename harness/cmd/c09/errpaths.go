// C09, the error paths of the writers themselves: what is on the wire when a message CANNOT be produced or its
// encoding fails half-way. Everything main.go / writers.go / payloadspace.go make the servers write is encodable and
// every write succeeds; here the application hands the library values encoding/json refuses (NaN, +-Inf, chan, func,
// complex, a MarshalJSON that fails / returns invalid JSON / fails every second call, an invalid RawMessage, a
// MarshalText key that fails, an unsupported map key type, pointer and map cycles) and values that encode but whose
// MarshalJSON / RawMessage text is spread over several lines with LF and CR-LF - in every message kind that can carry
// application values (tool results: structuredContent nested and at top level, _meta, a custom Content; prompt result
// _meta; in-call notifications: param, _meta, progress value; server-issued requests sent from inside a call and out
// of band; out-of-band notifications: param, _meta; broadcast) on every stream kind (POST SSE stream, GET listening
// stream, legacy SSE stream with 2 ms keep-alive comments, stdio stdout), interleaved with ordinary traffic from
// concurrent writers on the same stream (notification goroutines inside the same handler, background senders of
// notifications, server requests and echo calls) before, during and after.
//
// Oracle (text of C09 only): whatever the server decides to write for such a value - an error answer, nothing, a
// message without it - every frame on the wire is exactly one complete message parseable on its own (no half event
// followed by another event, no event with two id: lines, no line that is no field, no unterminated tail, no raw
// CR / LF in a stdio line), and the ordinary messages written around it are all recovered exactly once. For a value
// that encodes (multi-line text) the message, if written, carries the same JSON value.
package main

import (
	"context"
	"encoding/json"
	"errors"
	"fmt"
	"math"
	"sort"
	"strconv"
	"strings"
	"sync"
	"sync/atomic"
	"time"

	mcp "trpc.group/trpc-go/trpc-mcp-go"

	"verifharness/lib/kit"
	"verifharness/lib/peer"
	"verifharness/lib/vh"
)

// ---------------------------------------------------------------------------------------------------
// values
// ---------------------------------------------------------------------------------------------------

type errMarshaler struct{}

func (errMarshaler) MarshalJSON() ([]byte, error) {
	return nil, errors.New("verif: MarshalJSON refuses")
}

type textMarshaler struct{ b string }

func (m textMarshaler) MarshalJSON() ([]byte, error) { return []byte(m.b), nil }

// flakyMarshaler fails on every second call (a check-then-write path sees both outcomes).
type flakyMarshaler struct {
	n       *atomic.Int64
	failOdd bool
}

func (m flakyMarshaler) MarshalJSON() ([]byte, error) {
	k := m.n.Add(1)
	if (k%2 == 1) == m.failOdd {
		return nil, errors.New("verif: MarshalJSON refuses this time")
	}
	return []byte(`{"flaky":true}`), nil
}

type badKey struct{ s string }

func (badKey) MarshalText() ([]byte, error) { return nil, errors.New("verif: MarshalText refuses") }

type cycNode struct {
	Name string   `json:"name"`
	Next *cycNode `json:"next"`
}

type deepStruct struct {
	A string                 `json:"a"`
	B []interface{}          `json:"b"`
	C map[string]interface{} `json:"c"`
}

// badContent is a tool result content of the application's own type.
type badContent struct {
	mcp.TextContent
	tag string
	v   interface{}
}

func (c badContent) MarshalJSON() ([]byte, error) {
	return json.Marshal(map[string]interface{}{"type": "text", "text": "custom", "nonce": c.tag, "v": c.v})
}

type uval struct {
	Class, Fam string
	Enc        bool     // encoding/json accepts it
	Flt        *float64 // the value as a float64 (progress)
	Mk         func(tag string) interface{}
}

var (
	uvOnce sync.Once
	uvTab  []uval
)

func multiLine(tag string) string {
	return "{\n  \"ml\": \"" + tag + "\",\r\n  \"k\": [1,\r\n 2,\n\n\t3]\r\n}\n"
}

// multiCanon is what the value of multiLine(tag) is after decoding, in canonical form.
func multiCanon(tag string) string { return `{"k":[1,2,3],"ml":` + jstr(tag) + `}` }

func uvals() []uval {
	uvOnce.Do(func() {
		add := func(fam, class string, enc bool, mk func(tag string) interface{}) {
			uvTab = append(uvTab, uval{Class: class, Fam: fam, Enc: enc, Mk: mk})
		}
		fl := func(class string, f float64) {
			uvTab = append(uvTab, uval{Class: class, Fam: "float", Flt: &f, Mk: func(string) interface{} { return f }})
		}
		fl("nan", math.NaN())
		fl("+inf", math.Inf(1))
		fl("-inf", math.Inf(-1))
		add("float", "nan-float32", false, func(string) interface{} { return float32(math.NaN()) })
		add("float", "nan-in-slice", false, func(string) interface{} { return []float64{1, math.NaN(), 3} })
		add("float", "inf-deep", false, func(tag string) interface{} {
			return deepStruct{A: strings.Repeat("a", 5000), B: []interface{}{1, "x\ny", map[string]interface{}{"z": []interface{}{math.Inf(1)}}}, C: map[string]interface{}{"ok": 1}}
		})
		add("float", "nan-after-64k", false, func(tag string) interface{} {
			return []interface{}{strings.Repeat("b", 70000), math.NaN()}
		})
		add("float", "nan-pointer", false, func(string) interface{} { f := math.NaN(); return &f })
		add("type", "chan", false, func(string) interface{} { return make(chan int) })
		add("type", "func", false, func(string) interface{} { return func() {} })
		add("type", "complex", false, func(string) interface{} { return complex(1, 2) })
		add("type", "chan-in-struct", false, func(string) interface{} {
			return struct {
				A string   `json:"a"`
				C chan int `json:"c"`
			}{"x", make(chan int)}
		})
		add("type", "map-bool-key", false, func(string) interface{} { return map[bool]int{true: 1} })
		add("type", "func-in-map-after-text", false, func(string) interface{} {
			return map[string]interface{}{"a": "line1\nline2\r\n", "z": func() {}}
		})
		add("marshaler", "marshaljson-error", false, func(string) interface{} { return errMarshaler{} })
		add("marshaler", "marshaljson-error-deep", false, func(string) interface{} {
			return map[string]interface{}{"a": []interface{}{"ok", errMarshaler{}}}
		})
		add("marshaler", "marshaljson-truncated", false, func(string) interface{} { return textMarshaler{`{"a":`} })
		add("marshaler", "marshaljson-two-values", false, func(string) interface{} { return textMarshaler{`{} {}`} })
		add("marshaler", "marshaljson-empty", false, func(string) interface{} { return textMarshaler{``} })
		add("marshaler", "marshaljson-raw-lf-in-string", false, func(string) interface{} { return textMarshaler{"\"a\nb\""} })
		add("marshaler", "marshaljson-raw-crlf-in-string", false, func(string) interface{} { return textMarshaler{"{\"a\":\"x\r\n\r\ny\"}"} })
		add("marshaler", "marshaljson-sse-syntax", false, func(string) interface{} { return textMarshaler{"\n\ndata: {}\n\nid: 7\n"} })
		add("marshaler", "marshaljson-fails-odd-calls", false, func(string) interface{} { return flakyMarshaler{n: new(atomic.Int64), failOdd: true} })
		add("marshaler", "marshaljson-fails-even-calls", false, func(string) interface{} { return flakyMarshaler{n: new(atomic.Int64), failOdd: false} })
		add("marshaler", "marshaltext-key-error", false, func(string) interface{} { return map[badKey]int{{"k"}: 1} })
		add("rawmessage", "rawmessage-truncated", false, func(string) interface{} { return json.RawMessage(`{"x":`) })
		add("rawmessage", "rawmessage-empty", false, func(string) interface{} { return json.RawMessage(``) })
		add("rawmessage", "rawmessage-lf-only", false, func(string) interface{} { return json.RawMessage("\n\n") })
		add("rawmessage", "rawmessage-garbage-lines", false, func(string) interface{} { return json.RawMessage("{\n\"a\": tru\n}\n") })
		add("rawmessage", "rawmessage-pointer-truncated", false, func(string) interface{} { m := json.RawMessage(`[1,`); return &m })
		add("cycle", "cycle-pointer", false, func(string) interface{} { n := &cycNode{Name: "n"}; n.Next = n; return n })
		add("cycle", "cycle-map", false, func(string) interface{} { m := map[string]interface{}{}; m["self"] = m; return m })
		add("cycle", "cycle-slice", false, func(string) interface{} { s := make([]interface{}, 1); s[0] = s; return s })
		// values that encode, their text spread over several lines
		add("multiline", "marshaljson-multiline-crlf", true, func(tag string) interface{} { return textMarshaler{multiLine(tag)} })
		add("multiline", "rawmessage-multiline-crlf", true, func(tag string) interface{} { return json.RawMessage(multiLine(tag)) })
		add("multiline", "marshaljson-blank-lines-around", true, func(tag string) interface{} {
			return textMarshaler{"\n\n\r\n" + multiLine(tag) + "\r\n\n\n"}
		})
		add("multiline", "rawmessage-pointer-multiline", true, func(tag string) interface{} { m := json.RawMessage(multiLine(tag)); return &m })
	})
	return uvTab
}

// ---------------------------------------------------------------------------------------------------
// bookkeeping of what was written
// ---------------------------------------------------------------------------------------------------

type uexp struct {
	nonce string
	kind  string // message kind of the case the message belongs to
	fam   string
	class string
	role  string // notification | request | answer
	on    string // post | async
	state int
	bad   bool // the message carries the special value
	enc   bool // ... and the value encodes
	got   int
}

type ufix struct {
	in  *kit.Instance
	mu  sync.Mutex
	exp map[string]*uexp
	api sync.Map // nonce -> error text of the API for a special send
	// handlers running (their answers have not been handed to the writer yet)
	inflight atomic.Int64
}

func (f *ufix) note(e *uexp) {
	f.mu.Lock()
	f.exp[e.nonce] = e
	f.mu.Unlock()
}

// take removes and returns the messages expected on `on` whose nonce starts with prefix ("" = all).
func (f *ufix) take(on, prefix string) []*uexp {
	f.mu.Lock()
	defer f.mu.Unlock()
	var out []*uexp
	for n, e := range f.exp {
		if e.on == on && strings.HasPrefix(n, prefix) {
			out = append(out, e)
			delete(f.exp, n)
		}
	}
	sort.Slice(out, func(i, j int) bool { return out[i].nonce < out[j].nonce })
	return out
}

// where in-call notifications travel
func (f *ufix) notifOn() string {
	if f.in.Server != nil {
		return "post"
	}
	return "async"
}

func stateOfErr(err error, refusedBy ...string) int {
	if err == nil {
		return stYes
	}
	for _, s := range refusedBy {
		if strings.Contains(err.Error(), s) {
			return stNo
		}
	}
	return stMaybe
}

// notify sends one notification by the means the server kind offers (inCall: from inside a handler).
func (f *ufix) notify(ctx context.Context, inCall bool, sid, method string, params map[string]interface{}) (int, error) {
	switch {
	case f.in.Server != nil && inCall:
		sender, ok := mcp.GetNotificationSender(ctx)
		if !ok {
			return stNo, errors.New("no sender")
		}
		err := sender.SendCustomNotification(method, params)
		return stateOfErr(err), err
	case f.in.Server != nil:
		err := f.in.Server.SendNotification(sid, method, params)
		if err != nil && refused(err) {
			return stNo, err
		}
		return stateOfErr(err), err
	case f.in.SSE != nil:
		err := f.in.SSE.SendNotification(sid, method, params)
		return stateOfErr(err, "channel full", "not found", "not initialized"), err
	default:
		s, ok := mcp.GetSessionFromContext(ctx)
		if !ok || s == nil {
			return stNo, errors.New("no session")
		}
		nc, ok := s.(interface {
			NotificationChannel() chan<- mcp.JSONRPCNotification
		})
		if !ok {
			return stNo, errors.New("no notification channel")
		}
		n := mcp.NewJSONRPCNotificationFromMap(method, params)
		select {
		case nc.NotificationChannel() <- *n:
			return stYes, nil
		default:
			return stNo, errors.New("channel full")
		}
	}
}

// request issues one server-to-client request and waits for the answer at most d.
func (f *ufix) request(ctx context.Context, sid, nonce string, params map[string]interface{}, d time.Duration) (int, error) {
	rq := &mcp.JSONRPCRequest{JSONRPC: "2.0"}
	rq.Method = "verif/ask"
	rq.Params = params
	rctx, cancel := context.WithTimeout(ctx, d)
	defer cancel()
	var err error
	switch {
	case f.in.Server != nil:
		rq.ID = nonce
		_, err = f.in.Server.SendRequest(rctx, sid, rq)
		if err != nil && refused(err) {
			return stNo, err
		}
		return stateOfErr(err), err
	case f.in.SSE != nil:
		_, err = f.in.SSE.SendRequest(rctx, sid, rq)
		return stateOfErr(err, "queue full", "session not found"), err
	default:
		_, err = f.in.Stdio.SendRequest(rctx, rq)
		return stateOfErr(err, "MessageChannel full", "no session available"), err
	}
}

func uvalOf(vi int) *uval {
	if vi < 0 || vi >= len(uvals()) {
		return nil
	}
	return &uvals()[vi]
}

func (f *ufix) special(nonce, kind, role, on string, uv *uval, state int, err error) {
	e := &uexp{nonce: nonce, kind: kind, role: role, on: on, state: state, bad: true}
	if uv != nil {
		e.fam, e.class, e.enc = uv.Fam, uv.Class, uv.Enc
	}
	if err != nil {
		f.api.Store(nonce, err.Error())
	}
	f.note(e)
}

func errpathFixture(in *kit.Instance) *ufix {
	f := &ufix{in: in, exp: map[string]*uexp{}}
	in.RegisterTool(mcp.NewTool("utool", mcp.WithString("nonce"), mcp.WithString("kind"), mcp.WithNumber("vi"), mcp.WithNumber("g"), mcp.WithNumber("each")),
		func(ctx context.Context, req *mcp.CallToolRequest) (*mcp.CallToolResult, error) {
			f.inflight.Add(1)
			defer f.inflight.Add(-1)
			a := req.Params.Arguments
			nonce, _ := a["nonce"].(string)
			kind, _ := a["kind"].(string)
			g, each := numArg(a, "g"), numArg(a, "each")
			uv := uvalOf(numArg(a, "vi"))
			bad := nonce + ".bad"
			var val interface{} = "plain"
			if uv != nil {
				val = uv.Mk(bad)
			}
			sid := sidOf(ctx)
			var wg sync.WaitGroup
			// ordinary notifications from g goroutines of this handler: the concurrent writers of the stream
			for gi := 0; gi < g; gi++ {
				wg.Add(1)
				go func(gi int) {
					defer wg.Done()
					for i := 0; i < each; i++ {
						nn := fmt.Sprintf("%s.g%d.%d", nonce, gi, i)
						st, _ := f.notify(ctx, true, sid, "notifications/verif", map[string]interface{}{"nonce": nn, "p": "a\nb\r\nc"})
						f.note(&uexp{nonce: nn, kind: kind, role: "notification", on: f.notifOn(), state: st})
					}
				}(gi)
			}
			// the special message, sent while they run
			wg.Add(1)
			go func() {
				defer wg.Done()
				switch kind {
				case "in-call-notification-param":
					st, err := f.notify(ctx, true, sid, "notifications/verif", map[string]interface{}{"nonce": bad, "v": val})
					f.special(bad, kind, "notification", f.notifOn(), uv, st, err)
				case "in-call-notification-meta":
					st, err := f.notify(ctx, true, sid, "notifications/verif", map[string]interface{}{"nonce": bad, "_meta": map[string]interface{}{"v": val}})
					f.special(bad, kind, "notification", f.notifOn(), uv, st, err)
				case "in-call-progress-value":
					sender, ok := mcp.GetNotificationSender(ctx)
					if !ok || uv == nil || uv.Flt == nil {
						return
					}
					err := sender.SendProgress(*uv.Flt, `{"nonce":"`+bad+`"}`)
					f.special(bad, kind, "notification", "post", uv, stateOfErr(err), err)
				case "in-call-server-request-param":
					st, err := f.request(ctx, sid, bad, map[string]interface{}{"nonce": bad, "v": val}, 400*time.Millisecond)
					f.special(bad, kind, "request", "async", uv, st, err)
				case "ordinary", "fence":
					q := nonce + ".q"
					st, _ := f.request(ctx, sid, q, map[string]interface{}{"nonce": q, "p": "x\ny"}, 20*time.Second)
					f.note(&uexp{nonce: q, kind: kind, role: "request", on: "async", state: st})
				}
			}()
			wg.Wait()
			res := &mcp.CallToolResult{Content: []mcp.Content{mcp.NewTextContent("s")}}
			switch kind {
			case "result-structured":
				res.StructuredContent = map[string]interface{}{"nonce": bad, "v": val, "w": "after\nthe value"}
			case "result-structured-top":
				res.StructuredContent = val
			case "result-meta":
				res.Meta = map[string]interface{}{"nonce": bad, "v": val}
			case "result-content-custom":
				res.Content = []mcp.Content{mcp.NewTextContent("first"), badContent{tag: bad, v: val}, mcp.NewTextContent("last")}
			default:
				return mcp.NewTextResult(`{"nonce":"` + nonce + `.res"}`), nil
			}
			return res, nil
		})
	in.RegisterPrompt(&mcp.Prompt{Name: "uprompt", Arguments: []mcp.PromptArgument{{Name: "nonce"}, {Name: "vi"}}},
		func(ctx context.Context, req *mcp.GetPromptRequest) (*mcp.GetPromptResult, error) {
			f.inflight.Add(1)
			defer f.inflight.Add(-1)
			vi, _ := strconv.Atoi(req.Params.Arguments["vi"])
			bad := req.Params.Arguments["nonce"] + ".bad"
			var val interface{} = "plain"
			if uv := uvalOf(vi); uv != nil {
				val = uv.Mk(bad)
			}
			res := &mcp.GetPromptResult{Description: "d", Messages: []mcp.PromptMessage{{Role: mcp.RoleUser, Content: mcp.NewTextContent("t")}}}
			res.Meta = map[string]interface{}{"nonce": bad, "v": val}
			return res, nil
		})
	return f
}

// ---------------------------------------------------------------------------------------------------
// the scenario
// ---------------------------------------------------------------------------------------------------

type ucase struct {
	kind    string
	vi      int
	nonce   string
	id      int
	oob     bool
	answers int
	errors  int
}

type alog struct {
	mu  sync.Mutex
	evs []peer.SSEEvent
}

func (l *alog) add(ev peer.SSEEvent) { l.mu.Lock(); l.evs = append(l.evs, ev); l.mu.Unlock() }
func (l *alog) size() int            { l.mu.Lock(); defer l.mu.Unlock(); return len(l.evs) }
func (l *alog) since(i int) []peer.SSEEvent {
	l.mu.Lock()
	defer l.mu.Unlock()
	if i > len(l.evs) {
		i = len(l.evs)
	}
	return append([]peer.SSEEvent{}, l.evs[i:]...)
}

type urun struct {
	r      *vh.Run
	in     *kit.Instance
	f      *ufix
	c      *kit.RawConn
	log    *alog
	stream string // label of the asynchronous stream
	post   string // label of the per-exchange stream ("" = answers travel on the asynchronous stream)
	sse    bool
	stop   chan struct{}
	slow   atomic.Int64
	seq    atomic.Int64

	mu     sync.Mutex
	cases  map[int]*ucase // by request id: cases whose answer travels on the asynchronous stream
	judged map[string]int // stream|kind -> cases judged with the stream shown complete
	outc   map[string]int
}

func (u *urun) label() string {
	if u.post != "" {
		return u.post
	}
	return u.stream
}

func isUFence(v interface{}) bool {
	m, ok := v.(map[string]interface{})
	if !ok {
		return false
	}
	if id, ok := m["id"].(string); ok && (strings.HasPrefix(id, "ufence-") || strings.HasPrefix(id, "init-")) {
		return true
	}
	if meth, ok := m["method"].(string); ok && meth == "notifications/ufence" {
		return true
	}
	return false
}

// responder answers server-issued requests like a client would (liveness only).
func (u *urun) responder() {
	i := 0
	ctx := context.Background()
	for {
		select {
		case <-u.stop:
			return
		default:
		}
		evs := u.log.since(i)
		if len(evs) == 0 {
			time.Sleep(time.Millisecond)
			continue
		}
		i += len(evs)
		for _, ev := range evs {
			var h struct {
				ID     json.RawMessage `json:"id"`
				Method string          `json:"method"`
			}
			if json.Unmarshal([]byte(ev.Data), &h) != nil || h.Method == "" || len(h.ID) == 0 {
				continue
			}
			ans := []byte(fmt.Sprintf(`{"jsonrpc":"2.0","id":%s,"result":{}}`, h.ID))
			if u.in.Kind == kit.Stdio {
				_ = u.c.WriteLine(ans)
			} else {
				go u.c.Post(ctx, ans, kit.PostOpts{NoWait: true})
			}
		}
	}
}

func (u *urun) outcome(stream, kind, fam, what string) {
	u.mu.Lock()
	u.outc[stream+"|"+kind+"|"+fam+"|"+what]++
	u.mu.Unlock()
}

// judge one stream (a POST exchange or the asynchronous stream). dflt: the case a POST exchange belongs to.
func (u *urun) judge(stream string, evs []peer.SSEEvent, exps []*uexp, ids map[int]*ucase, dflt *ucase, complete bool) {
	r := u.r
	sig := func(kind, fam, symptom string) string {
		if kind == "" {
			return fmt.Sprintf("C09|errpath|%s|%s", stream, symptom)
		}
		return fmt.Sprintf("C09|errpath|%s|%s|%s|%s", stream, kind, fam, symptom)
	}
	famOfCase := func(c *ucase) string {
		if uv := uvalOf(c.vi); uv != nil {
			return uv.Fam
		}
		return "ordinary"
	}
	classOfCase := func(c *ucase) string {
		if uv := uvalOf(c.vi); uv != nil {
			return uv.Class
		}
		return "ordinary"
	}
	byNonce := map[string]*uexp{}
	for _, e := range exps {
		byNonce[e.nonce] = e
	}
	if u.sse || stream == "post-sse-stream" {
		checkEvents(r, "errpath|"+stream, drained{evs: evs})
	}
	for i, ev := range evs {
		f := ev.Data
		r.Count("frames_parsed", 1)
		v, err := decodeStrict(f)
		var m map[string]interface{}
		if err == nil {
			var ok bool
			if m, ok = v.(map[string]interface{}); !ok {
				err = errors.New("the frame is a JSON value but no object")
			}
		}
		if err != nil {
			// attribute: the case of the exchange, or a message whose nonce is still readable
			kind, fam, class := "", "", ""
			if dflt != nil {
				kind, fam, class = dflt.kind, famOfCase(dflt), classOfCase(dflt)
			} else {
				for _, e := range exps {
					if strings.Contains(f, e.nonce) {
						kind, fam, class = e.kind, e.fam, e.class
						if fam == "" {
							fam = "ordinary"
						}
						break
					}
				}
			}
			r.Violation(sig(kind, fam, "frame-not-one-message"), fmt.Sprintf("%s: frame %d is not one JSON-RPC message (%v) [message kind %q, value class %q]", stream, i, err, kind, class),
				map[string]interface{}{"frame_index": i, "frame": clip(f), "len": len(f), "id_lines": ev.IDLines, "kind": kind, "value_class": class})
			continue
		}
		if stream == "stdio-stdout" && strings.ContainsAny(f, "\r\n") {
			r.Violation(sig("", "", "raw-newline-in-line"), "a stdio line contains a raw CR/LF", map[string]interface{}{"frame": clip(f)})
		}
		if isUFence(v) {
			continue
		}
		if n := nonceOf(f); n != "" {
			e := byNonce[n]
			if e == nil {
				r.Violation(sig("", "", "foreign-frame"), fmt.Sprintf("%s: a frame carries the nonce of no message written to this stream", stream), map[string]interface{}{"frame": clip(f)})
				continue
			}
			e.got++
			_, isErr := m["error"]
			if e.bad && e.enc && !isErr && !strings.Contains(canonOf(v), multiCanon(e.nonce)) {
				r.Violation(sig(e.kind, e.fam, "content-differs"), fmt.Sprintf("%s: the %s written for a value that encodes (class %s) does not carry that value", stream, e.role, e.class),
					map[string]interface{}{"kind": e.kind, "value_class": e.class, "want_subvalue": multiCanon(e.nonce), "frame": clip(f)})
			}
		}
		// answers by id
		if _, isReq := m["method"]; isReq {
			if nonceOf(f) == "" {
				r.Violation(sig("", "", "unknown-frame"), fmt.Sprintf("%s: a request / notification that nobody sent", stream), map[string]interface{}{"frame": clip(f)})
			}
			continue
		}
		var c *ucase
		if num, ok := m["id"].(json.Number); ok {
			if k, err := strconv.Atoi(num.String()); err == nil {
				c = ids[k]
			}
		}
		if c == nil {
			if nonceOf(f) == "" {
				r.Violation(sig("", "", "unknown-frame"), fmt.Sprintf("%s: an answer to no request of this stream", stream), map[string]interface{}{"frame": clip(f)})
			}
			continue
		}
		c.answers++
		if _, isErr := m["error"]; isErr {
			c.errors++
		}
	}
	// the messages
	open := 0
	for _, e := range exps {
		fam := e.fam
		if fam == "" {
			fam = "ordinary"
		}
		switch {
		case e.bad && !e.enc:
			// whatever the server decided: 0, 1 or more well-formed frames
			if e.got > 0 {
				u.outcome(stream, e.kind, fam, "a-message-was-written")
			} else if e.role != "answer" {
				if _, ok := u.f.api.Load(e.nonce); ok {
					u.outcome(stream, e.kind, fam, "api-error,nothing-written")
				} else {
					u.outcome(stream, e.kind, fam, "api-ok,nothing-written")
				}
			}
		case e.got > 1:
			r.Violation(sig(e.kind, fam, "extra-copy"), fmt.Sprintf("%s: a %s written once was recovered %d times", stream, e.role, e.got), map[string]interface{}{"nonce": e.nonce, "kind": e.kind})
		case e.got == 0 && e.state == stYes && !(e.bad && e.role == "answer"):
			if !complete {
				open++
				break
			}
			what := "ordinary message next to the special one"
			if e.bad {
				what = "message with a multi-line value, reported as sent"
			}
			r.Violation(sig(e.kind, fam, "missing"), fmt.Sprintf("%s: a %s (%s) that was written was not recovered although the stream has moved on", stream, e.role, what),
				map[string]interface{}{"nonce": e.nonce, "kind": e.kind, "value_class": e.class})
		case e.got == 1:
			if e.bad {
				u.outcome(stream, e.kind, fam, "the-message-was-written")
			} else {
				r.Count("errpath_ordinary_msgs_recovered|"+stream, 1)
			}
		}
	}
	if open > 0 {
		r.Inconclusive(fmt.Sprintf("errpath|%s: %d written messages had not arrived when the wait ended and the stream could not be shown to have moved on", stream, open))
	}
	// the answers
	var idl []int
	for k := range ids {
		idl = append(idl, k)
	}
	sort.Ints(idl)
	for _, k := range idl {
		c := ids[k]
		fam := famOfCase(c)
		uv := uvalOf(c.vi)
		switch {
		case c.answers == 0:
			u.outcome(stream, c.kind, fam, "no-answer")
		case c.answers > 1 && (uv == nil || uv.Enc):
			r.Violation(sig(c.kind, fam, "extra-copy"), fmt.Sprintf("%s: %d answers to one request were recovered", stream, c.answers), map[string]interface{}{"id": c.id, "kind": c.kind})
		case c.answers > 1:
			u.outcome(stream, c.kind, fam, "several-answers")
		case c.errors == 1:
			u.outcome(stream, c.kind, fam, "error-answer")
		default:
			u.outcome(stream, c.kind, fam, "result-answer")
		}
		if complete || c.answers > 0 {
			u.mu.Lock()
			u.judged[stream+"|"+c.kind]++
			u.mu.Unlock()
		}
	}
	r.Eval(len(exps) + len(ids))
}

// sseBlocks: blocks of a complete SSE body that hold field lines but no data line (a conforming reader dispatches nothing).
func sseBlocksWithoutData(body string) int {
	n := 0
	for _, blk := range strings.Split(strings.ReplaceAll(body, "\r\n", "\n"), "\n\n") {
		hasField, hasData := false, false
		for _, ln := range strings.Split(blk, "\n") {
			if ln == "" || strings.HasPrefix(ln, ":") {
				continue
			}
			hasField = true
			if strings.HasPrefix(ln, "data") {
				hasData = true
			}
		}
		if hasField && !hasData {
			n++
		}
	}
	return n
}

func (u *urun) body(c *ucase, g, each int) string {
	if c.kind == "prompt-result-meta" {
		return fmt.Sprintf(`{"jsonrpc":"2.0","id":%d,"method":"prompts/get","params":{"name":"uprompt","arguments":{"nonce":%s,"vi":"%d"}}}`, c.id, jstr(c.nonce), c.vi)
	}
	return fmt.Sprintf(`{"jsonrpc":"2.0","id":%d,"method":"tools/call","params":{"name":"utool","arguments":{"nonce":%s,"kind":%s,"vi":%d,"g":%d,"each":%d}}}`,
		c.id, jstr(c.nonce), jstr(c.kind), c.vi, g, each)
}

// waitAnswer: throttling only (nothing is decided here).
func (u *urun) waitAnswer(from int, id int, d time.Duration) {
	if u.slow.Load() >= 3 {
		d = 300 * time.Millisecond
	}
	idText := `"id":` + strconv.Itoa(id)
	dl := time.Now().Add(d)
	for time.Now().Before(dl) {
		evs := u.log.since(from)
		for _, ev := range evs {
			if strings.Contains(ev.Data, idText) {
				return
			}
		}
		from += len(evs)
		time.Sleep(500 * time.Microsecond)
	}
	u.slow.Add(1)
}

// runReq runs one request-borne case (or an ordinary / fence call).
func (u *urun) runReq(c *ucase, g, each int) {
	ctx, cancel := context.WithTimeout(context.Background(), 60*time.Second)
	defer cancel()
	body := u.body(c, g, each)
	isAnswerKind := strings.HasPrefix(c.kind, "result-") || c.kind == "prompt-result-meta"
	noteAnswer := func(on string) {
		if isAnswerKind {
			uv := uvalOf(c.vi)
			e := &uexp{nonce: c.nonce + ".bad", kind: c.kind, role: "answer", on: on, state: stMaybe, bad: true}
			if uv != nil {
				e.fam, e.class, e.enc = uv.Fam, uv.Class, uv.Enc
			}
			if c.kind == "result-structured-top" && !(uv != nil && uv.Enc) {
				return // the value is the whole structured content: no nonce next to it
			}
			u.f.note(e)
		} else {
			u.f.note(&uexp{nonce: c.nonce + ".res", kind: c.kind, role: "answer", on: on, state: stYes})
		}
	}
	if u.post != "" {
		noteAnswer("post")
		ex := u.c.Post(ctx, []byte(body), kit.PostOpts{})
		exps := u.f.take("post", c.nonce+".")
		if ex == nil || ex.HTTP == nil || ex.HTTP.Err != "" || ex.HTTP.Status != 200 || !ex.HTTP.IsSSE {
			u.r.Inconclusive(fmt.Sprintf("errpath|%s: the exchange of a %s did not complete as an event stream (%s)", u.post, c.kind, exErr(ex)))
			return
		}
		u.judge(u.post, ex.HTTP.Events, exps, map[int]*ucase{c.id: c}, c, true)
		raw := string(ex.HTTP.Body)
		if len(raw) > 0 && !strings.HasSuffix(raw, "\n\n") {
			fam, class := "ordinary", "ordinary"
			if uv := uvalOf(c.vi); uv != nil {
				fam, class = uv.Fam, uv.Class
			}
			u.r.Violation(fmt.Sprintf("C09|errpath|%s|%s|%s|unterminated-tail", u.post, c.kind, fam), u.post+": the stream ends inside an event",
				map[string]interface{}{"kind": c.kind, "value_class": class, "tail": clip(raw)})
		}
		if n := sseBlocksWithoutData(raw); n > 0 {
			u.r.Count("errpath_sse_blocks_without_data|"+u.post, int64(n))
		}
		return
	}
	noteAnswer("async")
	u.mu.Lock()
	u.cases[c.id] = c
	u.mu.Unlock()
	from := u.log.size()
	if u.in.Kind == kit.Stdio {
		_ = u.c.WriteLine([]byte(body))
	} else {
		ex := u.c.Post(ctx, []byte(body), kit.PostOpts{NoWait: true})
		if ex == nil || ex.HTTP == nil || ex.HTTP.Status != 202 {
			u.r.Count("errpath_requests_not_accepted|"+u.stream, 1)
			u.mu.Lock()
			delete(u.cases, c.id)
			u.mu.Unlock()
			u.f.take("async", c.nonce+".")
			return
		}
	}
	d := 15 * time.Second
	if uv := uvalOf(c.vi); uv != nil && !uv.Enc {
		d = 3 * time.Second // the server may well have decided to write nothing
	}
	u.waitAnswer(from, c.id, d)
}

// runOOB runs one out-of-band case: the harness goroutine calls the API.
func (u *urun) runOOB(c *ucase) {
	uv := uvalOf(c.vi)
	bad := c.nonce + ".bad"
	var val interface{} = "plain"
	if uv != nil {
		val = uv.Mk(bad)
	}
	sid := u.c.SessionID
	ctx := context.Background()
	switch c.kind {
	case "oob-notification-param":
		st, err := u.f.notify(ctx, false, sid, "notifications/verif", map[string]interface{}{"nonce": bad, "v": val})
		u.f.special(bad, c.kind, "notification", "async", uv, st, err)
	case "oob-notification-meta":
		st, err := u.f.notify(ctx, false, sid, "notifications/verif", map[string]interface{}{"nonce": bad, "_meta": map[string]interface{}{"v": val}})
		u.f.special(bad, c.kind, "notification", "async", uv, st, err)
	case "oob-server-request-param":
		st, err := u.f.request(ctx, sid, bad, map[string]interface{}{"nonce": bad, "v": val}, 2*time.Second)
		u.f.special(bad, c.kind, "request", "async", uv, st, err)
	case "oob-broadcast-param":
		n, err := u.in.Server.BroadcastNotification("notifications/verif", map[string]interface{}{"nonce": bad, "v": val})
		st := stMaybe
		if err == nil && n == 1 {
			st = stYes
		} else if err == nil && n == 0 {
			st = stNo
		}
		u.f.special(bad, c.kind, "notification", "async", uv, st, err)
	case "oob-ordinary":
		n1, n2 := c.nonce+".n", c.nonce+".q"
		st, _ := u.f.notify(ctx, false, sid, "notifications/verif", map[string]interface{}{"nonce": n1, "p": "a\nb"})
		u.f.note(&uexp{nonce: n1, kind: c.kind, role: "notification", on: "async", state: st})
		st, _ = u.f.request(ctx, sid, n2, map[string]interface{}{"nonce": n2, "p": "x\r\ny"}, 20*time.Second)
		u.f.note(&uexp{nonce: n2, kind: c.kind, role: "request", on: "async", state: st})
	}
	u.mu.Lock()
	u.judged["oob|"+c.kind]++
	u.mu.Unlock()
}

func (u *urun) newCase(kind string, vi int, oob bool) *ucase {
	k := int(u.seq.Add(1))
	return &ucase{kind: kind, vi: vi, oob: oob, nonce: fmt.Sprintf("ux%d-%dq", u.r.Seed%1000, k), id: 6000000 + k}
}

// fence: one more message through every pump of the asynchronous stream; when all have arrived, what was written
// before them through the same pumps has been written.
func (u *urun) fence() bool {
	n := u.seq.Add(1)
	from := u.log.size()
	ctx := context.Background()
	var need []string
	switch u.in.Kind {
	case kit.SSSE:
		if err := u.in.Server.SendNotification(u.c.SessionID, "notifications/ufence", map[string]interface{}{"n": n}); err != nil {
			return false
		}
		need = []string{`"notifications/ufence"`}
	case kit.LSSE:
		if err := u.in.SSE.SendNotification(u.c.SessionID, "notifications/ufence", map[string]interface{}{"n": n}); err != nil {
			return false
		}
		u.c.Post(ctx, []byte(fmt.Sprintf(`{"jsonrpc":"2.0","id":"ufence-%d","method":"ping"}`, n)), kit.PostOpts{NoWait: true})
		need = []string{`"notifications/ufence"`, fmt.Sprintf(`"ufence-%d"`, n)}
	default:
		// a call that pushes a notification and a server request through the two pump channels, then answers
		c := u.newCase("fence", -1, false)
		u.runReq(c, 1, 1)
		need = []string{c.nonce + ".g0.0", c.nonce + ".q", c.nonce + ".res"}
	}
	last, lastAt := -1, time.Now()
	for {
		evs := u.log.since(from)
		ok := true
		for _, w := range need {
			found := false
			for _, ev := range evs {
				if strings.Contains(ev.Data, w) {
					found = true
					break
				}
			}
			ok = ok && found
		}
		if ok {
			time.Sleep(50 * time.Millisecond)
			return true
		}
		if len(evs) != last {
			last, lastAt = len(evs), time.Now()
		} else if time.Since(lastAt) > 15*time.Second {
			return false
		}
		time.Sleep(time.Millisecond)
	}
}

func errPaths(r *vh.Run, kind kit.Kind) {
	opts := kit.Opts{}
	u := &urun{r: r, log: &alog{}, stop: make(chan struct{}), cases: map[int]*ucase{}, judged: map[string]int{}, outc: map[string]int{}}
	switch kind {
	case kit.SSSE:
		u.stream, u.post, u.sse = "get-stream", "post-sse-stream", true
	case kit.LSSE:
		u.stream, u.sse = "legacy-sse-stream", true
		opts.KeepAlive = 2 * time.Millisecond
	default:
		u.stream = "stdio-stdout"
	}
	in := kit.Start(kind, opts)
	defer in.Close()
	u.in = in
	u.f = errpathFixture(in)
	ctx := context.Background()
	c, err := in.Dial(ctx)
	if err != nil {
		r.Fatal("errpath %s: dial: %v", kind, err)
	}
	defer c.Close()
	u.c = c
	if err := c.Handshake(ctx); err != nil {
		r.Fatal("errpath %s: handshake: %v", kind, err)
	}
	var get *peer.Stream
	feedDone := make(chan struct{})
	switch kind {
	case kit.SSSE:
		// the listening stream, read by the strict reader with everything it saw kept (id lines, unknown lines)
		hp := peer.NewHTTPPeer()
		defer hp.Close()
		s, re := hp.OpenStream(ctx, "GET", in.URL(), map[string]string{"Accept": "text/event-stream", "Mcp-Session-Id": c.SessionID}, 1<<16)
		if s == nil {
			r.Fatal("errpath: GET: %+v", re)
		}
		get = s
		go func() {
			defer close(feedDone)
			for ev := range s.Events {
				u.log.add(ev)
			}
		}()
	default:
		go func() {
			defer close(feedDone)
			i := 0
			for {
				fr := c.Log.Since(i)
				for _, f := range fr {
					u.log.add(peer.SSEEvent{Event: f.Event, Data: f.Data, ID: f.SSEID})
				}
				i += len(fr)
				if len(fr) == 0 {
					select {
					case <-u.stop:
						return
					default:
					}
					time.Sleep(500 * time.Microsecond)
				}
			}
		}()
	}
	time.Sleep(20 * time.Millisecond)
	go u.responder()
	from := u.log.size()

	// the cases
	type kd struct {
		name  string
		oob   bool
		float bool
		only  func() bool
	}
	streamable := func() bool { return kind == kit.SSSE }
	notStdio := func() bool { return kind != kit.Stdio }
	kinds := []kd{
		{name: "result-structured"}, {name: "result-structured-top"}, {name: "result-meta"}, {name: "result-content-custom"}, {name: "prompt-result-meta"},
		{name: "in-call-notification-param"}, {name: "in-call-notification-meta"}, {name: "in-call-progress-value", float: true, only: streamable},
		{name: "in-call-server-request-param"},
		{name: "oob-notification-param", oob: true, only: notStdio}, {name: "oob-notification-meta", oob: true, only: notStdio},
		{name: "oob-server-request-param", oob: true, only: notStdio}, {name: "oob-broadcast-param", oob: true, only: streamable},
	}
	reps := r.Pick(1, 3)
	g, each := r.Pick(2, 4), 3
	var cases []*ucase
	for rep := 0; rep < reps; rep++ {
		for _, k := range kinds {
			if k.only != nil && !k.only() {
				continue
			}
			for vi, uv := range uvals() {
				if k.float && uv.Flt == nil {
					continue
				}
				cases = append(cases, u.newCase(k.name, vi, k.oob))
			}
		}
	}
	rng := r.Rand(fmt.Sprintf("c09-errpath-%s", kind))
	rng.Shuffle(len(cases), func(i, j int) { cases[i], cases[j] = cases[j], cases[i] })

	// ordinary traffic from concurrent writers on the asynchronous stream: before, during and after
	var bg sync.WaitGroup
	bgStop := make(chan struct{})
	bgMax := r.Pick(400, 1500)
	for w := 0; w < 3; w++ {
		bg.Add(1)
		go func(w int) {
			defer bg.Done()
			for i := 0; ; i++ {
				select {
				case <-bgStop:
					// a few more after the last case
					for k := 0; k < 5; k++ {
						u.bgOne(w + k)
					}
					return
				default:
				}
				if i >= bgMax {
					time.Sleep(5 * time.Millisecond) // the volume is bounded; wait for the cases to end
					continue
				}
				u.bgOne(w + i)
				time.Sleep(300 * time.Microsecond)
			}
		}(w)
	}
	// a few ordinary messages before the first case
	for k := 0; k < 6; k++ {
		u.bgOne(k)
	}
	var wg sync.WaitGroup
	ch := make(chan *ucase)
	for w := 0; w < 4; w++ {
		wg.Add(1)
		go func() {
			defer wg.Done()
			for cs := range ch {
				r.SetAdd("errpath_value_classes", uvals()[cs.vi].Class)
				if cs.oob {
					u.runOOB(cs)
				} else {
					u.runReq(cs, g, each)
				}
			}
		}()
	}
	for _, cs := range cases {
		ch <- cs
	}
	close(ch)
	wg.Wait()
	close(bgStop)
	bg.Wait()

	// the asynchronous stream: wait for what is certain, fence, judge
	exps := u.f.take("async", "")
	certain := 0
	for _, e := range exps {
		if e.state == stYes && !e.bad {
			certain++
		}
	}
	last, lastAt := -1, time.Now()
	for {
		n := u.log.size() - from
		if n >= certain+len(u.cases) {
			break
		}
		if n != last {
			last, lastAt = n, time.Now()
		} else if time.Since(lastAt) > 5*time.Second {
			break
		}
		time.Sleep(2 * time.Millisecond)
	}
	// no handler may still be running when the fence is sent (its answer would be written after the fence)
	quiet := false
	for dl := time.Now().Add(40 * time.Second); time.Now().Before(dl); time.Sleep(2 * time.Millisecond) {
		if u.f.inflight.Load() == 0 {
			quiet = true
			break
		}
	}
	time.Sleep(100 * time.Millisecond)
	complete := u.fence() && quiet
	exps = append(exps, u.f.take("async", "")...) // the fence call's own messages (stdio)
	close(u.stop)
	if get != nil {
		get.Close()
	}
	<-feedDone
	evs := u.log.since(from)
	if kind == kit.Stdio {
		if part := c.Rec.Partial(); len(part) > 0 {
			r.Violation("C09|errpath|"+u.stream+"|unterminated-tail", "stdout ends with an unterminated fragment", map[string]interface{}{"tail": clip(string(part))})
		}
	}
	if kind == kit.LSSE {
		for _, ev := range evs {
			if ev.Event != "message" {
				r.Violation("C09|errpath|"+u.stream+"|unexpected-event-type", fmt.Sprintf("an event of type %q on the legacy stream", ev.Event), map[string]interface{}{"data": clip(ev.Data)})
				break
			}
		}
		r.Count("keepalive_comments_seen", int64(c.LegacyComments()))
	}
	if get != nil {
		raw := string(get.Raw())
		if n := sseBlocksWithoutData(raw); n > 0 {
			r.Count("errpath_sse_blocks_without_data|"+u.stream, int64(n))
		}
	}
	u.mu.Lock()
	ids := u.cases
	u.cases = map[int]*ucase{}
	u.mu.Unlock()
	u.judge(u.stream, evs, exps, ids, nil, complete)

	// evidence
	ran := map[string]int{}
	for _, cs := range cases {
		ran[cs.kind]++
	}
	u.mu.Lock()
	defer u.mu.Unlock()
	ordinary := r.Counter("errpath_ordinary_msgs_recovered|" + u.stream)
	if u.post != "" {
		ordinary += r.Counter("errpath_ordinary_msgs_recovered|" + u.post)
	}
	for k := range ran {
		label := u.stream
		if u.post != "" && !strings.HasPrefix(k, "oob-") {
			label = u.post
		}
		n := u.judged[label+"|"+k]
		if strings.HasPrefix(k, "oob-") {
			n = u.judged["oob|"+k]
			if !complete {
				n = 0
			}
		}
		if n > 0 && ordinary > 0 {
			r.Distinct("errpath|" + label + "|" + k)
			r.Count("errpath_cases_judged|"+label+"|"+k, int64(n))
		} else {
			r.Inconclusive(fmt.Sprintf("errpath|%s: no case of kind %s was judged on a stream shown complete (nothing observed for it)", label, k))
		}
	}
	var ok []string
	for k := range u.outc {
		ok = append(ok, k)
	}
	sort.Strings(ok)
	outc := map[string]int{} // sample: stream|kind|what; monitors: stream|value family|what
	for _, k := range ok {
		p := strings.Split(k, "|")
		outc[p[0]+"|"+p[1]+"|"+p[3]] += u.outc[k]
		r.Count("errpath_outcome|"+p[0]+"|"+p[2]+"|"+p[3], int64(u.outc[k]))
	}
	r.Sample(map[string]interface{}{"scenario": "error-paths", "server": string(kind), "value_classes": len(uvals()), "cases": len(cases), "handler_goroutines": g,
		"frames_on_" + u.stream: len(evs), "async_stream_shown_complete": complete, "ordinary_messages_recovered": ordinary, "outcomes(stream|kind|what the server did)": outc})
}

// bgOne: one piece of ordinary traffic on the asynchronous stream.
func (u *urun) bgOne(i int) {
	if u.in.Kind == kit.Stdio || i%3 == 0 {
		// an ordinary call: in-call notifications, a server request, an ordinary answer
		c := u.newCase("ordinary", -1, false)
		if u.in.Kind == kit.SSSE {
			c.kind = "ordinary"
		}
		u.runReq(c, 1, 2)
		return
	}
	u.runOOB(u.newCase("oob-ordinary", -1, true))
}
