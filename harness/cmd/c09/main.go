// C09 — one message per frame: SSE events and stdio lines never interleave.
package main

import (
	"context"
	"encoding/json"
	"fmt"
	"math/rand"
	"os"
	"sort"
	"strings"
	"sync"
	"sync/atomic"
	"time"

	mcp "trpc.group/trpc-go/trpc-mcp-go"

	"verifharness/lib/kit"
	"verifharness/lib/peer"
	"verifharness/lib/sched"
	"verifharness/lib/vh"
)

// payload classes: strings with line breaks / separators and sizes straddling PIPE_BUF and bufio boundaries
func payloads(rng *rand.Rand) []struct{ Class, S string } {
	mk := func(n int) string {
		b := make([]byte, n)
		for i := range b {
			b[i] = byte('a' + rng.Intn(26))
		}
		return string(b)
	}
	return []struct{ Class, S string }{
		{"small", "x"}, {"lf", "a\nb\nc"}, {"cr", "a\rb"}, {"crlf", "a\r\nb\r\n"}, {"u2028", "a b c"},
		{"4095", mk(4095 - 200)}, {"4096", mk(4096)}, {"4097+", mk(4200)}, {"65535", mk(65535)}, {"65537", mk(65537)}, {"200k", mk(200 << 10)},
		{"data-colon", "data: id: event: \n\ndata: x"},
	}
}

type frameCheck struct {
	r        *vh.Run
	scenario string
}

// judge compares the parsed frames with the multiset of messages that were written.
// want: nonce -> expected count. frames: raw frame payloads (stdio lines / SSE data values).
func (fc frameCheck) judge(frames []string, want map[string]int, extraOK func(m map[string]json.RawMessage) bool) {
	got := map[string]int{}
	for i, f := range frames {
		fc.r.Count("frames_parsed", 1)
		var m map[string]json.RawMessage
		dec := json.NewDecoder(strings.NewReader(f))
		if err := dec.Decode(&m); err != nil || m == nil {
			fc.r.Violation(fmt.Sprintf("C09|%s|frame-not-one-message", fc.scenario), fmt.Sprintf("%s: frame %d is not one JSON-RPC message (%v)", fc.scenario, i, err),
				map[string]interface{}{"frame_index": i, "frame": clip(f), "len": len(f)})
			continue
		}
		if dec.More() {
			fc.r.Violation(fmt.Sprintf("C09|%s|two-messages-in-one-frame", fc.scenario), fmt.Sprintf("%s: frame %d holds more than one JSON value", fc.scenario, i), map[string]interface{}{"frame": clip(f)})
			continue
		}
		if strings.ContainsAny(f, "\n\r") && !strings.HasPrefix(fc.scenario, "sse") && !strings.HasPrefix(fc.scenario, "legacy") && !strings.HasPrefix(fc.scenario, "get") && !strings.HasPrefix(fc.scenario, "post") {
			fc.r.Violation(fmt.Sprintf("C09|%s|raw-newline-in-line", fc.scenario), "a stdio line contains a raw CR/LF", map[string]interface{}{"frame": clip(f)})
		}
		n := nonceOf(f)
		if n == "" {
			if extraOK != nil && extraOK(m) {
				continue
			}
			fc.r.Violation(fmt.Sprintf("C09|%s|unknown-frame", fc.scenario), fmt.Sprintf("%s: frame %d carries no nonce of a written message", fc.scenario, i), map[string]interface{}{"frame": clip(f)})
			continue
		}
		got[n]++
	}
	missing, dup, foreign := 0, 0, 0
	for n, w := range want {
		if got[n] < w {
			missing++
		} else if got[n] > w {
			dup++
		}
	}
	for n := range got {
		if _, ok := want[n]; !ok {
			foreign++
		}
	}
	fc.r.Eval(len(want))
	if missing+dup+foreign > 0 {
		fc.r.Violation(fmt.Sprintf("C09|%s|multiset-differs", fc.scenario), fmt.Sprintf("%s: reader recovered a different multiset: %d written messages missing, %d duplicated, %d foreign (of %d)", fc.scenario, missing, dup, foreign, len(want)),
			map[string]interface{}{"written": len(want), "missing": missing, "duplicated": dup, "foreign": foreign})
	}
}

func clip(s string) string {
	if len(s) > 500 {
		return s[:250] + " ... " + s[len(s)-200:] + fmt.Sprintf(" (%d bytes)", len(s))
	}
	return s
}

// nonceOf finds "nonce":"..." or \"nonce\":\"...\" (inside an echoed text) in a frame.
func nonceOf(f string) string {
	for _, key := range []string{`\"nonce\":\"`, `"nonce":"`} {
		if i := strings.Index(f, key); i >= 0 {
			rest := f[i+len(key):]
			end := strings.IndexAny(rest, `"\`)
			if end > 0 {
				return rest[:end]
			}
		}
	}
	return ""
}

var nonceSeq atomic.Int64

func nextNonce(p string) string { return fmt.Sprintf("%s-%d", p, nonceSeq.Add(1)) }

// releaseAll keeps releasing goroutines parked at `point` in seeded order until cond() is true.
func releaseAll(ctl *sched.Controller, point string, rng *rand.Rand, cond func() bool, r *vh.Run, gauge string) bool {
	deadline := time.Now().Add(10 * time.Second)
	for !cond() && time.Now().Before(deadline) {
		// AwaitWaiting with d=0 only reports the number parked (it never blocks). The blocking form arms its
		// wake-up timer before it computes its deadline and can sleep forever when the goroutine is
		// descheduled between the two (seen under load: this loop parked for 11 minutes), so poll instead.
		k := ctl.AwaitWaiting(point, 1, 0)
		if k > 0 {
			r.Max(gauge, int64(k))
			ctl.ReleaseOne(point, rng.Intn(k))
		} else {
			time.Sleep(200 * time.Microsecond)
		}
	}
	ctl.Release(point)
	return cond()
}

// ---- (a) stdio server stdout ----
func stdioServer(r *vh.Run, rounds, writers int, withHold bool) {
	scen := "stdio-stdout"
	in := kit.Start(kit.Stdio, kit.Opts{})
	kit.StdFixture(in)
	// a tool that also makes the server issue a request (roots/list) on the same stdout
	in.RegisterTool(mcp.NewTool("rootecho", mcp.WithString("nonce")), func(ctx context.Context, req *mcp.CallToolRequest) (*mcp.CallToolResult, error) {
		n, _ := req.Params.Arguments["nonce"].(string)
		rctx, cancel := context.WithTimeout(ctx, 20*time.Second)
		defer cancel()
		res, err := in.Stdio.ListRoots(rctx)
		if err != nil {
			return mcp.NewTextResult(fmt.Sprintf(`{"nonce":"%s","roots":"error"}`, n)), nil
		}
		return mcp.NewTextResult(fmt.Sprintf(`{"nonce":"%s","roots":%d}`, n, len(res.Roots))), nil
	})
	ctx := context.Background()
	c, err := in.Dial(ctx)
	if err != nil {
		r.Fatal("dial stdio: %v", err)
	}
	defer c.Close()
	if err := c.Handshake(ctx); err != nil {
		r.Fatal("handshake: %v", err)
	}
	// answer server-issued requests like a client would
	stopAns := make(chan struct{})
	go func() {
		i := 0
		for {
			select {
			case <-stopAns:
				return
			default:
			}
			ln, ok := c.Rec.Line(i, 50*time.Millisecond)
			if !ok {
				continue
			}
			i++
			var m struct {
				ID     json.RawMessage `json:"id"`
				Method string          `json:"method"`
			}
			if json.Unmarshal(ln, &m) == nil && m.Method == "roots/list" && m.ID != nil {
				c.WriteLine([]byte(fmt.Sprintf(`{"jsonrpc":"2.0","id":%s,"result":{"roots":[{"uri":"file:///r","name":"r"}]}}`, m.ID)))
			}
		}
	}()
	rng := r.Rand("c09-stdio")
	var ctl *sched.Controller
	if withHold {
		scen = "stdio-stdout-held"
		ctl = sched.New(5*time.Second, r.Seed)
		ctl.Install()
		defer sched.Uninstall()
	}
	from := c.Rec.NLines()
	want := map[string]int{}
	pl := payloads(rng)
	for round := 0; round < rounds; round++ {
		if ctl != nil {
			ctl.Hold("stdio.write.mid")
		}
		base := c.Rec.NLines()
		n := writers
		for w := 0; w < n; w++ {
			nonce := nextNonce("so")
			p := pl[rng.Intn(len(pl))]
			r.SetAdd("payload_classes", p.Class)
			tool := "echo"
			args := map[string]interface{}{"nonce": nonce, "payload": p.S, "pad_n": len(p.S)}
			if w%4 == 3 {
				tool = "rootecho"
				args = map[string]interface{}{"nonce": nonce}
			}
			want[nonce] = 1
			a, _ := json.Marshal(args)
			c.WriteLine([]byte(fmt.Sprintf(`{"jsonrpc":"2.0","id":%d,"method":"tools/call","params":{"name":"%s","arguments":%s}}`, 100000+int(nonceSeq.Load()), tool, a)))
		}
		done := func() bool {
			cnt := 0
			for _, ln := range c.Rec.Lines(base) {
				if nonceOf(string(ln)) != "" && !strings.Contains(string(ln), `"method"`) {
					cnt++
				}
			}
			return cnt >= n
		}
		if ctl != nil {
			if !releaseAll(ctl, "stdio.write.mid", rng, done, r, "writers_parked_mid_frame") {
				break // answers are missing or mangled: judge what was written so far
			}
		} else {
			dl := time.Now().Add(10 * time.Second)
			for !done() && time.Now().Before(dl) {
				time.Sleep(2 * time.Millisecond)
			}
			if !done() {
				break
			}
		}
	}
	close(stopAns)
	time.Sleep(30 * time.Millisecond)
	var frames []string
	for _, ln := range c.Rec.Lines(from) {
		frames = append(frames, string(ln))
	}
	if part := c.Rec.Partial(); len(part) > 0 {
		r.Violation("C09|"+scen+"|unterminated-tail", "stdout ends with an unterminated fragment", map[string]interface{}{"tail": clip(string(part))})
	}
	frameCheck{r, scen}.judge(frames, want, func(m map[string]json.RawMessage) bool {
		var meth string
		json.Unmarshal(m["method"], &meth)
		return meth == "roots/list"
	})
	r.Distinct(fmt.Sprintf("%s|writers=%d", scen, writers))
	r.Sample(map[string]interface{}{"scenario": scen, "rounds": rounds, "writers": writers, "frames": len(frames), "first_frame": clip(first(frames))})
}

func first(l []string) string {
	if len(l) > 0 {
		return l[0]
	}
	return ""
}

// ---- (b) Streamable GET stream: notifications + server requests from many goroutines ----
func getStream(r *vh.Run, rounds, writers int, point string) {
	scen := "get-stream"
	in := kit.Start(kit.SSSE, kit.Opts{})
	defer in.Close()
	kit.StdFixture(in)
	ctx := context.Background()
	c, _ := in.Dial(ctx)
	defer c.Close()
	if err := c.Handshake(ctx); err != nil {
		r.Fatal("handshake: %v", err)
	}
	hp := peer.NewHTTPPeer()
	defer hp.Close()
	s, re := hp.OpenStream(ctx, "GET", in.URL(), map[string]string{"Accept": "text/event-stream", "Mcp-Session-Id": c.SessionID}, 1<<16)
	if s == nil {
		r.Fatal("GET: %+v", re)
	}
	rng := r.Rand("c09-get" + point)
	var ctl *sched.Controller
	if point != "" {
		scen = "get-stream-held@" + point
		ctl = sched.New(5*time.Second, r.Seed)
		ctl.Install()
		defer sched.Uninstall()
	}
	want := map[string]int{}
	var wmu sync.Mutex
	pl := payloads(rng)
	var total atomic.Int64
	for round := 0; round < rounds; round++ {
		if ctl != nil {
			ctl.Hold(point)
		}
		var wg sync.WaitGroup
		var finished atomic.Int64
		for w := 0; w < writers; w++ {
			wg.Add(1)
			p := pl[rng.Intn(len(pl))]
			r.SetAdd("payload_classes", p.Class)
			go func(w int, p string) {
				defer wg.Done()
				defer finished.Add(1)
				nonce := nextNonce("gs")
				if w%5 == 4 {
					// a server-issued request on the same stream (nobody answers: it ends by its own deadline)
					rctx, cancel := context.WithTimeout(ctx, 150*time.Millisecond)
					defer cancel()
					rq := &mcp.JSONRPCRequest{JSONRPC: "2.0", ID: nonce}
					rq.Method = "verif/ask"
					rq.Params = map[string]interface{}{"nonce": nonce, "p": p}
					wmu.Lock()
					want[nonce] = 1
					wmu.Unlock()
					in.Server.SendRequest(rctx, c.SessionID, rq)
					total.Add(1)
					return
				}
				err := in.Server.SendNotification(c.SessionID, "notifications/verif", map[string]interface{}{"nonce": nonce, "p": p})
				if err == nil {
					wmu.Lock()
					want[nonce] = 1
					wmu.Unlock()
					total.Add(1)
				}
			}(w, p.S)
		}
		if ctl != nil {
			releaseAll(ctl, point, rng, func() bool { return finished.Load() >= int64(writers) }, r, "writers_parked_"+point)
		}
		wg.Wait()
	}
	// collect until everything written has been seen or the stream is idle
	frames := drain(s, int(total.Load()))
	s.Close()
	frameCheck{r, scen}.judge(frames.data, want, nil)
	checkEvents(r, scen, frames)
	r.Distinct(fmt.Sprintf("%s|writers=%d", scen, writers))
	r.Sample(map[string]interface{}{"scenario": scen, "rounds": rounds, "writers": writers, "events": len(frames.data)})
}

type drained struct {
	data []string
	evs  []peer.SSEEvent
}

func drain(s *peer.Stream, want int) drained {
	var d drained
	idle := time.NewTimer(3 * time.Second)
	for {
		select {
		case ev, ok := <-s.Events:
			if !ok {
				return d
			}
			d.data = append(d.data, ev.Data)
			d.evs = append(d.evs, ev)
			if len(d.data) >= want {
				// allow stragglers a short moment
				idle.Reset(100 * time.Millisecond)
			} else {
				idle.Reset(3 * time.Second)
			}
		case <-idle.C:
			return d
		}
	}
}

// checkEvents: structural sanity of each SSE event as parsed by the WHATWG reader.
func checkEvents(r *vh.Run, scen string, d drained) {
	for i, ev := range d.evs {
		if len(ev.IDLines) > 1 {
			r.Violation(fmt.Sprintf("C09|%s|two-id-lines-in-one-event", scen), fmt.Sprintf("%s: event %d has %d id: lines — two writers interleaved inside one event", scen, i, len(ev.IDLines)), map[string]interface{}{"ids": ev.IDLines, "data": clip(ev.Data)})
		}
		if len(ev.Unknown) > 0 {
			r.Violation(fmt.Sprintf("C09|%s|stray-line-in-event", scen), fmt.Sprintf("%s: event %d contains lines that are no SSE field", scen, i), map[string]interface{}{"lines": ev.Unknown})
		}
	}
}

// ---- (c) POST SSE stream: notifications from several goroutines inside one handler, then the result ----
func postStream(r *vh.Run, calls, senders int, point string) {
	scen := "post-sse-stream"
	in := kit.Start(kit.SSSE, kit.Opts{})
	defer in.Close()
	kit.StdFixture(in)
	var sentMu sync.Mutex
	sent := map[string]int{}
	in.RegisterTool(mcp.NewTool("fanout", mcp.WithString("nonce"), mcp.WithNumber("senders"), mcp.WithNumber("each"), mcp.WithString("p")), func(ctx context.Context, req *mcp.CallToolRequest) (*mcp.CallToolResult, error) {
		a := req.Params.Arguments
		nonce, _ := a["nonce"].(string)
		ns, _ := a["senders"].(float64)
		each, _ := a["each"].(float64)
		p, _ := a["p"].(string)
		sender, ok := mcp.GetNotificationSender(ctx)
		if !ok {
			return mcp.NewTextResult(`{"nonce":"` + nonce + `"}`), nil
		}
		var wg sync.WaitGroup
		for g := 0; g < int(ns); g++ {
			wg.Add(1)
			go func(g int) {
				defer wg.Done()
				for i := 0; i < int(each); i++ {
					nn := fmt.Sprintf("%s.g%d.%d", nonce, g, i)
					var err error
					switch i % 3 {
					case 0:
						err = sender.SendCustomNotification("notifications/verif", map[string]interface{}{"nonce": nn, "p": p})
					case 1:
						err = sender.SendProgress(0.5, `{"nonce":"`+nn+`"}`)
					default:
						err = sender.SendLogMessage("info", `{"nonce":"`+nn+`"}`)
					}
					if err == nil {
						sentMu.Lock()
						sent[nn]++
						sentMu.Unlock()
					}
				}
			}(g)
		}
		wg.Wait() // every goroutine is joined before the handler returns
		return mcp.NewTextResult(`{"nonce":"` + nonce + `"}`), nil
	})
	ctx := context.Background()
	c, _ := in.Dial(ctx)
	defer c.Close()
	if err := c.Handshake(ctx); err != nil {
		r.Fatal("handshake: %v", err)
	}
	rng := r.Rand("c09-post" + point)
	var ctl *sched.Controller
	if point != "" {
		scen = "post-sse-stream-held@" + point
		ctl = sched.New(5*time.Second, r.Seed)
		ctl.Install()
		defer sched.Uninstall()
	}
	pl := payloads(rng)
	for k := 0; k < calls; k++ {
		nonce := nextNonce("ps")
		p := pl[rng.Intn(len(pl))]
		r.SetAdd("payload_classes", p.Class)
		sentMu.Lock()
		sent = map[string]int{}
		sentMu.Unlock()
		args, _ := json.Marshal(map[string]interface{}{"nonce": nonce, "senders": senders, "each": 6, "p": p.S})
		body := []byte(fmt.Sprintf(`{"jsonrpc":"2.0","id":%d,"method":"tools/call","params":{"name":"fanout","arguments":%s}}`, 7000+k, args))
		var ex *kit.Exchange
		doneCh := make(chan struct{})
		if ctl != nil {
			ctl.Hold(point)
		}
		go func() { ex = c.Post(ctx, body, kit.PostOpts{}); close(doneCh) }()
		if ctl != nil {
			releaseAll(ctl, point, rng, func() bool {
				select {
				case <-doneCh:
					return true
				default:
					return false
				}
			}, r, "writers_parked_"+point)
		}
		<-doneCh
		want := map[string]int{nonce: 1}
		sentMu.Lock()
		for n, v := range sent {
			want[n] = v
		}
		sentMu.Unlock()
		var frames []string
		var evs []peer.SSEEvent
		if ex.HTTP != nil {
			evs = ex.HTTP.Events
			for _, e := range evs {
				frames = append(frames, e.Data)
			}
		}
		frameCheck{r, scen}.judge(frames, want, nil)
		checkEvents(r, scen, drained{data: frames, evs: evs})
	}
	r.Distinct(fmt.Sprintf("%s|senders=%d", scen, senders))
	r.Sample(map[string]interface{}{"scenario": scen, "calls": calls, "senders_per_handler": senders})
}

// ---- (d) legacy SSE stream: responses, notifications and keep-alive comments ----
func legacyStream(r *vh.Run, rounds, writers int) {
	scen := "legacy-sse-stream"
	in := kit.Start(kit.LSSE, kit.Opts{KeepAlive: 2 * time.Millisecond})
	defer in.Close()
	kit.StdFixture(in)
	ctx := context.Background()
	c, err := in.Dial(ctx)
	if err != nil {
		r.Fatal("dial legacy: %v", err)
	}
	defer c.Close()
	if err := c.Handshake(ctx); err != nil {
		r.Fatal("handshake: %v", err)
	}
	time.Sleep(30 * time.Millisecond)
	rng := r.Rand("c09-legacy")
	pl := payloads(rng)
	want := map[string]int{}
	var wmu sync.Mutex
	from := c.Log.Len()
	for round := 0; round < rounds; round++ {
		var wg sync.WaitGroup
		for w := 0; w < writers; w++ {
			wg.Add(1)
			p := pl[rng.Intn(len(pl))]
			r.SetAdd("payload_classes", p.Class)
			go func(w int, p string) {
				defer wg.Done()
				nonce := nextNonce("ls")
				if w%3 == 2 {
					if err := in.SSE.SendNotification(c.SessionID, "notifications/verif", map[string]interface{}{"nonce": nonce, "p": p}); err == nil {
						wmu.Lock()
						want[nonce] = 1
						wmu.Unlock()
					}
					return
				}
				wmu.Lock()
				want[nonce] = 1
				wmu.Unlock()
				id := fmt.Sprintf(`"%s"`, nonce)
				c.Post(ctx, kit.EchoCallBody(id, nonce, p, map[string]interface{}{"pad_n": len(p)}), kit.PostOpts{WantID: id, Wait: 30 * time.Second})
			}(w, p.S)
		}
		wg.Wait()
	}
	// wait for the notifications
	dl := time.Now().Add(5 * time.Second)
	for time.Now().Before(dl) {
		seen := 0
		for _, f := range c.Log.Since(from) {
			if nonceOf(f.Data) != "" {
				seen++
			}
		}
		if seen >= len(want) {
			break
		}
		time.Sleep(5 * time.Millisecond)
	}
	var frames []string
	for _, f := range c.Log.Since(from) {
		if f.Event != "message" {
			r.Violation("C09|"+scen+"|unexpected-event-type", fmt.Sprintf("event type %q on the legacy stream", f.Event), nil)
		}
		frames = append(frames, f.Data)
	}
	frameCheck{r, scen}.judge(frames, want, nil)
	r.Count("keepalive_comments_seen", int64(c.LegacyComments()))
	r.Distinct(fmt.Sprintf("%s|writers=%d", scen, writers))
	r.Sample(map[string]interface{}{"scenario": scen, "rounds": rounds, "writers": writers, "frames": len(frames)})
}

// payloadMatrices: quick = the whole matrix once with 6 writers; thorough = with 2, 8 and 16 writers (other orders).
func payloadMatrices(r *vh.Run, kind kit.Kind) {
	if r.Quick() {
		payloadMatrix(r, kind, 6)
		return
	}
	for _, w := range []int{2, 8, 16} {
		payloadMatrix(r, kind, w)
	}
}

func main() {
	kit.MaybeServeStdioChild()
	if vh.ChildRole() == "c09-stdin" {
		stdinChild()
		return
	}
	kit.Silence()
	scenarios := map[string]func(r *vh.Run){
		"stdio-held": func(r *vh.Run) {
			for _, w := range []int{2, 3, 4, 8} {
				stdioServer(r, r.Pick(6, 150), w, true)
			}
		},
		"stdio-free": func(r *vh.Run) { stdioServer(r, r.Pick(10, 400), 16, false) },
		"stdio-osfile-held": func(r *vh.Run) { stdioOSFile(r, "ospipe-held") },
		"stdio-osfile-free": func(r *vh.Run) { stdioOSFile(r, "ospipe-free") },
		"stdio-osfile-child": func(r *vh.Run) {
			stdioOSFile(r, "child")
			stdioOSFile(r, "child-free")
		},
		"get": func(r *vh.Run) {
			for _, pt := range []string{"sse.write.afterid", "sse.write.beforeterm", ""} {
				for _, w := range []int{2, 4, 8} {
					getStream(r, r.Pick(4, 120), w, pt)
				}
			}
		},
		"post": func(r *vh.Run) {
			for _, pt := range []string{"sse.write.afterid", "sse.write.beforeterm", ""} {
				for _, s := range []int{2, 4} {
					postStream(r, r.Pick(6, 200), s, pt)
				}
			}
		},
		"legacy": func(r *vh.Run) { legacyStream(r, r.Pick(8, 300), 12) },
		"get-lifecycle-held": func(r *vh.Run) {
			for _, pt := range []string{"sse.write.afterid", "sse.write.beforeterm"} {
				for _, w := range []int{2, 4, 8} {
					getLifecycleHeld(r, r.Pick(2, 20), r.Pick(3, 6), w, pt)
				}
			}
		},
		"get-lifecycle-free": func(r *vh.Run) {
			for _, mode := range []string{"supersede", "drop", "mixed"} {
				for _, w := range []int{2, 4, 8} {
					for rep := 0; rep < r.Pick(2, 12); rep++ {
						getLifecycleFree(r, w, r.Pick(1600, 6000)/w, mode)
					}
				}
			}
		},
		"get-broadcast": func(r *vh.Run) {
			for _, pt := range []string{"sse.write.afterid", "sse.write.beforeterm", ""} {
				each := r.Pick(4, 12)
				if pt == "" {
					each = r.Pick(150, 1500)
				}
				broadcastStreams(r, 4, 2, each, pt)
				broadcastStreams(r, 8, 4, each, pt)
			}
		},
		"post-unjoined": func(r *vh.Run) {
			for _, pt := range []string{"sse.write.afterid", "sse.write.beforeterm", ""} {
				for _, s := range []int{2, 4, 8} {
					postUnjoined(r, r.Pick(6, 100), s, pt)
				}
			}
		},
		"payload-streamable": func(r *vh.Run) { payloadMatrices(r, kit.SSSE) },
		"payload-legacy":     func(r *vh.Run) { payloadMatrices(r, kit.LSSE) },
		"payload-stdio":      func(r *vh.Run) { payloadMatrices(r, kit.Stdio) },
		"errpath-streamable": func(r *vh.Run) { errPaths(r, kit.SSSE) },
		"errpath-legacy":     func(r *vh.Run) { errPaths(r, kit.LSSE) },
		"errpath-stdio":      func(r *vh.Run) { errPaths(r, kit.Stdio) },
		"client-stdin": func(r *vh.Run) {
			r.Sample(map[string]interface{}{"scenario": "client-stdin", "runs": []interface{}{
				clientStdin(r, 4, r.Pick(800, 5000), 1<<30),
				clientStdin(r, 8, r.Pick(600, 4000), 1<<30)}})
		},
		"client-http": func(r *vh.Run) {
			r.Sample(map[string]interface{}{"scenario": "client-http", "runs": []interface{}{
				clientHTTP(r, false, 4, r.Pick(150, 800), 1<<30),
				clientHTTP(r, true, 4, r.Pick(150, 800), 1<<30),
				clientHTTP(r, false, 8, r.Pick(80, 400), 1<<30),
				clientHTTP(r, true, 8, r.Pick(80, 400), 1<<30)}})
		},
	}
	if vh.ChildRole() == "c09-scen" {
		cr := vh.NewChildRun("C09")
		scenarios[os.Getenv("C09_SCEN")](cr)
		cr.ExportAndExit()
	}
	r := vh.NewRun("C09", "exploration")
	names := []string{"client-stdin", "client-http", "payload-streamable", "payload-legacy", "payload-stdio", "stdio-held", "stdio-free", "stdio-osfile-held", "stdio-osfile-free", "stdio-osfile-child", "get", "post", "legacy", "get-lifecycle-held", "get-lifecycle-free", "get-broadcast", "post-unjoined", "errpath-streamable", "errpath-legacy", "errpath-stdio"}
	var wg sync.WaitGroup
	results := make([]*vh.ChildResult, len(names))
	for i, name := range names {
		wg.Add(1)
		go func(i int, name string) {
			defer wg.Done()
			results[i] = r.SpawnChild("c09-scen", name, os.Args[1:], append(r.ChildEnvFor(), "C09_SCEN="+name), nil, 12*time.Minute)
		}(i, name)
	}
	wg.Wait()
	// merge in a fixed order (the evidence keeps the first few samples only: one per client scenario, then the streams)
	for i, name := range names {
		func(name string, res *vh.ChildResult) {
			cr := r.Merge(res.Stdout())
			if !cr.Done {
				stderr := res.Stderr()
				if i := strings.Index(string(res.Stdout()), "HARNESS-ERROR"); i >= 0 {
					// the scenario aborted itself (r.Fatal): a harness problem, not an observation about the library
					r.Fatal("scenario %s: %s", name, clip(strings.TrimSpace(string(res.Stdout())[i:])))
				}
				if res.TimedOut {
					r.Inconclusive(fmt.Sprintf("scenario %s hit the watchdog", name))
				} else {
					r.Violation(fmt.Sprintf("C09|%s|process-death|%s", name, vh.FirstLibFrame(stderr)), fmt.Sprintf("scenario %s: the process died while concurrent writers used one stream: %s", name, vh.CrashLine(stderr)),
						map[string]interface{}{"crash": vh.CrashLine(stderr), "first_library_frame": vh.FirstLibFrame(stderr), "stderr_tail": clip(stderr)})
				}
			}
		}(name, results[i])
	}
	var keys []string
	sort.Strings(keys)
	r.Finish("streams: stdio server stdout (responses from per-request goroutines + server-issued roots/list requests), Streamable GET stream (notifications + server requests from 2-8 goroutines), POST SSE stream (notifications from 2-4 goroutines inside one handler, then the result), legacy SSE stream (responses, notifications, 2 ms keep-alive comments), and the CLIENT-to-server direction against scripted servers written without the library: stdio client stdin (4 and 8 application goroutines sending tools/call, list/get/read requests and bursts of roots/list_changed notifications while the scripted server floods the client with tens of thousands of server-issued requests of 9 kinds - roots/list with and without params, sampling/createMessage small and 8 KiB, elicitation/create, ping, unknown method, a client-to-server method in the wrong direction, a method name with line breaks; numeric and string ids - so that the read loop writes result and method-not-found answers concurrently with the application goroutines; the child records its stdin split at LF only), Streamable and legacy SSE clients (same workload; frame = POST body; server-issued requests arrive on the GET / event stream). For the client direction the multiset is: initialize and initialized once, every application request once (by nonce), as many roots/list_changed as sends that returned nil, exactly one answer per server-issued id and no answer with another id. Writers are parked by the yield controller between payload and newline (stdio.write.mid) and between the lines of one event (sse.write.afterid / sse.write.beforeterm) and released in seeded permutations, plus free-running stress. Payloads contain CR, LF, CRLF, U+2028/2029, SSE field names, and sizes around 4096 and 65536. A strict LF splitter / WHATWG SSE reader must recover exactly the multiset of nonce-carrying messages written, each frame one JSON value. Life cycle of a Streamable stream (writers.go): per session the listening stream is opened, reopened with Last-Event-ID (superseding the old stream or after the client dropped it; the server writes its stream/resumed notice) and ended by DELETE while 2-8 senders send notifications and server requests to the session - held variant: the life-cycle action and the senders in three seeded orders with the writers parked between the lines of their event and released one at a time once the number parked is stable; free variant: a reconnect loop (open, receive 1-30 events, reopen with the last id) under constant sending with random delays at the yield points and registrations running on the server. Broadcasts: 2-4 goroutines broadcasting to 4-8 sessions next to per-session senders, half of the sessions DELETEd meanwhile; a broadcast's copies over all sessions must equal the count the API returned. POST-SSE unjoined: the handler starts 2-8 goroutines that send in-call notifications and returns while some of them are still sending; the stream must hold the final answer once and every notification whose send returned nil, each in an event of its own. For these scenarios the multiset is taken over all streams of a session: a send that reported success must be recovered exactly once, a refused send never, a send that failed inside the write 0 or 1 times; a message may be missing only if it can have been written to a stream the client cut, after everything that arrived on that stream. Distinct = (stream scenario, writer count) and, for the held life cycle, (action, order, writer count). Payload dimension (payloadspace.go): 147 payload classes that are special to a layer a frame passes on its way out - formatting (percent signs in every position: bare, verbs, %%, %20, trailing, before a JSON quote / escape / line break, hundreds in a row), template syntax ($1, ${x}, {{.}}), string escaping (backslashes, quotes, literal \\u-escapes, JSON text inside a string), NUL / C0 / C1 / DEL / ESC, invalid UTF-8 incl. encoded lone surrogates, noncharacters, astral and bidi characters, SSE field syntax inside data (data:, id:, event:, retry:, leading colon, leading / trailing blanks and tabs, BOM), stdio line syntax (tab, FF, VT, NEL, LS/PS, CR / LF / CRLF runs), single lines of 70-150 KB and thousands of short lines - each sent in every message kind with free text (tool results: text, isError text, two texts, structured content keys and values; prompt and resource results incl. the URI; JSON-RPC errors carrying a tool / prompt / resource handler's message or echoing an unknown tool / prompt / URI; string ids of results and of errors; in-call notifications: custom param, method name, object key, progress message, log message; in-call server-issued requests on stdio: param, method, key; out-of-band notifications and server-issued requests: param, method, key, string id; broadcast) on the POST SSE stream, the GET listening stream, the legacy SSE stream (2 ms keep-alive comments) and stdio stdout, 6 writers at a time (thorough: the whole matrix with 2, 8 and 16 writers). Oracle there: every frame is one JSON value and the multiset of recovered messages equals the multiset written BY CONTENT (canonical JSON after decoding); the message written for a payload is the decoded frame of a probe with a harmless token on the quiet stream with the token replaced by the payload as encoding/json delivers it. Distinct = (stream, message kind) with at least one message recovered with equal content; monitors payload_msgs_recovered_equal|stream|kind count them. Client direction: the application's requests carry the same classes in tool / prompt name, arguments, resource URI and cursor, the roots provider returns roots named after them, the scripted server uses them in string ids and method names; recovered free text, roots and the method named in a method-not-found answer are compared with what was passed. Error paths of the writers (errpaths.go): 37 value classes the application can hand to the library - values encoding/json refuses (NaN / +Inf / -Inf as float64, float32, in a slice, deep in a struct, behind 70 KB of text, behind a pointer; chan, func, complex, chan in a struct, bool map keys, a func after multi-line text; MarshalJSON returning an error, truncated JSON, two values, nothing, a string with raw LF / CR-LF, SSE syntax, failing on odd / even calls only; a MarshalText key that fails; RawMessage truncated, empty, LF only, garbage lines, behind a pointer; pointer, map and slice cycles) and values that encode but whose MarshalJSON / RawMessage text is spread over lines with LF, CR-LF and blank lines - each in every message kind that carries application values (tool result structuredContent nested and top level, _meta, a Content of the application's own type; prompt result _meta; in-call notification param, _meta, progress value; server-issued request params from inside a call and out of band; out-of-band notification param, _meta; broadcast) on the POST SSE stream, the GET listening stream, the legacy SSE stream (2 ms keep-alive comments) and stdio stdout, 4 cases at a time, while 2 goroutines of the same handler send ordinary notifications on the same stream and 3 background writers send ordinary notifications, server requests and calls before, during and after. Oracle there: whatever the server writes for such a value (an error answer, nothing, a message) every frame is one JSON object, no event has two id: lines or a line that is no field, no POST stream / stdout ends inside a frame, every ordinary message whose send reported success is recovered exactly once (missing only judged after a fence through every pump arrived), a message reported as sent with a value that encodes is recovered once and carries the same JSON value, no request with an encodable result gets two answers. Distinct = (stream, message kind) with at least one case judged on a stream shown complete next to recovered ordinary messages; monitors errpath_outcome|stream|value family|what the server did. Writer type x frame size (osfile.go): the stdio server writes to a real OS pipe - (ospipe-held, ospipe-free) the real transport loop in-process over os.Pipe, the server being handed the *os.File itself, and (child, child-free) the library's StdioServer.Start on os.Stdin/os.Stdout in a child process - and every writer kind (result answer, isError answer, JSON-RPC error answer of a failing handler, notification sent by a handler, server-issued request; plus the fixed small answers ping, method-not-found, parse error) writes frames of EXACT encoded sizes min, 100, 511/512/513, 4095/4096/4097, 8191/8192/8193, 65535/65536/65537 and 1 MiB (each kind calibrated on the quiet stream: frame length at pad 0 and pad 7), 12 (held, child) or 32 (free) writers per round in seeded order over the whole kind x size matrix, plus boundary rounds (a kind at the larger of two adjacent sizes, a seeded kind at the smaller, a ping). held: every writer reaching stdio.write.mid is parked there while all other writers of the round try to write (dwell until the byte count of the pipe is stable), then released, one at a time; child: the child's yield function dwells there by itself (seeded); free: seeded random delays / none. Oracle: stdout split at LF only - every line exactly one JSON-RPC object, no empty line, no CR, no unterminated tail, multiset of message keys (answer id / notification nonce / request nonce) equals what was written, every sized frame has exactly the length it was written with. Distinct there = (variant, writer kind, size class) with a frame of that kind and size recovered intact; monitors osfile_frames|kind|size class, osfile_held_writer|kind|size class (who was inside its frame), osfile_held_writer_rounds|variant, osfile_bytes|variant. The client senders also use payloads that put the request frame within 0-400 bytes below 512, 4096, 8192, 65536 and 1 MiB (cli_frame_size|scenario|class counts the client frames per size class as observed).",
		[]string{"life-cycle scenarios: this library version writes no keep-alive comments on Streamable streams and announces no list_changed on registration (the counters get_stream_comments and server_own_messages|*list_changed show what was seen; such lines would be judged for framing only); the stream/resumed notice is not promised by the statement, so its count is reported and not judged; a server request sent with an already cancelled context counts as written only because a probe at start saw such a request arrive", "with the write locks in place only one writer can be parked inside a frame; the evidence gauges writers_parked_* report how many were simultaneously inside", "stdout is an in-memory writer whose Write calls are atomic (like write(2) below PIPE_BUF) except in the stdio-osfile scenarios, where it is an OS pipe (*os.File); the client-stdin scenario uses a real pipe", "stdio-osfile: the stdio server has no log-message / progress sender (GetNotificationSender is not available on stdio), so the writer kinds are answers, error answers, handler notifications and server-issued requests; notifications and server requests are all written by the one outgoing pump; the dwell of a parked writer is a pause for exploration only, the verdict is taken from the byte stream; a parse-error answer carries no id member and is counted as id null",
			"payload dimension: a message kind carries its payload opaquely, i.e. the message for payload P is the message the same handler / API call produces for a harmless token with the token replaced by P after one trip through encoding/json (invalid UTF-8 -> U+FFFD); a kind whose probe does not carry the token is judged for framing only (noted); a send the API reported as failed (or a server-issued request that was not answered within 4 s) counts as 0 or 1 copies; a written message is reported missing only after the exchange has ended (POST) or a fence written afterwards through the same pump has arrived, otherwise inconclusive; the method named in a client's method-not-found answer is judged only if the client is seen to name a harmless method verbatim",
			"error paths: what the server does with a value it cannot encode is left open by the statement (error answer, nothing, a message without the value: all accepted and counted); a server request whose API call ran into its deadline counts as 0 or 1 copies; blocks of field lines without a data line dispatch nothing in a conforming reader and are only counted (errpath_sse_blocks_without_data)",
			"client direction: there is no yield point between the writes of one client frame, so interleavings inside a client frame are explored by volume only (free-running stress, window one syscall wide); an API call that reports a send failure leaves open whether its message was written (0 or 1 copies accepted); an empty stdin line carries no message and is skipped (counted in cli_empty_lines); when the scripted server's 20 s no-progress watchdog ends the wait for answers, missing answers are inconclusive"})
}
