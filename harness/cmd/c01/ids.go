// C01 — the VALUE SPACE of request ids at its boundaries.
//
// JSON-RPC 2.0 lets a peer choose any string or number as the id of a request. The statement promises the echo for
// every string id and for integer ids up to 2^53. The other C01 scenarios use integers in ranges and a few ordinary
// strings; here one raw (library-free) session per server configuration keeps a whole batch of echo calls in flight
// whose ids sit on the boundaries of that value space: the empty string, a single space, strings that look like numbers
// or like JSON literals ("0", "7", "-1", "1e3", "007", "null", "true"), strings that are the text of another pending
// numeric id (7 and "7", "" and 0), very long strings (1 KiB, 64 KiB), strings with quotes, backslashes, escaped control
// characters, non-BMP characters (raw and as surrogate-pair escapes), percent signs / printf verbs, the integers 0, -1,
// min/max int32 and their neighbours, +-2^53 and +-(2^53-1).
//
// Three judgement modes, all taken from the text of the property:
//
//	exact    string ids and integer ids |n| <= 2^53 written as integers: exactly one answer, whose id is equal as a JSON
//	         value and of the same JSON type, carrying the result computed from this request's own arguments; never an
//	         error, never silence, never under another id; the handler ran exactly once.
//	numform  an in-range integer written in exponent or fraction-zero form (1e3, 7.0, -0): the statement's "integer ids"
//	         can be read with or without them, so both conforming outcomes are accepted — an answer under a NUMBER equal
//	         in value with the request's own result, or a refusal with an error — but never silence while the connection
//	         is up ("no call ever receives ... nothing"), never another request's payload, never a string id.
//	open     outside the statement (|n| > 2^53, non-integers): in flight together with the others, outcome only counted.
package main

import (
	"context"
	"encoding/json"
	"fmt"
	"math/big"
	"math/rand"
	"regexp"
	"sort"
	"strings"
	"sync"
	"sync/atomic"
	"time"

	"verifharness/lib/kit"
	"verifharness/lib/vh"
)

type idMode int

const (
	idExact idMode = iota
	idNumForm
	idOpen
)

func (m idMode) String() string { return [...]string{"exact", "numform", "open"}[m] }

type idCase struct {
	Class   string `json:"class"`
	Raw     string `json:"-"`
	RawS    string `json:"id"` // bounded copy for witnesses
	Mode    idMode `json:"-"`
	ModeS   string `json:"judged_as"`
	Nonce   string `json:"nonce"`
	Key     string `json:"-"`
	Payload string `json:"-"`
	Digest  string `json:"-"`
	Body    []byte `json:"-"`
}

var (
	idNonceSeq atomic.Int64
	idNonceRe  = regexp.MustCompile(`idn[0-9]+x[0-9a-f]{8}z`)
	idExpRe    = regexp.MustCompile(`[eE][+-]?([0-9]+)`)
)

// idKey: the id as a JSON VALUE with its JSON type: strings by their decoded code points, numbers by their exact
// rational value (1e3, 1000 and 1000.0 are one value; 7 and "7" are two), null, anything else by its text.
func idKey(raw string) string {
	raw = strings.TrimSpace(raw)
	switch {
	case raw == "":
		return "absent"
	case raw == "null":
		return "null"
	case raw[0] == '"':
		var s string
		if json.Unmarshal([]byte(raw), &s) != nil {
			return "bad:" + raw
		}
		return "s:" + s
	case raw[0] == '-' || (raw[0] >= '0' && raw[0] <= '9'):
		if m := idExpRe.FindStringSubmatch(raw); len(raw) <= 80 && (m == nil || len(m[1]) <= 3) {
			if q, ok := new(big.Rat).SetString(raw); ok {
				return "n:" + q.RatString()
			}
		}
		return "n?:" + raw
	}
	return "other:" + raw
}

func idS(raw string, mode idMode, class string) idCase {
	return idCase{Class: class, Raw: raw, Mode: mode}
}

// idBatches: the ids of one session each (ids are unique as JSON values within a batch: re-using a pending id would be
// the peer's own fault). Batch 0 is the value space; the later batches hold the number forms whose value is also wanted
// in its plain form, with their string twins pending next to them.
func idBatches() [][]idCase {
	q := func(s string) string { b, _ := json.Marshal(s); return string(b) }
	long := func(n int, tag string) string { return q(tag + strings.Repeat("k", n-len(tag))) }
	b0 := []idCase{
		// strings at the boundaries
		idS(`""`, idExact, "str-empty"),
		idS(`" "`, idExact, "str-space"),
		idS(`"0"`, idExact, "str-looks-like-int-0"),
		idS(`"7"`, idExact, "str-looks-like-int"),
		idS(`"-1"`, idExact, "str-looks-like-negative-int"),
		idS(`"1e3"`, idExact, "str-looks-like-exponent"),
		idS(`"007"`, idExact, "str-leading-zeros"),
		idS(`"7.0"`, idExact, "str-looks-like-fraction"),
		idS(`"1000"`, idExact, "str-text-of-pending-number"),
		idS(`"12.0"`, idExact, "str-text-of-pending-number-form"),
		idS(`"9007199254740992"`, idExact, "str-text-of-2^53"),
		idS(`"-9007199254740992"`, idExact, "str-text-of--2^53"),
		idS(`"2147483647"`, idExact, "str-text-of-maxint32"),
		idS(`"9223372036854775807"`, idExact, "str-text-of-maxint64"),
		idS(`"0x10"`, idExact, "str-hex-literal"),
		idS(long(1024, "L1-"), idExact, "str-1KiB"),
		idS(long(64<<10, "L64-"), idExact, "str-64KiB"),
		idS(`"a\"b"`, idExact, "str-quote"),
		idS(`"\""`, idExact, "str-only-quote"),
		idS(`"a\\b"`, idExact, "str-backslash"),
		idS(`"\\"`, idExact, "str-only-backslash"),
		idS(`"\\\""`, idExact, "str-backslash-quote"),
		idS(`"\\n"`, idExact, "str-backslash-n-literal"),
		idS(`"a\nb"`, idExact, "str-ctl-newline"),
		idS(`"\r\n"`, idExact, "str-ctl-crlf"),
		idS(`"\t"`, idExact, "str-ctl-tab"),
		idS(`"\u0000"`, idExact, "str-ctl-nul"),
		idS(`"\u0001\u001f\u007f"`, idExact, "str-ctl-misc"),
		idS(`"\b\f"`, idExact, "str-ctl-bs-ff"),
		idS(`"data: x"`, idExact, "str-sse-field"),
		idS(`"😀"`, idExact, "str-nonbmp-raw"),
		idS(`"\ud83d\ude01"`, idExact, "str-nonbmp-surrogate-escape"),
		idS(`"𝔘𝔫𝔦-𐍈"`, idExact, "str-nonbmp-mixed"),
		idS(`"\u2028\u2029"`, idExact, "str-line-separators"),
		idS(`"<script>&amp;"`, idExact, "str-html"),
		idS(`"\u00e9\/\u0041"`, idExact, "str-escaped-forms"),
		idS(`"%"`, idExact, "str-percent"),
		idS(`"%s"`, idExact, "str-percent-verb"),
		idS(`"%d%v%!%%"`, idExact, "str-percent-verbs"),
		idS(`"100%"`, idExact, "str-trailing-percent"),
		idS(`"%25%00"`, idExact, "str-percent-encoding"),
		idS(`"null"`, idExact, "str-null"),
		idS(`"true"`, idExact, "str-true"),
		idS(`"false"`, idExact, "str-false"),
		idS(`"<nil>"`, idExact, "str-go-nil"),
		idS(`"undefined"`, idExact, "str-undefined"),
		idS(`"NaN"`, idExact, "str-nan"),
		idS(`"{}"`, idExact, "str-object-text"),
		idS(`"[]"`, idExact, "str-array-text"),
		idS(`"{\"id\":1}"`, idExact, "str-json-text"),
		idS(`" lead"`, idExact, "str-leading-space"),
		idS(`"trail "`, idExact, "str-trailing-space"),
		idS(`"a/b?c=d&e#f"`, idExact, "str-url-chars"),
		// integers at the boundaries
		idS(`0`, idExact, "int-0"),
		idS(`-1`, idExact, "int--1"),
		idS(`1`, idExact, "int-1"),
		idS(`7`, idExact, "int-7"),
		idS(`2147483647`, idExact, "int-maxint32"),
		idS(`2147483648`, idExact, "int-maxint32+1"),
		idS(`-2147483648`, idExact, "int-minint32"),
		idS(`-2147483649`, idExact, "int-minint32-1"),
		idS(`4294967295`, idExact, "int-maxuint32"),
		idS(`4294967296`, idExact, "int-maxuint32+1"),
		idS(`9007199254740991`, idExact, "int-2^53-1"),
		idS(`9007199254740992`, idExact, "int-2^53"),
		idS(`-9007199254740991`, idExact, "int--2^53+1"),
		idS(`-9007199254740992`, idExact, "int--2^53"),
		// in-range integers in exponent / fraction-zero form (their value is pending as a string twin above)
		idS(`1e3`, idNumForm, "num-exponent"),
		idS(`12.0`, idNumForm, "num-fraction-zero"),
		idS(`1.5e1`, idNumForm, "num-fraction-exponent"),
		idS(`2E2`, idNumForm, "num-capital-exponent"),
		idS(`1e+2`, idNumForm, "num-plus-exponent"),
		idS(`100e-1`, idNumForm, "num-negative-exponent"),
		idS(`-3.0`, idNumForm, "num-negative-fraction-zero"),
		// outside the statement: counted, not judged
		idS(`9223372036854775807`, idOpen, "int-maxint64"),
		idS(`-9223372036854775808`, idOpen, "int-minint64"),
		idS(`9007199254740995`, idOpen, "int-2^53+3"),
		idS(`1.5`, idOpen, "num-non-integer"),
	}
	b1 := []idCase{
		idS(`7.0`, idNumForm, "num-fraction-zero"),
		idS(`-0`, idNumForm, "num-negative-zero"),
		idS(`1E3`, idNumForm, "num-capital-exponent"),
		idS(`9.007199254740992e15`, idNumForm, "num-2^53-exponent"),
		idS(`-1.0`, idNumForm, "num-negative-fraction-zero"),
		idS(`2147483648.0`, idNumForm, "num-maxint32+1-fraction-zero"),
		idS(`"7.0"`, idExact, "str-looks-like-fraction"),
		idS(`"7"`, idExact, "str-looks-like-int"),
		idS(`"-0"`, idExact, "str-text-of-pending-number-form"),
		idS(`"0"`, idExact, "str-looks-like-int-0"),
		idS(`"1E3"`, idExact, "str-looks-like-exponent"),
		idS(`"1000"`, idExact, "str-text-of-pending-number"),
		idS(`"-1"`, idExact, "str-looks-like-negative-int"),
		idS(`""`, idExact, "str-empty"),
		idS(`" "`, idExact, "str-space"),
		idS(`1`, idExact, "int-1"),
		idS(`2`, idExact, "int-small"),
		idS(`-7`, idExact, "int-negative"),
	}
	b2 := []idCase{
		idS(`0.0`, idNumForm, "num-zero-fraction-zero"),
		idS(`1000.0`, idNumForm, "num-fraction-zero"),
		idS(`7e0`, idNumForm, "num-exponent"),
		idS(`-9007199254740992.0`, idNumForm, "num--2^53-fraction-zero"),
		idS(`1e0`, idNumForm, "num-exponent"),
		idS(`"0.0"`, idExact, "str-looks-like-fraction"),
		idS(`"0"`, idExact, "str-looks-like-int-0"),
		idS(`""`, idExact, "str-empty"),
		idS(`"7e0"`, idExact, "str-looks-like-exponent"),
		idS(`"7"`, idExact, "str-looks-like-int"),
		idS(`"1"`, idExact, "str-looks-like-int"),
		idS(`"null"`, idExact, "str-null"),
		idS(`-1`, idExact, "int--1"),
		idS(`2147483647`, idExact, "int-maxint32"),
		idS(`3`, idExact, "int-small"),
	}
	b3 := []idCase{ // zero once more, in its third spelling, next to the empty string and the string "0"
		idS(`0e0`, idNumForm, "num-zero-exponent"),
		idS(`""`, idExact, "str-empty"),
		idS(`"0"`, idExact, "str-looks-like-int-0"),
		idS(`"0e0"`, idExact, "str-looks-like-exponent"),
		idS(`" "`, idExact, "str-space"),
		idS(`"false"`, idExact, "str-false"),
		idS(`1`, idExact, "int-1"),
		idS(`-1`, idExact, "int--1"),
	}
	return [][]idCase{b0, b1, b2, b3}
}

type idOutcome struct {
	status  int      // HTTP status of the POST that carried the request (0: stdio)
	httpErr string   // the exchange itself failed
	frames  []string // Streamable: everything the POST's own response carried; legacy SSE: a body on a non-202 answer
	orderly bool     // the exchange ran to its end (Streamable / legacy POST)
}

type idStream struct { // what the one asynchronous stream of the session carried (legacy SSE, stdio)
	byKey    map[string][]string
	noIDErr  []string // error frames without an id or with id null
	connUp   bool
	whyNotUp string
}

// idCollect reads the asynchronous stream until every id in want has an answer or nothing arrived for idle; then two
// pings posted afterwards must be answered on the same stream before anything is called missing.
func idCollect(ctx context.Context, c *kit.RawConn, from int, want, wantOrErr map[string]bool, idle, hard time.Duration) *idStream {
	a := &idStream{byKey: map[string][]string{}}
	next := from
	start := time.Now()
	scan := func() (pending int) {
		for _, f := range c.Log.Since(next) {
			next = f.Idx + 1
			var m map[string]json.RawMessage
			if json.Unmarshal([]byte(f.Data), &m) != nil {
				continue
			}
			if _, isReq := m["method"]; isReq {
				continue
			}
			raw, has := m["id"]
			if !has || strings.TrimSpace(string(raw)) == "null" {
				if _, isErr := m["error"]; isErr {
					a.noIDErr = append(a.noIDErr, f.Data)
				}
				continue
			}
			k := idKey(string(raw))
			a.byKey[k] = append(a.byKey[k], f.Data)
		}
		for k := range want {
			if len(a.byKey[k]) == 0 {
				pending++
			}
		}
		// number forms: an answer under the id, or an error frame that cannot name the request
		open := -len(a.noIDErr)
		for k := range wantOrErr {
			if len(a.byKey[k]) == 0 {
				open++
			}
		}
		if open > 0 {
			pending += open
		}
		return pending
	}
	for scan() > 0 {
		if c.Log.Closed() {
			a.whyNotUp = "the stream ended"
			return a
		}
		if time.Since(start) > hard {
			a.whyNotUp = fmt.Sprintf("answers were still arriving after %v", hard)
			return a
		}
		if _, ok := c.Log.WaitFor(next, idle, func(kit.Frame) bool { return true }); !ok {
			break
		}
	}
	for round := 1; round <= 2; round++ {
		fid := fmt.Sprintf(`"fence-ids-%d-%d"`, from, round)
		at := c.Log.Len()
		ex := c.Post(ctx, rpc(fid, "ping", ""), kit.PostOpts{NoWait: true})
		if ex.HTTP != nil && (ex.HTTP.Err != "" || (ex.HTTP.Status != 0 && ex.HTTP.Status != 202)) {
			a.whyNotUp = fmt.Sprintf("posting a ping afterwards failed: status %d %s", ex.HTTP.Status, ex.HTTP.Err)
			return a
		}
		if _, ok := c.Log.WaitFor(at, idle, func(f kit.Frame) bool { id, ok := isAnswerFor(f); return ok && id == fid }); !ok {
			a.whyNotUp = fmt.Sprintf("a ping posted afterwards was not answered within %v", idle)
			return a
		}
		time.Sleep(150 * time.Millisecond)
		scan()
	}
	a.connUp = true
	a.whyNotUp = "two pings posted after the stream had gone quiet were answered on the same stream"
	return a
}

func idBound(s string) string {
	if len(s) > 160 {
		return s[:80] + fmt.Sprintf(" ...(%d bytes)... ", len(s)) + s[len(s)-40:]
	}
	return s
}

func idErrorFrame(f string) bool {
	var m struct {
		Error json.RawMessage `json:"error"`
	}
	return json.Unmarshal([]byte(f), &m) == nil && len(m.Error) > 0 && string(m.Error) != "null"
}

// idSession: one raw session on one server configuration with the whole batch in flight at once.
func idSession(r *vh.Run, kind kit.Kind, regime string, batchNo int, batch []idCase, rng *rand.Rand) {
	kit.Events.Reset()
	in := kit.Start(kind, kit.Opts{})
	defer in.Close()
	kit.StdFixture(in)
	ctx, cancel := context.WithTimeout(context.Background(), 240*time.Second)
	defer cancel()
	c, err := in.Dial(ctx)
	if err != nil {
		r.Fatal("ids: dial %s: %v", kind, err)
	}
	defer c.Close()
	if err := c.Handshake(ctx); err != nil {
		r.Inconclusive(fmt.Sprintf("ids %s batch %d: handshake failed: %v", kind, batchNo, err))
		return
	}
	cases := append([]idCase{}, batch...)
	rng.Shuffle(len(cases), func(i, j int) { cases[i], cases[j] = cases[j], cases[i] })
	gate := fmt.Sprintf("idgate-%s-%s-%d-%d", kind, regime, batchNo, idNonceSeq.Add(1))
	keys := map[string]*idCase{}
	nExact := 0
	for i := range cases {
		x := &cases[i]
		x.Key, x.RawS, x.ModeS = idKey(x.Raw), idBound(x.Raw), x.Mode.String()
		if other, dup := keys[x.Key]; dup {
			r.Fatal("ids: batch %d uses the id value %s twice (%s, %s)", batchNo, x.Key, other.RawS, x.RawS)
		}
		keys[x.Key] = x
		x.Nonce = fmt.Sprintf("idn%dx%08xz", idNonceSeq.Add(1), rng.Uint32())
		x.Payload = fmt.Sprintf("id-payload-%d", rng.Int63())
		x.Digest = kit.Digest(x.Payload)
		extra := map[string]interface{}{}
		switch regime {
		case "barrier":
			extra["gate"] = gate
		case "delay":
			extra["delay_us"] = rng.Intn(3000)
		}
		x.Body = kit.EchoCallBody(x.Raw, x.Nonce, x.Payload, extra)
		if x.Mode == idExact {
			nExact++
		}
	}
	async := kind == kit.LSSE || kind == kit.Stdio
	from := c.Log.Len()
	outs := make([]idOutcome, len(cases))
	var wg sync.WaitGroup
	for i := range cases {
		wg.Add(1)
		go func(i int) {
			defer wg.Done()
			ex := c.Post(ctx, cases[i].Body, kit.PostOpts{NoWait: true})
			o := idOutcome{}
			if ex.HTTP != nil {
				o.status, o.httpErr = ex.HTTP.Status, ex.HTTP.Err
				o.orderly = ex.HTTP.Err == ""
			} else {
				o.orderly = true // stdio: the line was written
			}
			o.frames = ex.Frames
			outs[i] = o
		}(i)
	}
	if regime == "barrier" {
		// every request the statement covers reaches its handler and waits there: all of them are pending together
		got := kit.G.AwaitWaiters(gate, nExact, 15*time.Second)
		r.Max("ids_handlers_pending_together_"+string(kind), int64(got))
		kit.G.Open(gate)
	}
	wg.Wait()
	var st *idStream
	if async {
		want, wantOrErr := map[string]bool{}, map[string]bool{}
		for i := range cases {
			if outs[i].orderly && (outs[i].status == 0 || outs[i].status == 202) {
				switch cases[i].Mode {
				case idExact:
					want[cases[i].Key] = true
				case idNumForm:
					wantOrErr[cases[i].Key] = true
				}
			}
		}
		st = idCollect(ctx, c, from, want, wantOrErr, 15*time.Second, 120*time.Second)
	}
	invoked := map[string]int{}
	for _, e := range kit.Events.Snapshot() {
		if e.K == "invoke" {
			invoked[e.Nonce]++
		}
	}
	// every response frame that carries the nonce of a call, by nonce (to find answers travelling under another id)
	byNonce := map[string][]string{}
	note := func(f string) {
		seen := map[string]bool{}
		for _, n := range idNonceRe.FindAllString(f, -1) {
			if !seen[n] {
				seen[n] = true
				byNonce[n] = append(byNonce[n], f)
			}
		}
	}
	if async {
		for _, fr := range st.byKey {
			for _, f := range fr {
				note(f)
			}
		}
	} else {
		for i := range outs {
			for _, f := range outs[i].frames {
				if _, has, hasMethod := kit.FrameID(f); has && !hasMethod {
					note(f)
				}
			}
		}
	}

	unresolved := []*idCase{} // async transports: number forms / out-of-statement ids with no frame of their own
	nOK := 0
	for i := range cases {
		x, o := &cases[i], &outs[i]
		r.Eval(1)
		sig := fmt.Sprintf("C01|ids|%s|id=%s", kind, x.Class)
		// the frames answering THIS request
		var own, otherID []string // response frames under its id value / under another id
		refusedSync := false      // the POST itself was answered with an error status or an error frame without usable id
		up, why := true, ""
		if async {
			own = st.byKey[x.Key]
			up, why = st.connUp, st.whyNotUp
			if !o.orderly {
				up, why = false, "posting the request failed: "+o.httpErr
			} else if o.status != 0 && o.status != 202 {
				refusedSync = true
				why = fmt.Sprintf("the POST was answered with status %d: %s", o.status, short(strings.Join(o.frames, " | ")))
			}
		} else {
			if !o.orderly {
				up, why = false, "the HTTP exchange failed: "+o.httpErr
			} else {
				why = fmt.Sprintf("the POST's own response ended in order: status %d, %d frames", o.status, len(o.frames))
			}
			for _, f := range o.frames {
				raw, has, hasMethod := kit.FrameID(f)
				if hasMethod {
					continue
				}
				switch {
				case has && idKey(raw) == x.Key:
					own = append(own, f)
				case (!has || raw == "null") && idErrorFrame(f):
					refusedSync = true
				case has:
					otherID = append(otherID, f)
				}
			}
			if o.status >= 400 {
				refusedSync = true
			}
		}
		for _, f := range byNonce[x.Nonce] {
			if raw, has, _ := kit.FrameID(f); has && idKey(raw) != x.Key {
				dup := false
				for _, g := range otherID {
					dup = dup || g == f
				}
				if !dup {
					otherID = append(otherID, f)
				}
			}
		}
		shown := func(fs []string) []string {
			var out []string
			for _, f := range fs {
				out = append(out, short(f))
			}
			return out
		}
		wit := map[string]interface{}{"server": kind, "regime": regime, "batch": batchNo, "case": x, "request": short(string(x.Body)), "post_status": o.status,
			"answers_under_its_id": shown(own), "answers_under_another_id": shown(otherID), "handler_invocations": invoked[x.Nonce],
			"requests_in_flight_on_the_session": len(cases), "connection": why}
		what := fmt.Sprintf("%s raw peer, %d echo calls in flight on one session whose ids cover the boundaries of the id value space: the request with id %s (%s)", kind, len(cases), x.RawS, x.Class)

		if x.Mode == idOpen {
			out := "no-answer-seen"
			switch {
			case len(own) > 0:
				out = "answered-under-its-id"
			case len(otherID) > 0:
				out = "answered-under-an-altered-id"
			case refusedSync:
				out = "refused"
			case async:
				unresolved = append(unresolved, x)
				continue
			}
			r.Count("ids_outside_statement_"+out, 1)
			under := ""
			if len(own) == 0 && len(otherID) > 0 {
				g, _, _ := kit.FrameID(otherID[0])
				under = " " + idBound(g)
			}
			r.SetAdd("ids_outside_statement_outcomes", x.RawS+" -> "+out+under)
			continue
		}
		// --- both judged modes: nothing of this request may travel under another id
		if len(otherID) > 0 {
			gotID, _, _ := kit.FrameID(otherID[0])
			sym := "id-changed"
			if (x.Key[0] == 's') != (len(gotID) > 0 && gotID[0] == '"') {
				sym = "id-type-changed"
			}
			r.Violation(sig+"|"+sym, what+fmt.Sprintf(" was answered under the id %s", idBound(gotID)), wit)
			continue
		}
		if len(own) > 1 {
			r.Violation(sig+"|duplicate-answer", what+fmt.Sprintf(" got %d answers", len(own)), wit)
			continue
		}
		if invoked[x.Nonce] > 1 {
			r.Violation(sig+"|handler-count", what+fmt.Sprintf(": the handler ran %d times", invoked[x.Nonce]), wit)
			continue
		}
		if len(own) == 0 {
			if !up {
				r.Inconclusive(fmt.Sprintf("ids %s batch %d: id %s unanswered but the connection is not known to be up: %s", kind, batchNo, x.RawS, why))
				continue
			}
			if x.Mode == idNumForm {
				if refusedSync {
					r.Count("ids_number_forms_refused_with_error", 1)
					r.Distinct(fmt.Sprintf("ids|%s|%s|%s|refused", kind, regime, x.Class))
					continue
				}
				if async {
					unresolved = append(unresolved, x)
					continue
				}
				r.Violation(sig+"|silence", what+fmt.Sprintf(" got neither an answer nor an error (status %d, empty response): it was swallowed like a notification", o.status), wit)
				continue
			}
			sym := "missing-answer"
			if refusedSync {
				sym = "refused"
			}
			r.Violation(sig+"|"+sym, what+" never got its answer although the connection stayed up ("+why+")", wit)
			continue
		}
		// exactly one frame under its own id value (and, the key carrying the type, of the same JSON type)
		_, ans, isErr, perr := echoAnswerOf(own[0])
		if isErr {
			if x.Mode == idNumForm {
				if f := mixForeignIn(own[0], x.Nonce); f != "" {
					r.Violation(sig+"|foreign-answer", what+" received an error carrying the nonce "+f+" of another call", wit)
					continue
				}
				r.Count("ids_number_forms_refused_with_error", 1)
				r.Distinct(fmt.Sprintf("ids|%s|%s|%s|refused", kind, regime, x.Class))
				continue
			}
			r.Violation(sig+"|bad-answer", what+" was answered with a JSON-RPC error instead of the result computed from its arguments", wit)
			continue
		}
		if perr != nil || ans == nil {
			r.Violation(sig+"|bad-answer", what+fmt.Sprintf(": unusable answer (%v)", perr), wit)
			continue
		}
		if ans.Nonce != x.Nonce || ans.Digest != x.Digest {
			r.Violation(sig+"|foreign-answer", what+fmt.Sprintf(" (nonce %s) received the answer of nonce %s", x.Nonce, ans.Nonce), wit)
			continue
		}
		if invoked[x.Nonce] != 1 {
			r.Violation(sig+"|handler-count", what+fmt.Sprintf(": the handler ran %d times", invoked[x.Nonce]), wit)
			continue
		}
		nOK++
		if x.Mode == idNumForm {
			r.Count("ids_number_forms_answered_under_equal_number", 1)
			r.Distinct(fmt.Sprintf("ids|%s|%s|%s|answered", kind, regime, x.Class))
		} else {
			r.Count("ids_answered_with_own_id_and_payload", 1)
			r.Distinct(fmt.Sprintf("ids|%s|%s|%s", kind, regime, x.Class))
			r.SetAdd("ids_classes_answered_"+string(kind), x.Class)
		}
	}
	// asynchronous stream: requests without a frame of their own may have been refused by an error frame that cannot
	// name them (id null / no id / an id nobody sent); such frames are attributed by count
	if async {
		var strays []string
		for k, fr := range st.byKey {
			if keys[k] != nil || k == `s:init-0` || strings.HasPrefix(k, "s:fence-") {
				continue
			}
			for _, f := range fr {
				if len(idNonceRe.FindAllString(f, -1)) == 0 {
					strays = append(strays, f)
				}
			}
		}
		pool := len(st.noIDErr) + len(strays)
		sort.Slice(unresolved, func(i, j int) bool { return unresolved[i].Mode < unresolved[j].Mode })
		var silent []*idCase
		for _, x := range unresolved {
			if x.Mode != idNumForm {
				if pool > 0 {
					pool--
					r.Count("ids_outside_statement_refused", 1)
				} else {
					r.Count("ids_outside_statement_no-answer-seen", 1)
				}
				continue
			}
			if pool > 0 {
				pool--
				r.Count("ids_number_forms_refused_with_error", 1)
				r.Distinct(fmt.Sprintf("ids|%s|%s|%s|refused", kind, regime, x.Class))
				continue
			}
			silent = append(silent, x)
		}
		if len(silent) > 0 {
			if !st.connUp {
				r.Inconclusive(fmt.Sprintf("ids %s batch %d: %d number-form ids unanswered but the connection is not known to be up: %s", kind, batchNo, len(silent), st.whyNotUp))
			} else {
				for _, x := range silent {
					r.Violation(fmt.Sprintf("C01|ids|%s|id=%s|silence", kind, x.Class),
						fmt.Sprintf("%s raw peer: the request with id %s (%s) got neither an answer nor an error although the connection stayed up (%s): it was swallowed like a notification",
							kind, x.RawS, x.Class, st.whyNotUp),
						map[string]interface{}{"server": kind, "regime": regime, "batch": batchNo, "case": x, "request": short(string(x.Body)), "handler_invocations": invoked[x.Nonce],
							"error_frames_without_id_on_the_stream": len(st.noIDErr)})
				}
			}
		}
		// error frames nobody can have caused
		if extra := pool; extra > 0 && len(strays) > 0 {
			n := extra
			if n > len(strays) {
				n = len(strays)
			}
			r.Violation(fmt.Sprintf("C01|ids|%s|unsolicited-response", kind), fmt.Sprintf("%s raw peer: %d response frames under ids that were never sent and that answer no pending request", kind, n),
				map[string]interface{}{"frames": func() []string {
					var o []string
					for _, f := range strays {
						o = append(o, short(f))
					}
					return o
				}()})
		}
		if kind == kit.Stdio {
			for i, ln := range c.Rec.Lines(0) {
				var one map[string]json.RawMessage
				if err := json.Unmarshal(ln, &one); err != nil {
					r.Violation("C01|ids|stdio|mangled-line", fmt.Sprintf("stdio: stdout line %d is not one JSON object (%v)", i, err), map[string]interface{}{"line": short(string(ln))})
				}
			}
		}
	}
	r.Count("ids_cases", int64(len(cases)))
	r.Count("ids_sessions", 1)
	r.Max("ids_requests_in_flight_on_one_session", int64(len(cases)))
	if nOK > 0 && batchNo == 0 && sampleOnce("ids") {
		var ids []string
		for i := range cases {
			if len(ids) < 16 {
				ids = append(ids, cases[i].RawS)
			}
		}
		r.Sample(map[string]interface{}{"scenario": "ids", "server": kind, "regime": regime, "requests_in_flight": len(cases), "answered_with_own_id_and_payload": nOK,
			"first_ids_in_send_order": ids})
	}
}

func mixForeignIn(s, own string) string {
	for _, tok := range idNonceRe.FindAllString(s, -1) {
		if tok != own {
			return tok
		}
	}
	return ""
}

// idLibStarts: where the library clients let the caller choose ids (the request-id counter): the next ids are
// start+1, start+2, ... — zero, negative integers, across min int32, from -2^53 on.
var idLibStarts = []struct {
	name  string
	start int64
}{
	{"zero", -1},                          // 0, 1, 2, ...
	{"negative-across-zero", -7},          // -6 .. 5
	{"across-minint32", -2147483648 - 7},  // -2147483654 .. -2147483643
	{"from--2^53", -(int64(1) << 53) - 1}, // -2^53 .. -2^53+11
	{"across-maxuint32", 4294967296 - 6},  // 4294967291 .. 4294967302
}

func idScenarios(r *vh.Run) {
	batches := idBatches()
	regimes := []string{"barrier"}
	rounds := 1
	if !r.Quick() {
		regimes = []string{"barrier", "immediate", "delay"}
		rounds = 4
	}
	for round := 0; round < rounds; round++ {
		for _, kind := range kit.AllKinds {
			for _, regime := range regimes {
				for bn, b := range batches {
					idSession(r, kind, regime, bn, b, r.Rand(fmt.Sprintf("ids-%s-%s-%d-%d", kind, regime, bn, round)))
				}
			}
		}
	}
	r.Require(r.Counter("ids_answered_with_own_id_and_payload") > 0, "ids: no request with a boundary id was answered")
	// the library clients: ids chosen through the request-id counter
	for round := 0; round < rounds; round++ {
		for _, kind := range kit.AllKinds {
			for _, s := range idLibStarts {
				kit.Events.Reset()
				libScenario(r, kind, "immediate", 1, 12, s.start, round)
				if !r.Quick() {
					kit.Events.Reset()
					libScenario(r, kind, "barrier", 2, 12, s.start, round)
				}
			}
		}
	}
}
