// C01 — "absent a configured retry the server-side handler runs exactly once per request", under
// connection faults that strike AFTER the request reached the server.
//
// Topology of every episode:  library client --TCP--> relay --TCP--> front (http.Handler) --> the real library handler.
// The relay is transparent until it is armed for a nonce; then it cuts the answer of the request carrying that
// nonce at a byte position (nothing, inside the status line, after the header block, inside the body) with a FIN
// or an RST. The front is transparent until it is armed for a nonce; then it lets the real handler serve the
// request into a recorder and kills the connection instead of answering (close, RST, http.ErrAbortHandler,
// hijack-and-close without running the handler). The tool itself can also abort (panic http.ErrAbortHandler).
// Judged: the number of runs of the tool handler for the call's nonce, counted on the server.
package main

import (
	"bytes"
	"context"
	"errors"
	"fmt"
	"io"
	"log"
	"net"
	"net/http"
	"net/http/httptest"
	"os"
	"regexp"
	"strings"
	"sync"
	"time"

	mcp "trpc.group/trpc-go/trpc-mcp-go"

	"verifharness/lib/kit"
	"verifharness/lib/vh"
)

// ---- server-side tool with its own run counter ------------------------------------------------

var (
	cfMu    sync.Mutex
	cfRuns  = map[string]int{} // nonce -> runs of the tool handler
	cfAbort = map[string]int{} // nonce -> how many runs still abort (<0: all)
)

func cfRunsOf(nonce string) int {
	cfMu.Lock()
	defer cfMu.Unlock()
	return cfRuns[nonce]
}

func cfTool(abortable bool) (*mcp.Tool, kit.ToolFn) {
	return mcp.NewTool("cfecho", mcp.WithDescription("echo the nonce, count the run"), mcp.WithString("nonce", mcp.Required())),
		func(ctx context.Context, req *mcp.CallToolRequest) (*mcp.CallToolResult, error) {
			nonce, _ := req.Params.Arguments["nonce"].(string)
			cfMu.Lock()
			cfRuns[nonce]++
			abort := false
			if n := cfAbort[nonce]; abortable && n != 0 {
				abort = true
				if n > 0 {
					cfAbort[nonce] = n - 1
				}
			}
			cfMu.Unlock()
			if abort {
				panic(http.ErrAbortHandler) // net/http drops the connection without (further) answer bytes
			}
			return mcp.NewTextResult("cf:" + nonce), nil
		}
}

// cfServer builds the real library server of the given configuration (the options kit.Start uses) without a
// listener of its own: the episodes are many and every listener / connection costs an ephemeral port.
func cfServer(kind kit.Kind) (inner http.Handler, path string) {
	tool, fn := cfTool(kind.IsStreamable())
	if kind == kit.LSSE {
		s := mcp.NewSSEServer("verif-server", "9.9.9", mcp.WithSSEServerLogger(kit.Quiet{}))
		s.RegisterTool(tool, fn)
		return s, "/sse"
	}
	so := []mcp.ServerOption{mcp.WithServerLogger(kit.Quiet{}), mcp.WithServerPath("/mcp")}
	switch kind {
	case kit.SJSON:
		so = append(so, mcp.WithPostSSEEnabled(false))
	case kit.SSSE:
		so = append(so, mcp.WithPostSSEEnabled(true))
	case kit.SLJSON:
		so = append(so, mcp.WithStatelessMode(true), mcp.WithPostSSEEnabled(false))
	case kit.SLSSE:
		so = append(so, mcp.WithStatelessMode(true), mcp.WithPostSSEEnabled(true))
	case kit.SNoSess:
		so = append(so, mcp.WithoutSession(), mcp.WithPostSSEEnabled(false))
	}
	s := mcp.NewServer("verif-server", "9.9.9", so...)
	s.RegisterTool(tool, fn)
	return s.Handler(), "/mcp"
}

// cfListen: a loopback listener; the machine may be short of ephemeral ports for a moment (other checks run too).
func cfListen() (net.Listener, error) {
	var ln net.Listener
	var err error
	for i := 0; i < 20; i++ {
		if ln, err = net.Listen("tcp", "127.0.0.1:0"); err == nil {
			return ln, nil
		}
		time.Sleep(500 * time.Millisecond)
	}
	return nil, err
}

// ---- front: thin wrapper around the real handler ------------------------------------------------

type cfPlan struct {
	fault string
	times int // arrivals still to be hit (<0: all)
}

type cfArrival struct {
	Remote      string `json:"remote"`
	NthOnConn   int    `json:"nth_on_conn"` // requests served on this connection before this one
	Fault       string `json:"fault,omitempty"`
	InnerRan    bool   `json:"inner_ran"`
	InnerStatus int    `json:"inner_status,omitempty"`
}

type cfFront struct {
	inner    http.Handler
	mu       sync.Mutex
	plans    map[string]*cfPlan
	arrivals map[string][]*cfArrival
	connReqs map[string]int
	conns    map[net.Conn]http.ConnState
}

var cfNonceRe = regexp.MustCompile(`"nonce":"([^"]+)"`)

func newCFFront(inner http.Handler) *cfFront {
	return &cfFront{inner: inner, plans: map[string]*cfPlan{}, arrivals: map[string][]*cfArrival{}, connReqs: map[string]int{}, conns: map[net.Conn]http.ConnState{}}
}

func (f *cfFront) connState(c net.Conn, s http.ConnState) {
	f.mu.Lock()
	if s == http.StateClosed || s == http.StateHijacked {
		delete(f.conns, c)
	} else {
		f.conns[c] = s
	}
	f.mu.Unlock()
}

// closeIdle closes, from the server side, every connection that is idle right now; returns how many.
func (f *cfFront) closeIdle() int {
	f.mu.Lock()
	var idle []net.Conn
	for c, s := range f.conns {
		if s == http.StateIdle {
			idle = append(idle, c)
		}
	}
	f.mu.Unlock()
	for _, c := range idle {
		c.Close()
	}
	return len(idle)
}

func (f *cfFront) arrivalsOf(nonce string) []cfArrival {
	f.mu.Lock()
	defer f.mu.Unlock()
	out := make([]cfArrival, 0, len(f.arrivals[nonce]))
	for _, a := range f.arrivals[nonce] {
		out = append(out, *a)
	}
	return out
}

func (f *cfFront) ServeHTTP(w http.ResponseWriter, r *http.Request) {
	var body []byte
	if r.Method == http.MethodPost {
		body, _ = io.ReadAll(r.Body)
		r.Body = io.NopCloser(bytes.NewReader(body))
	}
	nonce := ""
	if m := cfNonceRe.FindSubmatch(body); m != nil {
		nonce = string(m[1])
	}
	f.mu.Lock()
	nth := f.connReqs[r.RemoteAddr]
	f.connReqs[r.RemoteAddr]++
	var arr *cfArrival
	fault := ""
	if nonce != "" {
		if p := f.plans[nonce]; p != nil && p.times != 0 {
			fault = p.fault
			if p.times > 0 {
				p.times--
			}
		}
		arr = &cfArrival{Remote: r.RemoteAddr, NthOnConn: nth, Fault: fault}
		f.arrivals[nonce] = append(f.arrivals[nonce], arr)
	}
	f.mu.Unlock()
	if fault == "" {
		if arr != nil {
			f.mu.Lock()
			arr.InnerRan = true
			f.mu.Unlock()
		}
		f.inner.ServeHTTP(w, r)
		return
	}
	if fault != "w-unrun-close" {
		// the real handler serves the request completely; its answer is lost with the connection
		rec := httptest.NewRecorder()
		f.inner.ServeHTTP(rec, r)
		f.mu.Lock()
		arr.InnerRan, arr.InnerStatus = true, rec.Code
		f.mu.Unlock()
	}
	if fault == "w-abort" {
		panic(http.ErrAbortHandler)
	}
	hj, ok := w.(http.Hijacker)
	if !ok {
		panic(http.ErrAbortHandler)
	}
	conn, _, err := hj.Hijack()
	if err != nil {
		return
	}
	if tc, ok := conn.(*net.TCPConn); ok && fault == "w-rst" {
		tc.SetLinger(0)
	}
	conn.Close()
}

// ---- relay: TCP proxy that cuts the answer to a marked request ----------------------------------

type cfRelay struct {
	ln       net.Listener
	upstream string
	mu       sync.Mutex
	plans    map[string]*cfPlan
	applied  map[string]int
	conns    []net.Conn
	wg       sync.WaitGroup
}

type cfRelayConn struct {
	mu     sync.Mutex
	fault  string
	inBody bool // cut-body: header block already forwarded
	killed bool
}

func newCFRelay(upstream string) (*cfRelay, error) {
	ln, err := cfListen()
	if err != nil {
		return nil, err
	}
	rl := &cfRelay{ln: ln, upstream: upstream, plans: map[string]*cfPlan{}, applied: map[string]int{}}
	go rl.accept()
	return rl, nil
}

func (rl *cfRelay) addr() string { return rl.ln.Addr().String() }

func (rl *cfRelay) track(c net.Conn) {
	rl.mu.Lock()
	rl.conns = append(rl.conns, c)
	rl.mu.Unlock()
}

func (rl *cfRelay) close() {
	rl.ln.Close()
	rl.mu.Lock()
	cs := rl.conns
	rl.conns = nil
	rl.mu.Unlock()
	for _, c := range cs {
		cfKill(c, true) // reset: neither side keeps a TIME_WAIT socket (the episodes are many)
	}
}

func (rl *cfRelay) accept() {
	for {
		c, err := rl.ln.Accept()
		if err != nil {
			return
		}
		u, err := net.Dial("tcp", rl.upstream)
		if err != nil {
			c.Close()
			continue
		}
		rl.track(c)
		rl.track(u)
		st := &cfRelayConn{}
		go rl.c2s(c, u, st)
		go rl.s2c(c, u, st)
	}
}

func (rl *cfRelay) c2s(c, u net.Conn, st *cfRelayConn) {
	buf := make([]byte, 64<<10)
	var window []byte
	for {
		n, err := c.Read(buf)
		if n > 0 {
			data := append(window, buf[:n]...)
			hit := false
			rl.mu.Lock()
			for nonce, p := range rl.plans {
				if p.times != 0 && bytes.Contains(data, []byte(`"nonce":"`+nonce+`"`)) {
					if p.times > 0 {
						p.times--
					}
					rl.applied[nonce]++
					st.mu.Lock()
					st.fault, st.inBody = p.fault, false
					st.mu.Unlock()
					hit = true
				}
			}
			rl.mu.Unlock()
			if hit {
				window = nil
			} else {
				if len(data) > 512 {
					data = data[len(data)-512:]
				}
				window = append([]byte(nil), data...)
			}
			if _, werr := u.Write(buf[:n]); werr != nil {
				c.Close()
				return
			}
		}
		if err != nil {
			st.mu.Lock()
			killed := st.killed
			st.mu.Unlock()
			if !killed {
				u.Close() // the client went away on its own
			}
			// after a kill the upstream side stays open: the real server finishes its answer undisturbed
			return
		}
	}
}

func cfKill(c net.Conn, rst bool) {
	if tc, ok := c.(*net.TCPConn); ok && rst {
		tc.SetLinger(0)
	}
	c.Close()
}

func (rl *cfRelay) s2c(c, u net.Conn, st *cfRelayConn) {
	buf := make([]byte, 64<<10)
	for {
		n, err := u.Read(buf)
		if n > 0 {
			chunk := buf[:n]
			st.mu.Lock()
			switch {
			case st.killed:
				chunk = nil // drained
			case st.fault != "":
				fwd, kill := cfCut(st, chunk)
				if len(fwd) > 0 {
					c.Write(fwd)
				}
				chunk = nil
				if kill {
					cfKill(c, strings.HasSuffix(st.fault, "-rst"))
					st.killed, st.fault = true, ""
				}
			}
			st.mu.Unlock()
			if len(chunk) > 0 {
				if _, werr := c.Write(chunk); werr != nil {
					u.Close()
					return
				}
			}
		}
		if err != nil {
			st.mu.Lock()
			killed := st.killed
			st.mu.Unlock()
			if !killed {
				// propagate the way the server ended the connection: EOF as FIN, anything else as RST
				cfKill(c, !errors.Is(err, io.EOF))
			}
			u.Close()
			return
		}
	}
}

// cfCut decides how much of chunk still reaches the client and whether the connection dies now.
func cfCut(st *cfRelayConn, chunk []byte) (fwd []byte, kill bool) {
	switch {
	case strings.HasPrefix(st.fault, "r-cut0"):
		return nil, true
	case st.fault == "r-status":
		if i := bytes.Index(chunk, []byte("\r\n")); i >= 0 {
			return chunk[:i+2], true
		}
		return chunk, false
	case st.fault == "r-headers":
		if i := bytes.Index(chunk, []byte("\r\n\r\n")); i >= 0 {
			return chunk[:i+4], true
		}
		return chunk, false
	default: // r-body-fin / r-body-rst
		rest := chunk
		var head []byte
		if !st.inBody {
			i := bytes.Index(chunk, []byte("\r\n\r\n"))
			if i < 0 {
				return chunk, false
			}
			st.inBody = true
			head, rest = chunk[:i+4], chunk[i+4:]
		}
		if len(rest) == 0 {
			return head, false
		}
		k := len(rest) / 2
		if k == 0 {
			k = 1
		}
		return append(append([]byte(nil), head...), rest[:k]...), true
	}
}

// ---- episodes -----------------------------------------------------------------------------------

type cfEpisode struct {
	kind   kit.Kind
	getSSE bool
	pos    string // reused | after-init | after-202 | fresh | idle-closed
	fault  string // "" (idle-closed) | w-* | t-abort | r-*
	retry  int    // MaxRetries configured (0: no retry option at all)
	times  int    // arrivals hit by the fault (<0: all)
	tag    string
}

type cfCallOut struct {
	Nonce string `json:"nonce"`
	Err   string `json:"err,omitempty"`
	Text  string `json:"text,omitempty"`
	Timed bool   `json:"watchdog,omitempty"`
}

func cfCall(ctx context.Context, c *mcp.Client, nonce string) cfCallOut {
	o := cfCallOut{Nonce: nonce}
	req := &mcp.CallToolRequest{}
	req.Params.Name = "cfecho"
	req.Params.Arguments = map[string]interface{}{"nonce": nonce}
	cctx, cancel := context.WithTimeout(ctx, 20*time.Second)
	defer cancel()
	var res *mcp.CallToolResult
	var err error
	func() {
		defer func() {
			if p := recover(); p != nil {
				err = fmt.Errorf("PANIC in caller: %v", p)
			}
		}()
		res, err = c.CallTool(cctx, req)
	}()
	if err != nil {
		o.Err = err.Error()
		o.Timed = cctx.Err() != nil
		return o
	}
	if res != nil && len(res.Content) == 1 {
		if tc, ok := res.Content[0].(mcp.TextContent); ok {
			o.Text = tc.Text
		}
	}
	return o
}

func cfFaultClass(f string) string {
	switch {
	case f == "":
		return "none"
	case strings.HasPrefix(f, "w-"):
		return "wrapper"
	case strings.HasPrefix(f, "t-"):
		return "tool"
	default:
		return "relay"
	}
}

var cfSeq int

func runCFEpisode(r *vh.Run, ep cfEpisode) {
	cfSeq++
	name := fmt.Sprintf("%s/%s/%s/retry=%d", ep.kind, ep.pos, ep.fault, ep.retry)
	inner, path := cfServer(ep.kind)
	front := newCFFront(inner)
	ln, err := cfListen()
	if err != nil {
		r.Inconclusive(fmt.Sprintf("conn-fault %s: no loopback port: %v", name, err))
		return
	}
	hs := &http.Server{Handler: front, ConnState: front.connState, ErrorLog: log.New(io.Discard, "", 0)}
	go hs.Serve(ln)
	relay, err := newCFRelay(ln.Addr().String())
	if err != nil {
		hs.Close()
		r.Inconclusive(fmt.Sprintf("conn-fault %s: no loopback port: %v", name, err))
		return
	}
	var c *mcp.Client
	defer func() {
		relay.close() // first: resets every connection of the episode
		if c != nil {
			c.Close()
		}
		hs.Close()
	}()

	opts := []mcp.ClientOption{mcp.WithClientLogger(kit.Quiet{})}
	if ep.kind.IsStreamable() {
		opts = append(opts, mcp.WithClientGetSSEEnabled(ep.getSSE))
	}
	if ep.retry > 0 {
		opts = append(opts, mcp.WithRetry(mcp.RetryConfig{MaxRetries: ep.retry, InitialBackoff: time.Millisecond, BackoffFactor: 1, MaxBackoff: 2 * time.Millisecond}))
	}
	url := "http://" + relay.addr() + path
	if ep.kind == kit.LSSE {
		c, err = mcp.NewSSEClient(url, kit.ClientInfo, opts...)
	} else {
		c, err = mcp.NewClient(url, kit.ClientInfo, opts...)
	}
	if err != nil {
		r.Fatal("conn-fault client %s: %v", ep.kind, err)
	}
	ctx, cancel := context.WithTimeout(context.Background(), 90*time.Second)
	defer cancel()
	if _, err := c.Initialize(ctx, &mcp.InitializeRequest{}); err != nil {
		r.Inconclusive(fmt.Sprintf("conn-fault %s: Initialize failed: %v", name, err))
		return
	}
	base := fmt.Sprintf("cf-%d-%s-%s", cfSeq, ep.kind, ep.tag)
	warm, victim, post := base+"-warm", base+"-victim", base+"-post"
	var wo cfCallOut
	if ep.pos != "after-init" {
		wo = cfCall(ctx, c, warm)
		if wo.Err != "" || wo.Text != "cf:"+warm {
			r.Inconclusive(fmt.Sprintf("conn-fault %s: warm-up call did not complete: %+v", name, wo))
			return
		}
	}
	closedIdle := 0
	switch ep.pos {
	case "after-202":
		if err := c.SendRootsListChangedNotification(ctx); err != nil {
			r.Inconclusive(fmt.Sprintf("conn-fault %s: notification failed: %v", name, err))
			return
		}
	case "fresh":
		if t, ok := http.DefaultTransport.(*http.Transport); ok {
			t.CloseIdleConnections()
		}
	case "idle-closed":
		closedIdle = front.closeIdle()
		if ep.times > 0 { // variant: give the client's transport a moment to notice (either order is legal)
			time.Sleep(2 * time.Millisecond)
		}
	}
	// arm
	switch cfFaultClass(ep.fault) {
	case "wrapper":
		front.mu.Lock()
		front.plans[victim] = &cfPlan{fault: ep.fault, times: ep.times}
		front.mu.Unlock()
	case "relay":
		relay.mu.Lock()
		relay.plans[victim] = &cfPlan{fault: ep.fault, times: ep.times}
		relay.mu.Unlock()
	case "tool":
		cfMu.Lock()
		cfAbort[victim] = ep.times
		cfMu.Unlock()
	}
	vo := cfCall(ctx, c, victim)
	po := cfCall(ctx, c, post)

	// settle: on the legacy server the handler runs asynchronously to the POST; behind a cut answer it may still be on its way
	innerCalls := func() (n, total int, arr []cfArrival) {
		arr = front.arrivalsOf(victim)
		for _, a := range arr {
			if a.InnerRan {
				n++
			}
		}
		return n, len(arr), arr
	}
	deadline := time.Now().Add(8 * time.Second)
	for {
		n, _, _ := innerCalls()
		if cfRunsOf(victim) >= n || time.Now().After(deadline) {
			break
		}
		time.Sleep(2 * time.Millisecond)
	}
	nInner, nArr, arr := innerCalls()
	runs, runsWarm, runsPost := cfRunsOf(victim), cfRunsOf(warm), cfRunsOf(post)
	relay.mu.Lock()
	relayApplied := relay.applied[victim]
	relay.mu.Unlock()
	faultApplied := relayApplied
	for _, a := range arr {
		if a.Fault != "" {
			faultApplied++
		}
	}
	if cfFaultClass(ep.fault) == "tool" {
		cfMu.Lock()
		left := cfAbort[victim]
		cfMu.Unlock()
		if ep.times > 0 {
			faultApplied = ep.times - left
		} else {
			faultApplied = runs
		}
	}
	reused := nArr > 0 && arr[0].NthOnConn > 0

	r.Eval(1)
	wit := map[string]interface{}{"server": ep.kind, "client_get_sse": ep.getSSE, "position": ep.pos, "fault": ep.fault, "fault_hits_arrivals": ep.times,
		"max_retries": ep.retry, "victim": vo, "warm_up": wo, "next_call": po, "handler_runs_victim": runs, "arrivals_victim": arr,
		"fault_applied": faultApplied, "idle_connections_closed_by_server": closedIdle}
	sig := fmt.Sprintf("C01|conn-fault|%s|%s", ep.kind, cfMoment(ep.fault)) // position and the exact fault are in the witness
	violated := false
	if ep.retry == 0 {
		r.Count("connfault_calls_no_retry", 1)
		if runs > 1 {
			violated = true
			r.Violation(sig+"|no-retry|handler-ran-again",
				fmt.Sprintf("%s, no retry option: one CallTool (connection fault %q at position %q, request reached the server %d times) made the tool handler run %d times", ep.kind, ep.fault, ep.pos, nArr, runs), wit)
		}
	} else {
		r.Count("connfault_calls_with_retry", 1)
		r.Max("connfault_handler_runs_with_retry", int64(runs))
		if runs > 1 {
			r.Count("connfault_calls_with_retry_reexecuted", 1)
		}
		if runs > ep.retry+1 {
			violated = true
			r.Violation(sig+fmt.Sprintf("|retry=%d|more-runs-than-attempts", ep.retry),
				fmt.Sprintf("%s, MaxRetries=%d: one CallTool made the tool handler run %d times (request reached the server %d times), more than the %d attempts configured", ep.kind, ep.retry, runs, nArr, ep.retry+1), wit)
		}
	}
	if runs == 0 && nInner > 0 {
		// the real handler was given the request (on an intact request) and the tool never ran
		ok200 := false
		for _, a := range arr {
			if a.InnerRan && (a.InnerStatus == 200 || a.InnerStatus == 202) {
				ok200 = true
			}
		}
		if ep.kind.IsStreamable() && cfFaultClass(ep.fault) == "wrapper" && ok200 {
			violated = true
			r.Violation(sig+"|handler-never-ran", fmt.Sprintf("%s: the request reached the real handler, which answered 200 into the recorder, but the tool handler never ran", ep.kind), wit)
		} else {
			r.Inconclusive(fmt.Sprintf("conn-fault %s: request handed to the real handler %d times, tool not seen running within 8 s", name, nInner))
			violated = true // not counted as held
		}
	}
	// neighbours: a fault on one call must not make another call's handler run twice, and an answer is the call's own
	// With a retry option configured a neighbour may legitimately be re-executed: the relay forwards the cut answer and then closes the
	// client connection, and in between the client can already have put the next call on that connection (seen once, thorough tier:
	// legacy SSE, fault after the header block of the 202, MaxRetries=2: the next call reached the server, lost its connection and was
	// retried). The statement bounds re-execution only absent a retry option; with one the bound is MaxRetries+1 as for the victim.
	if (runsWarm > 1 || runsPost > 1) && runsWarm <= ep.retry+1 && runsPost <= ep.retry+1 {
		r.Count("cf_neighbour_retried_with_retry_option", 1)
	}
	if runsWarm > ep.retry+1 || runsPost > ep.retry+1 {
		violated = true
		r.Violation(sig+"|neighbour-handler-ran-again", fmt.Sprintf("%s: the call before / after the faulted one ran its handler %d / %d times", ep.kind, runsWarm, runsPost), wit)
	}
	for _, o := range []cfCallOut{vo, po} {
		if o.Err == "" && o.Text != "cf:"+o.Nonce {
			violated = true
			r.Violation(sig+"|foreign-answer", fmt.Sprintf("%s: call %s returned %q", ep.kind, o.Nonce, o.Text), wit)
		}
		if strings.HasPrefix(o.Err, "PANIC in caller") {
			violated = true
			r.Violation(sig+"|panic-in-caller", fmt.Sprintf("%s: %s", ep.kind, o.Err), wit)
		}
	}
	if vo.Timed {
		r.Count("connfault_victim_watchdog", 1)
	}
	if violated {
		return
	}
	// evidence: what was actually observed
	outcome := "error"
	if vo.Err == "" {
		outcome = "answer"
	}
	reach := "not-arrived"
	if nArr > 0 {
		reach = fmt.Sprintf("arrived-%s", map[bool]string{true: "on-reused-conn", false: "on-fresh-conn"}[reused])
		r.Count("connfault_requests_reached_server", 1)
		if reused {
			r.Count("connfault_requests_on_reused_connection", 1)
		}
	}
	if faultApplied > 0 {
		r.Count("connfault_faults_applied", int64(faultApplied))
		if reused && ep.retry == 0 {
			r.Count("connfault_no_retry_fault_on_reused_connection", 1)
			r.SetAdd("connfault_kinds_faulted_on_reused_connection", string(ep.kind))
			r.SetAdd("connfault_no_retry_faulted_on_reused_connection_at", string(ep.kind)+"/"+ep.pos)
		}
	}
	if ep.pos == "idle-closed" {
		r.Count("connfault_idle_connections_closed_by_server", int64(closedIdle))
	}
	if faultApplied > 0 || ep.pos == "idle-closed" || ep.pos == "fresh" {
		get := ""
		if ep.kind.Stateful() {
			get = fmt.Sprintf("|get-sse=%v", ep.getSSE)
		}
		r.Distinct(fmt.Sprintf("conn-fault|%s%s|%s|%s|retry=%d|%s|%s|runs=%d", ep.kind, get, ep.pos, cfFaultName(ep.fault), ep.retry, reach, outcome, runs))
	}
	if faultApplied > 0 && reused && sampleOnce(fmt.Sprintf("conn-fault-retry=%v", ep.retry > 0)) {
		r.Sample(map[string]interface{}{"scenario": "conn-fault", "server": ep.kind, "position": ep.pos, "fault": ep.fault, "max_retries": ep.retry,
			"victim_outcome": vo, "handler_runs": runs, "arrivals": arr})
	}
}

// cfMoment names the class of a fault for violation signatures: when the connection died, seen from the client.
func cfMoment(f string) string {
	switch {
	case f == "":
		return "idle-connection-closed-by-server"
	case f == "t-abort":
		return "tool-handler-aborts"
	case f == "r-status":
		return "dies-after-status-line"
	case f == "r-headers":
		return "dies-after-headers"
	case strings.HasPrefix(f, "r-body"):
		return "dies-mid-body"
	default:
		return "dies-before-first-answer-byte"
	}
}

func cfFaultName(f string) string {
	if f == "" {
		return "server-closed-idle-conn"
	}
	return f
}

var cfKinds = []kit.Kind{kit.SJSON, kit.SSSE, kit.SLJSON, kit.SLSSE, kit.SNoSess, kit.LSSE}

func cfFaultsFor(kind kit.Kind) []string {
	fs := []string{"w-close", "w-rst", "w-abort", "w-unrun-close", "r-cut0-fin", "r-cut0-rst", "r-status", "r-headers"}
	if kind.IsStreamable() {
		// the legacy server runs tools outside the serving goroutine (a panic there ends the process) and its 202 has no body
		fs = append(fs, "t-abort", "r-body-fin", "r-body-rst")
	}
	return fs
}

// connFaultScenarios: every (configuration, position of the call on its connection, fault) once per round, without
// and with a retry option.
func connFaultScenarios(r *vh.Run) {
	rounds := r.Pick(1, 2)
	i := 0
	for round := 0; round < rounds; round++ {
		for _, kind := range cfKinds {
			if only := os.Getenv("C01_CFKIND"); only != "" && only != string(kind) { // debugging aid
				continue
			}
			for _, pos := range []string{"reused", "after-init", "after-202", "fresh"} {
				for _, fault := range cfFaultsFor(kind) {
					i++
					gets := []bool{(i+round)%2 == 0}
					if !r.Quick() && kind.Stateful() {
						gets = []bool{true, false}
					}
					for _, g := range gets {
						runCFEpisode(r, cfEpisode{kind: kind, getSSE: g, pos: pos, fault: fault, times: -1, tag: fmt.Sprintf("r%d", round)})
					}
				}
			}
			for _, variant := range []int{-1, 1} { // immediately / after a moment
				i++
				runCFEpisode(r, cfEpisode{kind: kind, getSSE: i%2 == 0, pos: "idle-closed", times: variant, tag: fmt.Sprintf("r%d", round)})
			}
			// with a retry option: the fault hits the first arrival only (a later attempt gets through) or every arrival
			for _, fault := range []string{"w-close", "w-rst", "r-cut0-rst", "r-headers"} {
				for _, times := range []int{1, -1} {
					for _, pos := range []string{"reused", "after-init"} {
						if r.Quick() && pos == "after-init" && times == 1 {
							continue
						}
						i++
						runCFEpisode(r, cfEpisode{kind: kind, getSSE: i%2 == 0, pos: pos, fault: fault, retry: 2, times: times, tag: fmt.Sprintf("r%d-retry", round)})
					}
				}
			}
		}
	}
	if os.Getenv("C01_CFKIND") != "" {
		return
	}
	r.Require(r.Counter("connfault_no_retry_fault_on_reused_connection") > 0,
		"conn-fault: no call without retry option was hit by a fault on a reused keep-alive connection after reaching the server")
	r.Require(r.Counter("connfault_calls_with_retry_reexecuted") > 0,
		"conn-fault: no call with a retry option was seen re-executed after a connection fault (the scenario could not show a second run)")
}
