// C01 — answers of EVERY kind under back-pressure.
//
// Many answers (more than the legacy server's 100-slot event queue, and similar numbers on the other
// transports) are in flight on one session / connection while the peer has stopped reading; the calls in
// flight take every answer path the servers have (results, tool errors, JSON-RPC errors, handler-chain
// failures from a middleware, unencodable results, nil content, prompt / resource failures, large answers).
// After the peer reads again, every call must have exactly one answer carrying its own id.
package main

import (
	"bufio"
	"bytes"
	"context"
	"encoding/json"
	"errors"
	"fmt"
	"io"
	"math/rand"
	"net"
	"net/http"
	"net/url"
	"os"
	"regexp"
	"strconv"
	"strings"
	"sync"
	"sync/atomic"
	"time"

	mcp "trpc.group/trpc-go/trpc-mcp-go"

	"verifharness/lib/kit"
	"verifharness/lib/peer"
	"verifharness/lib/vh"
)

// ---- the handler-chain failure: a middleware that refuses marked requests with a Go error ----

var (
	mwSeen    atomic.Int64
	mwRefused atomic.Int64
)

func refuseMW(next mcp.HandlerFunc) mcp.HandlerFunc {
	return func(ctx context.Context, req *mcp.JSONRPCRequest) (mcp.JSONRPCMessage, error) {
		mwSeen.Add(1)
		if p, ok := req.Params.(map[string]interface{}); ok {
			mark, _ := p["mw"].(string)
			nonce, _ := p["nonce"].(string)
			if a, ok := p["arguments"].(map[string]interface{}); ok && mark == "" {
				mark, _ = a["mw"].(string)
				nonce, _ = a["nonce"].(string)
			}
			if mark == "refuse" {
				mwRefused.Add(1)
				return nil, errors.New("refused:" + nonce)
			}
		}
		return next(ctx, req)
	}
}

// ---- the calls ----

type bpCall struct {
	Idx    int    `json:"idx"`
	RawID  string `json:"id"`
	ID     string `json:"-"` // canonical
	Kind   string `json:"answer_path"`
	Nonce  string `json:"nonce"`
	Body   []byte `json:"-"`
	Echo   bool   `json:"-"` // answer is the echo tool's result: nonce + digest are checked, handler counted
	Digest string `json:"-"`
	Must   string `json:"must_contain,omitempty"` // text computed from this call's own arguments that the statement promises back
	Filler bool   `json:"filler,omitempty"`
}

var nonceRe = regexp.MustCompile(`bpn[0-9]+x[0-9a-f]{8}z`)

type bpKind struct {
	Name   string
	NeedMW bool
	Make   func(c *bpCall, rng *rand.Rand)
}

func rpc(id, method, params string) []byte {
	if params == "" {
		return []byte(fmt.Sprintf(`{"jsonrpc":"2.0","id":%s,"method":%q}`, id, method))
	}
	return []byte(fmt.Sprintf(`{"jsonrpc":"2.0","id":%s,"method":%q,"params":%s}`, id, method, params))
}

func toolCall(id, name, nonce, extra string) []byte {
	return rpc(id, "tools/call", fmt.Sprintf(`{"name":%q,"arguments":{"nonce":%q%s}}`, name, nonce, extra))
}

func echoCall(c *bpCall, rng *rand.Rand, pad int, extra map[string]interface{}) {
	payload := fmt.Sprintf("bp-payload-%d-%d", c.Idx, rng.Int63())
	ex := map[string]interface{}{}
	for k, v := range extra {
		ex[k] = v
	}
	if pad > 0 {
		ex["pad_n"] = pad
	}
	c.Body = kit.EchoCallBody(c.RawID, c.Nonce, payload, ex)
	c.Echo, c.Digest = true, kit.Digest(payload)
}

// every answer path of the servers; "Must" only where the statement promises the content (a result or
// error computed from the call's own arguments by the handler itself).
func bpKinds() []bpKind {
	return []bpKind{
		{"result", false, func(c *bpCall, rng *rand.Rand) { echoCall(c, rng, 0, nil) }},
		{"large-result", false, func(c *bpCall, rng *rand.Rand) { echoCall(c, rng, 40<<10+rng.Intn(160<<10), nil) }},
		{"tool-iserror", false, func(c *bpCall, rng *rand.Rand) {
			c.Body, c.Must = toolCall(c.RawID, "iserr", c.Nonce, ""), "iserr:"+c.Nonce
		}},
		{"tool-go-error", false, func(c *bpCall, rng *rand.Rand) {
			c.Body, c.Must = toolCall(c.RawID, "fail", c.Nonce, ""), "boom:"+c.Nonce
		}},
		{"unknown-tool", false, func(c *bpCall, rng *rand.Rand) { c.Body = toolCall(c.RawID, "no-such-tool", c.Nonce, "") }},
		{"invalid-params", false, func(c *bpCall, rng *rand.Rand) {
			shapes := []string{
				`{"name":42,"arguments":{"nonce":%q}}`,
				`{"arguments":{"nonce":%q}}`,
				`{"name":"echo","arguments":%q}`,
				`[%q,2,3]`,
				`%q`,
				`{"name":"echo","arguments":{"nonce":%q,"payload":{"not":"a string"},"delay_us":"x"}}`,
			}
			c.Body = rpc(c.RawID, "tools/call", fmt.Sprintf(shapes[rng.Intn(len(shapes))], c.Nonce))
		}},
		{"missing-params", false, func(c *bpCall, rng *rand.Rand) {
			c.Body = rpc(c.RawID, []string{"tools/call", "prompts/get", "resources/read"}[rng.Intn(3)], "")
		}},
		{"unknown-method", false, func(c *bpCall, rng *rand.Rand) {
			c.Body = rpc(c.RawID, "verif/no-such-method", fmt.Sprintf(`{"nonce":%q}`, c.Nonce))
		}},
		{"middleware-error-tool", true, func(c *bpCall, rng *rand.Rand) {
			c.Body = toolCall(c.RawID, "echo", c.Nonce, `,"payload":"x","mw":"refuse"`)
		}},
		{"middleware-error-other", true, func(c *bpCall, rng *rand.Rand) {
			m := []string{"ping", "tools/list", "prompts/get", "resources/read", "verif/no-such-method"}[rng.Intn(5)]
			c.Body = rpc(c.RawID, m, fmt.Sprintf(`{"mw":"refuse","nonce":%q}`, c.Nonce))
		}},
		{"unencodable-nan", false, func(c *bpCall, rng *rand.Rand) { c.Body = toolCall(c.RawID, "nan", c.Nonce, "") }},
		{"unencodable-chan", false, func(c *bpCall, rng *rand.Rand) { c.Body = toolCall(c.RawID, "chan", c.Nonce, "") }},
		{"nil-content", false, func(c *bpCall, rng *rand.Rand) { c.Body = toolCall(c.RawID, "nilcontent", c.Nonce, "") }},
		{"prompt-ok", false, func(c *bpCall, rng *rand.Rand) {
			c.Body = rpc(c.RawID, "prompts/get", fmt.Sprintf(`{"name":"p-ok","arguments":{"who":%q}}`, c.Nonce))
			c.Must = "hello " + c.Nonce
		}},
		{"prompt-go-error", false, func(c *bpCall, rng *rand.Rand) {
			c.Body = rpc(c.RawID, "prompts/get", fmt.Sprintf(`{"name":"p-fail","arguments":{"who":%q}}`, c.Nonce))
		}},
		{"prompt-unknown", false, func(c *bpCall, rng *rand.Rand) {
			c.Body = rpc(c.RawID, "prompts/get", fmt.Sprintf(`{"name":"p-none","arguments":{"who":%q}}`, c.Nonce))
		}},
		{"prompt-missing-argument", false, func(c *bpCall, rng *rand.Rand) {
			c.Body = rpc(c.RawID, "prompts/get", `{"name":"p-ok"}`)
		}},
		{"resource-ok", false, func(c *bpCall, rng *rand.Rand) {
			c.Body = rpc(c.RawID, "resources/read", fmt.Sprintf(`{"uri":%q}`, []string{"res://ok", "res://blob", "res://multi"}[rng.Intn(3)]))
		}},
		{"resource-go-error", false, func(c *bpCall, rng *rand.Rand) {
			c.Body = rpc(c.RawID, "resources/read", `{"uri":"res://fail"}`)
		}},
		{"resource-unknown", false, func(c *bpCall, rng *rand.Rand) {
			c.Body = rpc(c.RawID, "resources/read", fmt.Sprintf(`{"uri":"res://none/%s"}`, c.Nonce))
		}},
		{"ping", false, func(c *bpCall, rng *rand.Rand) { c.Body = rpc(c.RawID, "ping", "") }},
		{"list", false, func(c *bpCall, rng *rand.Rand) {
			c.Body = rpc(c.RawID, []string{"tools/list", "prompts/list", "resources/list"}[rng.Intn(3)], "")
		}},
	}
}

// buildPressureCalls: nFill large echo answers first (they fill the socket and whatever the server queues
// behind it), then reps x every answer path plus extraLarge more large results in a seeded random order.
func buildPressureCalls(rng *rand.Rand, hasMW bool, nFill, fillPad, reps, extraLarge int) []bpCall {
	var calls []bpCall
	newCall := func(kind string) *bpCall {
		i := len(calls)
		raw := strconv.Itoa(7000 + i)
		switch i % 4 {
		case 1:
			raw = fmt.Sprintf(`"bp-%d"`, i)
		case 3:
			raw = strconv.FormatInt(1<<40+int64(i), 10)
		}
		calls = append(calls, bpCall{Idx: i, RawID: raw, ID: kit.CanonID(json.RawMessage(raw)), Kind: kind,
			Nonce: fmt.Sprintf("bpn%dx%08xz", i, rng.Uint32())})
		return &calls[i]
	}
	for i := 0; i < nFill; i++ {
		c := newCall("large-result")
		c.Filler = true
		echoCall(c, rng, fillPad, nil)
	}
	var order []bpKind
	for rep := 0; rep < reps; rep++ {
		for _, k := range bpKinds() {
			if k.NeedMW && !hasMW {
				continue
			}
			order = append(order, k)
		}
	}
	for i := 0; i < extraLarge; i++ {
		order = append(order, bpKinds()[1])
	}
	rng.Shuffle(len(order), func(i, j int) { order[i], order[j] = order[j], order[i] })
	for _, k := range order {
		c := newCall(k.Name)
		k.Make(c, rng)
	}
	return calls
}

// ---- judgement (shared by all transports) ----

type bpAnswers struct {
	byID      map[string][]string // canonical id -> response frames carrying it
	connUp    bool                // the connection demonstrably still worked after the wait (a later ping was answered on it)
	whyNotUp  string
	perCallUp map[string]bool // Streamable: per call (its own HTTP exchange completed)
	perCallNo map[string]string
}

func short(s string) string {
	if len(s) > 600 {
		return s[:300] + " ...(" + strconv.Itoa(len(s)) + " bytes)... " + s[len(s)-200:]
	}
	return s
}

// judgePressure applies the statement: exactly one answer per call, carrying the call's own id, and — where the
// answer is computed by the handler from the call's arguments — its own content; no answer of another call.
func judgePressure(r *vh.Run, tr string, calls []bpCall, a *bpAnswers, established bool, invoked map[string]int) (answered int) {
	for i := range calls {
		c := &calls[i]
		r.Eval(1)
		sig := fmt.Sprintf("C01|pressure|%s|answer=%s", tr, c.Kind)
		frames := a.byID[c.ID]
		var shown []string
		for _, f := range frames {
			shown = append(shown, short(f))
		}
		wit := map[string]interface{}{"transport": tr, "call": c, "request": short(string(c.Body)), "answers": shown, "in_flight_calls": len(calls)}
		if len(frames) == 0 {
			up, why := a.connUp, a.whyNotUp
			if a.perCallUp != nil {
				up, why = a.perCallUp[c.ID], a.perCallNo[c.ID]
			}
			if !up {
				r.Inconclusive(fmt.Sprintf("pressure %s: call %s (%s) unanswered but the connection is not known to be up: %s", tr, c.RawID, c.Kind, why))
				continue
			}
			wit["note"] = why
			r.Violation(sig+"|missing-answer", fmt.Sprintf("%s under back-pressure (%d calls in flight, peer paused reading): request id %s (answer path %s) never got an answer although the connection stayed up",
				tr, len(calls), c.RawID, c.Kind), wit)
			continue
		}
		if len(frames) > 1 {
			r.Violation(sig+"|duplicate-answer", fmt.Sprintf("%s under back-pressure: request id %s (answer path %s) got %d answers", tr, c.RawID, c.Kind, len(frames)), wit)
			continue
		}
		answered++
		f := frames[0]
		var m struct {
			Result json.RawMessage `json:"result"`
			Error  json.RawMessage `json:"error"`
		}
		if err := json.Unmarshal([]byte(f), &m); err != nil {
			r.Violation(sig+"|garbled-answer", fmt.Sprintf("%s under back-pressure: the answer to id %s is not a JSON object: %v", tr, c.RawID, err), wit)
			continue
		}
		hasRes, hasErr := len(m.Result) > 0 && string(m.Result) != "null", len(m.Error) > 0 && string(m.Error) != "null"
		if hasRes == hasErr {
			r.Violation(sig+"|no-outcome", fmt.Sprintf("%s under back-pressure: the frame answering id %s carries neither exactly a result nor an error", tr, c.RawID), wit)
			continue
		}
		foreign := ""
		for _, tok := range nonceRe.FindAllString(f, -1) {
			if tok != c.Nonce {
				foreign = tok
				break
			}
		}
		if foreign != "" {
			r.Violation(sig+"|foreign-answer", fmt.Sprintf("%s under back-pressure: the answer to id %s (nonce %s) carries the nonce %s of another call", tr, c.RawID, c.Nonce, foreign), wit)
			continue
		}
		if c.Echo {
			_, ans, isErr, err := echoAnswerOf(f)
			if err != nil || isErr || ans == nil || ans.Nonce != c.Nonce || ans.Digest != c.Digest {
				r.Violation(sig+"|not-own-result", fmt.Sprintf("%s under back-pressure: id %s did not receive the result computed from its own arguments (err=%v, jsonrpc-error=%v)", tr, c.RawID, err, isErr), wit)
				continue
			}
			if n := invoked[c.Nonce]; n != 1 {
				r.Violation(sig+"|handler-count", fmt.Sprintf("%s under back-pressure: the handler ran %d times for id %s", tr, n, c.RawID), wit)
				continue
			}
		}
		if c.Must != "" && !strings.Contains(f, c.Must) {
			r.Violation(sig+"|not-own-answer", fmt.Sprintf("%s under back-pressure: the answer to id %s does not carry %q computed from its own arguments", tr, c.RawID, c.Must), wit)
			continue
		}
		if established {
			out := "result"
			if hasErr {
				out = "error"
			}
			r.Distinct(fmt.Sprintf("pressure|%s|%s|%s", tr, c.Kind, out))
			r.SetAdd("pressure_answer_paths_"+tr, c.Kind+"->"+out)
		}
	}
	r.Count("pressure_calls_"+tr, int64(len(calls)))
	r.Count("pressure_answered_"+tr, int64(answered))
	return answered
}

func invokedCounts(calls []bpCall) map[string]int {
	want := map[string]bool{}
	for i := range calls {
		if calls[i].Echo {
			want[calls[i].Nonce] = true
		}
	}
	got := map[string]int{}
	for _, e := range kit.Events.Snapshot() {
		if e.K == "invoke" && want[e.Nonce] {
			got[e.Nonce]++
		}
	}
	return got
}

// settle waits (bounded; this only shapes the workload, it decides nothing) until cond holds, then a little longer.
func settle(d time.Duration, extra time.Duration, cond func() bool) bool {
	deadline := time.Now().Add(d)
	ok := false
	for time.Now().Before(deadline) {
		if cond() {
			ok = true
			break
		}
		time.Sleep(5 * time.Millisecond)
	}
	time.Sleep(extra)
	return ok
}

// ---- asynchronous transports: one stream carries all answers (legacy SSE, stdio) ----

type asyncPeer struct {
	log    *kit.FrameLog
	send   func(body []byte) error
	pause  func()
	resume func()
}

func isAnswerFor(f kit.Frame) (string, bool) {
	id, has, hasMethod := kit.FrameID(f.Data)
	return id, has && !hasMethod
}

// collectAsync reads the stream after the peer resumed: it keeps waiting as long as frames keep arriving; when
// nothing has arrived for `idle` (or everything is there) it sends a ping and waits for the ping's answer on the same
// stream. Only with that later answer in hand is a still missing answer called missing.
func collectAsync(p *asyncPeer, want map[string]bool, idle, hard time.Duration) *bpAnswers {
	a := &bpAnswers{byID: map[string][]string{}}
	next := 0
	start := time.Now()
	scan := func() (pending int) {
		for _, f := range p.log.Since(next) {
			next = f.Idx + 1
			if id, ok := isAnswerFor(f); ok {
				a.byID[id] = append(a.byID[id], f.Data)
			}
		}
		for id := range want {
			if len(a.byID[id]) == 0 {
				pending++
			}
		}
		return pending
	}
	for scan() > 0 {
		if p.log.Closed() {
			a.whyNotUp = "the stream ended"
			return a
		}
		if time.Since(start) > hard {
			a.whyNotUp = fmt.Sprintf("answers were still arriving after %v", hard)
			return a
		}
		if _, ok := p.log.WaitFor(next, idle, func(kit.Frame) bool { return true }); !ok {
			break // nothing for `idle`
		}
	}
	for round := 1; round <= 2; round++ {
		fid := fmt.Sprintf(`"fence-bp-%d"`, round)
		from := p.log.Len()
		if err := p.send(rpc(fid, "ping", "")); err != nil {
			a.whyNotUp = "posting a ping afterwards failed: " + err.Error()
			return a
		}
		if _, ok := p.log.WaitFor(from, idle, func(f kit.Frame) bool { id, ok := isAnswerFor(f); return ok && id == fid }); !ok {
			a.whyNotUp = fmt.Sprintf("a ping posted afterwards was not answered within %v", idle)
			return a
		}
		time.Sleep(150 * time.Millisecond)
		scan()
	}
	a.connUp = true
	a.whyNotUp = "two pings posted after the stream had drained were answered on the same stream"
	return a
}

// runAsyncPressure drives one paused-reader episode. slotsInPath = how many of the filler answers can at most sit
// between the server's writer and the paused reader (socket buffers); queue = the server-side queue to overflow.
func runAsyncPressure(r *vh.Run, tr string, p *asyncPeer, calls []bpCall, hasMW bool, slotsInPath, queue int) {
	nFill := 0
	for i := range calls {
		if calls[i].Filler {
			nFill++
		}
	}
	mwSeen.Store(0)
	mwRefused.Store(0)
	p.pause()
	resumed := false
	defer func() {
		if !resumed {
			p.resume()
		}
	}()
	for i := 0; i < nFill; i++ {
		if err := p.send(calls[i].Body); err != nil {
			r.Inconclusive(fmt.Sprintf("pressure %s: posting filler %d failed: %v", tr, i, err))
			return
		}
	}
	// all filler handlers have run and returned: their answers are on the way to a peer that does not read
	settle(30*time.Second, 250*time.Millisecond, func() bool {
		return len(invokedCounts(calls[:nFill])) >= nFill && kit.InFlight.Load() == 0
	})
	for i := nFill; i < len(calls); i++ {
		if err := p.send(calls[i].Body); err != nil {
			r.Inconclusive(fmt.Sprintf("pressure %s: posting call %d failed: %v", tr, i, err))
			return
		}
	}
	nEcho := 0
	for i := range calls {
		if calls[i].Echo {
			nEcho++
		}
	}
	settle(30*time.Second, 400*time.Millisecond, func() bool {
		if hasMW && mwSeen.Load() < int64(len(calls)) {
			return false
		}
		return len(invokedCounts(calls)) >= nEcho && kit.InFlight.Load() == 0
	})
	want := map[string]bool{}
	for i := range calls {
		want[calls[i].ID] = true
	}
	before := 0
	for _, f := range p.log.Since(0) {
		if id, ok := isAnswerFor(f); ok && want[id] {
			before++
		}
	}
	outstanding := len(calls) - before
	varied := len(calls) - nFill
	// the fillers are at the head of everything: at most slotsInPath (+1 in the writer's hand, +1 the reader took
	// before it paused) of them left the server; the rest is held back by the server, in or behind its queue
	heldByServer := outstanding - slotsInPath - 2
	established := heldByServer >= queue+varied
	r.Max("pressure_in_flight_at_resume_"+tr, int64(outstanding))
	r.Max("pressure_held_back_by_server_"+tr, int64(heldByServer))
	if !established {
		r.Inconclusive(fmt.Sprintf("pressure %s: back-pressure not established (%d unanswered at resume, at most %d in the socket path, %d needed behind it)",
			tr, outstanding, slotsInPath, queue+varied))
	}
	resumed = true
	p.resume()
	a := collectAsync(p, want, 15*time.Second, 120*time.Second)
	// stream-level: no answer to an id nobody asked for
	for id, fr := range a.byID {
		if !want[id] && id != `"init-0"` && !strings.HasPrefix(id, `"fence-bp-`) {
			r.Violation(fmt.Sprintf("C01|pressure|%s|unsolicited-response", tr), fmt.Sprintf("%s under back-pressure: response with id %s that was never requested", tr, id),
				map[string]interface{}{"frame": short(fr[0])})
		}
	}
	answered := judgePressure(r, tr, calls, a, established, invokedCounts(calls))
	if hasMW {
		r.Count("pressure_middleware_refusals_"+tr, mwRefused.Load())
	}
	r.Sample(map[string]interface{}{"scenario": "pressure", "transport": tr, "calls_in_flight": len(calls), "fillers": nFill,
		"unanswered_at_resume": outstanding, "held_back_by_server_at_least": heldByServer, "answered_after_resume": answered,
		"connection_up_afterwards": a.connUp, "how": a.whyNotUp})
}

func wmemMax() int {
	b, err := os.ReadFile("/proc/sys/net/ipv4/tcp_wmem")
	if err == nil {
		f := strings.Fields(string(b))
		if len(f) == 3 {
			if n, err := strconv.Atoi(f[2]); err == nil && n > 0 {
				return n
			}
		}
	}
	return 16 << 20
}

// legacyPressure: legacy SSE session whose event stream is not read. The peer's socket has a small fixed receive
// buffer, so what fits between the server's writer and the reader is bounded by the server's send buffer limit.
func legacyPressure(r *vh.Run, round int) {
	const tr = "L-sse"
	const rcvBuf = 32 << 10
	in := kit.Start(kit.LSSE, kit.Opts{SSEOpts: []mcp.SSEOption{mcp.WithSSEMiddleware(refuseMW)}})
	defer in.Close()
	kit.StdFixture(in)
	ctx, cancel := context.WithTimeout(context.Background(), 300*time.Second)
	defer cancel()
	hp := peer.NewHTTPPeer()
	d := &net.Dialer{Timeout: 10 * time.Second}
	tp := &http.Transport{
		DialContext: func(ctx context.Context, network, addr string) (net.Conn, error) {
			c, err := d.DialContext(ctx, network, addr)
			if tc, ok := c.(*net.TCPConn); ok && err == nil {
				_ = tc.SetReadBuffer(rcvBuf)
			}
			return c, err
		},
		MaxIdleConnsPerHost: 16, DisableCompression: true,
	}
	hp.Client.Transport = tp
	defer tp.CloseIdleConnections()
	defer hp.Close()
	s, re := hp.OpenStream(ctx, "GET", in.URL(), map[string]string{"Accept": "text/event-stream"}, 8192)
	if s == nil {
		r.Fatal("pressure L-sse: connect: status=%d err=%s", re.Status, re.Err)
	}
	defer s.Close()
	var msgURL string
	select {
	case ev, ok := <-s.Events:
		if !ok || ev.Event != "endpoint" {
			r.Fatal("pressure L-sse: first event is %q", ev.Event)
		}
		u, err := url.Parse(ev.Data)
		if err != nil {
			r.Fatal("pressure L-sse: endpoint %q: %v", ev.Data, err)
		}
		base, _ := url.Parse(in.BaseURL())
		msgURL = base.ResolveReference(u).String()
	case <-time.After(20 * time.Second):
		r.Inconclusive("pressure L-sse: no endpoint event within 20 s")
		return
	}
	log := kit.NewFrameLog()
	go func() {
		for ev := range s.Events {
			log.Add(ev.Event, ev.Data, ev.ID)
		}
		log.CloseLog()
	}()
	p := &asyncPeer{log: log, pause: s.Pause, resume: s.Resume}
	p.send = func(body []byte) error {
		re := hp.Do(ctx, "POST", msgURL, map[string]string{"Content-Type": "application/json"}, body)
		if re.Err != "" {
			return errors.New(re.Err)
		}
		if re.Status != 202 {
			return fmt.Errorf("status %d: %s", re.Status, re.BodyS)
		}
		return nil
	}
	if err := p.send(kit.InitBody(`"init-0"`, "")); err != nil {
		r.Violation("C01|pressure|L-sse|handshake", err.Error(), nil)
		return
	}
	if _, ok := log.WaitFor(0, 20*time.Second, func(f kit.Frame) bool { id, ok := isAnswerFor(f); return ok && id == `"init-0"` }); !ok {
		r.Inconclusive("pressure L-sse: initialize unanswered after 20 s")
		return
	}
	_ = p.send([]byte(kit.InitializedBody))

	const queue = 100 // sse_server.go: eventQueue
	fillPad := 128 << 10
	slots := (wmemMax()+4*rcvBuf+(64+8)<<10)/fillPad + 1
	reps, extra := r.Pick(3, 6), (round%3)*20
	nVaried := reps*len(bpKinds()) + extra
	nFill := slots + 2 + queue + nVaried + 12
	calls := buildPressureCalls(r.Rand(fmt.Sprintf("pressure-%s-%d", tr, round)), true, nFill, fillPad, reps, extra)
	runAsyncPressure(r, tr, p, calls, true, slots, queue)
}

// stdioPressure: the stdio server writes to a pipe nobody reads for a while.
func stdioPressure(r *vh.Run, round int) {
	const tr = "stdio"
	in := kit.Start(kit.Stdio, kit.Opts{})
	kit.StdFixture(in)
	inR, inW := io.Pipe()
	outR, outW := io.Pipe()
	sctx, cancel := context.WithCancel(context.Background())
	served := make(chan error, 1)
	go func() { served <- in.ServeStdio(sctx, inR, outW) }()
	var paused atomic.Bool
	log := kit.NewFrameLog()
	go func() {
		br := bufio.NewReaderSize(outR, 64<<10)
		for {
			for paused.Load() {
				select {
				case <-sctx.Done():
					log.CloseLog()
					return
				case <-time.After(2 * time.Millisecond):
				}
			}
			ln, err := br.ReadBytes('\n')
			if len(bytes.TrimSpace(ln)) > 0 && err == nil {
				log.Add("", string(bytes.TrimRight(ln, "\r\n")), "")
			}
			if err != nil {
				log.CloseLog()
				return
			}
		}
	}()
	defer func() {
		inW.Close()
		select {
		case <-served:
		case <-time.After(3 * time.Second):
		}
		cancel()
		outR.CloseWithError(io.ErrClosedPipe) // writers still parked in the pipe return
	}()
	var wmu sync.Mutex
	p := &asyncPeer{log: log, pause: func() { paused.Store(true) }, resume: func() { paused.Store(false) }}
	p.send = func(body []byte) error {
		wmu.Lock()
		defer wmu.Unlock()
		_, err := inW.Write(append(append([]byte{}, body...), '\n'))
		return err
	}
	if err := p.send(kit.InitBody(`"init-0"`, "")); err != nil {
		r.Fatal("pressure stdio: %v", err)
	}
	if _, ok := log.WaitFor(0, 20*time.Second, func(f kit.Frame) bool { id, ok := isAnswerFor(f); return ok && id == `"init-0"` }); !ok {
		r.Inconclusive("pressure stdio: initialize unanswered after 20 s")
		return
	}
	_ = p.send([]byte(kit.InitializedBody))
	reps := r.Pick(3, 6)
	// the pipe has no capacity at all: one frame (partly) in the reader's buffer, everything else waits in the server
	calls := buildPressureCalls(r.Rand(fmt.Sprintf("pressure-%s-%d", tr, round)), false, 110, 32<<10, reps, (round%3)*20)
	runAsyncPressure(r, tr, p, calls, false, 2, 100)
	// every stdout line is one JSON object (concurrent writers parked on a blocked pipe must not interleave)
	for _, f := range log.Since(0) {
		var one map[string]json.RawMessage
		if err := json.Unmarshal([]byte(f.Data), &one); err != nil {
			r.Violation("C01|pressure|stdio|mangled-line", fmt.Sprintf("stdio under back-pressure: stdout line %d is not one JSON object (%v)", f.Idx, err),
				map[string]interface{}{"line": short(f.Data)})
		}
	}
}

// ---- Streamable HTTP: the answer travels on the POST's own response; the peer does not read the bodies ----

func streamablePressure(r *vh.Run, kind kit.Kind, round int) {
	tr := string(kind)
	in := kit.Start(kind, kit.Opts{ServerOpts: []mcp.ServerOption{mcp.WithMiddleware(refuseMW)}})
	defer in.Close()
	kit.StdFixture(in)
	ctx, cancel := context.WithTimeout(context.Background(), 300*time.Second)
	defer cancel()
	c, err := in.Dial(ctx)
	if err != nil {
		r.Fatal("pressure %s: dial: %v", tr, err)
	}
	defer c.Close()
	if err := c.Handshake(ctx); err != nil {
		r.Violation(fmt.Sprintf("C01|pressure|%s|handshake", tr), err.Error(), nil)
		return
	}
	const rcvBuf = 32 << 10
	d := &net.Dialer{Timeout: 20 * time.Second}
	tp := &http.Transport{
		DialContext: func(ctx context.Context, network, addr string) (net.Conn, error) {
			cn, err := d.DialContext(ctx, network, addr)
			if tc, ok := cn.(*net.TCPConn); ok && err == nil {
				_ = tc.SetReadBuffer(rcvBuf)
			}
			return cn, err
		},
		MaxIdleConnsPerHost: 512, DisableCompression: true,
	}
	defer tp.CloseIdleConnections()
	hc := &http.Client{Transport: tp}
	hdr := map[string]string{"Content-Type": "application/json", "Accept": "application/json"}
	if kind == kit.SSSE || kind == kit.SLSSE {
		hdr["Accept"] = "application/json, text/event-stream"
	}
	if c.SessionID != "" {
		hdr["Mcp-Session-Id"] = c.SessionID
	}
	reps := r.Pick(3, 6)
	// "fillers" here are simply more large answers: each parks its handler in Write on its own connection
	calls := buildPressureCalls(r.Rand(fmt.Sprintf("pressure-%s-%d", tr, round)), true, r.Pick(60, 120), 256<<10, reps, (round%3)*20)
	mwSeen.Store(0)
	mwRefused.Store(0)
	resume := make(chan struct{})
	type got struct {
		re   *peer.Reaction
		held bool // the response head was in while the bodies were not being read
	}
	outs := make([]got, len(calls))
	var hdrWG, wg sync.WaitGroup
	var heldN atomic.Int64
	for i := range calls {
		hdrWG.Add(1)
		wg.Add(1)
		go func(i int) {
			defer wg.Done()
			req, _ := http.NewRequestWithContext(ctx, "POST", in.URL(), bytes.NewReader(calls[i].Body))
			for k, v := range hdr {
				req.Header.Set(k, v)
			}
			resp, err := hc.Do(req)
			select {
			case <-resume:
			default:
				outs[i].held = err == nil
				if err == nil {
					heldN.Add(1)
				}
			}
			hdrWG.Done()
			if err != nil {
				outs[i].re = &peer.Reaction{Err: err.Error()}
				return
			}
			defer resp.Body.Close()
			<-resume
			re := &peer.Reaction{Status: resp.StatusCode, Header: resp.Header, CT: resp.Header.Get("Content-Type"), Sess: resp.Header.Get("Mcp-Session-Id")}
			if strings.Contains(re.CT, "text/event-stream") {
				re.IsSSE = true
				sr := peer.NewSSEReader(resp.Body)
				for {
					ev, err := sr.Next()
					if err != nil {
						if !errors.Is(err, io.EOF) && !errors.Is(err, io.ErrUnexpectedEOF) {
							re.Err = err.Error()
						}
						break
					}
					re.Events = append(re.Events, *ev)
				}
			} else {
				b, err := io.ReadAll(resp.Body)
				if err != nil {
					re.Err = err.Error()
				}
				re.Body = b
				re.BodyS = short(string(b))
			}
			outs[i].re = re
		}(i)
	}
	allHeads := make(chan struct{})
	go func() { hdrWG.Wait(); close(allHeads) }()
	select {
	case <-allHeads:
	case <-time.After(60 * time.Second):
	}
	nEcho := 0
	for i := range calls {
		if calls[i].Echo {
			nEcho++
		}
	}
	settle(20*time.Second, 300*time.Millisecond, func() bool {
		return mwSeen.Load() >= int64(len(calls)) && len(invokedCounts(calls)) >= nEcho && kit.InFlight.Load() == 0
	})
	held := int(heldN.Load())
	close(resume)
	wg.Wait()
	established := held >= 100
	r.Max("pressure_in_flight_at_resume_"+tr, int64(held))
	if !established {
		r.Inconclusive(fmt.Sprintf("pressure %s: only %d of %d responses were pending unread at the same time", tr, held, len(calls)))
	}
	a := &bpAnswers{byID: map[string][]string{}, perCallUp: map[string]bool{}, perCallNo: map[string]string{}}
	for i := range calls {
		call := &calls[i]
		re := outs[i].re
		if re == nil || re.Err != "" {
			why := "no reaction"
			if re != nil {
				why = "the HTTP exchange failed: " + re.Err
			}
			a.perCallNo[call.ID] = why
			continue
		}
		// the exchange ran to its orderly end: what it carried is all this call will ever get
		a.perCallUp[call.ID] = true
		a.perCallNo[call.ID] = fmt.Sprintf("the POST's response ended in order: status %d, content type %q, body %s", re.Status, re.CT, short(string(re.Body)))
		for _, f := range re.Frames() {
			id, has, hasMethod := kit.FrameID(f)
			if !has || hasMethod {
				continue
			}
			if id != call.ID {
				r.Violation(fmt.Sprintf("C01|pressure|%s|answer=%s|id-changed", tr, call.Kind),
					fmt.Sprintf("%s under back-pressure: the response to request id %s carries id %s", tr, call.RawID, id), map[string]interface{}{"call": call, "frame": short(f)})
				continue
			}
			a.byID[call.ID] = append(a.byID[call.ID], f)
		}
	}
	answered := judgePressure(r, tr, calls, a, established, invokedCounts(calls))
	r.Count("pressure_middleware_refusals_"+tr, mwRefused.Load())
	r.Sample(map[string]interface{}{"scenario": "pressure", "transport": tr, "calls_in_flight": len(calls),
		"responses_pending_unread_together": held, "answered_after_resume": answered})
}

// pressureScenarios runs the episode on every transport.
func pressureScenarios(r *vh.Run) {
	rounds := r.Pick(1, 6)
	for round := 0; round < rounds; round++ {
		kit.Events.Reset()
		legacyPressure(r, round)
		kit.Events.Reset()
		stdioPressure(r, round)
		for _, kind := range kit.StreamableKinds {
			kit.Events.Reset()
			streamablePressure(r, kind, round)
		}
	}
}
