// C01 — "any number of requests in flight at once on one client or across many clients".
//
// The other scenarios keep at most a few dozen exchanges open per server, and their barriers open after a wait whatever
// the number of handlers that arrived: a cap on simultaneous exchanges (connection pool limit, semaphore, worker pool,
// bounded queue in front of the handlers) merely serialises such calls and nothing is visible. Here the calls do not
// complete until the others have ARRIVED:
//
//	(a) one library client, N calls in flight (N well above usual pool sizes) to a tool whose handlers rendezvous on
//	    the server: none returns before all N are inside the handler;
//	(b) M library clients in one process, each holding its listening stream open, then one such call from each.
//
// When fewer than N handlers arrive and nothing moves any more, the round is judged on logical facts: every call was
// issued, the handlers that arrived are all still parked (nobody is computing), the number of arrivals does not change
// while a library-free peer on a SEPARATE connection performs a whole handshake and a tool call against the same server
// (stdio, which has one connection only: a ListTools on the same client, behind the calls in the pipe). Then the
// remaining calls never reached a healthy, idle server: they get nothing while their connection is up.
package main

import (
	"bytes"
	"context"
	"encoding/json"
	"fmt"
	"io"
	"net/http"
	"os"
	"path/filepath"
	"strings"
	"sync"
	"sync/atomic"
	"syscall"
	"time"

	mcp "trpc.group/trpc-go/trpc-mcp-go"

	"verifharness/lib/kit"
	"verifharness/lib/vh"
)

const rvFixture = "c01-rv"

func init() { kit.Fixtures[rvFixture] = rvFixtureFn }

// rvGroup is one rendezvous: handlers park until `want` of them arrived (or the harness opens it).
type rvGroup struct {
	mu        sync.Mutex
	arrived   int
	parked    int
	maxParked int
	perNonce  map[string]int
	release   chan struct{}
	open      bool
	polling   bool
}

var (
	rvMu     sync.Mutex
	rvGroups = map[string]*rvGroup{}
)

func rvGet(name string) *rvGroup {
	rvMu.Lock()
	defer rvMu.Unlock()
	g := rvGroups[name]
	if g == nil {
		g = &rvGroup{perNonce: map[string]int{}, release: make(chan struct{})}
		rvGroups[name] = g
	}
	return g
}

func rvDrop(name string) {
	rvMu.Lock()
	delete(rvGroups, name)
	rvMu.Unlock()
}

func (g *rvGroup) Open() {
	g.mu.Lock()
	if !g.open {
		g.open = true
		close(g.release)
	}
	g.mu.Unlock()
}

func (g *rvGroup) snap() (arrived, parked, maxParked int) {
	g.mu.Lock()
	defer g.mu.Unlock()
	return g.arrived, g.parked, g.maxParked
}

func rvFixtureFn(in *kit.Instance) {
	kit.StdFixture(in)
	in.RegisterTool(mcp.NewTool("rv", mcp.WithDescription("rendezvous, then echo nonce and digest of payload"),
		mcp.WithString("nonce", mcp.Required()), mcp.WithString("payload"), mcp.WithString("group"), mcp.WithNumber("want"), mcp.WithString("relfile")),
		func(ctx context.Context, req *mcp.CallToolRequest) (*mcp.CallToolResult, error) {
			a := req.Params.Arguments
			nonce, _ := a["nonce"].(string)
			payload, _ := a["payload"].(string)
			group, _ := a["group"].(string)
			relfile, _ := a["relfile"].(string)
			wantF, _ := a["want"].(float64)
			g := rvGet(group)
			g.mu.Lock()
			g.arrived++
			g.parked++
			if g.parked > g.maxParked {
				g.maxParked = g.parked
			}
			g.perNonce[nonce]++
			full := g.arrived >= int(wantF)
			startPoll := relfile != "" && !g.polling
			if startPoll {
				g.polling = true
			}
			g.mu.Unlock()
			kit.Events.Add("rv-arrive", nonce, nil)
			if full {
				g.Open()
			}
			if startPoll { // child process: the parent releases by creating a file
				go func() {
					for i := 0; i < 200*150; i++ {
						if _, err := os.Stat(relfile); err == nil {
							g.Open()
							return
						}
						time.Sleep(5 * time.Millisecond)
					}
				}()
			}
			how := "released"
			select {
			case <-g.release:
			case <-ctx.Done():
				how = "ctx"
			case <-time.After(150 * time.Second):
				how = "safety"
			}
			g.mu.Lock()
			g.parked--
			g.mu.Unlock()
			kit.Events.Add("rv-leave", nonce, how)
			b, _ := json.Marshal(kit.EchoAnswer{Nonce: nonce, Digest: kit.Digest(payload), Len: len(payload)})
			return mcp.NewTextResult(string(b)), nil
		})
}

// httpObs counts what reaches the HTTP server, in front of the library's handler.
type httpObs struct {
	mu    sync.Mutex
	gets  int
	posts map[string]int // JSON-RPC method -> arrivals
}

func (o *httpObs) wrap(h http.Handler) http.Handler {
	return http.HandlerFunc(func(w http.ResponseWriter, r *http.Request) {
		switch r.Method {
		case http.MethodGet:
			o.mu.Lock()
			o.gets++
			o.mu.Unlock()
		case http.MethodPost:
			body, _ := io.ReadAll(r.Body)
			r.Body.Close()
			r.Body = io.NopCloser(bytes.NewReader(body))
			var m struct {
				Method string `json:"method"`
				Params struct {
					ClientInfo struct {
						Name string `json:"name"`
					} `json:"clientInfo"`
				} `json:"params"`
			}
			_ = json.Unmarshal(body, &m)
			if m.Method == "initialize" && m.Params.ClientInfo.Name != kit.ClientInfo.Name {
				m.Method = "initialize(other peer)" // the probe's own handshake is not a library client's
			}
			o.mu.Lock()
			o.posts[m.Method]++
			o.mu.Unlock()
		}
		h.ServeHTTP(w, r)
	})
}

func (o *httpObs) get() (gets int, inits int) {
	o.mu.Lock()
	defer o.mu.Unlock()
	return o.gets, o.posts["initialize"]
}

func startObserved(kind kit.Kind) (*kit.Instance, *httpObs) {
	in := kit.Start(kind, kit.Opts{})
	obs := &httpObs{posts: map[string]int{}}
	in.TS.Config.Handler = obs.wrap(in.TS.Config.Handler) // before the first connection is made
	rvFixtureFn(in)
	return in, obs
}

// probeHTTP: a library-free peer on its own connection does a whole handshake and one echo call.
func probeHTTP(in *kit.Instance, tag string) bool {
	ctx, cancel := context.WithTimeout(context.Background(), 20*time.Second)
	defer cancel()
	c, err := in.Dial(ctx)
	if err != nil {
		return false
	}
	defer c.Close()
	if err := c.Handshake(ctx); err != nil {
		return false
	}
	id := `"probe-` + tag + `"`
	ex := c.Post(ctx, kit.EchoCallBody(id, "probe-"+tag, "probe-payload", nil), kit.PostOpts{WantID: kit.CanonID(json.RawMessage(id)), Wait: 15 * time.Second})
	for _, f := range ex.Frames {
		if fid, has, hm := kit.FrameID(f); has && !hm && fid == kit.CanonID(json.RawMessage(id)) {
			if _, ans, isErr, err := echoAnswerOf(f); err == nil && !isErr && ans != nil && ans.Nonce == "probe-"+tag {
				return true
			}
		}
	}
	return false
}

func fdLimit() int {
	var lim syscall.Rlimit
	if err := syscall.Getrlimit(syscall.RLIMIT_NOFILE, &lim); err != nil {
		return 1024
	}
	if lim.Cur > 1<<20 {
		return 1 << 20
	}
	return int(lim.Cur)
}

type rvCall struct {
	ci      int
	nonce   string
	payload string
	ans     *kit.EchoAnswer
	err     error
	ret     bool
	panicky string
}

// evCounts reads the child's event file: arrivals, handlers still inside, per-nonce arrivals, max simultaneous.
func evCounts(path string) (arrived, parked, maxParked int, per map[string]int) {
	per = map[string]int{}
	for _, e := range kit.LoadEvFile(path) {
		switch e.K {
		case "rv-arrive":
			arrived++
			parked++
			per[e.Nonce]++
			if parked > maxParked {
				maxParked = parked
			}
		case "rv-leave":
			parked--
		}
	}
	return
}

const (
	rvStall    = 10 * time.Second // no new arrival for this long (all calls issued) -> look at the facts
	rvOverall  = 75 * time.Second
	rvReturnWD = 60 * time.Second
)

// rendezvousRound: every client issues `per` rv calls at once; want = all of them inside the handler together.
// Returns true when a cap on simultaneous exchanges was established.
func rendezvousRound(r *vh.Run, scen string, kind kit.Kind, class string, in *kit.Instance, clients []*kit.LibClient, per int, evfile string, tag string) bool {
	total := len(clients) * per
	group := fmt.Sprintf("rv-%s-%s-%s", scen, kind, tag)
	relfile := ""
	if kind == kit.Stdio {
		relfile = filepath.Join(r.OutDir, group+".release")
		os.Remove(relfile)
		defer os.Remove(relfile)
	}
	g := rvGet(group)
	defer rvDrop(group)
	rng := r.Rand("inflight-payload-" + group)
	calls := make([]rvCall, total)
	ctx, cancel := context.WithCancel(context.Background())
	defer cancel()
	var issued, returned atomic.Int64
	var wg sync.WaitGroup
	for ci := range clients {
		for j := 0; j < per; j++ {
			i := ci*per + j
			calls[i] = rvCall{ci: ci, nonce: fmt.Sprintf("%s-%d-%d", group, ci, j), payload: fmt.Sprintf("rvp-%d-%d", i, rng.Int63())}
		}
	}
	for i := range calls {
		wg.Add(1)
		go func(x *rvCall, c *kit.LibClient) {
			defer wg.Done()
			defer returned.Add(1)
			defer func() {
				if p := recover(); p != nil {
					x.panicky = fmt.Sprint(p)
				}
			}()
			req := &mcp.CallToolRequest{}
			req.Params.Name = "rv"
			args := map[string]interface{}{"nonce": x.nonce, "payload": x.payload, "group": group, "want": total}
			if relfile != "" {
				args["relfile"] = relfile
			}
			req.Params.Arguments = args
			cctx, ccancel := context.WithTimeout(ctx, 140*time.Second)
			defer ccancel()
			issued.Add(1)
			out, err := c.CallTool(cctx, req)
			x.ret = true
			if err != nil {
				x.err = err
				return
			}
			if out != nil && len(out.Content) == 1 {
				if tc, ok := out.Content[0].(mcp.TextContent); ok {
					var a kit.EchoAnswer
					if json.Unmarshal([]byte(tc.Text), &a) == nil {
						x.ans = &a
					}
				}
			}
		}(&calls[i], clients[calls[i].ci])
	}
	counts := func() (arrived, parked, maxParked int) {
		if kind == kit.Stdio {
			a, p, m, _ := evCounts(evfile)
			return a, p, m
		}
		return g.snap()
	}
	poll := time.Millisecond
	if kind == kit.Stdio {
		poll = 20 * time.Millisecond
	}
	start, lastChange, last := time.Now(), time.Now(), -1
	full, stalled := false, false
	for {
		a, _, _ := counts()
		if a >= total {
			full = true
			break
		}
		if a != last {
			last, lastChange = a, time.Now()
		}
		if int(issued.Load()) == total && time.Since(lastChange) > rvStall {
			stalled = true
			break
		}
		if time.Since(start) > rvOverall {
			break
		}
		time.Sleep(poll)
	}
	capped := false
	var a1, p1, a2, p2 int
	probe := "not-run"
	earlyReturns := int64(0)
	if !full {
		if stalled {
			a1, p1, _ = counts()
			earlyReturns = returned.Load()
			ok := false
			if kind == kit.Stdio {
				pctx, pcancel := context.WithTimeout(context.Background(), 20*time.Second)
				lt, err := clients[0].ListTools(pctx, &mcp.ListToolsRequest{})
				pcancel()
				ok = err == nil && lt != nil && len(lt.Tools) > 0
			} else {
				ok = probeHTTP(in, group)
			}
			probe = map[bool]string{true: "answered", false: "failed"}[ok]
			a2, p2, _ = counts()
			capped = ok && a1 == a2 && a2 < total && p1 == a1 && p2 == a2 && int(issued.Load()) == total
		}
		if !capped {
			r.Inconclusive(fmt.Sprintf("%s %s %s: only %d of %d handlers arrived (stalled=%v, probe %s, arrivals %d->%d, parked %d->%d): no verdict", scen, kind, class, a2, total, stalled, probe, a1, a2, p1, p2))
		}
		// release whoever is parked
		if relfile != "" {
			os.WriteFile(relfile, []byte("open"), 0o644)
		}
		g.Open()
	}
	done := make(chan struct{})
	go func() { wg.Wait(); close(done) }()
	hung := false
	select {
	case <-done:
	case <-time.After(rvReturnWD):
		hung = true
		cancel()
		select {
		case <-done:
		case <-time.After(15 * time.Second):
		}
	}
	time.Sleep(20 * time.Millisecond)
	aEnd, _, maxParked := counts()
	perNonce := map[string]int{}
	if kind == kit.Stdio {
		_, _, _, perNonce = evCounts(evfile)
	} else {
		g.mu.Lock()
		for k, v := range g.perNonce {
			perNonce[k] = v
		}
		g.mu.Unlock()
	}
	r.Eval(total)
	r.Count(fmt.Sprintf("inflight_rounds|%s|%s|%s", scen, kind, class), 1)
	r.Max(fmt.Sprintf("inflight_max_simultaneous_handlers|%s|%s", scen, kind), int64(maxParked))
	sigBase := fmt.Sprintf("C01|%s|%s|%s", scen, kind, class)
	if capped {
		var withheld []string
		nErr, nOK := 0, 0
		for _, x := range calls {
			if perNonce[x.nonce] == 0 && len(withheld) < 5 {
				withheld = append(withheld, fmt.Sprintf("%s -> err=%v", x.nonce, x.err))
			}
			if x.err != nil {
				nErr++
			} else if x.ans != nil {
				nOK++
			}
		}
		r.Violation(sigBase+"|call-never-reached-server",
			fmt.Sprintf("%s, %s, %d client(s) x %d calls in flight: only %d of the %d requests reached the server; the %d handlers that arrived were all parked at the rendezvous (server idle), a separate peer was served a handshake and a call meanwhile (%s), and the number of arrivals did not move: the other %d calls got nothing while their connection was up (after the rendezvous was opened by hand %d more arrived; %d calls ended with an error)",
				scen, kind, len(clients), per, a2, total, p2, probe, total-a2, aEnd-a2, nErr),
			map[string]interface{}{"scenario": scen, "kind": kind, "clients": len(clients), "calls_per_client": per, "issued": issued.Load(), "arrived_at_server": a2, "parked_handlers": p2,
				"calls_returned_before_release": earlyReturns, "probe": probe, "arrived_after_manual_release": aEnd - a2, "calls_failed": nErr, "calls_ok": nOK, "withheld_sample": withheld, "hung_after_release": hung})
	}
	// per-call checks: what came back must be the call's own; a failure is judged only when all were in flight together
	clean := full && !hung
	for _, x := range calls {
		wit := map[string]interface{}{"scenario": scen, "kind": kind, "clients": len(clients), "calls_per_client": per, "nonce": x.nonce, "err": fmt.Sprint(x.err), "answer": x.ans, "handler_runs": perNonce[x.nonce]}
		switch {
		case x.panicky != "":
			r.Violation(sigBase+"|panic-in-caller", fmt.Sprintf("%s %s: CallTool panicked in the caller's goroutine: %s", scen, kind, x.panicky), wit)
			clean = false
		case !x.ret:
			clean = false
			if full {
				r.Inconclusive(fmt.Sprintf("%s %s %s: call %s did not return within the watchdog after all %d handlers had met", scen, kind, class, x.nonce, total))
			}
		case x.err != nil:
			clean = false
			if full && !hung && perNonce[x.nonce] == 1 {
				r.Violation(sigBase+"|call-failed", fmt.Sprintf("%s %s: all %d requests were in flight together and every handler returned, but call %s ended with: %v", scen, kind, total, x.nonce, x.err), wit)
			}
		case x.ans == nil:
			clean = false
			r.Violation(sigBase+"|bad-answer", fmt.Sprintf("%s %s: call %s returned an unusable result", scen, kind, x.nonce), wit)
		case x.ans.Nonce != x.nonce || x.ans.Digest != kit.Digest(x.payload):
			clean = false
			r.Violation(sigBase+"|foreign-answer", fmt.Sprintf("%s %s: call %s received the answer of %s", scen, kind, x.nonce, x.ans.Nonce), wit)
		}
		if perNonce[x.nonce] > 1 || (x.ret && x.err == nil && perNonce[x.nonce] != 1) {
			clean = false
			r.Violation(sigBase+"|handler-count", fmt.Sprintf("%s %s: handler ran %d times for call %s", scen, kind, perNonce[x.nonce], x.nonce), wit)
		}
	}
	if clean && maxParked >= total {
		r.Distinct(fmt.Sprintf("%s|%s|%s", scen, kind, class))
		r.Count("inflight_calls_verified", int64(total))
		if sampleOnce(scen) {
			r.Sample(map[string]interface{}{"scenario": scen, "kind": kind, "clients": len(clients), "calls_per_client": per, "handlers_inside_together": maxParked, "first": calls[0].nonce})
		}
	}
	return capped
}

// oneClientRound: scenario (a).
func oneClientRound(r *vh.Run, kind kit.Kind, n int, class, tag string) bool {
	kit.Events.Reset()
	var in *kit.Instance
	var c *kit.LibClient
	var err error
	evfile := ""
	if kind == kit.Stdio {
		evfile = filepath.Join(r.OutDir, fmt.Sprintf("inflight-ev-%s.ndjson", tag))
		os.Remove(evfile)
		defer os.Remove(evfile)
		c, err = kit.NewStdioClient(rvFixture, map[string]string{"VH_EVLOG": evfile}, 150*time.Second)
	} else {
		in, _ = startObserved(kind)
		defer in.Close()
		c, err = in.NewClient()
	}
	if err != nil {
		r.Fatal("inflight client %s: %v", kind, err)
	}
	defer c.Close()
	ictx, icancel := context.WithTimeout(context.Background(), 30*time.Second)
	_, err = c.Initialize(ictx, &mcp.InitializeRequest{})
	icancel()
	if err != nil {
		r.Violation(fmt.Sprintf("C01|inflight|%s|handshake-failed", kind), err.Error(), nil)
		return false
	}
	return rendezvousRound(r, "inflight", kind, class, in, []*kit.LibClient{c}, n, evfile, tag)
}

// manyClientsRound: scenario (b). M clients, each with its listening stream open, one call each.
func manyClientsRound(r *vh.Run, kind kit.Kind, m int, class, tag string) bool {
	kit.Events.Reset()
	in, obs := startObserved(kind)
	defer in.Close()
	var clients []*kit.LibClient
	defer func() {
		var wg sync.WaitGroup
		for _, c := range clients {
			wg.Add(1)
			go func(c *kit.LibClient) { defer wg.Done(); c.Close() }(c)
		}
		done := make(chan struct{})
		go func() { wg.Wait(); close(done) }()
		select {
		case <-done:
		case <-time.After(20 * time.Second):
		}
	}()
	wantsStream := kind.Stateful() || kind == kit.LSSE
	streams := 0
	for i := 0; i < m; i++ {
		c, err := in.NewClient()
		if err != nil {
			r.Fatal("many-clients client %s: %v", kind, err)
		}
		clients = append(clients, c)
		ictx, icancel := context.WithTimeout(context.Background(), 12*time.Second)
		_, err = c.Initialize(ictx, &mcp.InitializeRequest{})
		icancel()
		if err != nil {
			// did the initialize request reach the server at all?
			_, inits1 := obs.get()
			ok := probeHTTP(in, fmt.Sprintf("%s-init-%d", tag, i))
			_, inits2 := obs.get()
			wit := map[string]interface{}{"kind": kind, "clients_initialized": i, "listening_streams_at_server": streams, "initialize_requests_at_server": inits2, "probe_answered": ok, "err": err.Error()}
			// (the legacy client's initialize POST follows the GET of its event stream: no initialize, no complete handshake either way)
			reached := inits2 >= i+1
			switch {
			case ok && !reached && inits1 == inits2:
				r.Violation(fmt.Sprintf("C01|many-clients|%s|%s|initialize-never-reached-server", kind, class),
					fmt.Sprintf("many-clients %s: %d clients are initialized and hold their listening streams; Initialize of client %d ended with %q although its request never reached the server (%d initialize requests seen there), which meanwhile served a separate peer a handshake and a call", kind, i, i, err.Error(), inits2), wit)
				r.Eval(1)
				return true
			case ok && !strings.Contains(err.Error(), "deadline") && !strings.Contains(err.Error(), "context"):
				r.Violation(fmt.Sprintf("C01|many-clients|%s|handshake-failed", kind), fmt.Sprintf("many-clients %s: Initialize of client %d failed: %v", kind, i, err), wit)
			default:
				r.Inconclusive(fmt.Sprintf("many-clients %s %s: Initialize of client %d ended with %v (request reached the server: %v, probe answered: %v)", kind, class, i, err, reached, ok))
			}
			return false
		}
		if wantsStream { // the listening stream is opened in the background: wait until it reached the server
			for dl := time.Now().Add(5 * time.Second); time.Now().Before(dl); {
				if gets, _ := obs.get(); gets >= i+1 {
					break
				}
				time.Sleep(time.Millisecond)
			}
			streams, _ = obs.get()
		}
	}
	if wantsStream {
		r.Max(fmt.Sprintf("many_clients_listening_streams|%s", kind), int64(streams))
		if streams < m {
			r.Inconclusive(fmt.Sprintf("many-clients %s %s: only %d of %d listening streams reached the server", kind, class, streams, m))
		}
	}
	return rendezvousRound(r, "many-clients", kind, class, in, clients, 1, "", tag)
}

func inflightScenarios(r *vh.Run) {
	limit := fdLimit()
	rng := r.Rand("inflight-sizes")
	basesA := []int{8, 33, 65, 129}
	basesB := []int{8, 33, 65}
	if !r.Quick() {
		basesA = append(basesA, 257)
		basesB = append(basesB, 129)
	}
	reps := r.Pick(1, 2)
	for rep := 0; rep < reps; rep++ {
		for _, kind := range kit.AllKinds {
			capped := false
			for _, b := range basesA {
				n := b + rng.Intn(4)
				class := fmt.Sprintf("n=%d..%d", b, b+3)
				if capped {
					r.Count("inflight_skipped_after_violation", 1)
					continue
				}
				if 2*n+128 > limit {
					r.Count("inflight_skipped_fd_limit", 1)
					continue
				}
				capped = oneClientRound(r, kind, n, class, fmt.Sprintf("a%d-%d", rep, b))
			}
		}
		for _, kind := range kit.AllKinds {
			if kind == kit.Stdio {
				continue // one child process per client: (a) covers the transport
			}
			capped := false
			for _, b := range basesB {
				m := b + rng.Intn(4)
				class := fmt.Sprintf("m=%d..%d", b, b+3)
				if capped {
					r.Count("inflight_skipped_after_violation", 1)
					continue
				}
				if 4*m+128 > limit {
					r.Count("inflight_skipped_fd_limit", 1)
					continue
				}
				capped = manyClientsRound(r, kind, m, class, fmt.Sprintf("b%d-%d", rep, b))
			}
		}
	}
}
