// C01 — every call gets exactly one answer, and it is its own.
package main

import (
	"context"
	"encoding/json"
	"fmt"
	"os"
	"path/filepath"
	"strings"
	"sync"
	"time"

	mcp "trpc.group/trpc-go/trpc-mcp-go"

	"verifharness/lib/kit"
	"verifharness/lib/vh"
)

type idClass struct {
	Class string
	Raw   string // raw JSON
}

func idClasses(base int) []idClass {
	return []idClass{
		{"small-int", fmt.Sprintf("%d", base)},
		{"int-999999", "999999"}, {"int-1e6", "1000000"}, {"int-1e6+1", "1000001"},
		{"int-2^31-1", "2147483647"}, {"int-2^31+1", "2147483649"},
		{"int-2^53-1", "9007199254740991"}, {"int-2^53", "9007199254740992"},
		{"int-0", "0"}, {"int-neg", "-7"},
		{"str-digit", `"1"`}, {"str-leading-zero", `"01"`}, {"str-1e+06", `"1e+06"`},
		{"str-nonascii", `"идентификатор-✓"`}, {"str-plain", `"req-a"`},
		{"str-same-as-int", fmt.Sprintf(`"%d"`, base)},
	}
}

type rawCall struct {
	RawID   string
	Class   string
	Nonce   string
	Digest  string
	WantErr bool
}

func echoAnswerOf(frame string) (id string, ans *kit.EchoAnswer, isErr bool, err error) {
	var m struct {
		JSONRPC string          `json:"jsonrpc"`
		ID      json.RawMessage `json:"id"`
		Result  *struct {
			Content []struct {
				Type string `json:"type"`
				Text string `json:"text"`
			} `json:"content"`
		} `json:"result"`
		Error json.RawMessage `json:"error"`
	}
	if e := json.Unmarshal([]byte(frame), &m); e != nil {
		return "", nil, false, e
	}
	id = kit.CanonID(m.ID)
	if m.Error != nil {
		return id, nil, true, nil
	}
	if m.Result == nil || len(m.Result.Content) != 1 {
		return id, nil, false, fmt.Errorf("unexpected result shape")
	}
	var a kit.EchoAnswer
	if e := json.Unmarshal([]byte(m.Result.Content[0].Text), &a); e != nil {
		return id, nil, false, e
	}
	return id, &a, false, nil
}

// rawScenario: one raw session, calls in flight at once, ids from all classes.
func rawScenario(r *vh.Run, kind kit.Kind, regime string, n int, round int) {
	in := kit.Start(kind, kit.Opts{})
	defer in.Close()
	kit.StdFixture(in)
	ctx, cancel := context.WithTimeout(context.Background(), 120*time.Second)
	defer cancel()
	c, err := in.Dial(ctx)
	if err != nil {
		r.Fatal("dial %s: %v", kind, err)
	}
	defer c.Close()
	if err := c.Handshake(ctx); err != nil {
		r.Violation(fmt.Sprintf("C01|raw-handshake|%s|failed", kind), err.Error(), nil)
		return
	}
	rng := r.Rand(fmt.Sprintf("raw-%s-%s-%d", kind, regime, round))
	classes := idClasses(100 + round)
	var calls []rawCall
	var payloads []string
	used := map[string]bool{}
	for i := 0; i < n; i++ {
		var ic idClass
		if i < len(classes) {
			ic = classes[i]
		} else {
			ic = idClass{"seq-int", fmt.Sprintf("%d", 5000+i)}
			if rng.Intn(3) == 0 {
				ic = idClass{"seq-str", fmt.Sprintf(`"s-%d"`, i)}
			}
		}
		if used[ic.Raw] {
			continue
		}
		used[ic.Raw] = true
		payload := fmt.Sprintf("payload-%s-%d-%d", kind, round, rng.Int63())
		payloads = append(payloads, payload)
		calls = append(calls, rawCall{RawID: ic.Raw, Class: ic.Class, Nonce: fmt.Sprintf("raw-%s-%s-%d-%d", kind, regime, round, i), Digest: kit.Digest(payload)})
	}
	gate := fmt.Sprintf("gate-%s-%s-%d", kind, regime, round)
	kit.MaxInFlight.Store(0)
	type outcome struct {
		call   rawCall
		frames []string
		status int
		timed  bool
		herr   string
	}
	outs := make([]outcome, len(calls))
	var wg sync.WaitGroup
	for i := range calls {
		extra := map[string]interface{}{}
		switch regime {
		case "delay":
			extra["delay_us"] = rng.Intn(3000)
		case "barrier":
			extra["gate"] = gate
		}
		body := kit.EchoCallBody(calls[i].RawID, calls[i].Nonce, payloads[i], extra)
		if i%5 == 4 {
			calls[i].WantErr = true
			body = []byte(fmt.Sprintf(`{"jsonrpc":"2.0","id":%s,"method":"tools/call","params":{"name":"fail","arguments":{"nonce":%q}}}`, calls[i].RawID, calls[i].Nonce))
		}
		wg.Add(1)
		go func(i int, body []byte) {
			defer wg.Done()
			ex := c.Post(ctx, body, kit.PostOpts{WantID: kit.CanonID(json.RawMessage(calls[i].RawID)), Wait: 20 * time.Second})
			o := outcome{call: calls[i], frames: ex.Frames, timed: ex.TimedOut}
			if ex.HTTP != nil {
				o.status = ex.HTTP.Status
				o.herr = ex.HTTP.Err
			}
			outs[i] = o
		}(i, body)
	}
	if regime == "barrier" {
		nGated := 0
		for i := range calls {
			if i%5 != 4 {
				nGated++
			}
		}
		got := kit.G.AwaitWaiters(gate, nGated, 15*time.Second)
		r.Max("overlap_"+string(kind), int64(got))
		kit.G.Open(gate)
	}
	wg.Wait()
	r.Max("handlers_in_flight", kit.MaxInFlight.Load())
	// per-call checks
	for _, o := range outs {
		r.Eval(1)
		sigBase := fmt.Sprintf("C01|raw|%s|id=%s", kind, o.call.Class)
		wit := map[string]interface{}{"kind": kind, "regime": regime, "id": o.call.RawID, "nonce": o.call.Nonce, "status": o.status, "frames": o.frames, "http_err": o.herr, "timed_out": o.timed}
		if len(o.frames) == 0 {
			r.Violation(sigBase+"|missing-answer", fmt.Sprintf("%s: request id %s got no answer (status %d, timed out %v)", kind, o.call.RawID, o.status, o.timed), wit)
			continue
		}
		// the answer frame is the one carrying a response (Streamable SSE mode may carry notifications too)
		var answers []string
		for _, f := range o.frames {
			if _, has, hasMethod := kit.FrameID(f); has && !hasMethod {
				answers = append(answers, f)
			}
		}
		if len(answers) != 1 {
			r.Violation(sigBase+"|answer-count", fmt.Sprintf("%s: request id %s got %d answers", kind, o.call.RawID, len(answers)), wit)
			continue
		}
		if o.call.WantErr {
			id, _, isErr, _ := echoAnswerOf(answers[0])
			switch {
			case !isErr || !strings.Contains(answers[0], "boom:"+o.call.Nonce):
				r.Violation(sigBase+"|foreign-or-garbled-error", fmt.Sprintf("%s: request id %s to the failing tool did not get its own error answer", kind, o.call.RawID), wit)
			case id != kit.CanonID(json.RawMessage(o.call.RawID)):
				r.Violation(sigBase+"|id-changed", fmt.Sprintf("%s: request id %s answered with id %s", kind, o.call.RawID, id), wit)
			default:
				r.Distinct(fmt.Sprintf("raw|%s|%s|%s|error-answer", kind, regime, o.call.Class))
			}
			continue
		}
		id, ans, isErr, err := echoAnswerOf(answers[0])
		if err != nil || isErr || ans == nil {
			r.Violation(sigBase+"|bad-answer", fmt.Sprintf("%s: request id %s: unusable answer (err=%v, jsonrpc-error=%v)", kind, o.call.RawID, err, isErr), wit)
			continue
		}
		if id != kit.CanonID(json.RawMessage(o.call.RawID)) {
			r.Violation(sigBase+"|id-changed", fmt.Sprintf("%s: request id %s answered with id %s", kind, o.call.RawID, id), wit)
			continue
		}
		if ans.Nonce != o.call.Nonce || ans.Digest != o.call.Digest {
			r.Violation(sigBase+"|foreign-answer", fmt.Sprintf("%s: request id %s (nonce %s) received the answer of nonce %s", kind, o.call.RawID, o.call.Nonce, ans.Nonce), wit)
			continue
		}
		r.Distinct(fmt.Sprintf("raw|%s|%s|%s", kind, regime, o.call.Class))
	}
	// stream-level checks on async transports: no duplicate and no foreign response frames
	if kind == kit.LSSE || kind == kit.Stdio {
		time.Sleep(50 * time.Millisecond)
		seen := map[string]int{}
		want := map[string]bool{`"init-0"`: true}
		for _, cl := range calls {
			want[kit.CanonID(json.RawMessage(cl.RawID))] = true
		}
		for _, f := range c.Log.Since(0) {
			id, has, hasMethod := kit.FrameID(f.Data)
			if !has || hasMethod {
				continue
			}
			seen[id]++
			if !want[id] && !strings.HasPrefix(id, `"fence-`) {
				r.Violation(fmt.Sprintf("C01|raw|%s|unsolicited-response", kind), fmt.Sprintf("%s: response with id %s that was never requested", kind, id), f)
			}
		}
		if kind == kit.Stdio {
			for i, ln := range c.Rec.Lines(0) {
				var one map[string]json.RawMessage
				if err := json.Unmarshal(ln, &one); err != nil {
					r.Violation("C01|raw|stdio|mangled-line", fmt.Sprintf("stdio: stdout line %d is not one JSON object (%v): concurrent writers interleaved payload and newline", i, err),
						map[string]interface{}{"line_index": i, "line": firstOr([]string{string(ln)}), "len": len(ln)})
				}
			}
		}
		for id, n := range seen {
			if n > 1 {
				r.Violation(fmt.Sprintf("C01|raw|%s|duplicate-response", kind), fmt.Sprintf("%s: %d responses for id %s", kind, n, id), nil)
			}
		}
	}
	// handler ran exactly once per nonce
	counts := map[string]int{}
	for _, e := range kit.Events.Snapshot() {
		if e.K == "invoke" {
			counts[e.Nonce]++
		}
	}
	for _, cl := range calls {
		if cl.WantErr {
			continue
		}
		if counts[cl.Nonce] != 1 {
			r.Violation(fmt.Sprintf("C01|raw|%s|handler-count", kind), fmt.Sprintf("%s: handler ran %d times for nonce %s", kind, counts[cl.Nonce], cl.Nonce), nil)
		}
	}
	r.Count("raw_calls", int64(len(calls)))
	if len(outs) > 0 && sampleOnce("raw") {
		r.Sample(map[string]interface{}{"scenario": "raw", "kind": kind, "regime": regime, "id": outs[0].call.RawID, "nonce": outs[0].call.Nonce, "answer": firstOr(outs[0].frames)})
	}
}

// sampleOnce: the evidence file keeps six samples; one per scenario family leaves room for every family.
var (
	sampled   = map[string]bool{}
	sampledMu sync.Mutex
)

func sampleOnce(family string) bool {
	sampledMu.Lock()
	defer sampledMu.Unlock()
	if sampled[family] {
		return false
	}
	sampled[family] = true
	return true
}

func firstOr(s []string) string {
	if len(s) == 0 {
		return ""
	}
	if len(s[0]) > 400 {
		return s[0][:400]
	}
	return s[0]
}

// libScenario: K library clients x M calls in flight.
func libScenario(r *vh.Run, kind kit.Kind, regime string, K, M int, startID int64, round int) {
	var in *kit.Instance
	evfile := ""
	if kind != kit.Stdio {
		in = kit.Start(kind, kit.Opts{})
		defer in.Close()
		kit.StdFixture(in)
	}
	ctx, cancel := context.WithTimeout(context.Background(), 120*time.Second)
	defer cancel()
	clients := make([]*kit.LibClient, 0, K)
	for k := 0; k < K; k++ {
		var c *kit.LibClient
		var err error
		if kind == kit.Stdio {
			evfile = filepath.Join(r.OutDir, fmt.Sprintf("stdio-ev-%s-%d-%d.ndjson", regime, round, k))
			os.Remove(evfile)
			c, err = kit.NewStdioClient("std", map[string]string{"VH_EVLOG": evfile}, 60*time.Second)
		} else {
			c, err = in.NewClient()
		}
		if err != nil {
			r.Fatal("client %s: %v", kind, err)
		}
		if _, err := c.Initialize(ctx, &mcp.InitializeRequest{}); err != nil {
			r.Violation(fmt.Sprintf("C01|lib-handshake|%s|failed", kind), err.Error(), nil)
			c.Close()
			return
		}
		if startID != 0 {
			mcp.VerifSetRequestID(c.Raw(), startID)
		}
		clients = append(clients, c)
	}
	defer func() {
		for _, c := range clients {
			c.Close()
		}
	}()
	gate := fmt.Sprintf("lgate-%s-%s-%d-%d", kind, regime, round, startID)
	kit.MaxInFlight.Store(0)
	type res struct {
		nonce, digest string
		ans           *kit.EchoAnswer
		err           error
		outcomes      int
		wantErr       bool // the call goes to the failing tool: its own error message must come back
		panicked      string
	}
	results := make([]res, K*M)
	gated := 0
	rng := r.Rand(fmt.Sprintf("lib-%s-%s-%d", kind, regime, round))
	var wg sync.WaitGroup
	for k := 0; k < K; k++ {
		for m := 0; m < M; m++ {
			i := k*M + m
			payload := fmt.Sprintf("lp-%d-%d", i, rng.Int63())
			nonce := fmt.Sprintf("lib-%s-%s-%d-%d-%d", kind, regime, round, k, m)
			results[i].nonce, results[i].digest = nonce, kit.Digest(payload)
			args := map[string]interface{}{"nonce": nonce, "payload": payload}
			tool := "echo"
			if m%4 == 3 {
				// every fourth call is answered with a JSON-RPC error that names the call
				tool = "fail"
				results[i].wantErr = true
			} else {
				gated++
			}
			switch regime {
			case "delay":
				args["delay_us"] = rng.Intn(3000)
			case "barrier":
				if kind != kit.Stdio {
					args["gate"] = gate
				} else {
					args["delay_us"] = 2000
				}
			}
			wg.Add(1)
			go func(i int, c *kit.LibClient, tool string, args map[string]interface{}) {
				defer wg.Done()
				defer func() {
					if p := recover(); p != nil {
						results[i].panicked = fmt.Sprint(p)
					}
				}()
				req := &mcp.CallToolRequest{}
				req.Params.Name = tool
				req.Params.Arguments = args
				cctx, ccancel := context.WithTimeout(ctx, 20*time.Second)
				out, err := c.CallTool(cctx, req)
				ccancel()
				results[i].outcomes++
				if err != nil {
					results[i].err = err
					return
				}
				if len(out.Content) == 1 {
					if tc, ok := out.Content[0].(mcp.TextContent); ok {
						var a kit.EchoAnswer
						if json.Unmarshal([]byte(tc.Text), &a) == nil {
							results[i].ans = &a
						}
					}
				}
			}(i, clients[k], tool, args)
		}
	}
	if regime == "barrier" && kind != kit.Stdio {
		got := kit.G.AwaitWaiters(gate, gated, 15*time.Second)
		r.Max("overlap_lib_"+string(kind), int64(got))
		kit.G.Open(gate)
	}
	wg.Wait()
	r.Max("handlers_in_flight", kit.MaxInFlight.Load())
	idc := "small"
	if startID != 0 {
		idc = fmt.Sprintf("from-%d", startID)
	}
	for _, x := range results {
		r.Eval(1)
		sig := fmt.Sprintf("C01|lib|%s|ids=%s", kind, idc)
		wit := map[string]interface{}{"kind": kind, "regime": regime, "nonce": x.nonce, "start_id": startID, "err": fmt.Sprint(x.err), "answer": x.ans}
		if x.panicked != "" {
			r.Violation(sig+"|panic-in-caller", fmt.Sprintf("%s library client: CallTool panicked in the caller's goroutine: %s", kind, x.panicked), wit)
			continue
		}
		if x.wantErr {
			switch {
			case x.err == nil:
				r.Violation(sig+"|error-answer-lost", fmt.Sprintf("%s library client: call %s to the failing tool returned a result instead of its error", kind, x.nonce), wit)
			case !strings.Contains(x.err.Error(), "boom:"+x.nonce):
				r.Violation(sig+"|foreign-or-garbled-error", fmt.Sprintf("%s library client: call %s did not receive its own error answer (boom:%s) but: %v", kind, x.nonce, x.nonce, x.err), wit)
			default:
				r.Distinct(fmt.Sprintf("lib|%s|%s|%s|error-answer", kind, regime, idc))
			}
			continue
		}
		if x.err != nil {
			r.Violation(sig+"|call-failed", fmt.Sprintf("%s library client: call %s failed while the connection was up: %v", kind, x.nonce, x.err), wit)
			continue
		}
		if x.ans == nil {
			r.Violation(sig+"|bad-answer", fmt.Sprintf("%s library client: call %s returned an unusable result", kind, x.nonce), wit)
			continue
		}
		if x.ans.Nonce != x.nonce || x.ans.Digest != x.digest {
			r.Violation(sig+"|foreign-answer", fmt.Sprintf("%s library client: call %s received the answer of %s", kind, x.nonce, x.ans.Nonce), wit)
			continue
		}
		r.Distinct(fmt.Sprintf("lib|%s|%s|%s", kind, regime, idc))
	}
	// handler exactly once
	counts := map[string]int{}
	if kind == kit.Stdio {
		for _, c := range clients {
			c.Close()
		}
		clients = nil
		files, _ := filepath.Glob(filepath.Join(r.OutDir, fmt.Sprintf("stdio-ev-%s-%d-*.ndjson", regime, round)))
		for _, f := range files {
			for _, e := range kit.LoadEvFile(f) {
				if e.K == "invoke" {
					counts[e.Nonce]++
				}
			}
			os.Remove(f)
		}
	} else {
		for _, e := range kit.Events.Snapshot() {
			if e.K == "invoke" {
				counts[e.Nonce]++
			}
		}
	}
	for _, x := range results {
		if x.wantErr {
			continue // the failing tool does not record invocations
		}
		if x.err == nil && counts[x.nonce] != 1 {
			r.Violation(fmt.Sprintf("C01|lib|%s|handler-count", kind), fmt.Sprintf("%s: handler ran %d times for nonce %s", kind, counts[x.nonce], x.nonce), nil)
		}
	}
	r.Count("lib_calls", int64(len(results)))
	if len(results) > 0 && sampleOnce("lib") {
		r.Sample(map[string]interface{}{"scenario": "lib", "kind": kind, "regime": regime, "clients": K, "in_flight_per_client": M, "start_id": startID, "first": results[0].nonce})
	}
}

// slowReader: legacy SSE peer that does not read its stream while answers pile up.
func slowReader(r *vh.Run, n int, pad int) {
	in := kit.Start(kit.LSSE, kit.Opts{})
	defer in.Close()
	kit.StdFixture(in)
	ctx, cancel := context.WithTimeout(context.Background(), 120*time.Second)
	defer cancel()
	c, err := in.Dial(ctx)
	if err != nil {
		r.Fatal("dial: %v", err)
	}
	defer c.Close()
	if err := c.Handshake(ctx); err != nil {
		r.Violation("C01|slow-reader|L-sse|handshake", err.Error(), nil)
		return
	}
	c.PauseLegacy()
	for i := 0; i < n; i++ {
		body := kit.EchoCallBody(fmt.Sprintf("%d", 7000+i), fmt.Sprintf("slow-%d", i), "x", map[string]interface{}{"pad_n": pad})
		ex := c.Post(ctx, body, kit.PostOpts{NoWait: true})
		if ex.HTTP == nil || ex.HTTP.Status != 202 {
			r.Violation("C01|slow-reader|L-sse|post-refused", fmt.Sprintf("post %d refused: %+v", i, ex.HTTP), nil)
			return
		}
	}
	// all handlers have run once their invoke events are there
	deadline := time.Now().Add(20 * time.Second)
	for time.Now().Before(deadline) {
		cnt := 0
		for _, e := range kit.Events.Snapshot() {
			if e.K == "invoke" && strings.HasPrefix(e.Nonce, "slow-") {
				cnt++
			}
		}
		if cnt >= n {
			break
		}
		time.Sleep(10 * time.Millisecond)
	}
	time.Sleep(300 * time.Millisecond)
	c.ResumeLegacy()
	got := map[string]bool{}
	for i := 0; i < n; i++ {
		id := fmt.Sprintf("%d", 7000+i)
		if _, ok := c.Log.WaitFor(0, 10*time.Second, func(f kit.Frame) bool {
			fid, has, hm := kit.FrameID(f.Data)
			return has && !hm && fid == id
		}); ok {
			got[id] = true
		} else {
			break // the rest is checked without waiting again
		}
	}
	for _, f := range c.Log.Since(0) {
		if fid, has, hm := kit.FrameID(f.Data); has && !hm {
			got[fid] = true
		}
	}
	missing := 0
	for i := 0; i < n; i++ {
		if !got[fmt.Sprintf("%d", 7000+i)] {
			missing++
		}
	}
	r.Eval(n)
	r.Count("slow_reader_posted", int64(n))
	r.Count("slow_reader_answered", int64(n-missing))
	if missing > 0 {
		r.Violation("C01|slow-reader|L-sse|queued>100|missing-answer",
			fmt.Sprintf("legacy SSE: %d requests posted while the peer was not reading, %d answers never arrived although the connection stayed up", n, missing),
			map[string]interface{}{"posted": n, "answered": n - missing, "answer_bytes": pad})
	} else {
		r.Distinct("slow-reader|L-sse")
	}
}

func main() {
	maybeServeNotifPeer()
	kit.MaybeServeStdioChild()
	kit.Silence()
	r := vh.NewRun("C01", "exploration")
	rawN := r.Pick(48, 160)
	rounds := r.Pick(1, 15)
	if os.Getenv("C01_ONLY") == "mix" { // debugging aid: only the operation-mix histories
		mixScenarios(r)
		r.Finish("debug run: operation-mix histories only", nil)
	}
	if os.Getenv("C01_ONLY") == "inflight" { // debugging aid: only the many-in-flight rendezvous rounds
		inflightScenarios(r)
		r.Finish("debug run: many-in-flight rendezvous rounds only", nil)
	}
	if os.Getenv("C01_ONLY") == "ids" { // debugging aid: only the id value space
		idScenarios(r)
		r.Finish("debug run: id value space only", nil)
	}
	if os.Getenv("C01_ONLY") == "connfault" { // debugging aid: only the connection-fault episodes
		connFaultScenarios(r)
		r.Finish("debug run: connection-fault episodes only", nil)
	}
	if os.Getenv("C01_ONLY") == "notif" { // debugging aid: only the notification-burst episodes
		notifScenarios(r)
		r.Finish("debug run: notification-burst episodes only", nil)
	}
	for round := 0; round < rounds; round++ {
		for _, kind := range kit.AllKinds {
			for _, regime := range []string{"immediate", "delay", "barrier"} {
				kit.Events.Reset()
				rawScenario(r, kind, regime, rawN, round)
			}
		}
	}
	K, M := r.Pick(4, 12), r.Pick(12, 32)
	for round := 0; round < rounds; round++ {
		for _, kind := range kit.AllKinds {
			for _, regime := range []string{"delay", "barrier"} {
				kit.Events.Reset()
				libScenario(r, kind, regime, K, M, 0, round)
			}
			kit.Events.Reset()
			libScenario(r, kind, "immediate", 2, 12, 999990, round) // crosses 10^6
			kit.Events.Reset()
			libScenario(r, kind, "immediate", 1, 12, (1<<53)-12, round) // ids 2^53-11 .. 2^53 (the top of the stated range)
			if !r.Quick() {
				kit.Events.Reset()
				libScenario(r, kind, "delay", 2, 8, 2147483640, round) // crosses 2^31
			}
		}
	}
	kit.Events.Reset()
	slowReader(r, 150, 100<<10)
	inflightScenarios(r)
	if os.Getenv("C01_SKIP") != "ids" { // debugging aid
		idScenarios(r)
	}
	mixScenarios(r)
	pressureScenarios(r)
	connFaultScenarios(r)
	notifScenarios(r)

	r.Finish("7 server configurations x {raw peer, library client} x completion regimes {immediate, random delay, barrier release}; "+
		"raw peers use every id class (small/large integers up to 2^53, strings incl. digit strings and non-ASCII, same value as string and integer); "+
		"library clients cross the 10^6 and 2^31 id boundaries and run up to exactly 2^53; legacy-SSE slow-reader scenario; "+
		"id value space: on every configuration one raw session keeps a whole batch of echo calls (up to 78) pending together at a gate whose ids sit on the boundaries of what JSON-RPC allows — the empty string, a space, strings that "+
		"look like numbers or JSON literals, strings that are the text of another pending numeric id (7 and \"7\", \"\" and 0), 1 KiB and 64 KiB strings, quotes, backslashes, escaped control characters, non-BMP characters (raw and as "+
		"surrogate escapes), percent signs / printf verbs, the integers 0, -1, min/max int32 and uint32 and their neighbours, +-2^53 and +-(2^53-1); in-range integers written in exponent or fraction-zero form (1e3, 7.0, -0, 0e0) next to their "+
		"string twins (answer under a number equal in value, or an error; never silence; which one is counted); max/min int64, 2^53+3 and 1.5 are in flight as well but only counted; the library clients' id counter is set so that their "+
		"ids are 0, negative, cross min int32 / max uint32 and start at -2^53; "+
		"back-pressure episodes on all 7 configurations: the peer stops reading (legacy event stream with a small fixed receive buffer, stdio stdout pipe, Streamable POST response bodies) while more answers than the "+
		"legacy server's 100-slot queue holds are in flight on one session, the in-flight calls taking every answer path (result, large result, isError, handler Go error, unknown tool, invalid / missing params, "+
		"unknown method, middleware Go error, NaN / chan results, nil content, prompt and resource successes and failures, ping, lists); after the peer resumes every call must have exactly one answer with its own id "+
		"(and its own content where the handler computes it from the arguments). "+
		"Operation-mix histories on the three library clients (Streamable against all 5 Streamable configurations, legacy SSE, stdio with a real child process), several clients side by side: from the first request "+
		"after Initialize on, 2-4 (thorough: up to 8) slow tools/call requests are started whose handler waits at a gate and stay pending while every other public operation is issued sequentially and in concurrent bursts "+
		"(ListTools, ListPrompts, ListResources, GetPrompt ok / handler error, ReadResource ok / handler error, CallTool result / Go error / isError / a tool that asks the client for its roots so that a server-issued "+
		"roots/list is answered meanwhile, roots list_changed notification); the first request after Initialize is, over the histories, each operation kind and a slow call; then the gates open. Every call must return its own answer "+
		"(the nonce it sent and the digest of its payload, the server's complete tool / prompt / resource list, the prompt built from its own argument, the contents of the URI it asked for, its own error text), handlers run once per request. "+
		"Connection-fault episodes (library HTTP clients against the 5 Streamable configurations and the legacy SSE server, GET stream on and off; client -> TCP relay -> thin wrapper -> the real library handler): "+
		"a call without any retry option is placed on a reused keep-alive connection (after a warm-up call), directly after Initialize (behind the 202 of notifications/initialized), behind the 202 of a roots list_changed notification, "+
		"or on a fresh connection, and once the request has reached the server the connection dies: the wrapper lets the real handler serve it into a recorder and then closes / resets (SO_LINGER 0) / aborts (http.ErrAbortHandler) / "+
		"hijacks-and-closes without serving; the tool handler itself panics with http.ErrAbortHandler; the relay cuts the real answer before its first byte, after the status line, after the header block or inside the body, with FIN or RST; "+
		"or the server closes the idle connection just before the call. Per call: runs of the tool handler for its nonce and arrivals at the server are counted; without retry option the handler must not run twice "+
		"(and must have run when the real handler answered 200), whatever the client returns; the calls before and after it run once and any answer returned is the call's own. The same faults with WithRetry(MaxRetries=2), hitting the first "+
		"arrival or every arrival: the handler runs at most 3 times and re-execution is actually observed. "+
		"Notification-burst episodes on the three library clients: the stdio client against a library-free scripted peer (this binary; newline-delimited JSON-RPC, every request answered exactly once with its id, the answer recorded after "+
		"it was written), the Streamable client against the real stateful / stateless servers (notifications on the POST-SSE stream of the call through the handler's notification sender, and on the GET stream through Server.SendNotification), "+
		"the legacy SSE client against the real legacy server (SSEServer.SendNotification; that client cannot register handlers, so only the bursts are exercised). Per client 3 (thorough: 6) rounds; in a round a call X makes the server emit a burst "+
		"of N notifications before its answer (N from a seed-determined list with a small 1-8, a middle 9-40 and a large 64-129, thorough up to 513, value; scripted peer: 0/3/20 more after the answer) while a call Y and a call P are answered "+
		"only behind the burst and another P is in flight; the client's notification handlers either make a re-entrant client call (tools/call with its own nonce; stdio: every fourth a ListTools) and wait for it, or wait on a gate released only "+
		"when Y returned at its caller, or are slow. Every call (X, Y, P, re-entrant R, the fence after the rounds) must return its own nonce and digest; a call that ends in an error although the server recorded its one answer and the fence "+
		"call afterwards was answered is a violation (answered-call-not-delivered). "+
		"Many-in-flight rendezvous rounds (numbers well above usual pool / semaphore sizes; the calls cannot complete before the others have ARRIVED, so a cap cannot hide by serialising them): (a) one library client of every kind "+
		"(5 Streamable configurations, legacy SSE, stdio with a real child process) issues N calls at once (N = 8, 33, 65, 129, thorough 257, each plus a seed-determined 0-3) to a tool whose handler parks until all N handlers are inside it; "+
		"(b) M library clients in one process (M = 8, 33, 65, thorough 129, plus 0-3) of one HTTP server, each holding its listening stream (stateful Streamable GET SSE, legacy event stream; seen arriving at the server), issue one such call each. "+
		"All N met: every call must return its own nonce and digest, one handler run per call. Fewer than N arrive and nothing moves: see assumptions. Sizes that do not fit the file-descriptor limit are skipped and counted. "+
		"A case is distinct by (scenario, configuration, regime, id class) — notification bursts: (configuration, handler behaviour, path of the notifications, role of the call, burst size class), counted only in rounds in which handlers were seen running (legacy: notifications were sent) — many-in-flight: (scenario, configuration, size class), counted only when all N handlers were observed inside the handler together and every answer was verified — conn-fault: (configuration, position, fault, retry, arrived on reused/fresh connection, client outcome, handler runs), counted only when the fault was applied to a request that arrived — mix: (configuration, operation, phase of the history, number of calls pending when issued), counted only in histories whose slow calls were all seen pending "+
		"until the release — and non-trivial when its answer was checked for id, nonce and digest (mix: against what the call asked for).",
		[]string{"ids above 2^53 are outside the statement", "interleavings are sampled, not enumerated", "a missing answer is judged after a 20 s wait on an otherwise idle loopback connection",
			"operation-mix histories: a call is called unanswered only when its 40 s watchdog fired (slow calls: counted from the release of the gate, and only when the handler is recorded to have returned) AND a call issued afterwards on the same client was answered; a transport failure is judged the same way; without the later answer the case is inconclusive",
			"operation-mix histories: the context given to Initialize is kept alive for the whole history (cancelling it is a client life-cycle matter)",
			"id value space: an id is echoed when the response id is equal as a JSON value (strings by code points whatever the escaping, numbers by exact value whatever the spelling) and of the same JSON type; integers written with an exponent or a zero fraction may also be refused with an error; on the asynchronous transports an answer is called missing only after the stream delivered nothing for 15 s AND two pings posted afterwards were answered on it, an error frame without id is attributed to a pending number-form request by count",
			"connection-fault episodes: with a retry option configured the statement gives no number; the check reads it as at most MaxRetries+1 runs; a request the wrapper never handed to the real handler, or one that never arrived, may have 0 runs; a tool not seen running within 8 s on the legacy server (asynchronous) or behind the relay is inconclusive",
			"notification-burst episodes: per-call contexts (30 s), the stdio transport's request timeout (15 s) and the handlers' gate wait (45 s) are watchdogs; a failed call is a violation only when the server recorded exactly one answer for it AND a fence call issued afterwards on the same client was answered, otherwise inconclusive; a handler blocked on the Streamable client only waits for a call on another HTTP exchange (the Streamable client runs handlers on the stream the notification arrived on)",
			"many-in-flight rounds: 'call never reached the server' is decided on facts, not on a deadline: all N calls were issued, no new handler arrived for 10 s, the handlers that arrived are all still parked at the rendezvous (nobody is computing), and the number of arrivals is the same before and after a library-free peer on a separate connection was served a whole handshake and a tool call by the same server (stdio has one connection: a ListTools on the same client is answered, behind the calls in the pipe); otherwise the round is inconclusive; after a cap was established for a configuration its larger sizes are skipped (counted)",
			"back-pressure episodes: an answer is called missing only after the stream delivered nothing for 15 s AND two pings posted afterwards were answered on the same stream (Streamable: the POST's own response ended in order without it)"})
}
