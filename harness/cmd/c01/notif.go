// C01 — notification-burst episodes: answers to in-flight calls are delivered to exactly their callers while
// notification handlers are running, blocked, slow or re-entrant.
//
// The three library clients (stdio, Streamable HTTP, legacy SSE) are driven against servers that emit bursts of N
// notifications before / between / after answers, N from a seed-determined list with small, middle and large values.
//   - stdio: the server is a library-free scripted peer (this binary in the role nbPeerRole) speaking newline-delimited
//     JSON-RPC. It answers every request exactly once with the request's id and records an "nb-answered" event after
//     the answer line was written to its stdout.
//   - Streamable HTTP (POST-SSE notifications through the handler's notification sender, GET-stream notifications
//     through Server.SendNotification) and legacy SSE (SSEServer.SendNotification): the real library servers with the
//     tool "nburst"; "nb-return" is recorded when the tool handler hands its result to the library.
//
// Client notification handlers (a) make a re-entrant client call and wait for it, (b) wait on a gate that is released
// only when another in-flight call (Y, answered by the server behind the burst) returned at its caller, (c) are slow.
//
// Oracle (no wall-clock verdicts): a call whose answer was recorded by the server must complete at its caller with that
// answer (own nonce, digest of own payload). A call that ends in a timeout / error is a violation
// ("answered-call-not-delivered") only when the server recorded its answer exactly once AND a fence call issued
// afterwards on the same client was answered (the connection is healthy); otherwise the case is inconclusive.
package main

import (
	"bufio"
	"context"
	"encoding/json"
	"fmt"
	"os"
	"path/filepath"
	"sync"
	"time"

	mcp "trpc.group/trpc-go/trpc-mcp-go"

	"verifharness/lib/kit"
	"verifharness/lib/vh"
)

const (
	nbPeerRole    = "c01-notif-peer"
	nbMethodList  = "notifications/tools/list_changed"
	nbMethodOwn   = "notifications/c01burst"
	nbCallWatch   = 30 * time.Second // per-call context: watchdog only
	nbStdioWatch  = 15 * time.Second // the stdio transport's own per-request timeout: watchdog only
	nbGateWatch   = 45 * time.Second // a gate handler gives up after this (longer than every call watchdog)
	nbServerAfter = 25 * time.Second
)

// ---- server side: board shared by the handlers of one process -------------------------------------------------

type nbBoardT struct {
	mu   sync.Mutex
	done map[string]chan struct{}
}

var nbBoard = &nbBoardT{done: map[string]chan struct{}{}}

func (b *nbBoardT) ch(nonce string) chan struct{} {
	b.mu.Lock()
	defer b.mu.Unlock()
	c, ok := b.done[nonce]
	if !ok {
		c = make(chan struct{})
		b.done[nonce] = c
	}
	return c
}

func (b *nbBoardT) mark(nonce string) {
	c := b.ch(nonce)
	b.mu.Lock()
	select {
	case <-c:
	default:
		close(c)
	}
	b.mu.Unlock()
}

func (b *nbBoardT) wait(nonce string, d time.Duration) {
	select {
	case <-b.ch(nonce):
	case <-time.After(d):
	}
}

func nbNum(a map[string]interface{}, k string) int {
	f, _ := a[k].(float64)
	return int(f)
}

func nbStr(a map[string]interface{}, k string) string {
	s, _ := a[k].(string)
	return s
}

func nbAnswerText(nonce, payload string) string {
	b, _ := json.Marshal(kit.EchoAnswer{Nonce: nonce, Digest: kit.Digest(payload), Len: len(payload)})
	return string(b)
}

// nbRegister registers the tool "nburst" on a real library server (Streamable or legacy SSE).
func nbRegister(in *kit.Instance) {
	in.RegisterTool(mcp.NewTool("nburst", mcp.WithDescription("emit a burst of notifications, then answer with nonce and digest"),
		mcp.WithString("nonce", mcp.Required())), func(ctx context.Context, req *mcp.CallToolRequest) (*mcp.CallToolResult, error) {
		a := req.Params.Arguments
		nonce := nbStr(a, "nonce")
		kit.Events.Add("nb-invoke", nonce, nil)
		if after := nbStr(a, "after"); after != "" {
			nbBoard.wait(after, nbServerAfter)
		}
		if d := nbNum(a, "delay_us"); d > 0 {
			time.Sleep(time.Duration(d) * time.Microsecond)
		}
		pre, method, via := nbNum(a, "pre"), nbStr(a, "method"), nbStr(a, "via")
		sid := ""
		if s, ok := mcp.GetSessionFromContext(ctx); ok && s != nil {
			sid = s.GetID()
		} else if s := mcp.ClientSessionFromContext(ctx); s != nil {
			sid = s.GetID()
		}
		sent := 0
		for i := 0; i < pre; i++ {
			params := map[string]interface{}{"nonce": nonce, "seq": i}
			var err error
			switch {
			case via == "push" && in.Server != nil:
				err = in.Server.SendNotification(sid, method, params)
			case via == "push" && in.SSE != nil:
				err = in.SSE.SendNotification(sid, method, params)
			default:
				if sender, ok := mcp.GetNotificationSender(ctx); ok {
					err = sender.SendCustomNotification(method, params)
				} else {
					err = fmt.Errorf("no sender")
				}
			}
			if err == nil {
				sent++
			}
		}
		nbBoard.mark(nonce)
		res := mcp.NewTextResult(nbAnswerText(nonce, nbStr(a, "payload")))
		kit.Events.Add("nb-return", nonce, sent)
		return res, nil
	})
}

// ---- scripted stdio peer (library-free) --------------------------------------------------------------------------

// maybeServeNotifPeer turns this process into the scripted stdio peer. It never returns in that role.
func maybeServeNotifPeer() {
	if os.Getenv("VH_CHILD") != nbPeerRole {
		return
	}
	if p := os.Getenv("VH_EVLOG"); p != "" {
		kit.Events.SinkTo(p)
	}
	var wmu sync.Mutex
	write := func(v interface{}) error {
		b, err := json.Marshal(v)
		if err != nil {
			return err
		}
		b = append(b, '\n')
		wmu.Lock()
		defer wmu.Unlock()
		_, err = os.Stdout.Write(b)
		return err
	}
	type rpcIn struct {
		ID     json.RawMessage `json:"id"`
		Method string          `json:"method"`
		Params struct {
			Name            string                 `json:"name"`
			Arguments       map[string]interface{} `json:"arguments"`
			ProtocolVersion string                 `json:"protocolVersion"`
		} `json:"params"`
	}
	answer := func(id json.RawMessage, result interface{}) error {
		return write(map[string]interface{}{"jsonrpc": "2.0", "id": id, "result": result})
	}
	var wg sync.WaitGroup
	handle := func(m rpcIn) {
		defer wg.Done()
		switch m.Method {
		case "initialize":
			v := m.Params.ProtocolVersion
			if v == "" {
				v = "2025-03-26"
			}
			answer(m.ID, map[string]interface{}{"protocolVersion": v, "capabilities": map[string]interface{}{"tools": map[string]interface{}{"listChanged": true}},
				"serverInfo": map[string]interface{}{"name": "c01-notif-peer", "version": "1"}})
		case "ping":
			answer(m.ID, map[string]interface{}{})
		case "tools/list":
			if answer(m.ID, map[string]interface{}{"tools": []interface{}{map[string]interface{}{"name": "nburst", "inputSchema": map[string]interface{}{"type": "object"}}}}) == nil {
				kit.Events.Add("nb-list-answered", "", nil)
			}
		case "tools/call":
			a := m.Params.Arguments
			nonce := nbStr(a, "nonce")
			kit.Events.Add("nb-invoke", nonce, nil)
			if after := nbStr(a, "after"); after != "" {
				nbBoard.wait(after, nbServerAfter)
			}
			if d := nbNum(a, "delay_us"); d > 0 {
				time.Sleep(time.Duration(d) * time.Microsecond)
			}
			method := nbStr(a, "method")
			sent := 0
			emit := func(n int, phase string) {
				for i := 0; i < n; i++ {
					if write(map[string]interface{}{"jsonrpc": "2.0", "method": method, "params": map[string]interface{}{"nonce": nonce, "seq": i, "phase": phase}}) == nil {
						sent++
					}
				}
			}
			emit(nbNum(a, "pre"), "pre")
			nbBoard.mark(nonce)
			err := answer(m.ID, map[string]interface{}{"content": []interface{}{map[string]interface{}{"type": "text", "text": nbAnswerText(nonce, nbStr(a, "payload"))}}})
			if err == nil {
				kit.Events.Add("nb-answered", nonce, sent)
			}
			emit(nbNum(a, "post"), "post")
			if n := nbNum(a, "post"); n > 0 {
				kit.Events.Add("nb-post", nonce, n)
			}
		default:
			write(map[string]interface{}{"jsonrpc": "2.0", "id": m.ID, "error": map[string]interface{}{"code": -32601, "message": "method not found"}})
		}
	}
	rd := bufio.NewReaderSize(os.Stdin, 1<<20)
	for {
		line, err := rd.ReadBytes('\n')
		if len(line) > 1 {
			var m rpcIn
			if json.Unmarshal(line, &m) == nil && m.Method != "" && len(m.ID) > 0 && string(m.ID) != "null" {
				wg.Add(1)
				go handle(m)
			}
			// notifications and responses of the client need no reaction
		}
		if err != nil {
			break
		}
	}
	done := make(chan struct{})
	go func() { wg.Wait(); close(done) }()
	select {
	case <-done:
	case <-time.After(2 * time.Second):
	}
	os.Exit(0)
}

func nbScriptedClient(evfile string) (*kit.LibClient, error) {
	self, err := os.Executable()
	if err != nil {
		return nil, err
	}
	c, err := mcp.NewStdioClient(mcp.StdioTransportConfig{
		ServerParams: mcp.StdioServerParameters{Command: self, Env: map[string]string{"VH_CHILD": nbPeerRole, "VH_EVLOG": evfile}},
		Timeout:      nbStdioWatch,
	}, kit.ClientInfo, mcp.WithStdioLogger(kit.Quiet{}))
	if err != nil {
		return nil, err
	}
	return &kit.LibClient{Connector: c, Std: c, Kind: kit.Stdio}, nil
}

// ---- client side ----------------------------------------------------------------------------------------------------

type nbCase struct {
	idx    int
	kind   kit.Kind
	mode   string // reentrant | gate | slow | none (legacy SSE client: no handler can be registered)
	via    string // stdio: pipe; ctx: POST-SSE stream of the call; push: GET stream / legacy event stream
	method string
	bursts []int
	posts  []int
}

type nbRes struct {
	role    string // X (carries the burst) | Y (answered behind the burst) | P (plain, in flight meanwhile) | R (re-entrant, from a handler) | F (fence)
	nonce   string
	payload string
	burst   int
	round   int
	err     error
	ans     *kit.EchoAnswer
	bad     string
}

type nbRound struct {
	yDone chan struct{}
}

type nbState struct {
	mu       sync.Mutex
	closing  bool
	started  int
	finished int
	gateTO   int
	cur      *nbRound
	results  []nbRes
	lists    int // ListTools issued from handlers
	listErr  []string
}

func (st *nbState) add(x nbRes) {
	st.mu.Lock()
	st.results = append(st.results, x)
	st.mu.Unlock()
}

func (st *nbState) counts() (started, finished int) {
	st.mu.Lock()
	defer st.mu.Unlock()
	return st.started, st.finished
}

func nbCall(c *kit.LibClient, role, nonce string, round, burst int, extra map[string]interface{}) nbRes {
	x := nbRes{role: role, nonce: nonce, payload: "nbp-" + nonce + "-payload", round: round, burst: burst}
	args := map[string]interface{}{"nonce": nonce, "payload": x.payload}
	for k, v := range extra {
		args[k] = v
	}
	req := &mcp.CallToolRequest{}
	req.Params.Name = "nburst"
	req.Params.Arguments = args
	ctx, cancel := context.WithTimeout(context.Background(), nbCallWatch)
	defer cancel()
	func() {
		defer func() {
			if p := recover(); p != nil {
				x.err = fmt.Errorf("panic in caller: %v", p)
			}
		}()
		out, err := c.CallTool(ctx, req)
		if err != nil {
			x.err = err
			return
		}
		if out == nil || len(out.Content) != 1 {
			x.bad = "result without exactly one content item"
			return
		}
		tc, ok := out.Content[0].(mcp.TextContent)
		if !ok {
			x.bad = "content is not text"
			return
		}
		var a kit.EchoAnswer
		if json.Unmarshal([]byte(tc.Text), &a) != nil {
			x.bad = "text is not the answer JSON: " + short(tc.Text)
			return
		}
		x.ans = &a
	}()
	return x
}

func nbBucket(n int) string {
	switch {
	case n == 0:
		return "0"
	case n <= 8:
		return "1-8"
	case n <= 40:
		return "9-40"
	case n <= 128:
		return "41-128"
	default:
		return ">128"
	}
}

func runNotifCase(r *vh.Run, cs nbCase) {
	tag := fmt.Sprintf("nb%dq", cs.idx)
	scripted := cs.kind == kit.Stdio
	server := "real"
	if scripted {
		server = "scripted"
	}
	label := fmt.Sprintf("notif case %d (%s, handlers=%s, via=%s, bursts=%v)", cs.idx, cs.kind, cs.mode, cs.via, cs.bursts)
	var (
		c      *kit.LibClient
		in     *kit.Instance
		err    error
		evfile string
	)
	if scripted {
		evfile = filepath.Join(r.OutDir, fmt.Sprintf("notif-ev-%d.ndjson", cs.idx))
		os.Remove(evfile)
		c, err = nbScriptedClient(evfile)
	} else {
		in = kit.Start(cs.kind, kit.Opts{})
		defer in.Close()
		nbRegister(in)
		c, err = in.NewClient()
	}
	if err != nil {
		r.Fatal("%s: client: %v", label, err)
	}
	st := &nbState{cur: &nbRound{yDone: make(chan struct{})}}
	handler := func(n *mcp.JSONRPCNotification) error {
		st.mu.Lock()
		if st.closing {
			st.mu.Unlock()
			return nil
		}
		st.started++
		k := st.started
		cur := st.cur
		st.mu.Unlock()
		defer func() {
			st.mu.Lock()
			st.finished++
			st.mu.Unlock()
		}()
		switch cs.mode {
		case "reentrant":
			if scripted && k%4 == 0 {
				// what applications do on list_changed: refresh the list from inside the handler
				st.mu.Lock()
				st.lists++
				st.mu.Unlock()
				ctx, cancel := context.WithTimeout(context.Background(), nbCallWatch)
				res, err := c.ListTools(ctx, &mcp.ListToolsRequest{})
				cancel()
				msg := ""
				if err != nil {
					msg = err.Error()
				} else if len(res.Tools) != 1 || res.Tools[0].Name != "nburst" {
					msg = "foreign-answer: not the tool list"
				}
				if msg != "" {
					st.mu.Lock()
					st.listErr = append(st.listErr, msg)
					st.mu.Unlock()
				}
				return nil
			}
			st.add(nbCall(c, "R", fmt.Sprintf("%sR%d", tag, k), -1, 0, nil))
		case "gate":
			select {
			case <-cur.yDone:
			case <-time.After(nbGateWatch):
				st.mu.Lock()
				st.gateTO++
				st.mu.Unlock()
			}
		case "slow":
			time.Sleep(time.Duration(300+(k*7919)%4000) * time.Microsecond)
		}
		return nil
	}
	if cs.mode != "none" {
		c.RegisterNotificationHandler(cs.method, handler)
	}
	ictx, icancel := context.WithTimeout(context.Background(), 120*time.Second)
	defer icancel()
	if _, err := c.Initialize(ictx, &mcp.InitializeRequest{}); err != nil {
		c.Close()
		r.Inconclusive(label + ": initialize failed: " + err.Error())
		return
	}
	quiesce := func(wantStarted int, d time.Duration) {
		deadline := time.Now().Add(d)
		for time.Now().Before(deadline) {
			s, f := st.counts()
			if s == f && s >= wantStarted {
				return
			}
			time.Sleep(2 * time.Millisecond)
		}
	}
	deliveredAny := true
	handlerRunsPerRound := make([]int, len(cs.bursts))
	for i, n := range cs.bursts {
		round := &nbRound{yDone: make(chan struct{})}
		st.mu.Lock()
		st.cur = round
		base := st.started
		st.mu.Unlock()
		xNonce := fmt.Sprintf("%sX%d", tag, i)
		post := 0
		if scripted && i < len(cs.posts) {
			post = cs.posts[i]
		}
		var wg sync.WaitGroup
		wg.Add(4)
		go func() {
			defer wg.Done()
			st.add(nbCall(c, "P", fmt.Sprintf("%sPa%d", tag, i), i, n, map[string]interface{}{"delay_us": 500}))
		}()
		go func() {
			defer wg.Done()
			st.add(nbCall(c, "X", xNonce, i, n, map[string]interface{}{"pre": n, "post": post, "method": cs.method, "via": cs.via}))
		}()
		go func() {
			defer wg.Done()
			st.add(nbCall(c, "Y", fmt.Sprintf("%sY%d", tag, i), i, n, map[string]interface{}{"after": xNonce}))
			close(round.yDone)
		}()
		go func() {
			defer wg.Done()
			st.add(nbCall(c, "P", fmt.Sprintf("%sPb%d", tag, i), i, n, map[string]interface{}{"after": xNonce, "delay_us": 300}))
		}()
		wg.Wait()
		if cs.mode != "none" && deliveredAny {
			quiesce(base+n+post, 3*time.Second) // for the counters only
			s, _ := st.counts()
			handlerRunsPerRound[i] = s - base
			if s == base {
				deliveredAny = false // this configuration does not deliver these notifications to handlers; do not wait again
			}
		}
	}
	// no handler may be inside a client call when the fence is judged and the client is closed
	st.mu.Lock()
	st.closing = true
	st.mu.Unlock()
	quiesce(0, 90*time.Second)
	s, f := st.counts()
	fence := nbCall(c, "F", tag+"F", -1, 0, nil)
	c.Close()
	fenceOK := fence.err == nil && fence.ans != nil && fence.ans.Nonce == fence.nonce

	// server-side record
	var evs []kit.Ev
	if scripted {
		evs = kit.LoadEvFile(evfile)
	} else {
		evs = kit.Events.Snapshot()
	}
	invoked, answered, sentBy := map[string]int{}, map[string]int{}, map[string]int{}
	listsAnswered := 0
	for _, e := range evs {
		switch e.K {
		case "nb-invoke":
			invoked[e.Nonce]++
		case "nb-answered", "nb-return":
			answered[e.Nonce]++
			var n int
			json.Unmarshal(e.Val, &n)
			sentBy[e.Nonce] += n
		case "nb-post":
			var n int
			json.Unmarshal(e.Val, &n)
			sentBy[e.Nonce] += n
		case "nb-list-answered":
			listsAnswered++
		}
	}
	if scripted {
		os.Remove(evfile)
	}
	ck := mixClientKind(cs.kind)
	sigBase := fmt.Sprintf("C01|notif|%s|%s|server=%s|handlers=%s|via=%s", ck, cs.kind, server, cs.mode, cs.via)
	if s != f {
		r.Inconclusive(fmt.Sprintf("%s: %d notification handlers still running after 90 s", label, s-f))
	}
	st.mu.Lock()
	results := append([]nbRes{}, st.results...)
	lists, listErr, gateTO := st.lists, append([]string{}, st.listErr...), st.gateTO
	st.mu.Unlock()
	results = append(results, fence)
	okR := 0
	for _, x := range results {
		r.Eval(1)
		wit := map[string]interface{}{"case": label, "role": x.role, "nonce": x.nonce, "round": x.round, "burst": x.burst, "err": fmt.Sprint(x.err), "answer": x.ans,
			"server_invocations": invoked[x.nonce], "server_answers": answered[x.nonce], "fence_ok": fenceOK, "fence_err": fmt.Sprint(fence.err),
			"handlers_started": s, "handlers_finished": f}
		if invoked[x.nonce] > 1 || answered[x.nonce] > 1 {
			r.Violation(sigBase+"|"+x.role+"|handler-count", fmt.Sprintf("%s: the server executed / answered call %s %d / %d times", label, x.nonce, invoked[x.nonce], answered[x.nonce]), wit)
			continue
		}
		switch {
		case x.err != nil:
			if answered[x.nonce] == 1 && fenceOK {
				r.Violation(sigBase+"|"+x.role+"|answered-call-not-delivered",
					fmt.Sprintf("%s: call %s (%s) ended in %q although the server executed it once and wrote its answer, and a later call on the same client was answered", label, x.nonce, x.role, x.err), wit)
			} else {
				r.Inconclusive(fmt.Sprintf("%s: call %s failed (%v); server answers recorded: %d, fence ok: %v", label, x.nonce, x.err, answered[x.nonce], fenceOK))
			}
		case x.ans == nil:
			r.Violation(sigBase+"|"+x.role+"|bad-answer", fmt.Sprintf("%s: call %s returned an unusable result: %s", label, x.nonce, x.bad), wit)
		case x.ans.Nonce != x.nonce || x.ans.Digest != kit.Digest(x.payload):
			r.Violation(sigBase+"|"+x.role+"|foreign-answer", fmt.Sprintf("%s: call %s received the answer of %s", label, x.nonce, x.ans.Nonce), wit)
		case invoked[x.nonce] != 1:
			// judged on the invocation record (written before the answer): the "answered" record of the scripted peer follows the
			// write, so the client may already have returned and closed the peer when it would have been written
			r.Violation(sigBase+"|"+x.role+"|answer-without-execution", fmt.Sprintf("%s: call %s returned its answer but the server recorded %d executions", label, x.nonce, invoked[x.nonce]), wit)
		default:
			if x.role == "R" {
				okR++
			}
			hr := 0
			if x.round >= 0 && x.round < len(handlerRunsPerRound) {
				hr = handlerRunsPerRound[x.round]
			}
			switch {
			case x.role == "F":
			case x.role == "R":
				r.Distinct(fmt.Sprintf("notif|%s|%s|%s|R", cs.kind, cs.mode, cs.via))
			case cs.mode == "none" && sentBy[fmt.Sprintf("%sX%d", tag, x.round)] > 0:
				r.Distinct(fmt.Sprintf("notif|%s|no-handler|%s|%s|burst=%s", cs.kind, cs.via, x.role, nbBucket(x.burst)))
			case hr > 0: // only rounds in which handlers were seen running count for the handler scenarios
				r.Distinct(fmt.Sprintf("notif|%s|%s|%s|%s|burst=%s", cs.kind, cs.mode, cs.via, x.role, nbBucket(x.burst)))
			}
		}
	}
	// ListTools from handlers (scripted peer only): every one the peer answered must have been delivered
	if lists > 0 {
		r.Eval(lists)
		if len(listErr) > 0 {
			if listsAnswered >= lists && fenceOK {
				r.Violation(sigBase+"|L|answered-call-not-delivered",
					fmt.Sprintf("%s: %d of %d ListTools calls issued from notification handlers failed (%s) although the peer answered all %d tools/list requests and a later call was answered", label, len(listErr), lists, listErr[0], listsAnswered),
					map[string]interface{}{"case": label, "lists_issued": lists, "lists_answered_by_peer": listsAnswered, "errors": listErr, "fence_ok": fenceOK})
			} else {
				r.Inconclusive(fmt.Sprintf("%s: %d ListTools calls from handlers failed; peer answered %d of %d; fence ok %v", label, len(listErr), listsAnswered, lists, fenceOK))
			}
		} else {
			r.Distinct(fmt.Sprintf("notif|%s|%s|%s|L", cs.kind, cs.mode, cs.via))
		}
	}
	sentTotal := 0
	for i := range cs.bursts {
		sentTotal += sentBy[fmt.Sprintf("%sX%d", tag, i)]
	}
	r.Count("notif_bursts", int64(len(cs.bursts)))
	r.Count("notif_notifications_sent", int64(sentTotal))
	r.Count("notif_handler_runs", int64(f))
	r.Count("notif_handler_runs_"+ck, int64(f))
	r.Count("notif_reentrant_calls_ok", int64(okR))
	r.Count("notif_reentrant_lists_ok", int64(lists-len(listErr)))
	r.Count("notif_gate_handler_gave_up", int64(gateTO))
	r.Count("notif_calls", int64(len(results)))
	for _, n := range cs.bursts {
		r.Max("notif_max_burst", int64(n))
	}
	if sampleOnce("notif-"+ck) && len(results) > 0 {
		r.Sample(map[string]interface{}{"scenario": "notif", "kind": cs.kind, "server": server, "handlers": cs.mode, "via": cs.via, "bursts": cs.bursts, "post_bursts": cs.posts,
			"notifications_sent": sentTotal, "handler_runs": f, "reentrant_calls_ok": okR, "reentrant_lists": lists, "calls": len(results), "fence_ok": fenceOK})
	}
}

func notifScenarios(r *vh.Run) {
	kit.Events.Reset()
	rng := r.Rand("notif")
	small := []int{1, 2, 3, 5, 8}
	mid := []int{9, 15, 16, 17, 24, 32, 33, 40}
	large := []int{64, 65, 100, 128, 129}
	if !r.Quick() {
		large = append(large, 200, 257, 513)
	}
	pickBursts := func(rounds int) (b, p []int) {
		b = []int{small[rng.Intn(len(small))], mid[rng.Intn(len(mid))], large[rng.Intn(len(large))]}
		for len(b) < rounds {
			all := append(append(append([]int{}, small...), mid...), large...)
			b = append(b, all[rng.Intn(len(all))])
		}
		rng.Shuffle(len(b), func(i, j int) { b[i], b[j] = b[j], b[i] })
		for range b {
			p = append(p, []int{0, 0, 3, 20}[rng.Intn(4)])
		}
		return
	}
	rounds := r.Pick(3, 6)
	reps := r.Pick(1, 3)
	var cases []nbCase
	add := func(kind kit.Kind, mode, via, method string) {
		b, p := pickBursts(rounds)
		cases = append(cases, nbCase{idx: len(cases), kind: kind, mode: mode, via: via, method: method, bursts: b, posts: p})
	}
	for rep := 0; rep < reps; rep++ {
		for _, mode := range []string{"reentrant", "gate", "slow"} {
			add(kit.Stdio, mode, "pipe", nbMethodList)
			add(kit.Stdio, mode, "pipe", nbMethodOwn)
			for _, kind := range []kit.Kind{kit.SSSE, kit.SLSSE} {
				add(kind, mode, "ctx", []string{nbMethodList, nbMethodOwn}[rng.Intn(2)])
			}
			for _, kind := range []kit.Kind{kit.SSSE, kit.SJSON} {
				add(kind, mode, "push", []string{nbMethodList, nbMethodOwn}[rng.Intn(2)])
			}
		}
		add(kit.LSSE, "none", "push", nbMethodList)
		add(kit.LSSE, "none", "push", nbMethodOwn)
	}
	// the cases are independent (own server, own client); a few at a time keep the wall time of a failing run bounded
	sem := make(chan struct{}, 8)
	var wg sync.WaitGroup
	for _, cs := range cases {
		wg.Add(1)
		sem <- struct{}{}
		go func(cs nbCase) {
			defer wg.Done()
			defer func() { <-sem }()
			runNotifCase(r, cs)
		}(cs)
	}
	wg.Wait()
	if r.Counter("notif_handler_runs_stdio") == 0 || r.Counter("notif_reentrant_calls_ok") == 0 {
		r.Inconclusive("notification-burst episodes: no handler run / no completed re-entrant call was observed on the stdio client")
	}
}
