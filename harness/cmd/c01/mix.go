// C01 — mixes of ALL operation kinds through the library clients while calls stay pending.
//
// A history runs on one library client (Streamable against each of the five Streamable server configurations,
// legacy SSE, stdio with a real child process). From the very first request after Initialize on, several slow
// tools/call requests are started whose handler waits on a gate (they stay pending), and while they are pending
// every other public operation is issued — sequentially (each waits for its answer) and concurrently (bursts):
// ListTools, ListPrompts, ListResources, GetPrompt (success / handler error), ReadResource (success / handler
// error), CallTool (result / Go error / isError result / a tool that asks the client for its roots, so that a
// server-issued roots/list is answered by the client meanwhile) and the roots list_changed notification. Then the
// gates open. Every call must have returned its own answer: the nonce it sent, lists that are the lists, the prompt
// built from its own argument, the resource of the URI it asked for, its own error text.
package main

import (
	"context"
	"encoding/json"
	"fmt"
	"math/rand"
	"os"
	"path/filepath"
	"regexp"
	"sort"
	"strings"
	"sync"
	"sync/atomic"
	"time"

	mcp "trpc.group/trpc-go/trpc-mcp-go"

	"verifharness/lib/kit"
	"verifharness/lib/vh"
)

// ---- fixture (also served by the stdio child: it is looked up by name) ----

const (
	mixFixtureName = "c01mix"
	mixResN        = 6
	mixOpWait      = 40 * time.Second // watchdog per call; decides nothing on its own (see judgement)
)

func init() { kit.Fixtures[mixFixtureName] = mixFixture }

var (
	mixWantTools     = []string{"askroots", "chan", "echo", "fail", "iserr", "nan", "nilcontent", "notify", "slow"}
	mixWantPrompts   = []string{"p-boom", "p-fail", "p-ok"}
	mixWantResources = func() []string {
		s := []string{"res://ok", "res://blob", "res://fail", "res://multi", "res://mix/fail"}
		for i := 0; i < mixResN; i++ {
			s = append(s, fmt.Sprintf("res://mix/%d", i))
		}
		sort.Strings(s)
		return s
	}()
)

// in-process gates (no safety release shorter than the whole history) and the "handler is waiting" board
type mixBoard struct {
	mu      sync.Mutex
	gates   map[string]chan struct{}
	waiting map[string]bool // nonce -> handler reached its gate
}

var mixB = &mixBoard{gates: map[string]chan struct{}{}, waiting: map[string]bool{}}

func (b *mixBoard) gate(name string) chan struct{} {
	b.mu.Lock()
	defer b.mu.Unlock()
	c, ok := b.gates[name]
	if !ok {
		c = make(chan struct{})
		b.gates[name] = c
	}
	return c
}

func (b *mixBoard) open(name string) {
	c := b.gate(name)
	b.mu.Lock()
	select {
	case <-c:
	default:
		close(c)
	}
	b.mu.Unlock()
}

func (b *mixBoard) setWaiting(nonce string) {
	b.mu.Lock()
	b.waiting[nonce] = true
	b.mu.Unlock()
}

func (b *mixBoard) isWaiting(nonce string) bool {
	b.mu.Lock()
	defer b.mu.Unlock()
	return b.waiting[nonce]
}

func mixArg(m map[string]interface{}, k string) string {
	s, _ := m[k].(string)
	return s
}

func mixFixture(in *kit.Instance) {
	kit.StdFixture(in)
	in.RegisterTool(mcp.NewTool("slow", mcp.WithDescription("echo after the gate opened"), mcp.WithString("nonce", mcp.Required()), mcp.WithString("payload")),
		func(ctx context.Context, req *mcp.CallToolRequest) (*mcp.CallToolResult, error) {
			a := req.Params.Arguments
			nonce := mixArg(a, "nonce")
			kit.Events.Add("invoke", nonce, nil)
			mixB.setWaiting(nonce)
			kit.Events.Add("mixwait", nonce, nil)
			safety := time.After(240 * time.Second)
			if gf := mixArg(a, "gatefile"); gf != "" { // the handler runs in another process: the gate is a file
			poll:
				for {
					if _, err := os.Stat(gf); err == nil {
						break
					}
					select {
					case <-ctx.Done():
						break poll
					case <-safety:
						break poll
					case <-time.After(2 * time.Millisecond):
					}
				}
			} else if g := mixArg(a, "gate"); g != "" {
				select {
				case <-mixB.gate(g):
				case <-ctx.Done():
				case <-safety:
				}
			}
			p := mixArg(a, "payload")
			b, _ := json.Marshal(kit.EchoAnswer{Nonce: nonce, Digest: kit.Digest(p), Len: len(p)})
			kit.Events.Add("mixdone", nonce, nil)
			return mcp.NewTextResult(string(b)), nil
		})
	in.RegisterTool(mcp.NewTool("askroots", mcp.WithString("nonce", mcp.Required())), func(ctx context.Context, req *mcp.CallToolRequest) (*mcp.CallToolResult, error) {
		nonce := mixArg(req.Params.Arguments, "nonce")
		kit.Events.Add("invoke", nonce, nil)
		rctx, cancel := context.WithTimeout(ctx, 10*time.Second)
		defer cancel()
		var res *mcp.ListRootsResult
		var err error
		switch {
		case in.Server != nil:
			res, err = in.Server.ListRoots(rctx)
		case in.SSE != nil:
			res, err = in.SSE.ListRoots(rctx)
		default:
			res, err = in.Stdio.ListRoots(rctx)
		}
		out := map[string]interface{}{"nonce": nonce}
		if err != nil {
			out["roots_err"] = err.Error()
		} else if res != nil {
			names := []string{}
			for _, rt := range res.Roots {
				names = append(names, rt.Name)
			}
			out["roots"] = names
		}
		b, _ := json.Marshal(out)
		return mcp.NewTextResult(string(b)), nil
	})
	in.RegisterPrompt(&mcp.Prompt{Name: "p-boom", Arguments: []mcp.PromptArgument{{Name: "who", Required: true}}},
		func(ctx context.Context, req *mcp.GetPromptRequest) (*mcp.GetPromptResult, error) {
			return nil, fmt.Errorf("pboom:%s", req.Params.Arguments["who"])
		})
	for i := 0; i < mixResN; i++ {
		uri := fmt.Sprintf("res://mix/%d", i)
		in.RegisterResource(&mcp.Resource{URI: uri, Name: fmt.Sprintf("mix-%d", i), MimeType: "text/plain"}, func(ctx context.Context, req *mcp.ReadResourceRequest) (mcp.ResourceContents, error) {
			return mcp.TextResourceContents{URI: req.Params.URI, MIMEType: "text/plain", Text: "content-of:" + req.Params.URI}, nil
		})
	}
	in.RegisterResource(&mcp.Resource{URI: "res://mix/fail", Name: "mix-fail"}, func(ctx context.Context, req *mcp.ReadResourceRequest) (mcp.ResourceContents, error) {
		return nil, fmt.Errorf("rboom:%s", req.Params.URI)
	})
}

// ---- the client's own log: answers it dropped ----

type mixLog struct {
	mu    sync.Mutex
	name  string
	drops []string
	tail  []string // the last warnings / errors the client logged (for witnesses)
}

var mixDebug = os.Getenv("C01_MIXDEBUG") != ""

func (l *mixLog) line(level, format string, args ...interface{}) {
	if mixDebug {
		fmt.Fprintf(os.Stderr, "%s [%s] %s %s\n", time.Now().Format("15:04:05.000000"), l.name, level, fmt.Sprintf(format, args...))
	}
	drop := strings.Contains(format, "No pending request") || strings.Contains(format, "unknown request ID") ||
		strings.Contains(format, "channel full") || strings.Contains(format, "is full or closed")
	if !drop && level != "W" && level != "E" {
		return
	}
	msg := short(fmt.Sprintf(format, args...))
	l.mu.Lock()
	if drop && len(l.drops) < 20 {
		l.drops = append(l.drops, msg)
	}
	if len(l.tail) >= 12 {
		l.tail = l.tail[1:]
	}
	l.tail = append(l.tail, level+" "+msg)
	l.mu.Unlock()
}

func (l *mixLog) list() []string {
	l.mu.Lock()
	defer l.mu.Unlock()
	return append([]string{}, l.drops...)
}

func (l *mixLog) last() []string {
	l.mu.Lock()
	defer l.mu.Unlock()
	return append([]string{}, l.tail...)
}

func (l *mixLog) Debug(args ...interface{})                 { l.line("D", "%s", fmt.Sprint(args...)) }
func (l *mixLog) Debugf(format string, args ...interface{}) { l.line("D", format, args...) }
func (l *mixLog) Info(args ...interface{})                  { l.line("I", "%s", fmt.Sprint(args...)) }
func (l *mixLog) Infof(format string, args ...interface{})  { l.line("I", format, args...) }
func (l *mixLog) Warn(args ...interface{})                  { l.line("W", "%s", fmt.Sprint(args...)) }
func (l *mixLog) Warnf(format string, args ...interface{})  { l.line("W", format, args...) }
func (l *mixLog) Error(args ...interface{})                 { l.line("E", "%s", fmt.Sprint(args...)) }
func (l *mixLog) Errorf(format string, args ...interface{}) { l.line("E", format, args...) }
func (l *mixLog) Fatal(args ...interface{})                 { l.line("E", "%s", fmt.Sprint(args...)) }
func (l *mixLog) Fatalf(format string, args ...interface{}) { l.line("E", format, args...) }

// ---- operations ----

var mixOps = []string{
	"tools/list", "prompts/list", "resources/list",
	"prompts/get", "resources/read", "tools/call",
	"tools/call-error", "prompts/get-error", "resources/read-error", "tools/call-iserror",
	"tools/call-roots", "roots-changed",
}

var mixNonceRe = regexp.MustCompile(`mxn[0-9]+x[0-9]+x[0-9a-f]{8}z`)
var mixErrAnswerRe = regexp.MustCompile(`\(code: -?[0-9]+\)\s*$`)

type mixRes struct {
	Op          string `json:"op"`
	Phase       string `json:"phase"`
	Ordinal     int    `json:"request_ordinal_after_initialize"` // order in which the harness issued it (bursts: start order)
	PendingSlow int    `json:"slow_calls_pending_when_issued"`
	Nonce       string `json:"nonce,omitempty"`
	Err         string `json:"err,omitempty"`
	TimedOut    bool   `json:"watchdog_fired,omitempty"`
	Panic       string `json:"panic,omitempty"`
	Problem     string `json:"problem,omitempty"`
	Detail      string `json:"detail,omitempty"`
	Got         string `json:"got,omitempty"`
	needHandler bool   // the answer comes from a handler that records its invocation under the nonce
}

type mixStep struct {
	Kind  string   `json:"step"` // "slow" | "seq" | "burst"
	Phase string   `json:"phase"`
	Ops   []string `json:"ops,omitempty"`
}

// mixPlan: history i. The first request after Initialize is, over the histories, every operation kind and a slow
// call; lists come first, second, after k calls, between and after the slow calls.
func mixPlan(rng *rand.Rand, i int, deep bool) (steps []mixStep, nSlow int) {
	nOps := len(mixOps)
	pre := 0
	if i%18 < nOps {
		pre = 1 + (i/2)%3 // starts with operation i, then up to two more
	}
	var ops []string
	for j := 0; j < pre; j++ {
		ops = append(ops, mixOps[(i+j*5)%nOps])
	}
	if pre > 0 {
		steps = append(steps, mixStep{Kind: "seq", Phase: "before-first-slow-call", Ops: ops})
	}
	nSlow = 2 + i%3
	if deep {
		nSlow = 2 + i%7
	}
	pick := func() string {
		if rng.Intn(2) == 0 {
			return mixOps[rng.Intn(3)] // a list
		}
		return mixOps[rng.Intn(nOps)]
	}
	for j := 0; j < nSlow; j++ {
		steps = append(steps, mixStep{Kind: "slow", Phase: "slow"})
		var seq []string
		for n := 1 + rng.Intn(3); n > 0; n-- {
			seq = append(seq, pick())
		}
		steps = append(steps, mixStep{Kind: "seq", Phase: "between-slow-calls", Ops: seq})
		if i%3 == 0 && j == 0 {
			steps = append(steps, mixStep{Kind: "burst", Phase: "burst-lists", Ops: []string{mixOps[rng.Intn(3)], mixOps[rng.Intn(3)], mixOps[rng.Intn(3)]}})
		}
	}
	burst := append([]string{}, mixOps...)
	burst = append(burst, mixOps[rng.Intn(3)], mixOps[rng.Intn(3)])
	rng.Shuffle(len(burst), func(a, b int) { burst[a], burst[b] = burst[b], burst[a] })
	steps = append(steps, mixStep{Kind: "burst", Phase: "burst-all-kinds", Ops: burst})
	steps = append(steps, mixStep{Kind: "seq", Phase: "after-burst", Ops: []string{mixOps[rng.Intn(3)], pick(), mixOps[rng.Intn(3)]}})
	return steps, nSlow
}

var mixHistSeq atomic.Int64

type mixHist struct {
	r       *vh.Run
	kind    kit.Kind
	idx     int
	id      int64
	c       *kit.LibClient
	log     *mixLog
	evfile  string // stdio: the child's event file
	gate    string
	gatefil string
	rng     *rand.Rand
	mu      sync.Mutex
	ordinal int
	res     []*mixRes
	slowOut int // slow calls started and not yet returned
}

func mixJSON(v interface{}) string {
	b, err := json.Marshal(v)
	if err != nil {
		return "<unmarshalable: " + err.Error() + ">"
	}
	return string(b)
}

func mixForeign(s, own string) string {
	for _, tok := range mixNonceRe.FindAllString(s, -1) {
		if tok != own {
			return tok
		}
	}
	return ""
}

func mixSameSet(got, want []string) bool {
	g := append([]string{}, got...)
	sort.Strings(g)
	if len(g) != len(want) {
		return false
	}
	for i := range g {
		if g[i] != want[i] {
			return false
		}
	}
	return true
}

func mixTextOf(res *mcp.CallToolResult) (string, bool) {
	if res == nil || len(res.Content) != 1 {
		return "", false
	}
	switch tc := res.Content[0].(type) {
	case mcp.TextContent:
		return tc.Text, true
	case *mcp.TextContent:
		return tc.Text, true
	}
	return "", false
}

// do issues one operation and judges the value it returned against what THIS call asked for.
func (h *mixHist) do(op, phase string) *mixRes {
	h.mu.Lock()
	h.ordinal++
	x := &mixRes{Op: op, Phase: phase, Ordinal: h.ordinal, PendingSlow: h.slowOut}
	x.Nonce = fmt.Sprintf("mxn%dx%dx%08xz", h.id, x.Ordinal, h.rng.Uint32())
	payload := fmt.Sprintf("mix-payload-%d", h.rng.Int63())
	h.res = append(h.res, x)
	h.mu.Unlock()
	return h.exec(x, payload, nil)
}

func (h *mixHist) exec(x *mixRes, payload string, ctx context.Context) *mixRes {
	if ctx == nil {
		c, cancel := context.WithTimeout(context.Background(), mixOpWait)
		defer cancel()
		ctx = c
	}
	defer func() {
		if p := recover(); p != nil {
			x.Panic = fmt.Sprint(p)
		}
	}()
	c := h.c
	var err error
	wantErr := "" // the operation is answered with an error carrying this text
	fail := func(problem, format string, a ...interface{}) {
		if x.Problem == "" {
			x.Problem, x.Detail = problem, fmt.Sprintf(format, a...)
		}
	}
	call := func(tool string, args map[string]interface{}) *mcp.CallToolResult {
		req := &mcp.CallToolRequest{}
		req.Params.Name = tool
		req.Params.Arguments = args
		var out *mcp.CallToolResult
		out, err = c.CallTool(ctx, req)
		if err == nil {
			x.Got = short(mixJSON(out))
		}
		return out
	}
	echoCheck := func(out *mcp.CallToolResult) {
		txt, ok := mixTextOf(out)
		var a kit.EchoAnswer
		if !ok || json.Unmarshal([]byte(txt), &a) != nil || a.Nonce == "" {
			fail("not-own-answer", "the result is not the tool's answer to this call (nonce %s)", x.Nonce)
		} else if a.Nonce != x.Nonce || a.Digest != kit.Digest(payload) {
			fail("foreign-answer", "the call with nonce %s received the answer of nonce %s", x.Nonce, a.Nonce)
		}
	}
	switch x.Op {
	case "tools/list":
		var out *mcp.ListToolsResult
		if out, err = c.ListTools(ctx, &mcp.ListToolsRequest{}); err == nil {
			x.Got = short(mixJSON(out))
			var names []string
			if out != nil {
				for _, t := range out.Tools {
					names = append(names, t.Name)
				}
			}
			if !mixSameSet(names, mixWantTools) {
				fail("not-own-answer", "ListTools returned the names %v, the server's tool list is %v", names, mixWantTools)
			}
		}
	case "prompts/list":
		var out *mcp.ListPromptsResult
		if out, err = c.ListPrompts(ctx, &mcp.ListPromptsRequest{}); err == nil {
			x.Got = short(mixJSON(out))
			var names []string
			if out != nil {
				for _, p := range out.Prompts {
					names = append(names, p.Name)
				}
			}
			if !mixSameSet(names, mixWantPrompts) {
				fail("not-own-answer", "ListPrompts returned the names %v, the server's prompt list is %v", names, mixWantPrompts)
			}
		}
	case "resources/list":
		var out *mcp.ListResourcesResult
		if out, err = c.ListResources(ctx, &mcp.ListResourcesRequest{}); err == nil {
			x.Got = short(mixJSON(out))
			var uris []string
			if out != nil {
				for _, rs := range out.Resources {
					uris = append(uris, rs.URI)
				}
			}
			if !mixSameSet(uris, mixWantResources) {
				fail("not-own-answer", "ListResources returned the URIs %v, the server's resource list is %v", uris, mixWantResources)
			}
		}
	case "prompts/get", "prompts/get-error":
		req := &mcp.GetPromptRequest{}
		req.Params.Name = "p-ok"
		if x.Op == "prompts/get-error" {
			req.Params.Name = "p-boom"
			wantErr = "pboom:" + x.Nonce
		}
		req.Params.Arguments = map[string]string{"who": x.Nonce}
		var out *mcp.GetPromptResult
		if out, err = c.GetPrompt(ctx, req); err == nil && wantErr == "" {
			js := mixJSON(out)
			x.Got = short(js)
			if out == nil || out.Description != "d:"+x.Nonce || len(out.Messages) != 2 || !strings.Contains(js, "hello "+x.Nonce) {
				fail("not-own-answer", "GetPrompt(p-ok, who=%s) did not return the prompt built from its own argument", x.Nonce)
			}
		}
	case "resources/read", "resources/read-error":
		req := &mcp.ReadResourceRequest{}
		req.Params.URI = fmt.Sprintf("res://mix/%d", x.Ordinal%mixResN)
		if x.Op == "resources/read-error" {
			req.Params.URI = "res://mix/fail"
			wantErr = "rboom:res://mix/fail"
		}
		x.Nonce = "" // a read carries no nonce: the URI is what distinguishes it
		var out *mcp.ReadResourceResult
		if out, err = c.ReadResource(ctx, req); err == nil && wantErr == "" {
			js := mixJSON(out)
			x.Got = short(js)
			ok := out != nil && len(out.Contents) == 1
			if ok {
				switch t := out.Contents[0].(type) {
				case mcp.TextResourceContents:
					ok = t.URI == req.Params.URI && t.Text == "content-of:"+req.Params.URI
				case *mcp.TextResourceContents:
					ok = t.URI == req.Params.URI && t.Text == "content-of:"+req.Params.URI
				default:
					ok = false
				}
			}
			if !ok {
				fail("not-own-answer", "ReadResource(%s) did not return the contents of that URI", req.Params.URI)
			}
		}
	case "tools/call", "slow":
		args := map[string]interface{}{"nonce": x.Nonce, "payload": payload}
		tool := "echo"
		if x.Op == "slow" {
			tool = "slow"
			if h.gatefil != "" {
				args["gatefile"] = h.gatefil
			} else {
				args["gate"] = h.gate
			}
		}
		x.needHandler = true
		if out := call(tool, args); err == nil {
			echoCheck(out)
		}
	case "tools/call-error":
		wantErr = "boom:" + x.Nonce
		call("fail", map[string]interface{}{"nonce": x.Nonce})
	case "tools/call-iserror":
		if out := call("iserr", map[string]interface{}{"nonce": x.Nonce}); err == nil {
			txt, ok := mixTextOf(out)
			if !ok || out == nil || !out.IsError || txt != "iserr:"+x.Nonce {
				fail("not-own-answer", "CallTool(iserr, nonce %s) did not return the error result built from its own argument", x.Nonce)
			}
		}
	case "tools/call-roots":
		x.needHandler = true
		if out := call("askroots", map[string]interface{}{"nonce": x.Nonce}); err == nil {
			txt, ok := mixTextOf(out)
			var a struct {
				Nonce string   `json:"nonce"`
				Roots []string `json:"roots"`
				Err   string   `json:"roots_err"`
			}
			if !ok || json.Unmarshal([]byte(txt), &a) != nil || a.Nonce == "" {
				fail("not-own-answer", "CallTool(askroots, nonce %s): the result is not the tool's answer to this call", x.Nonce)
			} else if a.Nonce != x.Nonce {
				fail("foreign-answer", "the call with nonce %s received the answer of nonce %s", x.Nonce, a.Nonce)
			} else if a.Err == "" {
				h.r.Count("mix_server_issued_roots_list_answered_meanwhile_"+mixClientKind(h.kind), 1)
			} else {
				h.r.Count("mix_server_issued_roots_list_failed_"+mixClientKind(h.kind), 1)
			}
		}
	case "roots-changed":
		x.Nonce = ""
		nerr := c.SendRootsListChangedNotification(ctx)
		if nerr != nil {
			x.Detail = "notification: " + nerr.Error() // a notification has no answer; its outcome is not judged
		}
		return x
	}
	// common part: errors, foreign nonces
	if err != nil {
		x.Err = err.Error()
		if f := mixForeign(x.Err, x.Nonce); f != "" && x.Nonce != "" {
			fail("foreign-answer", "the call with nonce %s received the error answer of nonce %s", x.Nonce, f)
			return x
		}
		if wantErr != "" && strings.Contains(x.Err, wantErr) {
			return x // its own error answer
		}
		low := strings.ToLower(x.Err)
		if ctx.Err() != nil || strings.Contains(low, "timeout") || strings.Contains(low, "deadline exceeded") || strings.Contains(low, "context canceled") {
			x.TimedOut = true
			fail("missing-answer", "no answer within the watchdog: %s", x.Err)
			return x
		}
		// "<operation> error: <message> (code: N)" is how the clients hand a JSON-RPC error answer to the caller;
		// anything else is a failure of the transport, judged like a missing answer (is the connection up?)
		if wantErr != "" && mixErrAnswerRe.MatchString(x.Err) {
			fail("foreign-or-garbled-error", "expected the error answer %q, got: %s", wantErr, x.Err)
		} else {
			fail("call-failed", "%s", x.Err)
		}
		return x
	}
	if wantErr != "" {
		fail("error-answer-lost", "the call returned a result instead of its error answer %q", wantErr)
		return x
	}
	if x.Nonce != "" {
		if f := mixForeign(x.Got, x.Nonce); f != "" {
			fail("foreign-answer", "the call with nonce %s received an answer carrying the nonce %s of another call", x.Nonce, f)
		}
	}
	return x
}

func mixClientKind(k kit.Kind) string {
	switch k {
	case kit.LSSE:
		return "legacy-sse"
	case kit.Stdio:
		return "stdio"
	}
	return "streamable"
}

// handlerWaiting: the slow call's handler reached its gate (so its request was sent, carries its id and is pending).
func (h *mixHist) handlerWaiting(nonce string, returned <-chan struct{}, d time.Duration) bool {
	deadline := time.Now().Add(d)
	for {
		select {
		case <-returned:
			return false // the call is over already: it is not pending
		default:
		}
		if h.evfile == "" {
			if mixB.isWaiting(nonce) {
				return true
			}
		} else {
			for _, e := range kit.LoadEvFile(h.evfile) {
				if e.K == "mixwait" && e.Nonce == nonce {
					return true
				}
			}
		}
		if time.Now().After(deadline) {
			return false
		}
		time.Sleep(2 * time.Millisecond)
	}
}

// runMixHistory runs history idx on a fresh client. Returns whether it was judged (handshake etc. worked).
func runMixHistory(r *vh.Run, in *kit.Instance, kind kit.Kind, idx, round int) {
	h := &mixHist{r: r, kind: kind, idx: idx, id: mixHistSeq.Add(1), log: &mixLog{}}
	h.log.name = fmt.Sprintf("client %s/%d #%d", kind, idx, h.id)
	h.rng = r.Rand(fmt.Sprintf("mix-%s-%d-%d", kind, round, idx))
	ck := mixClientKind(kind)
	steps, nSlow := mixPlan(h.rng, idx+round*7, !r.Quick())
	var err error
	if kind == kit.Stdio {
		h.evfile = filepath.Join(r.OutDir, fmt.Sprintf("mix-ev-%d-%d.ndjson", os.Getpid(), h.id))
		h.gatefil = filepath.Join(r.OutDir, fmt.Sprintf("mix-gate-%d-%d", os.Getpid(), h.id))
		os.Remove(h.evfile)
		os.Remove(h.gatefil)
		defer os.Remove(h.evfile)
		defer os.Remove(h.gatefil)
		self, e := os.Executable()
		if e != nil {
			r.Fatal("mix: %v", e)
		}
		var sc *mcp.StdioClient
		sc, err = mcp.NewStdioClient(mcp.StdioTransportConfig{
			ServerParams: mcp.StdioServerParameters{Command: self, Env: map[string]string{"VH_CHILD": "stdio-server", "VH_FIXTURE": mixFixtureName, "VH_EVLOG": h.evfile}},
			Timeout:      3 * mixOpWait,
		}, kit.ClientInfo, mcp.WithStdioLogger(h.log))
		if err == nil {
			h.c = &kit.LibClient{Connector: sc, Std: sc, Kind: kit.Stdio}
		}
	} else {
		h.gate = fmt.Sprintf("mixgate-%d", h.id)
		h.c, err = in.NewClient(mcp.WithClientLogger(h.log))
	}
	if err != nil {
		r.Fatal("mix: client %s: %v", kind, err)
	}
	closed := false
	defer func() {
		if !closed {
			h.c.Close()
		}
	}()
	rootName := fmt.Sprintf("mixroot-%d", h.id)
	h.c.SetRootsProvider(mcp.NewDefaultRootsProvider(mcp.Root{URI: "file:///" + rootName, Name: rootName}))
	// The context handed to Initialize lives as long as the history: cancelling it straight after Initialize returned
	// now and then ends the legacy SSE client's event stream (a watcher goroutine in sseClientTransport.start may
	// only then reach its select and find both channels ready). That is a client life-cycle matter, not this property.
	ictx, icancel := context.WithCancel(context.Background())
	defer icancel()
	iwd := time.AfterFunc(mixOpWait, icancel)
	_, err = h.c.Initialize(ictx, &mcp.InitializeRequest{})
	iwd.Stop()
	if err != nil {
		r.Inconclusive(fmt.Sprintf("mix %s history %d: Initialize failed: %v", kind, idx, err))
		return
	}

	// ---- the history ----
	type slowCall struct {
		x       *mixRes
		payload string
		done    chan struct{}
		seen    bool
	}
	var slows []*slowCall
	slowCtx, slowCancel := context.WithCancel(context.Background())
	defer slowCancel()
	aborted := ""
	firstOp := ""
	noteFirst := func(op string) {
		if firstOp == "" {
			firstOp = op
		}
	}
	for _, st := range steps {
		if aborted != "" {
			break
		}
		switch st.Kind {
		case "slow":
			noteFirst("slow tools/call")
			h.mu.Lock()
			h.ordinal++
			x := &mixRes{Op: "slow", Phase: "slow", Ordinal: h.ordinal, PendingSlow: h.slowOut}
			x.Nonce = fmt.Sprintf("mxn%dx%dx%08xz", h.id, x.Ordinal, h.rng.Uint32())
			s := &slowCall{x: x, payload: fmt.Sprintf("mix-slow-payload-%d", h.rng.Int63()), done: make(chan struct{})}
			h.res = append(h.res, x)
			h.slowOut++
			h.mu.Unlock()
			slows = append(slows, s)
			go func() {
				defer close(s.done)
				h.exec(s.x, s.payload, slowCtx)
				h.mu.Lock()
				h.slowOut--
				h.mu.Unlock()
			}()
			// its request is on the wire and pending once its handler waits at the gate
			s.seen = h.handlerWaiting(x.Nonce, s.done, 20*time.Second)
		case "seq":
			for _, op := range st.Ops {
				noteFirst(op)
				x := h.do(op, st.Phase)
				if x.TimedOut {
					aborted = fmt.Sprintf("%s (request %d) got no answer", op, x.Ordinal)
					break
				}
			}
		case "burst":
			var wg sync.WaitGroup
			for _, op := range st.Ops {
				noteFirst(op)
				wg.Add(1)
				// the request ordinal (and the nonce) is taken in start order; the goroutines then race
				h.mu.Lock()
				h.ordinal++
				x := &mixRes{Op: op, Phase: st.Phase, Ordinal: h.ordinal, PendingSlow: h.slowOut}
				x.Nonce = fmt.Sprintf("mxn%dx%dx%08xz", h.id, x.Ordinal, h.rng.Uint32())
				payload := fmt.Sprintf("mix-payload-%d", h.rng.Int63())
				h.res = append(h.res, x)
				h.mu.Unlock()
				go func() { defer wg.Done(); h.exec(x, payload, nil) }()
			}
			wg.Wait()
		}
	}
	// how many slow calls are pending now, each with its handler seen at the gate
	pendingAtOpen := 0
	for _, s := range slows {
		select {
		case <-s.done:
		default:
			if s.seen {
				pendingAtOpen++
			}
		}
	}
	established := aborted == "" && pendingAtOpen == nSlow
	// ---- the gates open ----
	if h.gatefil != "" {
		_ = os.WriteFile(h.gatefil, []byte("open"), 0o644)
	} else {
		mixB.open(h.gate)
	}
	wd := time.AfterFunc(mixOpWait, slowCancel) // watchdog for the slow calls, counted from the release
	for _, s := range slows {
		<-s.done
	}
	wd.Stop()
	if aborted == "" {
		for _, op := range []string{"tools/list", "prompts/list", "resources/list", "prompts/get", "resources/read"} {
			if x := h.do(op, "after-release"); x.TimedOut {
				aborted = fmt.Sprintf("%s (request %d) got no answer", op, x.Ordinal)
				break
			}
		}
	}
	// the connection still works: a last call on the same client is answered
	fence := h.do("tools/call", "fence")
	connUp := fence.Problem == "" && fence.Panic == ""

	// ---- handler invocations ----
	h.c.Close()
	closed = true
	invoked := map[string]int{}
	returned := map[string]int{}
	var evs []kit.Ev
	if h.evfile != "" {
		evs = kit.LoadEvFile(h.evfile)
	} else {
		evs = kit.Events.Snapshot()
	}
	mine := fmt.Sprintf("mxn%dx", h.id)
	for _, e := range evs {
		if !strings.HasPrefix(e.Nonce, mine) {
			continue
		}
		switch e.K {
		case "invoke":
			invoked[e.Nonce]++
		case "mixdone":
			returned[e.Nonce]++
		}
	}

	// ---- judgement ----
	drops := h.log.list()
	if len(drops) > 0 {
		r.Count("mix_answers_dropped_by_client_log_"+ck, int64(len(drops)))
	}
	nOK := 0
	for _, x := range h.res {
		r.Eval(1)
		sig := fmt.Sprintf("C01|mix|%s|op=%s", kind, x.Op)
		if x.Op == "slow" {
			sig = fmt.Sprintf("C01|mix|%s|op=tools/call-pending", kind)
		}
		wit := map[string]interface{}{"server": kind, "client": ck, "history": idx, "first_request_after_initialize": firstOp, "slow_calls": nSlow,
			"call": x, "handler_invocations": invoked[x.Nonce], "connection_up_afterwards": connUp, "fence": fence, "history_aborted": aborted,
			"answers_the_client_logged_as_dropped": drops, "client_log_tail": h.log.last(), "plan": steps}
		if x.Op == "slow" {
			wit["handler_returned"] = returned[x.Nonce]
		}
		if x.Panic != "" {
			r.Violation(sig+"|panic-in-caller", fmt.Sprintf("%s library client: %s panicked in the caller's goroutine: %s", kind, x.Op, x.Panic), wit)
			continue
		}
		if x.Op == "roots-changed" {
			r.Count("mix_notifications_sent", 1)
			continue
		}
		opName := x.Op
		if x.Op == "slow" {
			opName = "tools/call of the slow (gated) tool"
		}
		what := fmt.Sprintf("%s library client, history with %d slow tools/call pending (first request after Initialize: %s): request #%d %s (issued with %d calls pending, phase %s)",
			kind, nSlow, firstOp, x.Ordinal, opName, x.PendingSlow, x.Phase)
		switch x.Problem {
		case "":
		case "missing-answer", "call-failed":
			if x == fence {
				r.Inconclusive(fmt.Sprintf("mix %s history %d: the closing call failed (%s): nothing is known about the connection", kind, idx, x.Err))
				continue
			}
			if !connUp {
				r.Inconclusive(fmt.Sprintf("mix %s history %d: %s #%d unanswered (%s) but the connection is not known to be up (closing call: %s %s)", kind, idx, x.Op, x.Ordinal, x.Err, fence.Problem, fence.Err))
				continue
			}
			if x.Problem == "missing-answer" && x.Op == "slow" && returned[x.Nonce] == 0 {
				r.Inconclusive(fmt.Sprintf("mix %s history %d: slow call #%d unanswered, but its handler is not known to have returned", kind, idx, x.Ordinal))
				continue
			}
			if x.Problem == "missing-answer" {
				r.Violation(sig+"|missing-answer", what+" never got an answer although the connection stayed up (a call issued afterwards on the same client was answered): "+x.Err, wit)
			} else {
				r.Violation(sig+"|call-failed", what+" failed while the connection was up: "+x.Err, wit)
			}
			continue
		default:
			r.Violation(sig+"|"+x.Problem, what+": "+x.Detail, wit)
			continue
		}
		if x.needHandler {
			if n := invoked[x.Nonce]; n != 1 {
				r.Violation(fmt.Sprintf("C01|mix|%s|handler-count", kind), fmt.Sprintf("%s: the handler ran %d times for %s", what, n, x.Nonce), wit)
				continue
			}
		}
		nOK++
		if established && x != fence {
			key := fmt.Sprintf("mix|%s|%s|%s|pending=%d", kind, x.Op, x.Phase, x.PendingSlow)
			r.Distinct(key)
			r.SetAdd("mix_operations_answered_while_calls_pending_"+ck, x.Op)
		}
	}
	// handlers that ran more than once for one request (whatever the caller saw)
	for n, k := range invoked {
		if k > 1 {
			r.Violation(fmt.Sprintf("C01|mix|%s|handler-count", kind), fmt.Sprintf("%s library client: the handler ran %d times for the one request with nonce %s", kind, k, n), map[string]interface{}{"nonce": n, "plan": steps})
		}
	}
	r.Count("mix_histories_"+ck, 1)
	r.Count("mix_calls_"+ck, int64(len(h.res)))
	r.Count("mix_calls_own_answer_"+ck, int64(nOK))
	if established {
		r.Count("mix_histories_with_all_slow_calls_pending_until_release_"+ck, 1)
		r.Max("mix_slow_calls_pending_together_"+ck, int64(pendingAtOpen))
		r.SetAdd("mix_first_request_after_initialize_"+ck, firstOp)
	} else if aborted == "" {
		r.Inconclusive(fmt.Sprintf("mix %s history %d: only %d of %d slow calls were seen pending at the release", kind, idx, pendingAtOpen, nSlow))
	}
	if established && sampleOnce("mix") {
		r.Sample(map[string]interface{}{"scenario": "mix", "server": kind, "client": ck, "first_request_after_initialize": firstOp, "slow_calls_pending_until_release": pendingAtOpen,
			"requests": len(h.res), "own_answers": nOK, "plan": steps})
	}
}

// mixScenarios: per server configuration a batch of histories, several at a time (clients side by side on one server).
func mixScenarios(r *vh.Run) {
	rounds := r.Pick(1, 4)
	nHist := r.Pick(18, 36)
	par := r.Pick(9, 12)
	for round := 0; round < rounds; round++ {
		for _, kind := range kit.AllKinds {
			if only := os.Getenv("C01_MIXKIND"); only != "" && only != string(kind) { // debugging aid
				continue
			}
			kit.Events.Reset()
			var in *kit.Instance
			if kind != kit.Stdio {
				o := kit.Opts{}
				if mixDebug {
					sl := &mixLog{name: "server " + string(kind)}
					o.SSEOpts, o.ServerOpts = []mcp.SSEOption{mcp.WithSSEServerLogger(sl)}, []mcp.ServerOption{mcp.WithServerLogger(sl)}
				}
				in = kit.Start(kind, o)
				mixFixture(in)
			}
			sem := make(chan struct{}, par)
			var wg sync.WaitGroup
			for i := 0; i < nHist; i++ {
				wg.Add(1)
				sem <- struct{}{}
				go func(i int) {
					defer wg.Done()
					defer func() { <-sem }()
					runMixHistory(r, in, kind, i, round)
				}(i)
			}
			wg.Wait()
			if in != nil {
				in.Close()
			}
		}
	}
	for _, ck := range []string{"streamable", "legacy-sse", "stdio"} {
		if os.Getenv("C01_MIXKIND") != "" {
			break
		}
		r.Require(r.Counter("mix_histories_with_all_slow_calls_pending_until_release_"+ck) > 0,
			"mix: no %s history kept all its slow calls pending while the other operations ran", ck)
	}
}
