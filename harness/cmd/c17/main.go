// C17 — retry: bounded attempts, only transient failures, capped back-off, prompt cancel.
//
// (a) direct: retry.Execute under scripted operations vs. a reference model (model.go), waits recorded
// through the back-off observer; Validate on a boundary-value grid. (b) cancellation at every wait /
// attempt. (c) end to end: Streamable and legacy-SSE clients against a scripted HTTP server.
// (d) every public way of configuring retries (options.go), end to end, for every request kind.
// (e) every HTTP exchange of every client operation failed in turn, with hostile answers (phases.go).
package main

import (
	"fmt"
	"math"
	"runtime/debug"
	"strings"
	"time"

	mcp "trpc.group/trpc-go/trpc-mcp-go"

	"verifharness/lib/kit"
	"verifharness/lib/vh"
)

var panicked bool

func main() {
	kit.MaybeServeStdioChild()
	kit.Silence()
	r := vh.NewRun("C17", "fault_enumeration")
	installObserver()

	alpha := buildAlphabet(r)
	resolveOpenClasses(r, alpha)

	models := partValidate(r)
	partDirect(r, alpha, models)
	partCancel(r, alpha, models)
	refused, err := boundNotListening()
	if err != nil {
		r.Fatal("bound-not-listening socket: %v", err)
	}
	// A panic of the library client in the monitor's own goroutine (seen with a configuration that made the retry
	// loop run zero times: the request was never sent and Initialize dereferenced a nil answer) ends that part with
	// a violation naming the first library frame; the other parts still run.
	guardPart := func(name string, f func()) {
		defer func() {
			if p := recover(); p != nil {
				st := string(debug.Stack())
				site := "unknown"
				for _, l := range strings.Split(st, "\n") {
					if strings.HasPrefix(l, "trpc.group/trpc-go/trpc-mcp-go") {
						if i := strings.LastIndex(l, "("); i > 0 {
							l = l[:i]
						}
						site = strings.TrimPrefix(l, "trpc.group/trpc-go/trpc-mcp-go")
						break
					}
				}
				r.Violation(fmt.Sprintf("C17|%s|client-panic|%s", name, site), fmt.Sprintf("part %s: the library client panicked in the caller's goroutine: %v", name, p), map[string]interface{}{"stack": st})
				panicked = true
			}
		}()
		f()
	}
	guardPart("options", func() { partOptions(r, refused) })
	guardPart("optvalues", func() { partOptionValues(r, refused) })
	guardPart("e2e", func() { partE2E(r, refused) })
	guardPart("phases", func() { partPhases(r, refused) })
	guardPart("attrs", func() { partAttrs(r, refused) })

	for _, c := range []string{"phases_cases", "phases_cases_with_reattempt", "phases_cases_with_one_attempt", "options_calls_streamable", "options_calls_legacy-sse", "options_sequences_with_retry", "options_waits_compared", "options_real_gaps_bounded_below", "options_real_wait_calls",
		"optvalues_calls_streamable", "optvalues_calls_legacy-sse", "optvalues_clients_built_after_a_different_option_was_created", "optvalues_clients_built_concurrently", "optvalues_sequences_with_retry", "optvalues_waits_compared",
		"attrs_permanent_faults_at_status_like_ids", "attrs_transient_faults_at_status_like_ids", "attrs_cell_clients", "attrs_id_clients",
		"direct_scripts_enumerated", "direct_scripts_sampled", "direct_waits_compared", "direct_sequences_with_retry",
		"cancellations_during_wait", "e2e_scripts_streamable", "e2e_scripts_legacy-sse", "e2e_sequences_with_retry", "validate_configs"} {
		if r.Counter(c) == 0 && !panicked {
			r.Fatal("vacuous run: monitor counter %s is 0", c)
		}
	}
	r.Finish("direct: Validate on the 750-point boundary grid (each field at min-1, min, mid, max, max+1) plus extreme values; for every distinct validated configuration "+
		"all-transient scripts of length MaxRetries+2 per transient error value, every pruned script (nothing after the first non-transient outcome) of length <= MaxRetries+2 over "+
		"10 class representatives when MaxRetries <= 3, and seeded samples; every unpruned script of length <= MaxRetries+2 over the representatives for MaxRetries 0..3; "+
		"every pruned script over the whole alphabet of real error values for MaxRetries <= 2 (quick) / 3 (thorough); seeded samples for MaxRetries up to 10; waits compared exactly with min(Initial*Factor^(k-1), Max) in rational arithmetic. "+
		"cancellation: from inside every wait j and every attempt i of an all-transient script, and before the call. "+
		"end to end: Streamable and legacy-SSE clients, every pruned script of length <= MaxRetries+2 over 23 wire outcomes for MaxRetries 1 (quick) / 1..2 (thorough), samples beyond, "+
		"boundary MaxRetries values, no-retry clients, real (unshrunk) waits on a subset. "+
		"option values: tables of 26 retry option values (15 x WithSimpleRetry(n) over 14 different n, 11 x WithRetry(cfg), among them two values from one cfg variable modified in between, cfg variables modified after the value was made) created in one pass "+
		"(first table in a fixed order, the others in seeded order, prepared alternately for the two HTTP clients) before any client exists; clients constructed from the values in creation order, reverse order (other back-end), shuffled with further values created "+
		"between construction and use, one value for two clients used alternately, fresh clients whose retried request is initialize, all clients constructed concurrently while 64 further values are created, and creation / construction / use interleaved; "+
		"every client driven with a persistent transient failure, MaxRetries failures then success, a failure then 404, and success, judged against the configuration ITS value was created with. "+
		"phases: for both HTTP clients every HTTP exchange of every operation is failed in turn (legacy: stream-opening GET and endpoint wait inside the first request, request POST of initialize and of a later call, "+
		"both notification POSTs, the POST answering a server request; Streamable: initialize POST, later POST, both notification POSTs, listening-stream GET, DELETE, answer POST) with each of 22 statuses "+
		"x 15 bodies (empty, JSON-RPC error objects, texts mentioning connection refused / reset / i/o timeout / EOF / '502 ' / 'code 503' / 'status code: NNN') x 6 content types (quick: every status x body and status x content type pair, thorough: the product), "+
		"complete 200 answers that are not a result, connection refused / reset / closed before the headers / closed mid-body, scripts of transient failures followed by success or a hostile 4xx, and the caller's context cancelled while the exchange is open; "+
		"MaxRetries 2 (all), 1 (3, 11 thorough) and no retry option (samples); attempts counted at the client's HTTP boundary. "+
		"attrs: for Streamable/JSON, Streamable/event-stream answer and legacy SSE clients with retry, (ids) one client per fault kind whose own request counter is driven through 2..620 (thorough 1640) with mixed operations and then set to large values, "+
		"the fault injected at every id ending in 408, 409, 429, 500-511, at boundary neighbours and at seeded ids; (cells) one client per attribute value (URL path / query / port / host name, WithClientPath, header, service name, session id, tool / prompt / resource names, params containing status-like and error-like tokens) x every fault kind; "+
		"fault kinds: 9 permanent exchange failures (non-HTTP bytes, bad status line, bad Content-Length, redirect loop, HTTPS to a plain server, untrusted certificate, unsupported scheme, handler error, NXDOMAIN from the Go resolver), 5 complete non-transient answers, 6 transient; "+
		"a persistent transient fault must give MaxRetries+1 calls of the HTTPReqHandler for that id, everything else exactly 1. A case is distinct by (part, validated configuration, number of leading transient outcomes, what ended the sequence) and non-trivial when attempts, waits and result all matched the model.",
		[]string{
			"the waits are observed at the hook between their computation and time.After; the hook's return value replaces the real wait",
			"cancellation instants are the logical points 'before the call', 'inside attempt i' and 'when wait j has been computed'; an asynchronous cancel in the middle of a running timer is not driven (it reaches the same select)",
			"response-header timeouts, http.Client.Timeout and truncated bodies (unexpected EOF) are not clearly covered by the statement's 'timeout' / 'EOF': their classification is observed and reported, not judged",
			"end-to-end 'connection refused' is produced at the client's HTTP boundary by sending the request to a bound-but-not-listening port; timeouts are not driven end to end",
			"factors off the grid are restricted to values whose powers are exact in binary floating point; a non-integral nanosecond product may be rounded either way",
			"float64-to-Duration overflow behaviour is that of the machine the check runs on (amd64 here)",
			"WithSimpleRetry(n) stands for {MaxRetries: n, 500ms, 2.0, 8s} (its documented defaults) before clamping",
			"option values: RetryConfig is passed to WithRetry by value; a client that nevertheless behaved as the caller's cfg variable said LATER would be counted (optvalues_cfg_variable_modified_later_followed_the_later_content), not judged",
			"when several retry options are given the statement does not say which governs: a call is accepted when attempts, result and waits all follow ONE of them (the library was observed to follow the last)",
			"a NaN factor has no nearest in-range value: any wait sequence Initial x F^(k-1) capped at Max with 1 <= F <= 10 is accepted",
			"phases: one call of the client's HTTPReqHandler is one attempt of the library (net/http may replay a GET/DELETE on a dead keep-alive connection by itself; arrivals at the server are recorded, not judged)",
			"phases: a complete HTTP answer is classified by its status alone (408, 409, 429, 5xx transient; every other 4xx and a 200 that is not a usable result not transient), whatever its body or Content-Type says",
			"phases: exchanges the library sends outside the retry loop (notifications, answers to server requests, listening-stream GET, DELETE) are judged for the bound and for 'no further attempt after a non-transient failure' only; the asynchronous ones are counted after a fixed settling time, which can only hide extra attempts, never invent them",
			"attrs: a name that does not resolve (NXDOMAIN), TLS / certificate failures, a redirect loop, bytes that are not HTTP, an unsupported scheme and an error returned by a custom HTTPReqHandler are not in the statement's transient set: exactly one attempt",
			"attrs: a host name in the client's URL is mapped to the scripted server by the request handler's own dialer; NXDOMAIN comes from the real Go resolver pointed at an in-process DNS responder",
			"phases: answers truncated in the middle of the body and event streams that end early are observed and reported (set phases_open_classes_observed_attempts), only the bound is judged; so is an empty 200 body",
		})
}

// resolveOpenClasses observes how the library classifies the outcomes the statement leaves open.
func resolveOpenClasses(r *vh.Run, alpha []outcome) {
	for i := range alpha {
		if alpha[i].Kind != 'O' {
			continue
		}
		res := execDirect(&cfg{MaxRetries: 1, InitialBackoff: time.Millisecond, BackoffFactor: 1, MaxBackoff: time.Millisecond}, []outcome{alpha[i]}, directOpts{})
		if res.Attempts >= 2 {
			alpha[i].Kind = kTransient
			r.SetAdd("open_classes_observed", alpha[i].Class+"=retried")
		} else {
			alpha[i].Kind = kTerminal
			r.SetAdd("open_classes_observed", alpha[i].Class+"=not-retried")
		}
		r.Note(fmt.Sprintf("open class %s (%q): retryable per library = %v (not judged)", alpha[i].Class, alpha[i].text(), mcp.VerifIsRetryableError(alpha[i].Err)))
	}
}

// partValidate checks Validate on the grid and on extreme values; returns the models of the distinct
// validated in-range configurations (grid first, then the off-grid extras).
func partValidate(r *vh.Run) []*cfgModel {
	seen := map[string]bool{}
	var models []*cfgModel
	take := func(raw cfg, part string) {
		r.Eval(1)
		r.Count("validate_configs", 1)
		rc := rawClassOf(raw)
		v, ok := checkValidate(r, raw, rc)
		if ok {
			r.Distinct("validate|" + part + "|" + rc)
			if rc == "retries=above,initial=above,factor=above,max=above" {
				sampleOnce(r, "validate", map[string]interface{}{"part": "validate", "raw": fmt.Sprintf("%+v", raw), "validated": fmt.Sprintf("%+v", v), "model": fmt.Sprintf("%+v", modelValidate(raw))})
			}
		}
		if len(outOfRange(v)) == 0 && !seen[cfgKey(v)] {
			seen[cfgKey(v)] = true
			models = append(models, newCfgModel(v))
		}
	}
	for _, raw := range gridConfigs() {
		take(raw, "grid")
	}
	r.Count("validated_grid_configs_distinct", int64(len(models)))
	for _, raw := range extraConfigs() {
		take(raw, "extra")
	}
	// extreme values of every field type
	for _, mr := range []int{math.MinInt64, -1, 5, math.MaxInt64} {
		for _, ib := range []time.Duration{math.MinInt64, -1, 250 * time.Millisecond, math.MaxInt64} {
			for _, bf := range []float64{math.NaN(), math.Inf(-1), -1, 0, math.SmallestNonzeroFloat64, 2, math.MaxFloat64, math.Inf(1)} {
				for _, mb := range []time.Duration{math.MinInt64, -1, 3 * time.Second, math.MaxInt64} {
					take(cfg{MaxRetries: mr, InitialBackoff: ib, BackoffFactor: bf, MaxBackoff: mb}, "extreme")
				}
			}
		}
	}
	r.Count("validated_configs_distinct", int64(len(models)))
	return models
}

var repNames = []string{"success", "jsonrpc-error", "404/streamable", "400/legacy", "408/streamable", "503/legacy", "refused/http", "reset/http", "eof/http", "timeout/dial"}

func partDirect(r *vh.Run, alpha []outcome, models []*cfgModel) {
	st := &directStats{}
	reps := pick(alpha, repNames...)
	var enumAlpha []outcome // everything except the classes that get their own probe below
	for _, o := range alpha {
		if o.Class != "4xx-body-mentions-retryable" && o.Class != "http-5xx-unassigned" {
			enumAlpha = append(enumAlpha, o)
		}
	}
	transient := filterKind(enumAlpha, kTransient)
	runOne := func(m *cfgModel, script []outcome, counter string) {
		res := execDirect(&m.vc, script, directOpts{})
		r.Eval(1)
		r.Count(counter, 1)
		ok := judgeDirect(r, m, script, res, st)
		shape := shapeOf(m.vc.MaxRetries, kindsOf(script))
		if ok {
			r.Distinct("direct|" + m.class + "|" + shape)
		}
		key := ""
		switch {
		case m.vc.MaxRetries == 3 && shape == "T2>terminal" && m.vc.BackoffFactor == 2 && m.vc.MaxBackoff == 8*time.Second && m.vc.InitialBackoff == 500*time.Millisecond:
			key = "direct"
		}
		if key != "" {
			n, _ := modelAttempts(m.vc.MaxRetries, kindsOf(script))
			sampleOnce(r, key, map[string]interface{}{"part": "direct", "config": m.class, "script": namesOf(script), "model_attempts": n, "observed_attempts": res.Attempts,
				"model_waits": m.wantWaits(n - 1), "observed_waits": waitStrings(res.Waits), "returned": errText(res.Err), "matches_model": ok})
		}
	}

	// A. classifier probes: every error value on its own, followed by a success, and after a retry
	probeCfgs := []*cfgModel{
		newCfgModel(cfg{MaxRetries: 1, InitialBackoff: time.Millisecond, BackoffFactor: 1, MaxBackoff: time.Millisecond}),
		newCfgModel(cfg{MaxRetries: 3, InitialBackoff: time.Millisecond, BackoffFactor: 2, MaxBackoff: 8 * time.Second}),
	}
	succ := pick(alpha, "success")[0]
	refusedO := pick(alpha, "refused/http")[0]
	for _, m := range probeCfgs {
		for _, o := range alpha {
			runOne(m, []outcome{o}, "direct_scripts_enumerated")
			runOne(m, []outcome{o, succ}, "direct_scripts_enumerated")
			runOne(m, []outcome{refusedO, o, succ}, "direct_scripts_enumerated")
			r.SetAdd("error_values_probed", o.Name)
		}
	}

	// B. every validated configuration
	perCfgSamples := r.Pick(40, 400)
	for ci, m := range models {
		M := m.vc.MaxRetries
		for _, t := range transient {
			script := make([]outcome, M+2)
			for i := range script {
				script[i] = t
			}
			runOne(m, script, "direct_scripts_enumerated")
		}
		if M <= 3 {
			enumScripts(reps, M+2, true, func(s []outcome) { runOne(m, s, "direct_scripts_enumerated") })
		}
		rng := r.Rand(fmt.Sprintf("direct-sample-%d", ci))
		n := perCfgSamples
		if M > 3 {
			n *= 4
		}
		for i := 0; i < n; i++ {
			runOne(m, sampleScript(rng, enumAlpha, transient, M), "direct_scripts_sampled")
		}
	}

	// C. unpruned enumeration over the class representatives for MaxRetries 0..3
	backoffs := []cfg{
		{InitialBackoff: time.Millisecond, BackoffFactor: 1, MaxBackoff: time.Millisecond},
		{InitialBackoff: 30 * time.Second, BackoffFactor: 10, MaxBackoff: 5 * time.Minute},
	}
	if !r.Quick() {
		backoffs = append(backoffs,
			cfg{InitialBackoff: 500 * time.Millisecond, BackoffFactor: 2, MaxBackoff: 8 * time.Second},
			cfg{InitialBackoff: time.Millisecond, BackoffFactor: 10, MaxBackoff: 5 * time.Minute},
			cfg{InitialBackoff: 30 * time.Second, BackoffFactor: 1, MaxBackoff: 30 * time.Second},
			cfg{InitialBackoff: 500 * time.Millisecond, BackoffFactor: 10, MaxBackoff: 500 * time.Millisecond})
	}
	for M := 0; M <= 3; M++ {
		for _, b := range backoffs {
			b.MaxRetries = M
			m := newCfgModel(mcp.VerifRetryValidate(b))
			enumScripts(reps, M+2, false, func(s []outcome) { runOne(m, s, "direct_scripts_enumerated") })
		}
	}

	// D. pruned enumeration over every real error value
	maxM := r.Pick(2, 3)
	for M := 0; M <= maxM; M++ {
		m := newCfgModel(cfg{MaxRetries: M, InitialBackoff: 500 * time.Millisecond, BackoffFactor: 2, MaxBackoff: 8 * time.Second})
		enumScripts(enumAlpha, M+2, true, func(s []outcome) { runOne(m, s, "direct_scripts_enumerated") })
	}

	// F. no retry option: exactly one attempt whatever the outcome
	noRetry := func(script []outcome) {
		res := execDirect(nil, script, directOpts{})
		r.Eval(1)
		r.Count("direct_no_retry_option_scripts", 1)
		if res.Attempts != 1 || len(res.Waits) != 0 {
			r.Violation("C17|direct|no-retry-option|extra-attempt", fmt.Sprintf("no retry configuration: %d attempts, %d waits for script %v", res.Attempts, len(res.Waits), namesOf(script)),
				map[string]interface{}{"script": namesOf(script), "observed_attempts": res.Attempts, "observed_waits": waitStrings(res.Waits)})
			return
		}
		if len(script) > 0 {
			r.Distinct("direct|no-retry-option|" + script[0].Class)
		}
	}
	enumScripts(reps, 3, false, noRetry)
	for _, o := range alpha {
		noRetry([]outcome{o, o, o})
	}

	r.Count("direct_waits_compared", st.waitsCompared)
	r.Count("direct_sequences_with_retry", st.retried)
	r.Max("direct_attempts_in_one_sequence", st.deepest)
	if st.deepest < 11 {
		r.Fatal("vacuous: no direct sequence reached 11 attempts (deepest %d)", st.deepest)
	}
}

func partCancel(r *vh.Run, alpha []outcome, models []*cfgModel) {
	transient := filterKind(alpha, kTransient)
	var canon []outcome
	for _, o := range transient {
		if o.Class != "http-5xx-unassigned" {
			canon = append(canon, o)
		}
	}
	rng := r.Rand("cancel")
	for _, m := range models {
		M := m.vc.MaxRetries
		if M == 0 {
			continue
		}
		// one uniform and one mixed all-transient script per configuration
		t := canon[rng.Intn(len(canon))]
		uniform := make([]outcome, M+2)
		mixed := make([]outcome, M+2)
		for i := range uniform {
			uniform[i] = t
			mixed[i] = canon[rng.Intn(len(canon))]
		}
		cancelChecks(r, m, uniform)
		if !r.Quick() || M <= 3 {
			cancelChecks(r, m, mixed)
		}
	}
	// MaxRetries == 0: a cancelled context never leads to a second attempt
	for _, m := range models {
		if m.vc.MaxRetries == 0 {
			cancelChecks(r, m, []outcome{canon[0], canon[0]})
			break
		}
	}
}

func partE2E(r *vh.Run, refused string) {
	total := &e2eStats{}
	retryCfg := func(M int) mcp.RetryConfig {
		return mcp.RetryConfig{MaxRetries: M, InitialBackoff: time.Millisecond, BackoffFactor: 2, MaxBackoff: 5 * time.Millisecond}
	}
	modelOf := func(c mcp.RetryConfig) *cfgModel {
		return newCfgModel(modelValidate(cfg{MaxRetries: c.MaxRetries, InitialBackoff: c.InitialBackoff, BackoffFactor: c.BackoffFactor, MaxBackoff: c.MaxBackoff}))
	}
	alphaAll := append(append([]string{}, e2eTransient...), e2eTerminal...)
	for _, legacy := range []bool{false, true} {
		st := &e2eStats{}
		name := "streamable"
		if legacy {
			name = "legacy-sse"
		}
		one := func(e *e2eClient, cfgName string, m *cfgModel, script []string) {
			res := e.run(script, 0, true)
			ok := judgeE2E(r, e, cfgName, m, script, res, st)
			if ok && m != nil && len(res.Seen) == 3 {
				sampleOnce(r, "e2e-"+name, map[string]interface{}{"part": "e2e", "client": name, "config": cfgName, "script": append([]string{}, script...), "model_attempts": len(res.Seen),
					"attempts_seen_by_server": res.Seen, "observed_waits": waitStrings(res.Waits), "returned": errText(res.Err)})
			}
		}

		// every pruned script for MaxRetries = 1 (and 2 in the thorough tier)
		fullUpTo := r.Pick(1, 2)
		for M := 1; M <= fullUpTo; M++ {
			c := retryCfg(M)
			e := newE2EClient(r, legacy, refused, mcp.WithRetry(c))
			m := modelOf(c)
			enumE2E(M+2, func(s []string) { one(e, fmt.Sprintf("WithRetry(M=%d)", M), m, s) })
			e.close()
		}
		// samples beyond
		for M := fullUpTo + 1; M <= fullUpTo+2; M++ {
			c := retryCfg(M)
			e := newE2EClient(r, legacy, refused, mcp.WithRetry(c))
			m := modelOf(c)
			rng := r.Rand(fmt.Sprintf("e2e-%s-%d", name, M))
			for i := 0; i < r.Pick(500, 3000); i++ {
				n := rng.Intn(M + 3)
				lead := rng.Intn(n + 1)
				if rng.Intn(3) == 0 {
					lead = n
				}
				s := make([]string, n)
				for j := range s {
					if j < lead {
						s[j] = e2eTransient[rng.Intn(len(e2eTransient))]
					} else {
						s[j] = alphaAll[rng.Intn(len(alphaAll))]
					}
				}
				one(e, fmt.Sprintf("WithRetry(M=%d)", M), m, s)
			}
			e.close()
		}
		// boundary values of MaxRetries through the public options (WithRetry validates)
		allT := func(n int, code string) []string {
			s := make([]string, n)
			for i := range s {
				s[i] = code
			}
			return s
		}
		for _, M := range []int{-1, 0, 10, 11} {
			c := retryCfg(M)
			e := newE2EClient(r, legacy, refused, mcp.WithRetry(c))
			m := modelOf(c)
			cn := fmt.Sprintf("WithRetry(M=%d)", M)
			for _, code := range e2eTransient {
				one(e, cn, m, allT(13, code))
				one(e, cn, m, append(allT(m.vc.MaxRetries, code), "S"))
				one(e, cn, m, []string{code, "404"})
			}
			for _, code := range e2eTerminal {
				one(e, cn, m, []string{code, "S"})
			}
			e.close()
		}
		{ // WithSimpleRetry(2): default back-off 500ms x2 cap 8s (shrunk by the observer)
			e := newE2EClient(r, legacy, refused, mcp.WithSimpleRetry(2))
			m := newCfgModel(cfg{MaxRetries: 2, InitialBackoff: 500 * time.Millisecond, BackoffFactor: 2, MaxBackoff: 8 * time.Second})
			for _, code := range e2eTransient {
				one(e, "WithSimpleRetry(2)", m, allT(4, code))
				one(e, "WithSimpleRetry(2)", m, []string{code, "S"})
			}
			for _, code := range e2eTerminal {
				one(e, "WithSimpleRetry(2)", m, []string{code, "S"})
			}
			e.close()
		}
		{ // the zero RetryConfig is a retry option too: clamped to 0 retries
			e := newE2EClient(r, legacy, refused, mcp.WithRetry(mcp.RetryConfig{}))
			m := modelOf(mcp.RetryConfig{})
			for _, code := range alphaAll {
				one(e, "WithRetry(zero)", m, []string{code, "S"})
			}
			e.close()
		}
		{ // 5xx codes outside the registered ones (one probe each)
			c := retryCfg(1)
			e := newE2EClient(r, legacy, refused, mcp.WithRetry(c))
			for _, code := range []string{"520", "599"} {
				one(e, "WithRetry(M=1)", modelOf(c), []string{code, "S"})
			}
			e.close()
		}
		{ // no retry option: exactly one attempt for every script
			e := newE2EClient(r, legacy, refused)
			enumE2E(2, func(s []string) {
				if len(s) > 0 {
					one(e, "no-retry-option", nil, s)
				}
			})
			e.close()
		}
		{ // real waits (observer not consulted): attempts only
			c := retryCfg(3)
			e := newE2EClient(r, legacy, refused, mcp.WithRetry(c))
			m := modelOf(c)
			for _, code := range e2eTransient {
				for _, s := range [][]string{allT(5, code), {code, code, "S"}, {code, "404"}} {
					res := e.run(s, 0, false)
					res.Waits = nil
					if judgeE2E(r, e, "WithRetry(M=3),real-waits", m, s, res, st) {
						r.Count("e2e_real_wait_scripts", 1)
					}
				}
			}
			e.close()
		}
		{ // cancellation from inside wait j
			c := retryCfg(3)
			e := newE2EClient(r, legacy, refused, mcp.WithRetry(c))
			for _, code := range e2eTransient {
				for j := 1; j <= 3; j++ {
					script := allT(5, code)
					done := make(chan e2eResult, 1)
					go func() { done <- e.run(script, j, true) }()
					var res e2eResult
					hung := false
					select {
					case res = <-done:
					case <-time.After(10 * time.Second):
						hung = true
					}
					r.Eval(1)
					r.Count("e2e_cancellations", 1)
					wit := map[string]interface{}{"client": name, "script": script, "cancel_at_wait": j, "attempts_seen": res.Seen, "returned": errText(res.Err), "still_waiting_after_10s": hung}
					switch {
					case hung:
						hungCases.Add(1)
						r.Violation(fmt.Sprintf("C17|e2e|%s|cancel|not-prompt", name), fmt.Sprintf("%s client: context cancelled when wait %d began, ListTools had not returned 10 s later", name, j), wit)
						res = <-done // the cancelling wait is 30 s; do not overlap the next case
					case len(res.Seen) != j:
						r.Violation(fmt.Sprintf("C17|e2e|%s|cancel|extra-attempt", name), fmt.Sprintf("%s client: cancelled at wait %d, %d attempts seen (want %d)", name, j, len(res.Seen), j), wit)
					case !containsCtxErr(res.Err):
						r.Violation(fmt.Sprintf("C17|e2e|%s|cancel|wrong-error", name), fmt.Sprintf("%s client: cancelled at wait %d, ListTools returned %s", name, j, errText(res.Err)), wit)
					default:
						r.Distinct(fmt.Sprintf("e2e|%s|cancel|%s|j=%d", name, e2eClass(code), j))
					}
				}
			}
			e.close()
		}
		r.Count("e2e_scripts_"+name, st.scripts)
		total.retried += st.retried
		total.waits += st.waits
	}
	r.Count("e2e_sequences_with_retry", total.retried)
	r.Count("e2e_waits_compared", total.waits)
}
