package main

// Part (e) EVERY PHASE of every client operation, with hostile answers. Parts (c) and (d) fail the JSON-RPC
// POST of a request. A client operation consists of more HTTP exchanges than that: the legacy SSE client opens
// its event stream (GET) and waits for the endpoint event INSIDE the retried operation of its first request;
// Initialize is a request POST followed by a notification POST (and, Streamable, the listening-stream GET);
// server requests are answered by a POST; a session is ended by a DELETE. Here exactly one of these exchanges
// is failed per case, with every status of a fixed list x response bodies (empty, a JSON-RPC error object,
// texts that merely MENTION failures: "connection refused", "i/o timeout", "EOF", "502 ", "code 503",
// "status code: 503", ...) x content types, and with connection refused / reset / closed before the headers /
// closed in the middle of the body / caller's context cancelled while the exchange is open.
//
// Oracle (property text): whether the exchange is attempted again depends on the class of the failure
// (transient: connection refused / reset, EOF, HTTP 408, 409, 429, 5xx; not transient: every other 4xx, a
// JSON-RPC error, a complete 200 answer that is not a usable result, a cancelled context) and never on what the
// peer wrote into the body or the Content-Type header. For an exchange inside a retried operation: exactly one
// attempt after a non-transient failure, clamp(MaxRetries)+1 attempts when a transient failure persists. For an
// exchange the library sends outside the retry loop (notifications, answers, listening stream, DELETE) the
// text only bounds the attempts (<= MaxRetries+1) and forbids another attempt after a non-transient failure.
// Without a retry option everything is sent exactly once. Truncated bodies / streams that end early are not
// clearly covered by "EOF": observed and reported, only the bound is judged.
//
// Attempts are counted at the client's HTTP boundary (the HTTPReqHandler the library hands every exchange to):
// one call = one attempt by the library. (net/http itself replays a GET / DELETE whose reused keep-alive
// connection died, so arrivals at the server can exceed the library's attempts; they are recorded as well.)

import (
	"context"
	"encoding/json"
	"fmt"
	"io"
	"net"
	"net/http"
	"net/http/httptest"
	"strconv"
	"strings"
	"sync"
	"time"

	mcp "trpc.group/trpc-go/trpc-mcp-go"

	"verifharness/lib/kit"
	"verifharness/lib/vh"
)

// exch is one HTTP exchange as seen at the client's HTTP boundary.
type exch struct {
	Phase  string `json:"phase"` // connect | post | notify | answer | listen | delete
	Method string `json:"method,omitempty"`
	ID     string `json:"id,omitempty"`
	Sess   string `json:"session,omitempty"`
}

type bodyDef struct{ Name, Class, Text string }
type ctypeDef struct{ Name, Class, Value string }

var phaseStatuses = []int{400, 401, 403, 404, 405, 408, 409, 413, 425, 429, 500, 501, 502, 503, 504, 507, 511, 512, 520, 529, 598, 599}

var phaseBodies = []bodyDef{
	{"empty", "neutral", ""},
	{"jsonrpc-error", "neutral", `{"jsonrpc":"2.0","id":null,"error":{"code":-32000,"message":"server overloaded"}}`},
	{"jsonrpc-error-refused", "mentions-transient", `{"jsonrpc":"2.0","id":null,"error":{"code":-32603,"message":"dial tcp 10.0.0.7:443: connect: connection refused"}}`},
	{"refused", "mentions-transient", "upstream dial tcp 10.0.0.1:80: connect: connection refused"},
	{"reset", "mentions-transient", "read tcp 10.0.0.1:4711->10.0.0.2:80: read: connection reset by peer"},
	{"io-timeout", "mentions-transient", "read tcp 10.0.0.1:80: i/o timeout"},
	{"eof-suffix", "mentions-transient", "backend closed the stream: EOF"},
	{"eof", "mentions-transient", "EOF"},
	{"502-space", "mentions-transient", "502 Bad Gateway"},
	{"code-503", "mentions-transient", "error code 503"},
	{"temporary", "mentions-transient", "temporary failure in name resolution, try again"},
	{"marker-503", "mentions-transient-status-code", "upstream answered status code: 503"},
	{"marker-429", "mentions-transient-status-code", "HTTP request failed: status code 429, body: slow down"},
	{"marker-404", "mentions-nontransient-status-code", "upstream answered status code: 404"},
	{"marker-400", "mentions-nontransient-status-code", "proxied: status code 400, body: bad request"},
}

var phaseCTypes = []ctypeDef{
	{"text", "plain", "text/plain"},
	{"json", "plain", "application/json"},
	{"none", "plain", ""},
	{"hostile", "mentions-transient", `text/plain; note="503 service unavailable, connection refused"`},
	{"sse", "event-stream", "text/event-stream"},
	{"sse-hostile", "event-stream", `text/event-stream; note="connection refused"`},
}

func bodyByName(n string) bodyDef {
	for _, b := range phaseBodies {
		if b.Name == n {
			return b
		}
	}
	panic("no body " + n)
}

func ctypeByName(n string) ctypeDef {
	for _, c := range phaseCTypes {
		if c.Name == n {
			return c
		}
	}
	panic("no content type " + n)
}

// Fault kinds.
const (
	fkOK      = 'S' // served normally
	fkStatus  = 's' // a complete HTTP answer: status, content type, body
	fkRefused = 'R' // connection refused (the request goes to a bound-but-not-listening port)
	fkReset   = 'X' // connection reset before any answer
	fkEOF     = 'E' // connection closed before any answer
	fkMid     = 'M' // status line and headers, then the connection closes in the middle of the body
	fkMidSSE  = 'm' // 200 text/event-stream, a comment, then the stream ends
	fkHold    = 'H' // no answer; the exchange stays open until the caller's context is cancelled
	fkHoldSSE = 'h' // 200 text/event-stream headers, no event; stays open until the context is cancelled
	kOpen     = 'O' // class the statement leaves open
)

type fault struct {
	Kind   byte
	Status int
	Body   bodyDef
	CType  ctypeDef
	Name   string // for witnesses
	Sig    string // input class for signatures
	Class  byte   // kTransient | kTerminal | kSuccess | kOpen
}

func statusClassOf(code int) (string, byte) {
	switch {
	case code == 200:
		return "200-not-a-result", kTerminal
	case code == 408 || code == 409 || code == 429:
		return strconv.Itoa(code), kTransient
	case code >= 512 && code <= 599:
		return "5xx-unassigned", kTransient
	case code >= 500 && code <= 599:
		return "5xx", kTransient
	}
	return "4xx", kTerminal
}

func statusFault(code int, b bodyDef, ct ctypeDef) *fault {
	sc, cl := statusClassOf(code)
	return &fault{Kind: fkStatus, Status: code, Body: b, CType: ct, Class: cl,
		Name: fmt.Sprintf("%d|body=%s|ctype=%s", code, b.Name, ct.Name),
		Sig:  fmt.Sprintf("%s|body=%s|ctype=%s", sc, b.Class, ct.Class)}
}

func (f *fault) open() *fault { g := *f; g.Class = kOpen; g.Sig += "|open"; return &g }

var (
	faultOK      = &fault{Kind: fkOK, Name: "success", Sig: "success", Class: kSuccess}
	faultRefused = &fault{Kind: fkRefused, Name: "connection-refused", Sig: "refused", Class: kTransient}
	faultReset   = &fault{Kind: fkReset, Name: "connection-reset", Sig: "reset", Class: kTransient}
	faultEOF     = &fault{Kind: fkEOF, Name: "closed-before-headers", Sig: "eof", Class: kTransient}
	faultMidSSE  = &fault{Kind: fkMidSSE, Status: 200, Name: "200-event-stream-ends-early", Sig: "stream-ends-early", Class: kOpen}
	faultHold    = &fault{Kind: fkHold, Name: "no-answer-until-cancel", Sig: "cancel-while-open", Class: kTerminal}
	faultHoldSSE = &fault{Kind: fkHoldSSE, Status: 200, Name: "stream-open-no-event-until-cancel", Sig: "cancel-while-stream-open", Class: kTerminal}
)

func midFault(code int) *fault {
	sc, _ := statusClassOf(code)
	return &fault{Kind: fkMid, Status: code, Body: bodyByName("refused"), CType: ctypeByName("json"), Class: kOpen,
		Name: fmt.Sprintf("%d-closed-mid-body", code), Sig: sc + "|closed-mid-body"}
}

// faultCase is what one case does to the target exchange: the script is consumed attempt by attempt; after it
// the last fault persists (Persist) or the exchange is served normally.
type faultCase struct {
	Script  []*fault
	Persist bool
	Cancel  bool // the caller's context is cancelled while the (held) exchange is open
}

func persistent(f *fault) faultCase { return faultCase{Script: []*fault{f}, Persist: true} }

func (fc faultCase) at(i int) *fault { // 1-based
	if i-1 < len(fc.Script) {
		return fc.Script[i-1]
	}
	if fc.Persist {
		return fc.Script[len(fc.Script)-1]
	}
	return faultOK
}

func (fc faultCase) names() []string {
	var out []string
	for _, f := range fc.Script {
		out = append(out, f.Name)
	}
	if fc.Persist {
		out = append(out, "(persists)")
	}
	return out
}

// rule binds a fault case to the exchanges it applies to and counts them.
type rule struct {
	match  func(exch) bool
	fc     faultCase
	hits   int      // attempts at the client's HTTP boundary
	wire   int      // arrivals at the server
	served []string // what each attempt was given
	held   chan struct{}
}

type decision struct {
	rl *rule
	f  *fault
}

// phaseSrv is the peer: legacy SSE (GET /sse + POST /message) or Streamable HTTP (POST/GET/DELETE /mcp). It
// serves everything normally except what the client-side hook marked with a fault token.
type phaseSrv struct {
	legacy  bool
	ts      *httptest.Server
	refused string
	done    chan struct{}

	mu        sync.Mutex
	rules     []*rule
	tokens    map[string]decision
	nextTok   int
	streams   map[string]chan string // legacy: by sessionId; Streamable: listening streams by session id
	nextSess  int
	forceSess string
}

func newPhaseSrv(legacy bool, refused string) *phaseSrv {
	s := &phaseSrv{legacy: legacy, refused: refused, done: make(chan struct{}), tokens: map[string]decision{}, streams: map[string]chan string{}}
	s.ts = httptest.NewServer(s)
	return s
}

func (s *phaseSrv) close() {
	close(s.done)
	s.ts.CloseClientConnections()
	fin := make(chan struct{})
	go func() { s.ts.Close(); close(fin) }()
	select {
	case <-fin:
	case <-time.After(5 * time.Second):
	}
}

func (s *phaseSrv) url() string {
	if s.legacy {
		return s.ts.URL + "/sse"
	}
	return s.ts.URL + "/mcp"
}

func (s *phaseSrv) arm(rules ...*rule) {
	s.mu.Lock()
	s.rules = rules
	s.tokens = map[string]decision{}
	s.mu.Unlock()
}

func (s *phaseSrv) addRule(rl *rule) {
	s.mu.Lock()
	s.rules = append(s.rules, rl)
	s.mu.Unlock()
}

type ruleObs struct {
	Hits, Wire int
	Served     []string
}

func (s *phaseSrv) observe(rl *rule) ruleObs {
	s.mu.Lock()
	defer s.mu.Unlock()
	return ruleObs{Hits: rl.hits, Wire: rl.wire, Served: append([]string{}, rl.served...)}
}

// decide is called by the client-side hook for every exchange the library starts.
func (s *phaseSrv) decide(ex exch) (*fault, string) {
	s.mu.Lock()
	defer s.mu.Unlock()
	for _, rl := range s.rules {
		if !rl.match(ex) {
			continue
		}
		rl.hits++
		f := rl.fc.at(rl.hits)
		rl.served = append(rl.served, f.Name)
		if f.Kind == fkOK || f.Kind == fkRefused {
			return f, ""
		}
		s.nextTok++
		tok := strconv.Itoa(s.nextTok)
		s.tokens[tok] = decision{rl, f}
		return f, tok
	}
	return nil, ""
}

func (s *phaseSrv) push(key, frame string) bool {
	s.mu.Lock()
	ch := s.streams[key]
	s.mu.Unlock()
	if ch == nil {
		return false
	}
	select {
	case ch <- frame:
		return true
	default:
		return false
	}
}

// anyStream returns the key of some open stream ("" when none).
func (s *phaseSrv) anyStream() string {
	s.mu.Lock()
	defer s.mu.Unlock()
	for k := range s.streams {
		return k
	}
	return ""
}

func (s *phaseSrv) serveStream(w http.ResponseWriter, req *http.Request, key string, endpoint string) {
	fl, ok := w.(http.Flusher)
	if !ok {
		w.WriteHeader(500)
		return
	}
	w.Header().Set("Content-Type", "text/event-stream")
	w.Header().Set("Cache-Control", "no-cache")
	w.WriteHeader(200)
	ch := make(chan string, 4096)
	s.mu.Lock()
	s.streams[key] = ch
	s.mu.Unlock()
	defer func() {
		s.mu.Lock()
		if s.streams[key] == ch {
			delete(s.streams, key)
		}
		s.mu.Unlock()
	}()
	if endpoint != "" {
		_, _ = io.WriteString(w, "event: endpoint\ndata: "+endpoint+"\n\n")
	} else {
		_, _ = io.WriteString(w, ": listening\n\n")
	}
	fl.Flush()
	for {
		select {
		case frame := <-ch:
			_, _ = io.WriteString(w, "event: message\ndata: "+frame+"\n\n")
			fl.Flush()
		case <-req.Context().Done():
			return
		case <-s.done:
			return
		}
	}
}

func hijackClose(w http.ResponseWriter, reset bool, raw string) {
	hj, ok := w.(http.Hijacker)
	if !ok {
		w.WriteHeader(500)
		return
	}
	conn, bufrw, err := hj.Hijack()
	if err != nil {
		return
	}
	if raw != "" {
		_, _ = bufrw.WriteString(raw)
		_ = bufrw.Flush()
	}
	if tc, ok := conn.(*net.TCPConn); ok && reset {
		_ = tc.SetLinger(0)
	}
	conn.Close()
}

func (s *phaseSrv) applyFault(w http.ResponseWriter, req *http.Request, d decision) {
	f := d.f
	switch f.Kind {
	case fkStatus:
		if f.CType.Value == "" {
			w.Header()["Content-Type"] = nil // no header at all (and no sniffing)
		} else {
			w.Header().Set("Content-Type", f.CType.Value)
		}
		w.WriteHeader(f.Status)
		_, _ = io.WriteString(w, f.Body.Text)
	case fkEOF:
		hijackClose(w, false, "")
	case fkReset:
		hijackClose(w, true, "")
	case fkMid:
		hijackClose(w, false, fmt.Sprintf("HTTP/1.1 %d Scripted\r\nContent-Type: %s\r\nContent-Length: 4096\r\n\r\n%s", f.Status, f.CType.Value, f.Body.Text))
	case fkMidSSE:
		hijackClose(w, false, "HTTP/1.1 200 OK\r\nContent-Type: text/event-stream\r\nCache-Control: no-cache\r\nConnection: close\r\n\r\n: the stream ends here\n\n")
	case fkHold, fkHoldSSE:
		if f.Kind == fkHoldSSE {
			w.Header().Set("Content-Type", "text/event-stream")
			w.WriteHeader(200)
			if fl, ok := w.(http.Flusher); ok {
				fl.Flush()
			}
		}
		s.mu.Lock()
		if d.rl.held != nil {
			select {
			case <-d.rl.held:
			default:
				close(d.rl.held)
			}
		}
		s.mu.Unlock()
		select {
		case <-req.Context().Done():
		case <-s.done:
		case <-time.After(60 * time.Second):
		}
	}
}

var phaseResults = map[string]string{
	"initialize":     `{"protocolVersion":"2025-03-26","capabilities":{},"serverInfo":{"name":"s","version":"1"}}`,
	"tools/list":     `{"tools":[]}`,
	"tools/call":     `{"content":[{"type":"text","text":"ok"}]}`,
	"prompts/list":   `{"prompts":[]}`,
	"resources/list": `{"resources":[]}`,
}

func (s *phaseSrv) ServeHTTP(w http.ResponseWriter, req *http.Request) {
	var body []byte
	if req.Method == http.MethodPost {
		body, _ = io.ReadAll(req.Body)
	}
	if tok := req.Header.Get("X-C17-Fault"); tok != "" {
		s.mu.Lock()
		d, ok := s.tokens[tok]
		if ok {
			d.rl.wire++
		}
		s.mu.Unlock()
		if ok {
			s.applyFault(w, req, d)
			return
		}
	}
	switch req.Method {
	case http.MethodGet:
		if s.legacy {
			s.mu.Lock()
			s.nextSess++
			key := strconv.Itoa(s.nextSess)
			s.mu.Unlock()
			s.serveStream(w, req, key, "/message?sessionId="+key)
			return
		}
		sess := req.Header.Get("Mcp-Session-Id")
		if sess == "" {
			w.WriteHeader(http.StatusBadRequest)
			return
		}
		s.serveStream(w, req, sess, "")
		return
	case http.MethodDelete:
		w.WriteHeader(200)
		return
	case http.MethodPost:
	default:
		w.WriteHeader(http.StatusMethodNotAllowed)
		return
	}
	var m struct {
		ID     json.RawMessage `json:"id"`
		Method string          `json:"method"`
	}
	if err := json.Unmarshal(body, &m); err != nil {
		http.Error(w, "bad json", 400)
		return
	}
	id := string(m.ID)
	hasID := len(m.ID) != 0 && id != "null"
	if !hasID || m.Method == "" { // notification, or the answer to a server request
		w.WriteHeader(http.StatusAccepted)
		return
	}
	res, ok := phaseResults[m.Method]
	if !ok {
		res = `{}`
	}
	frame := `{"jsonrpc":"2.0","id":` + id + `,"result":` + res + `}`
	if s.legacy {
		key := req.URL.Query().Get("sessionId")
		w.WriteHeader(http.StatusAccepted)
		s.push(key, frame)
		return
	}
	w.Header().Set("Content-Type", "application/json")
	if m.Method == "initialize" {
		s.mu.Lock()
		sess := s.forceSess
		if sess == "" {
			s.nextSess++
			sess = "sess-" + strconv.Itoa(s.nextSess)
		}
		s.mu.Unlock()
		w.Header().Set("Mcp-Session-Id", sess)
	}
	w.WriteHeader(200)
	_, _ = io.WriteString(w, frame)
}

// phaseHook is the client's HTTPReqHandler: it classifies the exchange, lets the armed rule decide, and then
// does what the default handler does (client.Do), except that "connection refused" goes to a dead port.
type phaseHook struct{ s *phaseSrv }

func (h *phaseHook) classify(req *http.Request) exch {
	ex := exch{Sess: req.Header.Get("Mcp-Session-Id")}
	switch req.Method {
	case http.MethodGet:
		ex.Phase = "listen"
		if h.s.legacy {
			ex.Phase = "connect"
		}
	case http.MethodDelete:
		ex.Phase = "delete"
	default:
		ex.Phase = "post"
		if req.GetBody != nil {
			if rc, err := req.GetBody(); err == nil {
				b, _ := io.ReadAll(rc)
				rc.Close()
				var m struct {
					ID     json.RawMessage `json:"id"`
					Method string          `json:"method"`
				}
				if json.Unmarshal(b, &m) == nil {
					ex.Method = m.Method
					if len(m.ID) != 0 && string(m.ID) != "null" {
						ex.ID = string(m.ID)
					}
					switch {
					case ex.Method != "" && ex.ID == "":
						ex.Phase = "notify"
					case ex.Method == "" && ex.ID != "":
						ex.Phase = "answer"
					}
				}
			}
		}
	}
	return ex
}

func (h *phaseHook) Handle(ctx context.Context, client *http.Client, req *http.Request) (*http.Response, error) {
	f, tok := h.s.decide(h.classify(req))
	switch {
	case f == nil || f.Kind == fkOK:
	case f.Kind == fkRefused:
		r2 := req.Clone(ctx)
		u := *req.URL
		u.Host = h.s.refused
		r2.URL = &u
		r2.Host = ""
		if req.GetBody != nil {
			r2.Body, _ = req.GetBody()
		}
		return client.Do(r2)
	default:
		req.Header.Set("X-C17-Fault", tok)
	}
	return client.Do(req.WithContext(ctx))
}

// phaseDef is one exchange of one client operation.
type phaseDef struct {
	name    string // e.g. "connect", "post:initialize"
	legacy  bool
	retried bool // the exchange runs inside the retried operation (sendRequest)
	match   func(exch) bool
	fresh   bool // the exchange happens inside Initialize: every case needs a new client
	call    func(ctx context.Context, c *mcp.Client) error
	setup   func(ctx context.Context, c *mcp.Client) error // fresh clients only: done before the rule is armed
}

func (p *phaseDef) client() string {
	if p.legacy {
		return "legacy-sse"
	}
	return "streamable"
}

func callInitialize(ctx context.Context, c *mcp.Client) error {
	_, err := c.Initialize(ctx, &mcp.InitializeRequest{})
	return err
}

func callTool(ctx context.Context, c *mcp.Client) error {
	req := &mcp.CallToolRequest{}
	req.Params.Name = "echo"
	_, err := c.CallTool(ctx, req)
	return err
}

func callListTools(ctx context.Context, c *mcp.Client) error {
	_, err := c.ListTools(ctx, &mcp.ListToolsRequest{})
	return err
}

func isPost(method string) func(exch) bool {
	return func(e exch) bool { return e.Phase == "post" && e.Method == method }
}

func isNotify(method string) func(exch) bool {
	return func(e exch) bool { return e.Phase == "notify" && e.Method == method }
}

func syncPhases() []*phaseDef {
	var out []*phaseDef
	for _, legacy := range []bool{true, false} {
		if legacy {
			out = append(out, &phaseDef{name: "connect", legacy: true, retried: true, fresh: true, call: callInitialize,
				match: func(e exch) bool { return e.Phase == "connect" }})
		}
		out = append(out,
			&phaseDef{name: "post:initialize", legacy: legacy, retried: true, fresh: true, call: callInitialize, match: isPost("initialize")},
			&phaseDef{name: "post:tools/call", legacy: legacy, retried: true, call: callTool, match: isPost("tools/call")},
			&phaseDef{name: "notify:initialized", legacy: legacy, fresh: true, call: callInitialize, match: isNotify("notifications/initialized")},
			&phaseDef{name: "notify:roots/list_changed", legacy: legacy, match: isNotify("notifications/roots/list_changed"),
				call: func(ctx context.Context, c *mcp.Client) error { return c.SendRootsListChangedNotification(ctx) }},
		)
		if !legacy {
			out = append(out, &phaseDef{name: "delete", fresh: true, setup: callInitialize, match: func(e exch) bool { return e.Phase == "delete" },
				call: func(ctx context.Context, c *mcp.Client) error { return c.TerminateSession(ctx) }})
		}
	}
	return out
}

// retrySpec is one client configuration of this part.
type retrySpec struct {
	name  string
	class string
	M     int // clamp(MaxRetries); -1: no retry option
	opt   mcp.ClientOption
}

func phaseRetry(M int) retrySpec {
	c := mcp.RetryConfig{MaxRetries: M, InitialBackoff: time.Millisecond, BackoffFactor: 2, MaxBackoff: 5 * time.Millisecond}
	eff := modelValidate(cfg{MaxRetries: M, InitialBackoff: c.InitialBackoff, BackoffFactor: c.BackoffFactor, MaxBackoff: c.MaxBackoff}).MaxRetries
	return retrySpec{name: fmt.Sprintf("WithRetry(M=%d)", M), class: "retry", M: eff, opt: mcp.WithRetry(c)}
}

var noRetrySpec = retrySpec{name: "no-retry-option", class: "no-retry-option", M: -1}

type phaseStats struct {
	cases, retriedCases, singleCases, openCases, boundOnly, replays int64
}

type phaseRun struct {
	r       *vh.Run
	refused string
	st      map[string]*phaseStats
	open    map[string]map[int]bool
}

func (pr *phaseRun) stats(p *phaseDef) *phaseStats {
	k := p.client() + "|" + p.name
	if pr.st[k] == nil {
		pr.st[k] = &phaseStats{}
	}
	return pr.st[k]
}

func (pr *phaseRun) newClient(s *phaseSrv, rs retrySpec, listen bool) *mcp.Client {
	opts := []mcp.ClientOption{mcp.WithClientLogger(kit.Quiet{}), mcp.WithClientGetSSEEnabled(listen), mcp.WithHTTPReqHandler(&phaseHook{s})}
	if rs.opt != nil {
		opts = append(opts, rs.opt)
	}
	info := mcp.Implementation{Name: "c17", Version: "1"}
	var c *mcp.Client
	var err error
	if s.legacy {
		c, err = mcp.NewSSEClient(s.url(), info, opts...)
	} else {
		c, err = mcp.NewClient(s.url(), info, opts...)
	}
	if err != nil {
		pr.r.Fatal("phases: new client: %v", err)
	}
	return c
}

func closeClient(c *mcp.Client) {
	done := make(chan struct{})
	go func() { _ = c.Close(); close(done) }()
	select {
	case <-done:
	case <-time.After(5 * time.Second):
	}
}

// wantAttempts: the attempts the text allows for one case.
func wantAttempts(p *phaseDef, rs retrySpec, fc faultCase) (lo, hi int) {
	if rs.M < 0 || fc.Cancel {
		return 1, 1
	}
	if !p.retried {
		if c := fc.at(1).Class; c == kTerminal || c == kSuccess {
			return 1, 1
		}
		return 1, rs.M + 1
	}
	n := 1
	for {
		f := fc.at(n)
		if f.Class == kOpen {
			return n, rs.M + 1
		}
		if f.Class != kTransient || n == rs.M+1 {
			return n, n
		}
		n++
	}
}

type callObs struct {
	err      error
	timedOut bool
	returned bool
}

// judge compares the attempts counted for one case with what the text allows.
func (pr *phaseRun) judge(p *phaseDef, rs retrySpec, fc faultCase, ob ruleObs, co *callObs) bool {
	r := pr.r
	st := pr.stats(p)
	r.Eval(1)
	st.cases++
	lo, hi := wantAttempts(p, rs, fc)
	n := ob.Hits
	sigBase := fmt.Sprintf("C17|phases|%s|%s|%s", p.client(), p.name, rs.class)
	wit := map[string]interface{}{"client": p.client(), "exchange": p.name, "inside_retried_operation": p.retried, "config": rs.name, "fault_script": fc.names(),
		"attempts_at_http_boundary": n, "arrivals_at_server": ob.Wire, "served": ob.Served, "allowed_attempts": fmt.Sprintf("%d..%d", lo, hi)}
	if len(fc.Script) > 0 && fc.Script[0].Kind == fkStatus {
		wit["first_fault_body"] = fc.Script[0].Body.Text
		wit["first_fault_content_type"] = fc.Script[0].CType.Value
	}
	if co != nil {
		wit["returned"] = errText(co.err)
		if co.timedOut {
			r.Inconclusive(fmt.Sprintf("phases %s %s %s %v: the call did not return within the watchdog (attempts %d)", p.client(), p.name, rs.name, fc.names(), n))
			return false
		}
	}
	if ob.Wire > n {
		st.replays += int64(ob.Wire - n)
	}
	switch {
	case n == 0:
		r.Violation(sigBase+"|"+fc.at(1).Sig+"|no-attempt", fmt.Sprintf("%s client, %s, %s: the operation ended without the exchange being attempted at all (returned %v)", p.client(), p.name, rs.name, wit["returned"]), wit)
		return false
	case rs.M >= 0 && n > rs.M+1:
		r.Violation(sigBase+"|"+fc.at(n-1).Sig+"|bound|extra-attempt", fmt.Sprintf("%s client, %s, %s: %d attempts, the bound is clamp(MaxRetries)+1 = %d", p.client(), p.name, rs.name, n, rs.M+1), wit)
		return false
	case n > hi:
		f := fc.at(hi)
		what := "which is not a transient failure"
		if rs.M < 0 {
			what = "and no retry option is configured"
		} else if fc.Cancel {
			what = "and the caller's context was cancelled while it was open"
		}
		r.Violation(sigBase+"|"+f.Sig+"|extra-attempt", fmt.Sprintf("%s client, %s, %s: attempt %d ended with %s, %s, yet the exchange was attempted again (%d attempts)", p.client(), p.name, rs.name, hi, f.Name, what, n), wit)
		return false
	case n < lo:
		f := fc.at(n)
		r.Violation(sigBase+"|"+f.Sig+"|not-retried", fmt.Sprintf("%s client, %s, %s: attempt %d ended with %s, a transient failure, and retries were left, yet only %d attempt(s) were made", p.client(), p.name, rs.name, n, f.Name, n), wit)
		return false
	}
	last := fc.at(n)
	if co != nil && p.retried && rs.M >= 0 && lo == hi && !fc.Cancel {
		if (co.err == nil) != (last.Class == kSuccess) {
			r.Violation(sigBase+"|"+last.Sig+"|wrong-result", fmt.Sprintf("%s client, %s, %s: the last attempt ended with %s but the call returned %s", p.client(), p.name, rs.name, last.Name, errText(co.err)), wit)
			return false
		}
	}
	if co != nil && fc.Cancel && !containsCtxErr(co.err) {
		r.Violation(sigBase+"|"+last.Sig+"|wrong-error", fmt.Sprintf("%s client, %s, %s: the context was cancelled while the exchange was open, the call returned %s (want the context's error)", p.client(), p.name, rs.name, errText(co.err)), wit)
		return false
	}
	switch {
	case lo != hi && fc.at(lo).Class == kOpen: // the statement leaves the class of this failure open: observed, reported
		st.openCases++
		k := fmt.Sprintf("%s|%s|%s|%s", p.client(), p.name, rs.class, fc.at(lo).Sig)
		if pr.open[k] == nil {
			pr.open[k] = map[int]bool{}
		}
		pr.open[k][n] = true
	case lo != hi: // transient failure of an exchange outside the retry loop: only the bound is judged
		st.boundOnly++
	}
	if n > 1 {
		st.retriedCases++
	} else {
		st.singleCases++
	}
	r.Distinct(fmt.Sprintf("phases|%s|%s|%s|%s>attempts=%s", p.client(), p.name, rs.class, fc.at(1).Sig, attemptsClass(n, rs.M)))
	if p.name == "connect" && rs.M >= 1 && len(fc.Script) == 1 && fc.Script[0].Kind == fkStatus && fc.Script[0].Status == 404 && fc.Script[0].Body.Name == "refused" {
		sampleOnce(r, "phases-connect", map[string]interface{}{"part": "phases", "client": p.client(), "exchange": p.name, "config": rs.name, "fault": fc.names(),
			"body": fc.Script[0].Body.Text, "attempts_at_http_boundary": n, "allowed": fmt.Sprintf("%d..%d", lo, hi), "returned": wit["returned"]})
	}
	return true
}

func attemptsClass(n, M int) string {
	switch {
	case n == 1:
		return "1"
	case n == M+1:
		return "M+1"
	}
	return "between"
}

// statusCases: every status x every body (content type rotating), every status x every content type (body
// rotating); with full the whole product.
func statusCases(rot int, full bool, bodies []bodyDef, ctypes []ctypeDef) []faultCase {
	var out []faultCase
	seen := map[string]bool{}
	add := func(code int, b bodyDef, ct ctypeDef) {
		f := statusFault(code, b, ct)
		if !seen[f.Name] {
			seen[f.Name] = true
			out = append(out, persistent(f))
		}
	}
	for si, code := range phaseStatuses {
		for bi, b := range bodies {
			if full {
				for _, ct := range ctypes {
					add(code, b, ct)
				}
				continue
			}
			add(code, b, ctypes[(rot+si+bi)%len(ctypes)])
		}
		for ci, ct := range ctypes {
			add(code, bodies[(rot+si+ci)%len(bodies)], ct)
		}
	}
	return out
}

var mismatchedIDBodies = []bodyDef{
	{"result-for-id-refused", "other-id-mentions-transient", `{"jsonrpc":"2.0","id":"connection refused","result":{}}`},
	{"result-for-id-503", "other-id-mentions-transient", `{"jsonrpc":"2.0","id":"503 Service Unavailable","result":{}}`},
}

// casesFor builds the case list of one phase. reduced: a sample only (no-retry-option runs, extra MaxRetries values).
func casesFor(p *phaseDef, rot int, full, reduced bool) []faultCase {
	ctypes := phaseCTypes
	var out []faultCase
	if reduced {
		for si, code := range phaseStatuses {
			out = append(out, persistent(statusFault(code, phaseBodies[(rot+si)%len(phaseBodies)], ctypes[(rot+si)%len(ctypes)])))
			out = append(out, persistent(statusFault(code, phaseBodies[(rot+5+2*si)%len(phaseBodies)], ctypes[(rot+1+si)%len(ctypes)])))
		}
	} else {
		out = statusCases(rot, full, phaseBodies, ctypes)
	}
	// complete 200 answers that are not a usable result
	switch {
	case p.name == "connect":
		for _, ctn := range []string{"text", "json", "none", "hostile"} {
			for _, bn := range []string{"empty", "refused", "502-space", "marker-503", "eof-suffix"} {
				out = append(out, persistent(statusFault(200, bodyByName(bn), ctypeByName(ctn))))
			}
		}
	case !p.legacy && strings.HasPrefix(p.name, "post:"):
		for _, ctn := range []string{"text", "json", "none", "hostile"} {
			for _, bn := range []string{"refused", "502-space", "marker-503", "eof-suffix", "eof", "jsonrpc-error-refused"} {
				out = append(out, persistent(statusFault(200, bodyByName(bn), ctypeByName(ctn))))
			}
			for _, b := range mismatchedIDBodies {
				out = append(out, persistent(statusFault(200, b, ctypeByName(ctn))))
			}
			out = append(out, persistent(statusFault(200, bodyByName("empty"), ctypeByName(ctn)).open()))
		}
		for _, bn := range []string{"empty", "refused", "eof"} { // an event stream that ends without the answer
			out = append(out, persistent(statusFault(200, bodyByName(bn), ctypeByName("sse")).open()))
		}
	}
	// connection-level failures
	out = append(out, persistent(faultRefused), persistent(faultReset), persistent(faultEOF))
	out = append(out, persistent(midFault(404)), persistent(midFault(503)))
	if p.name == "connect" || (!p.legacy && strings.HasPrefix(p.name, "post:")) {
		out = append(out, persistent(faultMidSSE))
		if !p.legacy {
			out = append(out, persistent(midFault(200)))
		}
	}
	out = append(out, faultCase{Script: []*fault{faultOK}})
	if p.retried {
		t503 := statusFault(503, bodyByName("empty"), ctypeByName("text"))
		t429 := statusFault(429, bodyByName("marker-404"), ctypeByName("json"))
		n404 := statusFault(404, bodyByName("refused"), ctypeByName("text"))
		n400 := statusFault(400, bodyByName("marker-503"), ctypeByName("hostile"))
		for _, t := range []*fault{t503, t429, faultRefused, faultReset, faultEOF} {
			out = append(out, faultCase{Script: []*fault{t, faultOK}}, faultCase{Script: []*fault{t, n404}, Persist: true})
		}
		out = append(out, faultCase{Script: []*fault{faultReset, t503, faultOK}}, faultCase{Script: []*fault{t429, faultRefused, n400}, Persist: true},
			faultCase{Script: []*fault{t503, faultEOF, t429, faultOK}})
		// the caller's context is cancelled while the exchange is open
		out = append(out, faultCase{Script: []*fault{faultHold}, Persist: true, Cancel: true})
		if p.name == "connect" {
			out = append(out, faultCase{Script: []*fault{faultHoldSSE}, Persist: true, Cancel: true})
		}
	}
	return out
}

// runSyncPhase runs every case of one synchronous phase under one client configuration.
func (pr *phaseRun) runSyncPhase(p *phaseDef, rs retrySpec, cases []faultCase) {
	s := newPhaseSrv(p.legacy, pr.refused)
	defer s.close()
	var shared *mcp.Client
	newShared := func() {
		if shared != nil {
			closeClient(shared)
		}
		s.arm()
		shared = pr.newClient(s, rs, false)
		ctx, cancel := context.WithTimeout(context.Background(), 20*time.Second)
		defer cancel()
		if err := callInitialize(ctx, shared); err != nil {
			pr.r.Fatal("phases %s %s: initialize against the unfaulted server failed: %v", p.client(), p.name, err)
		}
	}
	defer func() {
		if shared != nil {
			closeClient(shared)
		}
	}()
	for _, fc := range cases {
		for try := 0; ; try++ {
			var c *mcp.Client
			if p.fresh {
				s.arm()
				c = pr.newClient(s, rs, false)
				if p.setup != nil {
					ctx, cancel := context.WithTimeout(context.Background(), 20*time.Second)
					err := p.setup(ctx, c)
					cancel()
					if err != nil {
						pr.r.Fatal("phases %s %s: set-up against the unfaulted server failed: %v", p.client(), p.name, err)
					}
				}
			} else {
				if shared == nil {
					newShared()
				}
				c = shared
			}
			rl := &rule{match: p.match, fc: fc}
			if fc.Cancel {
				rl.held = make(chan struct{})
			}
			s.arm(rl)
			ctx, cancel := context.WithTimeout(context.Background(), 30*time.Second)
			co := &callObs{}
			if fc.Cancel {
				done := make(chan error, 1)
				go func() { done <- p.call(ctx, c) }()
				select {
				case <-rl.held:
					cancel()
					select {
					case co.err = <-done:
					case <-time.After(30 * time.Second):
						co.timedOut = true
					}
				case co.err = <-done: // returned without the exchange ever being held
				case <-time.After(30 * time.Second):
					co.timedOut = true
				}
			} else {
				co.err = p.call(ctx, c)
				co.timedOut = ctx.Err() != nil
			}
			cancel()
			ob := s.observe(rl)
			s.arm()
			if p.fresh {
				closeClient(c)
			} else if ob.Hits == 0 && try == 0 {
				newShared() // the shared client may have been left unusable by an earlier case: once more with a new one
				continue
			}
			pr.judge(p, rs, fc, ob, co)
			break
		}
	}
}

// waitAll polls until every rule has been hit at least once (or the watchdog fires).
func waitAll(s *phaseSrv, rules []*rule, d time.Duration) {
	deadline := time.Now().Add(d)
	for time.Now().Before(deadline) {
		all := true
		for _, rl := range rules {
			if s.observe(rl).Hits == 0 {
				all = false
				break
			}
		}
		if all {
			return
		}
		time.Sleep(2 * time.Millisecond)
	}
}

func asyncCases(rot int, full bool) []faultCase {
	var out []faultCase
	if full {
		out = statusCases(rot, false, phaseBodies, phaseCTypes)
	} else {
		for si, code := range phaseStatuses {
			for k := 0; k < 4; k++ {
				out = append(out, persistent(statusFault(code, phaseBodies[(rot+si+4*k)%len(phaseBodies)], phaseCTypes[(rot+si+k)%len(phaseCTypes)])))
			}
		}
	}
	out = append(out, persistent(faultRefused), persistent(faultReset), persistent(faultEOF), persistent(midFault(404)), persistent(midFault(503)), faultCase{Script: []*fault{faultOK}})
	return out
}

// runListenPhase: the Streamable client's listening-stream GET (opened in the background by Initialize, outside
// the retry loop). One client per case, told apart by the session id the server hands out.
func (pr *phaseRun) runListenPhase(rs retrySpec, cases []faultCase, settle time.Duration) {
	p := &phaseDef{name: "listen"}
	s := newPhaseSrv(false, pr.refused)
	defer s.close()
	var clients []*mcp.Client
	var rules []*rule
	for i, fc := range cases {
		sess := fmt.Sprintf("listen-%d", i)
		rl := &rule{fc: fc, match: func(e exch) bool { return e.Phase == "listen" && e.Sess == sess }}
		s.addRule(rl)
		s.mu.Lock()
		s.forceSess = sess
		s.mu.Unlock()
		c := pr.newClient(s, rs, true)
		ctx, cancel := context.WithTimeout(context.Background(), 20*time.Second)
		err := callInitialize(ctx, c)
		cancel()
		if err != nil {
			pr.r.Fatal("phases streamable listen: initialize failed: %v", err)
		}
		clients = append(clients, c)
		rules = append(rules, rl)
	}
	waitAll(s, rules, 30*time.Second)
	time.Sleep(settle)
	for i, rl := range rules {
		ob := s.observe(rl)
		if ob.Hits == 0 {
			pr.r.Inconclusive(fmt.Sprintf("phases streamable listen %s %v: the listening-stream GET was not seen within the watchdog", rs.name, cases[i].names()))
			continue
		}
		pr.judge(p, rs, cases[i], ob, nil)
	}
	for _, c := range clients {
		closeClient(c)
	}
}

// runAnswerPhase: the POST that carries the client's answer to a server request (outside the retry loop). One
// client; the server issues one request per case and the answers are told apart by the request id.
func (pr *phaseRun) runAnswerPhase(legacy bool, rs retrySpec, cases []faultCase, settle time.Duration) {
	p := &phaseDef{name: "answer", legacy: legacy}
	s := newPhaseSrv(legacy, pr.refused)
	defer s.close()
	c := pr.newClient(s, rs, true)
	defer closeClient(c)
	ctx, cancel := context.WithTimeout(context.Background(), 20*time.Second)
	err := callInitialize(ctx, c)
	cancel()
	if err != nil {
		pr.r.Fatal("phases %s answer: initialize failed: %v", p.client(), err)
	}
	// the stream the requests travel on
	key := ""
	for deadline := time.Now().Add(20 * time.Second); key == "" && time.Now().Before(deadline); time.Sleep(time.Millisecond) {
		key = s.anyStream()
	}
	if key == "" {
		pr.r.Inconclusive(fmt.Sprintf("phases %s answer: no stream to send server requests on was opened within the watchdog", p.client()))
		return
	}
	var rules []*rule
	for i, fc := range cases {
		id := fmt.Sprintf(`"srv-%d"`, i)
		rl := &rule{fc: fc, match: func(e exch) bool { return e.Phase == "answer" && e.ID == id }}
		s.addRule(rl)
		rules = append(rules, rl)
		method := "roots/list"
		if i%3 == 2 {
			method = "c17/unknown" // answered with a JSON-RPC error: same POST
		}
		if !s.push(key, `{"jsonrpc":"2.0","id":`+id+`,"method":"`+method+`"}`) {
			pr.r.Fatal("phases %s answer: cannot queue server request %d", p.client(), i)
		}
	}
	waitAll(s, rules, 60*time.Second)
	time.Sleep(settle)
	for i, rl := range rules {
		ob := s.observe(rl)
		if ob.Hits == 0 {
			pr.r.Inconclusive(fmt.Sprintf("phases %s answer %s %v: the answer to the server request was not seen within the watchdog", p.client(), rs.name, cases[i].names()))
			continue
		}
		pr.judge(p, rs, cases[i], ob, nil)
	}
}

func partPhases(r *vh.Run, refused string) {
	pr := &phaseRun{r: r, refused: refused, st: map[string]*phaseStats{}, open: map[string]map[int]bool{}}
	rot := r.Rand("phases").Intn(1 << 16)
	full := !r.Quick()
	base := phaseRetry(2)
	extra := []retrySpec{phaseRetry(1)}
	if full {
		extra = append(extra, phaseRetry(3), phaseRetry(11))
	}
	settle := time.Duration(r.Pick(300, 1000)) * time.Millisecond
	for _, p := range syncPhases() {
		pr.runSyncPhase(p, base, casesFor(p, rot, full, false))
		for i, rs := range extra {
			pr.runSyncPhase(p, rs, casesFor(p, rot+7*(i+1), false, true))
		}
		pr.runSyncPhase(p, noRetrySpec, casesFor(p, rot+3, false, true))
	}
	pr.runListenPhase(base, asyncCases(rot, full), settle)
	pr.runListenPhase(noRetrySpec, asyncCases(rot+3, false), settle)
	for _, legacy := range []bool{true, false} {
		pr.runAnswerPhase(legacy, base, asyncCases(rot, full), settle)
		pr.runAnswerPhase(legacy, noRetrySpec, asyncCases(rot+3, false), settle)
	}

	// what was observed
	var total phaseStats
	for k, st := range pr.st {
		name := strings.NewReplacer("|", "_", ":", "_", "/", "_").Replace(k)
		r.Count("phases_cases_"+name, st.cases)
		r.Count("phases_reattempted_"+name, st.retriedCases)
		total.cases += st.cases
		total.retriedCases += st.retriedCases
		total.singleCases += st.singleCases
		total.openCases += st.openCases
		total.boundOnly += st.boundOnly
		total.replays += st.replays
	}
	r.Count("phases_cases", total.cases)
	r.Count("phases_cases_with_reattempt", total.retriedCases)
	r.Count("phases_cases_with_one_attempt", total.singleCases)
	r.Count("phases_cases_of_open_classes", total.openCases)
	r.Count("phases_cases_outside_retry_loop_bound_only", total.boundOnly)
	r.Count("phases_wire_replays_by_net_http", total.replays)
	for k, ns := range pr.open {
		var l []string
		for n := 0; n <= 12; n++ {
			if ns[n] {
				l = append(l, strconv.Itoa(n))
			}
		}
		r.SetAdd("phases_open_classes_observed_attempts", k+"="+strings.Join(l, ","))
	}
	// non-vacuity: every exchange inside a retried operation was seen both re-attempted and attempted once
	for _, k := range []string{"streamable|listen", "streamable|answer", "legacy-sse|answer"} {
		if st := pr.st[k]; st == nil || st.cases == 0 {
			r.Fatal("vacuous run: phase %s: no case was judged", k)
		}
	}
	for _, p := range syncPhases() {
		st := pr.stats(p)
		if st.cases == 0 || st.singleCases == 0 || (p.retried && st.retriedCases == 0) {
			r.Fatal("vacuous run: phase %s %s: %d cases judged, %d with one attempt, %d re-attempted", p.client(), p.name, st.cases, st.singleCases, st.retriedCases)
		}
	}
}
