package main

// Part (f) INCIDENTAL ATTRIBUTES: whether a failed request is attempted again depends on the failure only,
// never on attributes of the request that happen to be rendered into an error text - its JSON-RPC id
// (the client's own counter), its method, the tool / prompt / resource it names, its params, the URL
// (host name, port, path, query), the session id.
//
// The three HTTP client kinds (Streamable answered with JSON, Streamable answered with an event stream,
// legacy SSE) talk to an in-process scripted server; a fault is injected for chosen requests either at the
// server (bytes that are not HTTP, a redirect loop, a status, ...) or at the client's HTTP boundary (the
// request is sent somewhere that fails: TLS, unknown host, refused port, an error of the request handler).
// Oracle (logical, no timing): the number of calls of the client's HTTPReqHandler carrying that request id.
// A persistent transient fault gives MaxRetries+1 attempts, every other failure exactly one.

import (
	"context"
	"encoding/binary"
	"encoding/json"
	"errors"
	"fmt"
	"io"
	"log"
	"net"
	"net/http"
	"net/http/httptest"
	"net/url"
	"sort"
	"strconv"
	"strings"
	"sync"
	"time"

	mcp "trpc.group/trpc-go/trpc-mcp-go"

	"verifharness/lib/kit"
	"verifharness/lib/vh"
)

type attrFault struct {
	name      string
	transient bool
	side      byte   // 's' injected by the server, 'c' at the client's HTTP boundary
	modes     string // "" = all; otherwise the modes it applies to, e.g. "json"
}

var attrFaults = []attrFault{
	// permanent failures of the HTTP exchange itself
	{name: "malformed-response", side: 's'},
	{name: "bad-status-line", side: 's'},
	{name: "bad-content-length", side: 's'},
	{name: "redirect-loop", side: 's'},
	{name: "https-to-http-server", side: 'c'},
	{name: "tls-untrusted-cert", side: 'c'},
	{name: "unsupported-scheme", side: 'c'},
	{name: "handler-error", side: 'c'},
	{name: "no-such-host", side: 'c'},
	// complete answers that are not transient
	{name: "200-wrong-id", side: 's', modes: "json"},
	{name: "200-no-id", side: 's', modes: "json"},
	{name: "jsonrpc-error", side: 's'},
	{name: "http-404", side: 's'},
	{name: "http-400", side: 's'},
	// transient failures
	{name: "http-503", side: 's', transient: true},
	{name: "http-429", side: 's', transient: true},
	{name: "http-408", side: 's', transient: true},
	{name: "eof", side: 's', transient: true},
	{name: "reset", side: 's', transient: true},
	{name: "refused", side: 'c', transient: true},
}

func (f *attrFault) appliesTo(mode string) bool {
	return f.modes == "" || strings.Contains(f.modes, mode)
}

var attrModes = []string{"json", "sse", "legacy"}

// retryable status numbers as the classifier knows them
func statusLike(n int64) bool {
	m := n % 1000
	return m == 408 || m == 409 || m == 429 || (m >= 500 && m <= 511)
}

// ---- fake DNS: every question is answered NXDOMAIN, so that the Go resolver produces its real error ----

type nxDNS struct{ pc net.PacketConn }

func newNXDNS() (*nxDNS, error) {
	pc, err := net.ListenPacket("udp", "127.0.0.1:0")
	if err != nil {
		return nil, err
	}
	d := &nxDNS{pc: pc}
	go func() {
		buf := make([]byte, 1500)
		for {
			n, from, err := pc.ReadFrom(buf)
			if err != nil {
				return
			}
			if n < 12 {
				continue
			}
			q := append([]byte{}, buf[:n]...)
			// header: QR=1, opcode kept, RD kept, RA=1, RCODE=3 (name error); no answers
			q[2] = 0x80 | (q[2] & 0x79)
			q[3] = 0x80 | 3
			binary.BigEndian.PutUint16(q[6:], 0)
			binary.BigEndian.PutUint16(q[8:], 0)
			binary.BigEndian.PutUint16(q[10:], 0)
			// keep only the question section
			end := 12
			for end < n && q[end] != 0 {
				end += int(q[end]) + 1
			}
			end += 5
			if end > n {
				end = n
			}
			_, _ = pc.WriteTo(q[:end], from)
		}
	}()
	return d, nil
}

func (d *nxDNS) client() *http.Client {
	res := &net.Resolver{PreferGo: true, Dial: func(ctx context.Context, network, address string) (net.Conn, error) {
		var dl net.Dialer
		return dl.DialContext(ctx, "udp", d.pc.LocalAddr().String())
	}}
	dl := &net.Dialer{Resolver: res, Timeout: 10 * time.Second}
	return &http.Client{Transport: &http.Transport{DisableKeepAlives: true, DialContext: dl.DialContext}}
}

// ---- shared fixtures of the part ----

type attrEnv struct {
	r       *vh.Run
	refused string
	tlsURL  *url.URL
	tlsSrv  *httptest.Server
	dns     *nxDNS
	dnsHC   *http.Client
}

func newAttrEnv(r *vh.Run, refused string) *attrEnv {
	ts := httptest.NewUnstartedServer(http.HandlerFunc(func(w http.ResponseWriter, _ *http.Request) { w.WriteHeader(204) }))
	ts.Config.ErrorLog = log.New(io.Discard, "", 0)
	ts.StartTLS()
	u, err := url.Parse(ts.URL)
	if err != nil {
		r.Fatal("attrs: tls server url: %v", err)
	}
	d, err := newNXDNS()
	if err != nil {
		r.Fatal("attrs: fake DNS: %v", err)
	}
	return &attrEnv{r: r, refused: refused, tlsURL: u, tlsSrv: ts, dns: d, dnsHC: d.client()}
}

func (e *attrEnv) close() {
	e.tlsSrv.CloseClientConnections()
	e.tlsSrv.Close()
	e.dns.pc.Close()
}

// attrCfg is one cell of request attributes.
type attrCfg struct {
	class    string // attribute class (signature)
	value    string // the value (evidence)
	base     string // server path prefix (decoded)
	urlBase  string // the prefix as written in the client's URL ("" = base, typed with its spaces)
	query    string // raw query of the URL the client is given (Streamable) / of the endpoint the server announces (legacy)
	host     string // host name in the client's URL (resolved to the server by the handler's dialer); "" = 127.0.0.1
	port     int    // wanted port, 0 = any
	session  string // Mcp-Session-Id
	toolName string // name used for tools/call, prompts/get; resource uri
	argKey   string
	argVal   string
	viaPath  bool   // the prefix is not in the URL but given through WithClientPath (Streamable only)
	header   string // value of a custom header (WithHTTPHeaders)
	service  string // WithServiceName
}

// attrSrv is the scripted peer.
type attrSrv struct {
	mode string
	cfg  attrCfg
	ln   net.Listener
	hs   *http.Server
	done chan struct{}

	mu       sync.Mutex
	plan     func(id int64, method string) *attrFault
	calls    map[int64]int // HTTPReqHandler calls per request id
	arrivals map[int64]int // arrivals at the server per request id
	methods  map[int64]string
	lastID   int64
	stream   chan string
}

func newAttrSrv(mode string, cfg attrCfg) (*attrSrv, error) {
	ln, err := net.Listen("tcp", fmt.Sprintf("127.0.0.1:%d", cfg.port))
	if err != nil {
		return nil, err
	}
	s := &attrSrv{mode: mode, cfg: cfg, ln: ln, done: make(chan struct{}), calls: map[int64]int{}, arrivals: map[int64]int{}, methods: map[int64]string{}}
	s.hs = &http.Server{Handler: s, ErrorLog: log.New(io.Discard, "", 0)}
	go func() { _ = s.hs.Serve(ln) }()
	return s, nil
}

func (s *attrSrv) close() {
	close(s.done)
	fin := make(chan struct{})
	go func() { _ = s.hs.Close(); close(fin) }()
	select {
	case <-fin:
	case <-time.After(5 * time.Second):
	}
}

func (s *attrSrv) addr() string { return s.ln.Addr().String() }

func (s *attrSrv) hostPort() string {
	if s.cfg.host == "" {
		return s.addr()
	}
	_, port, _ := net.SplitHostPort(s.addr())
	return s.cfg.host + ":" + port
}

// clientURL is the URL string the library client is constructed with.
func (s *attrSrv) clientURL() string {
	leaf := "/mcp"
	if s.mode == "legacy" {
		leaf = "/sse"
	}
	ub := s.cfg.base // the path is given as the user would type it
	if s.cfg.urlBase != "" {
		ub = s.cfg.urlBase
	}
	if s.cfg.viaPath {
		ub = ""
	}
	u := "http://" + s.hostPort() + ub + leaf
	if s.cfg.query != "" && s.mode != "legacy" {
		u += "?" + s.cfg.query
	}
	return u
}

func (s *attrSrv) setPlan(p func(id int64, method string) *attrFault) {
	s.mu.Lock()
	s.plan = p
	s.mu.Unlock()
}

func (s *attrSrv) planned(id int64, method string) *attrFault {
	s.mu.Lock()
	defer s.mu.Unlock()
	if s.plan == nil || method == "initialize" {
		return nil
	}
	return s.plan(id, method)
}

func (s *attrSrv) push(frame string) {
	s.mu.Lock()
	ch := s.stream
	s.mu.Unlock()
	if ch == nil {
		return
	}
	select {
	case ch <- frame:
	default:
	}
}

func (s *attrSrv) serveStream(w http.ResponseWriter, req *http.Request) {
	fl, ok := w.(http.Flusher)
	if !ok {
		w.WriteHeader(500)
		return
	}
	w.Header().Set("Content-Type", "text/event-stream")
	w.WriteHeader(200)
	ch := make(chan string, 256)
	s.mu.Lock()
	s.stream = ch
	s.mu.Unlock()
	ep := (&url.URL{Path: s.cfg.base + "/message"}).String()
	q := "sessionId=x"
	if s.cfg.query != "" {
		q = s.cfg.query
	}
	_, _ = io.WriteString(w, "event: endpoint\ndata: "+ep+"?"+q+"\n\n")
	fl.Flush()
	for {
		select {
		case frame := <-ch:
			_, _ = io.WriteString(w, "event: message\ndata: "+frame+"\n\n")
			fl.Flush()
		case <-req.Context().Done():
			return
		case <-s.done:
			return
		}
	}
}

func (s *attrSrv) answer(w http.ResponseWriter, method, frame string) {
	switch {
	case s.mode == "legacy":
		w.WriteHeader(http.StatusAccepted)
		s.push(frame)
	case s.mode == "sse" && method != "initialize":
		w.Header().Set("Content-Type", "text/event-stream")
		if s.cfg.session != "" {
			w.Header().Set("Mcp-Session-Id", s.cfg.session)
		}
		w.WriteHeader(200)
		_, _ = io.WriteString(w, "event: message\ndata: "+frame+"\n\n")
	default:
		w.Header().Set("Content-Type", "application/json")
		sid := s.cfg.session
		if sid == "" {
			sid = "sess-c17"
		}
		w.Header().Set("Mcp-Session-Id", sid)
		w.WriteHeader(200)
		_, _ = io.WriteString(w, frame)
	}
}

func rawConnWrite(w http.ResponseWriter, text string, linger0 bool) {
	hj, ok := w.(http.Hijacker)
	if !ok {
		w.WriteHeader(500)
		return
	}
	conn, _, err := hj.Hijack()
	if err != nil {
		return
	}
	if tc, ok := conn.(*net.TCPConn); ok && linger0 {
		_ = tc.SetLinger(0)
	}
	if text != "" {
		_, _ = io.WriteString(conn, text)
	}
	conn.Close()
}

func (s *attrSrv) ServeHTTP(w http.ResponseWriter, req *http.Request) {
	p := req.URL.Path
	loop := s.cfg.base + "/loop"
	if p == loop {
		_, _ = io.Copy(io.Discard, req.Body)
		w.Header().Set("Location", (&url.URL{Path: loop}).String())
		w.WriteHeader(http.StatusTemporaryRedirect)
		return
	}
	if s.mode == "legacy" && req.Method == http.MethodGet && p == s.cfg.base+"/sse" {
		s.serveStream(w, req)
		return
	}
	want := s.cfg.base + "/mcp"
	if s.mode == "legacy" {
		want = s.cfg.base + "/message"
	}
	if p != want {
		http.Error(w, "no such path", http.StatusNotFound)
		return
	}
	switch req.Method {
	case http.MethodGet:
		w.WriteHeader(http.StatusMethodNotAllowed)
		return
	case http.MethodDelete:
		w.WriteHeader(200)
		return
	}
	body, _ := io.ReadAll(req.Body)
	var m struct {
		ID     json.RawMessage `json:"id"`
		Method string          `json:"method"`
	}
	if err := json.Unmarshal(body, &m); err != nil {
		http.Error(w, "bad json", 400)
		return
	}
	ids := string(m.ID)
	if len(m.ID) == 0 || ids == "null" {
		w.WriteHeader(http.StatusAccepted)
		return
	}
	id, err := strconv.ParseInt(ids, 10, 64)
	if err != nil {
		http.Error(w, "id is not an integer", 400)
		return
	}
	s.mu.Lock()
	s.arrivals[id]++
	s.mu.Unlock()
	f := s.planned(id, m.Method)
	if f == nil || f.side != 's' {
		res, ok := successResult[m.Method]
		if !ok {
			res = `{}`
		}
		s.answer(w, m.Method, `{"jsonrpc":"2.0","id":`+ids+`,"result":`+res+`}`)
		return
	}
	switch f.name {
	case "malformed-response":
		rawConnWrite(w, "this is not http\r\n\r\n", false)
	case "bad-status-line":
		rawConnWrite(w, "HTTP/1.1 abc Whatever\r\nContent-Length: 0\r\n\r\n", false)
	case "bad-content-length":
		rawConnWrite(w, "HTTP/1.1 200 OK\r\nContent-Type: application/json\r\nContent-Length: x\r\n\r\n{}", false)
	case "redirect-loop":
		w.Header().Set("Location", (&url.URL{Path: loop}).String())
		w.WriteHeader(http.StatusTemporaryRedirect)
	case "200-wrong-id":
		w.Header().Set("Content-Type", "application/json")
		w.WriteHeader(200)
		_, _ = io.WriteString(w, `{"jsonrpc":"2.0","id":"other","result":{}}`)
	case "200-no-id":
		w.Header().Set("Content-Type", "application/json")
		w.WriteHeader(200)
		_, _ = io.WriteString(w, `{"jsonrpc":"2.0","result":{}}`)
	case "jsonrpc-error":
		s.answer(w, m.Method, `{"jsonrpc":"2.0","id":`+ids+`,"error":{"code":-32603,"message":"scripted failure"}}`)
	case "eof":
		rawConnWrite(w, "", false)
	case "reset":
		rawConnWrite(w, "", true)
	default:
		if strings.HasPrefix(f.name, "http-") {
			code, _ := strconv.Atoi(strings.TrimPrefix(f.name, "http-"))
			w.Header().Set("Content-Type", "text/plain")
			w.WriteHeader(code)
			_, _ = io.WriteString(w, "scripted failure")
			return
		}
		w.WriteHeader(500)
	}
}

// attrHandler is the client's HTTPReqHandler: it counts the library's attempts per request id and performs the
// faults that are injected at the client's HTTP boundary.
type attrHandler struct {
	env *attrEnv
	s   *attrSrv
	own *http.Client // used instead of the library's client when the URL carries a host name
}

var errPolicy = errors.New("request blocked by the egress policy of this process")

func (h *attrHandler) Handle(ctx context.Context, client *http.Client, req *http.Request) (*http.Response, error) {
	if h.own != nil {
		client = h.own
	}
	if req.Method != http.MethodPost || req.GetBody == nil {
		return client.Do(req.WithContext(ctx))
	}
	rc, err := req.GetBody()
	if err != nil {
		return client.Do(req.WithContext(ctx))
	}
	b, _ := io.ReadAll(rc)
	rc.Close()
	var m struct {
		ID     json.RawMessage `json:"id"`
		Method string          `json:"method"`
	}
	if json.Unmarshal(b, &m) != nil || len(m.ID) == 0 || string(m.ID) == "null" {
		return client.Do(req.WithContext(ctx))
	}
	id, err := strconv.ParseInt(string(m.ID), 10, 64)
	if err != nil {
		return client.Do(req.WithContext(ctx))
	}
	h.s.mu.Lock()
	h.s.calls[id]++
	h.s.methods[id] = m.Method
	h.s.lastID = id
	h.s.mu.Unlock()
	f := h.s.planned(id, m.Method)
	if f == nil || f.side != 'c' {
		return client.Do(req.WithContext(ctx))
	}
	redirect := func(mod func(u *url.URL)) *http.Request {
		r2 := req.Clone(ctx)
		u := *req.URL
		mod(&u)
		r2.URL = &u
		r2.Host = ""
		r2.Body, _ = req.GetBody()
		return r2
	}
	switch f.name {
	case "handler-error":
		return nil, errPolicy
	case "refused":
		return client.Do(redirect(func(u *url.URL) { u.Host = h.env.refused }))
	case "https-to-http-server":
		return client.Do(redirect(func(u *url.URL) { u.Scheme = "https" }))
	case "tls-untrusted-cert":
		return client.Do(redirect(func(u *url.URL) { u.Scheme = "https"; u.Host = h.env.tlsURL.Host }))
	case "unsupported-scheme":
		return client.Do(redirect(func(u *url.URL) { u.Scheme = "ftp" }))
	case "no-such-host":
		// the name in the client's URL (or a neutral one) stops resolving: the Go resolver gets NXDOMAIN
		return h.env.dnsHC.Do(redirect(func(u *url.URL) {
			host := h.s.cfg.host
			if host == "" {
				host = "mcp-backend"
			}
			_, port, _ := net.SplitHostPort(h.s.addr())
			u.Host = host + ":" + port
		}))
	}
	return client.Do(req.WithContext(ctx))
}

// attrClient is one initialized library client with its scripted server.
type attrClient struct {
	mode string
	M    int
	s    *attrSrv
	c    *mcp.Client
}

type attrOp struct {
	method string
	call   func(ctx context.Context, c *mcp.Client) error
}

func (a *attrClient) ops() []attrOp {
	name := a.s.cfg.toolName
	if name == "" {
		name = "echo"
	}
	args := map[string]interface{}{"n": 1}
	if a.s.cfg.argKey != "" {
		args = map[string]interface{}{a.s.cfg.argKey: a.s.cfg.argVal}
	}
	sargs := map[string]string{}
	for k, v := range args {
		sargs[k] = fmt.Sprint(v)
	}
	return []attrOp{
		{"tools/list", func(ctx context.Context, c *mcp.Client) error {
			_, err := c.ListTools(ctx, &mcp.ListToolsRequest{})
			return err
		}},
		{"tools/call", func(ctx context.Context, c *mcp.Client) error {
			req := &mcp.CallToolRequest{}
			req.Params.Name = name
			req.Params.Arguments = args
			_, err := c.CallTool(ctx, req)
			return err
		}},
		{"prompts/get", func(ctx context.Context, c *mcp.Client) error {
			req := &mcp.GetPromptRequest{}
			req.Params.Name = name
			req.Params.Arguments = sargs
			_, err := c.GetPrompt(ctx, req)
			return err
		}},
		{"resources/read", func(ctx context.Context, c *mcp.Client) error {
			req := &mcp.ReadResourceRequest{}
			req.Params.URI = "res://" + name
			_, err := c.ReadResource(ctx, req)
			return err
		}},
		{"prompts/list", func(ctx context.Context, c *mcp.Client) error {
			_, err := c.ListPrompts(ctx, &mcp.ListPromptsRequest{})
			return err
		}},
		{"resources/list", func(ctx context.Context, c *mcp.Client) error {
			_, err := c.ListResources(ctx, &mcp.ListResourcesRequest{})
			return err
		}},
	}
}

func newAttrClient(env *attrEnv, mode string, cfg attrCfg, M int) (*attrClient, error) {
	s, err := newAttrSrv(mode, cfg)
	if err != nil {
		return nil, err
	}
	h := &attrHandler{env: env, s: s}
	if cfg.host != "" {
		target, named := s.addr(), s.hostPort()
		h.own = &http.Client{Transport: &http.Transport{DialContext: func(ctx context.Context, network, addr string) (net.Conn, error) {
			var d net.Dialer
			if addr == named { // the name in the client's URL stands for the scripted server
				addr = target
			}
			return d.DialContext(ctx, "tcp", addr)
		}}}
	}
	opts := []mcp.ClientOption{mcp.WithClientLogger(kit.Quiet{}), mcp.WithClientGetSSEEnabled(false), mcp.WithHTTPReqHandler(h),
		mcp.WithRetry(mcp.RetryConfig{MaxRetries: M, InitialBackoff: time.Millisecond, BackoffFactor: 2, MaxBackoff: 4 * time.Millisecond})}
	if cfg.viaPath {
		opts = append(opts, mcp.WithClientPath(cfg.base+"/mcp"))
	}
	if cfg.header != "" {
		opts = append(opts, mcp.WithHTTPHeaders(http.Header{"X-Upstream-Status": []string{cfg.header}}))
	}
	if cfg.service != "" {
		opts = append(opts, mcp.WithServiceName(cfg.service))
	}
	info := mcp.Implementation{Name: "c17-attrs", Version: "1"}
	var c *mcp.Client
	if mode == "legacy" {
		c, err = mcp.NewSSEClient(s.clientURL(), info, opts...)
	} else {
		c, err = mcp.NewClient(s.clientURL(), info, opts...)
	}
	if err != nil {
		s.close()
		return nil, fmt.Errorf("new client for %q: %w", s.clientURL(), err)
	}
	ctx, cancel := context.WithTimeout(context.Background(), 20*time.Second)
	defer cancel()
	if _, err := c.Initialize(ctx, &mcp.InitializeRequest{}); err != nil {
		_ = c.Close()
		s.close()
		return nil, fmt.Errorf("initialize via %q: %w", s.clientURL(), err)
	}
	return &attrClient{mode: mode, M: M, s: s, c: c}, nil
}

func (a *attrClient) close() {
	done := make(chan struct{})
	go func() { _ = a.c.Close(); close(done) }()
	select {
	case <-done:
	case <-time.After(5 * time.Second):
	}
	a.s.close()
}

type attrResult struct {
	ID       int64
	Method   string
	Calls    int
	Arrivals int
	Err      error
	TimedOut bool
}

// do performs one client call and reports what the HTTP boundary saw for the id it used.
func (a *attrClient) do(op attrOp) attrResult {
	a.s.mu.Lock()
	before := a.s.lastID
	a.s.mu.Unlock()
	ctx, cancel := context.WithTimeout(context.Background(), 20*time.Second)
	defer cancel()
	err := func() (err error) {
		defer func() {
			if p := recover(); p != nil {
				err = fmt.Errorf("PANIC in the library client: %v", p)
			}
		}()
		return op.call(ctx, a.c)
	}()
	a.s.mu.Lock()
	defer a.s.mu.Unlock()
	id := a.s.lastID
	res := attrResult{ID: id, Method: a.s.methods[id], Calls: a.s.calls[id], Arrivals: a.s.arrivals[id], Err: err, TimedOut: ctx.Err() != nil}
	if id == before {
		res.Calls = 0
	}
	return res
}

type attrStats struct {
	perm, permStatusLike, transient, transientStatusLike, fillers int64
	maxNatural                                                    int64
}

// judge compares one faulted call with the oracle. idClass / attr name the cell.
func (a *attrClient) judge(r *vh.Run, scenario, attrClass, attrValue string, f *attrFault, res attrResult, st *attrStats) bool {
	r.Eval(1)
	want := 1
	if f.transient {
		want = a.M + 1
	}
	wit := map[string]interface{}{"client": a.mode, "scenario": scenario, "attribute": attrClass, "attribute_value": attrValue, "client_url": a.s.clientURL(), "fault": f.name, "fault_is_transient": f.transient,
		"MaxRetries": a.M, "request_id": res.ID, "method": res.Method, "attempts_at_http_boundary": res.Calls, "arrivals_at_server": res.Arrivals, "want_attempts": want, "returned": errText(res.Err)}
	if res.TimedOut {
		r.Inconclusive(fmt.Sprintf("attrs %s %s %s fault %s: the call did not return within the 20 s watchdog", a.mode, scenario, attrClass, f.name))
		return false
	}
	sig := func(sym string) string {
		return fmt.Sprintf("C17|attrs|%s|%s|%s|%s|%s", scenario, a.mode, attrClass, f.name, sym)
	}
	switch {
	case res.Calls == 0:
		r.Violation(sig("no-attempt"), fmt.Sprintf("%s client: a %s call did not reach the HTTP boundary", a.mode, res.Method), wit)
		return false
	case res.Calls > a.M+1:
		r.Violation(sig("bound-exceeded"), fmt.Sprintf("%s client, MaxRetries=%d: request %d (%s) was attempted %d times", a.mode, a.M, res.ID, res.Method, res.Calls), wit)
		return false
	case res.Calls > want:
		r.Violation(sig("extra-attempt"), fmt.Sprintf("%s client, MaxRetries=%d: request %d (%s, %s=%q) failed with the non-transient fault %s and was attempted %d times (want exactly 1); returned: %s",
			a.mode, a.M, res.ID, res.Method, attrClass, attrValue, f.name, res.Calls, errText(res.Err)), wit)
		return false
	case res.Calls < want:
		r.Violation(sig("not-retried"), fmt.Sprintf("%s client, MaxRetries=%d: request %d (%s, %s=%q) failed persistently with the transient fault %s and was attempted %d times (want %d); returned: %s",
			a.mode, a.M, res.ID, res.Method, attrClass, attrValue, f.name, res.Calls, want, errText(res.Err)), wit)
		return false
	case res.Err == nil:
		r.Violation(sig("no-error"), fmt.Sprintf("%s client: request %d (%s) failed with %s on every attempt, yet the call returned no error", a.mode, res.ID, res.Method, f.name), wit)
		return false
	}
	if f.side == 's' && res.Arrivals != res.Calls {
		r.Count("attrs_arrivals_differ_from_handler_calls", 1) // net/http replays are recorded, not judged
	}
	like := statusLike(res.ID)
	if f.transient {
		st.transient++
		if like {
			st.transientStatusLike++
		}
	} else {
		st.perm++
		if like {
			st.permStatusLike++
		}
	}
	kind := "permanent"
	if f.transient {
		kind = "transient"
	}
	r.Distinct(fmt.Sprintf("attrs|%s|%s|%s|%s", scenario, a.mode, attrClass, f.name))
	r.SetAdd("attrs_cells", fmt.Sprintf("%s/%s/%s/%s", scenario, a.mode, attrClass, kind))
	return true
}

func attrIDClass(id int64, natural bool) string {
	switch {
	case statusLike(id) && natural:
		return "id-ends-in-retryable-status"
	case statusLike(id):
		return "large-id-ends-in-retryable-status"
	case natural:
		return "id-other"
	}
	return "large-id-other"
}

// partAttrs is part (f).
func partAttrs(r *vh.Run, refused string) {
	env := newAttrEnv(r, refused)
	defer env.close()
	st := &attrStats{}
	rng := r.Rand("attrs")

	// ---- scenario "ids": the client's own counter is driven through 1..N ----
	N := int64(r.Pick(620, 1640))
	var boundary []int64
	for id := int64(2); id <= N; id++ {
		if statusLike(id) {
			boundary = append(boundary, id)
		}
	}
	large := []int64{2429, 3503, 10408, 65500, 100409, 1000511, 2147483000 + 503, 4294967000 + 429, 7000000500, 9007199254740503}
	largeOther := []int64{4291, 5030, 15000, 40800, 2147483647, 9007199254740000}
	for _, id := range append(append([]int64{}, large...), largeOther...) {
		if id <= N {
			r.Fatal("attrs: large id %d lies inside the counted range 1..%d", id, N)
		}
	}
	for _, mode := range attrModes {
		for fi := range attrFaults {
			f := &attrFaults[fi]
			if !f.appliesTo(mode) {
				continue
			}
			M := 3
			if fi%3 == 1 {
				M = 2
			}
			a, err := newAttrClient(env, mode, attrCfg{class: "id"}, M)
			if err != nil {
				r.Fatal("attrs/ids: %v", err)
			}
			ops := a.ops()
			faultAt := map[int64]bool{}
			for _, id := range boundary {
				faultAt[id] = true
			}
			for _, id := range []int64{2, 3, 10, 99, 100, 200, 404, 407, 410, 428, 430, 499, 512, 599, 600} {
				if id <= N {
					faultAt[id] = true
				}
			}
			for i := 0; i < r.Pick(12, 40); i++ {
				faultAt[2+rng.Int63n(N-1)] = true
			}
			for _, id := range large {
				faultAt[id] = true
			}
			for _, id := range largeOther {
				faultAt[id] = true
			}
			a.s.setPlan(func(id int64, _ string) *attrFault {
				if faultAt[id] {
					return f
				}
				return nil
			})
			natural := true
			step := func() bool {
				res := a.do(ops[rng.Intn(len(ops))])
				if res.Calls == 0 {
					r.Fatal("attrs/ids: %s client: a call did not reach the HTTP boundary (%v)", mode, res.Err)
				}
				if natural && res.ID > st.maxNatural {
					st.maxNatural = res.ID
				}
				if !faultAt[res.ID] {
					st.fillers++
					if res.Err != nil || res.Calls != 1 {
						r.Fatal("attrs/ids: %s client: un-faulted request %d (%s) gave %d attempts and %v", mode, res.ID, res.Method, res.Calls, res.Err)
					}
					return true
				}
				cl := attrIDClass(res.ID, natural)
				if a.judge(r, "ids", cl, strconv.FormatInt(res.ID, 10), f, res, st) {
					if statusLike(res.ID) {
						r.SetAdd("attrs_status_like_ids_faulted", fmt.Sprintf("%d", res.ID%100000))
					}
					if !f.transient && statusLike(res.ID) && mode == "json" {
						sampleOnce(r, "attrs-ids", map[string]interface{}{"part": "attrs", "scenario": "ids", "client": mode, "fault": f.name, "request_id": res.ID, "method": res.Method,
							"attempts_at_http_boundary": res.Calls, "want_attempts": 1, "returned": errText(res.Err)})
					}
				}
				return true
			}
			for {
				a.s.mu.Lock()
				last := a.s.lastID
				a.s.mu.Unlock()
				if last >= N {
					break
				}
				step()
			}
			natural = false
			all := append(append([]int64{}, large...), largeOther...)
			sort.Slice(all, func(i, j int) bool { return all[i] < all[j] })
			for _, id := range all {
				mcp.VerifSetRequestID(a.c, id-1)
				step()
				a.s.mu.Lock()
				got := a.s.lastID
				a.s.mu.Unlock()
				if got != id {
					r.Count("attrs_request_id_hook_gave_other_id", 1)
				}
			}
			a.close()
			r.Count("attrs_id_clients", 1)
		}
	}

	// ---- scenario "attrs": URL / names / params / session cells ----
	cells := []attrCfg{
		{class: "baseline", value: ""},
		{class: "path", value: "/v1/503 ", base: "/v1/503 "},
		{class: "path", value: "/status 503 x", base: "/status 503 x"},
		{class: "path", value: "/http 500 /api", base: "/http 500 /api"},
		{class: "path", value: "/code: 429 ", base: "/code: 429 "},
		{class: "path", value: "/v1/503%20", base: "/v1/503 ", urlBase: "/v1/503%20"},
		{class: "query", value: "tenant=503%20x", query: "tenant=503%20x"},
		{class: "query", value: "status=503+retry", query: "status=503+retry"},
		{class: "query", value: "code=429&http=500", query: "code=429&http=500"},
		{class: "port", value: "15030", port: 15030},
		{class: "port", value: "14290", port: 14290},
		{class: "port", value: "5003", port: 5003},
		{class: "port", value: "4290", port: 4290},
		{class: "host", value: "svc-100", host: "svc-100"},
		{class: "host", value: "svc-503", host: "svc-503"},
		{class: "host", value: "status-500.internal", host: "status-500.internal"},
		{class: "host", value: "429", host: "429"},
		{class: "host", value: "503", host: "503"},
		{class: "host", value: "svc.503", host: "svc.503"},
		{class: "host", value: "svc_503", host: "svc_503"},
		{class: "host", value: "x503", host: "x503"},
		{class: "host", value: "svc--429", host: "svc--429"},
		{class: "host", value: "a.b-500", host: "a.b-500"},
		{class: "host", value: "svc~503", host: "svc~503"},
		{class: "host", value: "svc+503", host: "svc+503"},
		{class: "host", value: "svc!408", host: "svc!408"},
		{class: "host", value: "svc,509", host: "svc,509"},
		{class: "host", value: "svc=511", host: "svc=511"},
		{class: "host", value: "svc;429", host: "svc;429"},
		{class: "name", value: "tool 503 x", toolName: "tool 503 x"},
		{class: "name", value: "status 429", toolName: "status 429"},
		{class: "name", value: "HTTP 500 Internal Server Error", toolName: "HTTP 500 Internal Server Error"},
		{class: "name", value: "connection refused", toolName: "connection refused"},
		{class: "params", value: "code 503 =status: 429 x", argKey: "code 503 ", argVal: "status: 429 x"},
		{class: "params", value: "err=i/o timeout: EOF", argKey: "err", argVal: "i/o timeout: EOF"},
		{class: "session-id", value: "sess 503 x", session: "sess 503 x"},
		{class: "session-id", value: "status 429", session: "status 429"},
		{class: "client-path-option", value: "/alt 429 /mcp", base: "/alt 429 ", viaPath: true},
		{class: "client-path-option", value: "/status: 503 x/mcp", base: "/status: 503 x", viaPath: true},
		{class: "header", value: "503 Service Unavailable", header: "503 Service Unavailable"},
		{class: "service-name", value: "svc 503 x", service: "svc 503 x"},
	}
	for _, mode := range attrModes {
		for ci, cell := range cells {
			if (cell.class == "session-id" || cell.viaPath) && mode == "legacy" {
				continue
			}
			M := 3 - ci%2
			a, err := newAttrClient(env, mode, cell, M)
			if err != nil {
				if cell.port != 0 {
					r.Count("attrs_port_cells_skipped_port_in_use", 1)
					continue
				}
				r.Fatal("attrs/%s %q: %v", cell.class, cell.value, err)
			}
			ops := a.ops()
			var cur *attrFault
			a.s.setPlan(func(int64, string) *attrFault { return cur })
			for fi := range attrFaults {
				f := &attrFaults[fi]
				if !f.appliesTo(mode) {
					continue
				}
				// one list operation and the operations naming the attribute
				sel := []attrOp{ops[0], ops[1+(fi+ci)%3]}
				if !r.Quick() || cell.class == "name" || cell.class == "params" {
					sel = ops
				}
				for _, op := range sel {
					cur = nil
					if res := a.do(op); res.Err != nil || res.Calls != 1 {
						r.Fatal("attrs/%s %q: %s client: un-faulted %s gave %d attempts and %v", cell.class, cell.value, mode, op.method, res.Calls, res.Err)
					}
					st.fillers++
					cur = f
					res := a.do(op)
					if a.judge(r, "cells", cell.class, cell.value, f, res, st) {
						r.SetAdd("attrs_attribute_values", cell.class+"="+cell.value)
					}
				}
			}
			a.close()
			r.Count("attrs_cell_clients", 1)
		}
	}

	r.Count("attrs_permanent_faults_judged", st.perm)
	r.Count("attrs_permanent_faults_at_status_like_ids", st.permStatusLike)
	r.Count("attrs_transient_faults_judged", st.transient)
	r.Count("attrs_transient_faults_at_status_like_ids", st.transientStatusLike)
	r.Count("attrs_unfaulted_requests", st.fillers)
	r.Max("attrs_highest_id_reached_by_counting", st.maxNatural)
	if st.maxNatural < 511 {
		r.Fatal("vacuous: the clients' own request counter only reached %d", st.maxNatural)
	}
}
