package main

// Part (c) END TO END: the two library HTTP clients against a scripted net/http server; attempts
// are counted at the server (for "connection refused" at the client's HTTP boundary, where the
// request is sent to a bound-but-not-listening port).

import (
	"context"
	"encoding/json"
	"errors"
	"fmt"
	"io"
	"net"
	"net/http"
	"net/http/httptest"
	"strconv"
	"strings"
	"sync"
	"time"

	mcp "trpc.group/trpc-go/trpc-mcp-go"

	"verifharness/lib/kit"
	"verifharness/lib/vh"
)

// End-to-end outcome codes.
var (
	e2eTransient = []string{"408", "409", "429", "500", "502", "503", "504", "EOF", "RST", "REF"}
	e2eTerminal  = []string{"S", "J", "J503", "400", "401", "403", "404", "422", "B400", "B401", "B404", "B400R", "B400E"}
)

func e2eKind(code string) byte {
	switch code {
	case "S":
		return kSuccess
	case "EOF", "RST", "REF", "408", "409", "429":
		return kTransient
	}
	if n, err := strconv.Atoi(code); err == nil && n >= 500 && n <= 599 {
		return kTransient
	}
	return kTerminal
}

func e2eClass(code string) string {
	switch code {
	case "S":
		return "success"
	case "J":
		return "jsonrpc-error"
	case "J503":
		return "jsonrpc-error-mentions-retryable"
	case "EOF":
		return "eof"
	case "RST":
		return "reset"
	case "REF":
		return "refused"
	case "B400", "B401", "B404", "B400R", "B400E":
		return "4xx-body-mentions-retryable"
	case "408", "409", "429":
		return "http-" + code
	case "520", "599":
		return "http-5xx-unassigned"
	}
	if n, err := strconv.Atoi(code); err == nil && n >= 500 {
		return "http-5xx"
	}
	return "4xx"
}

var bodyMentions = map[string]struct {
	status int
	body   string
}{
	"B400": {400, "upstream said 503 Service Unavailable"},
	"B401": {401, "error code 500"},
	"B404": {404, "rate limiter answered status 429"},
	"B400R": {400, "upstream dial tcp 10.0.0.1:80: connect: connection refused"},
	"B400E": {400, "backend closed the stream: EOF"},
}

type seenReq struct {
	ID     string    `json:"id"`
	Code   string    `json:"served"`
	Beyond bool      `json:"beyond_script,omitempty"`
	At     time.Time `json:"-"` // arrival (monotonic clock); only ever used for lower bounds on gaps
}

// scriptSrv is the scripted peer: Streamable HTTP (POST /mcp) or legacy SSE (GET /sse + POST /message).
type scriptSrv struct {
	legacy      bool
	ts          *httptest.Server
	refusedAddr string
	done        chan struct{}

	mu     sync.Mutex
	method string // the JSON-RPC method whose answers are scripted
	script []string
	pos    int
	seen   []seenReq
	stream chan string
}

// successResult is a well-formed result for every request kind the library clients send.
var successResult = map[string]string{
	"initialize":     `{"protocolVersion":"2025-03-26","capabilities":{},"serverInfo":{"name":"s","version":"1"}}`,
	"tools/list":     `{"tools":[]}`,
	"tools/call":     `{"content":[{"type":"text","text":"ok"}]}`,
	"prompts/list":   `{"prompts":[]}`,
	"prompts/get":    `{"messages":[]}`,
	"resources/list": `{"resources":[]}`,
	"resources/read": `{"contents":[{"uri":"res://x","text":"ok"}]}`,
}

func (s *scriptSrv) setMethod(m string) {
	s.mu.Lock()
	s.method = m
	s.mu.Unlock()
}

func (s *scriptSrv) scriptedMethod() string {
	s.mu.Lock()
	defer s.mu.Unlock()
	return s.method
}

func newScriptSrv(legacy bool, refusedAddr string) *scriptSrv {
	s := &scriptSrv{legacy: legacy, refusedAddr: refusedAddr, done: make(chan struct{}), method: "tools/list"}
	s.ts = httptest.NewServer(s)
	return s
}

func (s *scriptSrv) close() {
	close(s.done)
	s.ts.CloseClientConnections()
	fin := make(chan struct{})
	go func() { s.ts.Close(); close(fin) }()
	select {
	case <-fin:
	case <-time.After(5 * time.Second):
	}
}

func (s *scriptSrv) url() string {
	if s.legacy {
		return s.ts.URL + "/sse"
	}
	return s.ts.URL + "/mcp"
}

func (s *scriptSrv) setScript(script []string) {
	s.mu.Lock()
	s.script = append([]string{}, script...)
	s.pos = 0
	s.seen = nil
	s.mu.Unlock()
}

func (s *scriptSrv) takeSeen() []seenReq {
	s.mu.Lock()
	defer s.mu.Unlock()
	out := s.seen
	s.seen = nil
	return out
}

// next consumes the next scripted outcome for a request of the scripted method with the given id.
func (s *scriptSrv) next(id string) string {
	s.mu.Lock()
	defer s.mu.Unlock()
	code, beyond := "S", true
	if s.pos < len(s.script) {
		code, beyond = s.script[s.pos], false
	}
	s.pos++
	s.seen = append(s.seen, seenReq{ID: id, Code: code, Beyond: beyond, At: time.Now()})
	return code
}

// takeIfRefused consumes the next outcome when it is "connection refused" (decided at the client side).
func (s *scriptSrv) takeIfRefused(method, id string) bool {
	s.mu.Lock()
	defer s.mu.Unlock()
	if method == s.method && s.pos < len(s.script) && s.script[s.pos] == "REF" {
		s.pos++
		s.seen = append(s.seen, seenReq{ID: id, Code: "REF", At: time.Now()})
		return true
	}
	return false
}

func (s *scriptSrv) push(frame string) {
	s.mu.Lock()
	ch := s.stream
	s.mu.Unlock()
	if ch == nil {
		return
	}
	select {
	case ch <- frame:
	default:
	}
}

func (s *scriptSrv) serveStream(w http.ResponseWriter, req *http.Request) {
	fl, ok := w.(http.Flusher)
	if !ok {
		w.WriteHeader(500)
		return
	}
	w.Header().Set("Content-Type", "text/event-stream")
	w.Header().Set("Cache-Control", "no-cache")
	w.WriteHeader(200)
	ch := make(chan string, 256)
	s.mu.Lock()
	s.stream = ch
	s.mu.Unlock()
	_, _ = io.WriteString(w, "event: endpoint\ndata: /message?sessionId=x\n\n")
	fl.Flush()
	for {
		select {
		case frame := <-ch:
			_, _ = io.WriteString(w, "event: message\ndata: "+frame+"\n\n")
			fl.Flush()
		case <-req.Context().Done():
			return
		case <-s.done:
			return
		}
	}
}

// answer delivers a JSON-RPC frame the way the transport does: 200 + JSON body, or 202 + stream event.
func (s *scriptSrv) answer(w http.ResponseWriter, frame string, session bool) {
	if s.legacy {
		w.WriteHeader(http.StatusAccepted)
		s.push(frame)
		return
	}
	w.Header().Set("Content-Type", "application/json")
	if session {
		w.Header().Set("Mcp-Session-Id", "sess-c17")
	}
	w.WriteHeader(200)
	_, _ = io.WriteString(w, frame)
}

func (s *scriptSrv) ServeHTTP(w http.ResponseWriter, req *http.Request) {
	if s.legacy && req.Method == http.MethodGet && req.URL.Path == "/sse" {
		s.serveStream(w, req)
		return
	}
	switch req.Method {
	case http.MethodGet:
		w.WriteHeader(http.StatusMethodNotAllowed)
		return
	case http.MethodDelete:
		w.WriteHeader(200)
		return
	}
	body, _ := io.ReadAll(req.Body)
	var m struct {
		ID     json.RawMessage `json:"id"`
		Method string          `json:"method"`
	}
	if err := json.Unmarshal(body, &m); err != nil {
		http.Error(w, "bad json", 400)
		return
	}
	id := string(m.ID)
	switch {
	case len(m.ID) != 0 && id != "null" && m.Method == s.scriptedMethod():
		s.scripted(w, m.Method, id)
	case m.Method == "initialize":
		s.answer(w, `{"jsonrpc":"2.0","id":`+id+`,"result":{"protocolVersion":"2025-03-26","capabilities":{},"serverInfo":{"name":"s","version":"1"}}}`, true)
	case len(m.ID) == 0 || id == "null":
		w.WriteHeader(http.StatusAccepted)
	default:
		s.answer(w, `{"jsonrpc":"2.0","id":`+id+`,"result":{}}`, false)
	}
}

func (s *scriptSrv) scripted(w http.ResponseWriter, method, id string) {
	code := s.next(id)
	switch code {
	case "S":
		res, ok := successResult[method]
		if !ok {
			res = `{}`
		}
		s.answer(w, `{"jsonrpc":"2.0","id":`+id+`,"result":`+res+`}`, method == "initialize")
	case "J":
		s.answer(w, `{"jsonrpc":"2.0","id":`+id+`,"error":{"code":-32603,"message":"scripted failure"}}`, false)
	case "J503":
		s.answer(w, `{"jsonrpc":"2.0","id":`+id+`,"error":{"code":-32603,"message":"upstream said 503 Service Unavailable, status 500"}}`, false)
	case "EOF", "RST":
		hj, ok := w.(http.Hijacker)
		if !ok {
			w.WriteHeader(500)
			return
		}
		conn, _, err := hj.Hijack()
		if err != nil {
			return
		}
		if tc, ok := conn.(*net.TCPConn); ok && code == "RST" {
			_ = tc.SetLinger(0)
		}
		conn.Close()
	default:
		status, text := 0, "scripted failure"
		if b, ok := bodyMentions[code]; ok {
			status, text = b.status, b.body
		} else {
			status, _ = strconv.Atoi(code)
		}
		w.Header().Set("Content-Type", "text/plain")
		w.WriteHeader(status)
		_, _ = io.WriteString(w, text)
	}
}

// clientSide is the client's HTTP request handler: the default behaviour (client.Do), except that a
// POST of the scripted method whose next scripted outcome is "connection refused" is sent to a port nobody listens on.
type clientSide struct{ s *scriptSrv }

func (h *clientSide) Handle(ctx context.Context, client *http.Client, req *http.Request) (*http.Response, error) {
	if req.Method == http.MethodPost && req.GetBody != nil {
		if rc, err := req.GetBody(); err == nil {
			b, _ := io.ReadAll(rc)
			rc.Close()
			var m struct {
				ID     json.RawMessage `json:"id"`
				Method string          `json:"method"`
			}
			if json.Unmarshal(b, &m) == nil && len(m.ID) != 0 && h.s.takeIfRefused(m.Method, string(m.ID)) {
				r2 := req.Clone(ctx)
				u := *req.URL
				u.Host = h.s.refusedAddr
				r2.URL = &u
				r2.Host = ""
				r2.Body, _ = req.GetBody()
				return client.Do(r2)
			}
		}
	}
	return client.Do(req.WithContext(ctx))
}

// e2eClient is one initialized library client talking to its own scripted server.
type e2eClient struct {
	name string // "streamable" | "legacy-sse"
	srv  *scriptSrv
	c    *mcp.Client
}

func newE2EClient(r *vh.Run, legacy bool, refusedAddr string, opts ...mcp.ClientOption) *e2eClient {
	s := newScriptSrv(legacy, refusedAddr)
	all := append([]mcp.ClientOption{mcp.WithClientLogger(kit.Quiet{}), mcp.WithClientGetSSEEnabled(false), mcp.WithHTTPReqHandler(&clientSide{s})}, opts...)
	info := mcp.Implementation{Name: "c17", Version: "1"}
	var c *mcp.Client
	var err error
	name := "streamable"
	if legacy {
		name = "legacy-sse"
		c, err = mcp.NewSSEClient(s.url(), info, all...)
	} else {
		c, err = mcp.NewClient(s.url(), info, all...)
	}
	if err != nil {
		r.Fatal("new %s client: %v", name, err)
	}
	ctx, cancel := context.WithTimeout(context.Background(), 20*time.Second)
	defer cancel()
	if _, err := c.Initialize(ctx, &mcp.InitializeRequest{}); err != nil {
		r.Fatal("%s client: initialize against the scripted server failed: %v", name, err)
	}
	return &e2eClient{name: name, srv: s, c: c}
}

func (e *e2eClient) close() {
	done := make(chan struct{})
	go func() { _ = e.c.Close(); close(done) }()
	select {
	case <-done:
	case <-time.After(5 * time.Second):
	}
	e.srv.close()
}

type e2eResult struct {
	Seen     []seenReq
	Waits    []waitRec
	Err      error
	TimedOut bool
}

// run performs one ListTools call under the given script. cancelAtWait > 0 cancels the caller's
// context from inside the computation of that wait. observe=false leaves the real waits in place
// (they are then not reported).
func (e *e2eClient) run(script []string, cancelAtWait int, observe bool) e2eResult {
	res := e.runCall(func(ctx context.Context, c *mcp.Client) error {
		_, err := c.ListTools(ctx, &mcp.ListToolsRequest{})
		return err
	}, script, cancelAtWait, !observe)
	if !observe {
		res.Waits = nil
	}
	return res
}

// runCall performs one client call under the given script. The computed waits are always recorded;
// with realWaits they are also really slept, otherwise the observer shrinks them to zero.
func (e *e2eClient) runCall(call func(context.Context, *mcp.Client) error, script []string, cancelAtWait int, realWaits bool) e2eResult {
	e.srv.setScript(script)
	ctx, cancel := context.WithTimeout(context.Background(), 20*time.Second)
	defer cancel()
	rec := &recorder{cancelAtWait: cancelAtWait, cancel: cancel, cancelReturn: cancelWait(), real: realWaits}
	curRec.Store(rec)
	defer curRec.Store(nil)
	// a panic inside the library client (in the caller's goroutine) is an outcome of this call, not the end of
	// the monitor
	err := func() (err error) {
		defer func() {
			if p := recover(); p != nil {
				err = fmt.Errorf("PANIC in the library client: %v", p)
			}
		}()
		return call(ctx, e.c)
	}()
	res := e2eResult{Seen: e.srv.takeSeen(), Err: err, Waits: rec.snapshot()}
	if cancelAtWait == 0 && ctx.Err() != nil {
		res.TimedOut = true
	}
	return res
}

func e2eKinds(script []string) []byte {
	k := make([]byte, len(script))
	for i, c := range script {
		k[i] = e2eKind(c)
	}
	return k
}

type e2eStats struct{ retried, scripts, waits int64 }

// judgeE2E compares one end-to-end call with the model. m == nil means "no retry option".
func judgeE2E(r *vh.Run, e *e2eClient, cfgName string, m *cfgModel, script []string, res e2eResult, st *e2eStats) bool {
	r.Eval(1)
	st.scripts++
	wantN, wantOK := 1, len(script) == 0 || e2eKind(script[0]) == kSuccess
	M := 0
	if m != nil {
		M = m.vc.MaxRetries
		wantN, wantOK = modelAttempts(M, e2eKinds(script))
	}
	got := len(res.Seen)
	wit := map[string]interface{}{"client": e.name, "config": cfgName, "script": append([]string{}, script...), "model_attempts": wantN, "attempts_seen": res.Seen, "returned": errText(res.Err)}
	if m != nil {
		wit["validated_config_model"] = m.class
		wit["observed_waits"] = waitStrings(res.Waits)
	}
	if res.TimedOut {
		r.Inconclusive(fmt.Sprintf("e2e %s %s script %v: the call did not return within the 20 s watchdog (attempts seen %d)", e.name, cfgName, script, got))
		return false
	}
	for _, sr := range res.Seen {
		if sr.ID != res.Seen[0].ID {
			r.Fatal("e2e %s: one ListTools call produced tools/list requests with different ids %v", e.name, res.Seen)
		}
	}
	codeAt := func(i int) string {
		if i-1 < len(script) {
			return script[i-1]
		}
		return "S"
	}
	ok := true
	part := "e2e|" + e.name
	switch {
	case m == nil && got != 1:
		ok = false
		sym := "extra-attempt"
		if got < 1 {
			sym = "no-attempt"
		}
		r.Violation(fmt.Sprintf("C17|%s|no-retry-option|%s", part, sym), fmt.Sprintf("%s client without a retry option: %d attempts for script %v (want exactly 1)", e.name, got, script), wit)
	case m == nil:
	case got > M+1:
		ok = false
		r.Violation(fmt.Sprintf("C17|%s|bound|extra-attempt", part), fmt.Sprintf("%s client, %s: %d attempts seen, the bound is %d", e.name, cfgName, got, M+1), wit)
	case got > wantN:
		ok = false
		cl := e2eClass(codeAt(wantN))
		r.Violation(fmt.Sprintf("C17|%s|%s|extra-attempt", part, cl),
			fmt.Sprintf("%s client, %s: attempt %d was answered with a %s outcome (%s), which is not transient, yet the request was sent again (%d attempts)", e.name, cfgName, wantN, cl, codeAt(wantN), got), wit)
	case got < wantN:
		ok = false
		cl := e2eClass(codeAt(got))
		if got == 0 {
			cl = "none"
		}
		r.Violation(fmt.Sprintf("C17|%s|%s|not-retried", part, cl),
			fmt.Sprintf("%s client, %s: attempt %d failed with a transient %s outcome and retries were left, yet only %d attempt(s) were made", e.name, cfgName, got, cl, got), wit)
	}
	if ok && (res.Err == nil) != wantOK {
		ok = false
		r.Violation(fmt.Sprintf("C17|%s|result|%s|wrong-result", part, e2eClass(codeAt(wantN))),
			fmt.Sprintf("%s client, %s: last attempt was answered %s but the call returned %s", e.name, cfgName, codeAt(wantN), errText(res.Err)), wit)
	}
	if m != nil && res.Waits != nil && got >= 1 && got <= M+1 {
		if !judgeWaits(r, part, m, got, res.Waits, wit) {
			ok = false
		}
		st.waits += int64(len(res.Waits))
	}
	if got > 1 {
		st.retried++
	}
	if ok {
		shape := "T0"
		if m != nil {
			shape = shapeOf(M, e2eKinds(script))
		}
		r.Distinct(fmt.Sprintf("%s|%s|%s>%s", part, cfgName, shape, e2eClass(codeAt(wantN))))
	}
	return ok
}

// enumE2E: every pruned script over the end-to-end alphabet with length 0..maxLen.
func enumE2E(maxLen int, fn func([]string)) {
	alpha := append(append([]string{}, e2eTransient...), e2eTerminal...)
	buf := make([]string, 0, maxLen)
	var rec func()
	rec = func() {
		fn(buf)
		if len(buf) == maxLen || (len(buf) > 0 && e2eKind(buf[len(buf)-1]) != kTransient) {
			return
		}
		for _, c := range alpha {
			buf = append(buf, c)
			rec()
			buf = buf[:len(buf)-1]
		}
	}
	rec()
}

func containsCtxErr(err error) bool {
	return err != nil && (errors.Is(err, context.Canceled) || strings.Contains(err.Error(), context.Canceled.Error()))
}
