package main

// Real error values for the direct part: every network error is produced once by the Go runtime /
// net/http against a loopback fault server and then reused; HTTP status failures use the exact
// texts the two library clients produce.

import (
	"bufio"
	"context"
	"errors"
	"fmt"
	"io"
	"net"
	"net/http"
	"strings"
	"syscall"
	"time"

	mcp "trpc.group/trpc-go/trpc-mcp-go"

	"verifharness/lib/vh"
)

// outcome is one scripted result of an attempt.
type outcome struct {
	Name  string // unique, stable
	Class string // class used in violation signatures
	Kind  byte   // model kind: kSuccess / kTerminal / kTransient ; 'O' = open (statement leaves it undecided)
	Err   error
}

func (o outcome) text() string {
	if o.Err == nil {
		return "<nil>"
	}
	return o.Err.Error()
}

// boundNotListening returns the address of a TCP socket that is bound but never listens:
// connecting to it is refused, and nobody else can take the port while the process lives.
func boundNotListening() (string, error) {
	fd, err := syscall.Socket(syscall.AF_INET, syscall.SOCK_STREAM, 0)
	if err != nil {
		return "", err
	}
	sa := &syscall.SockaddrInet4{Port: 0, Addr: [4]byte{127, 0, 0, 1}}
	if err := syscall.Bind(fd, sa); err != nil {
		return "", err
	}
	got, err := syscall.Getsockname(fd)
	if err != nil {
		return "", err
	}
	in4, ok := got.(*syscall.SockaddrInet4)
	if !ok {
		return "", fmt.Errorf("unexpected sockaddr %T", got)
	}
	return fmt.Sprintf("127.0.0.1:%d", in4.Port), nil // fd stays open on purpose
}

// faultServer is a raw TCP server: it reads one HTTP request and then misbehaves as the path says.
type faultServer struct {
	ln net.Listener
}

func newFaultServer() (*faultServer, error) {
	ln, err := net.Listen("tcp", "127.0.0.1:0")
	if err != nil {
		return nil, err
	}
	fs := &faultServer{ln: ln}
	go func() {
		for {
			c, err := ln.Accept()
			if err != nil {
				return
			}
			go fs.serve(c)
		}
	}()
	return fs, nil
}

func (fs *faultServer) url(path string) string { return "http://" + fs.ln.Addr().String() + path }

func (fs *faultServer) serve(c net.Conn) {
	defer c.Close()
	_ = c.SetDeadline(time.Now().Add(10 * time.Second))
	req, err := http.ReadRequest(bufio.NewReader(c))
	if err != nil {
		return
	}
	_, _ = io.Copy(io.Discard, req.Body)
	switch req.URL.Path {
	case "/eof":
		return
	case "/rst":
		if tc, ok := c.(*net.TCPConn); ok {
			_ = tc.SetLinger(0)
		}
		return
	case "/short":
		_, _ = io.WriteString(c, "HTTP/1.1 200 OK\r\nContent-Type: application/json\r\nContent-Length: 100\r\n\r\n{\"jsonrpc\"")
		return
	case "/hang":
		buf := make([]byte, 1)
		_, _ = c.Read(buf) // until the peer gives up (or the 10 s deadline)
		return
	}
}

func asClient(err error) error { return fmt.Errorf("%w: %v", mcp.ErrHTTPRequestFailed, err) }

const postBody = `{"jsonrpc":"2.0","id":1,"method":"tools/list"}`

func doPost(hc *http.Client, url string) (*http.Response, error) {
	return hc.Post(url, "application/json", strings.NewReader(postBody))
}

// buildAlphabet produces the outcome alphabet from real error values.
func buildAlphabet(r *vh.Run) []outcome {
	fs, err := newFaultServer()
	if err != nil {
		r.Fatal("fault server: %v", err)
	}
	defer fs.ln.Close()
	fresh := func() *http.Client {
		return &http.Client{Transport: &http.Transport{DisableKeepAlives: true}}
	}
	var out []outcome
	add := func(name, class string, kind byte, err error) {
		out = append(out, outcome{Name: name, Class: class, Kind: kind, Err: err})
	}

	add("success", "success", kSuccess, nil)
	// what the client renders for a JSON-RPC error answer (client.go ListTools)
	add("jsonrpc-error", "jsonrpc-error", kTerminal, fmt.Errorf("list tools error: %s (code: %d)", "Method not found", -32601))
	add("jsonrpc-error/internal", "jsonrpc-error", kTerminal, fmt.Errorf("list tools error: %s (code: %d)", "scripted failure", -32603))

	// connection refused
	closed, err := boundNotListening()
	if err != nil {
		r.Fatal("bound-not-listening socket: %v", err)
	}
	_, eref := doPost(fresh(), "http://"+closed+"/mcp")
	if eref == nil || !errors.Is(eref, syscall.ECONNREFUSED) {
		r.Fatal("expected a real ECONNREFUSED, got %v", eref)
	}
	add("refused/http", "refused", kTransient, asClient(eref))
	_, edial := net.Dial("tcp", closed)
	if edial == nil || !errors.Is(edial, syscall.ECONNREFUSED) {
		r.Fatal("expected a real ECONNREFUSED from net.Dial, got %v", edial)
	}
	add("refused/raw-dial", "refused", kTransient, edial)

	// connection reset
	var erst error
	for i := 0; i < 20 && (erst == nil || !errors.Is(erst, syscall.ECONNRESET)); i++ {
		_, erst = doPost(fresh(), fs.url("/rst"))
	}
	if erst == nil || !errors.Is(erst, syscall.ECONNRESET) {
		r.Fatal("expected a real ECONNRESET, got %v", erst)
	}
	add("reset/http", "reset", kTransient, asClient(erst))

	// EOF: connection closed without an answer
	_, eeof := doPost(fresh(), fs.url("/eof"))
	if eeof == nil || !errors.Is(eeof, io.EOF) {
		r.Fatal("expected a real EOF from net/http, got %v", eeof)
	}
	add("eof/http", "eof", kTransient, asClient(eeof))
	add("eof/bare", "eof", kTransient, io.EOF)

	// timeouts that the Go runtime reports as "i/o timeout"
	dialTO := &http.Client{Transport: &http.Transport{DisableKeepAlives: true, DialContext: func(ctx context.Context, nw, addr string) (net.Conn, error) {
		d := net.Dialer{Deadline: time.Now().Add(-time.Second)}
		return d.DialContext(ctx, nw, addr)
	}}}
	_, edto := doPost(dialTO, fs.url("/hang"))
	var ne net.Error
	if edto == nil || !errors.As(edto, &ne) || !ne.Timeout() || !strings.Contains(edto.Error(), "i/o timeout") {
		r.Fatal("expected a real dial i/o timeout, got %v", edto)
	}
	add("timeout/dial", "timeout", kTransient, asClient(edto))
	conn, err := net.Dial("tcp", fs.ln.Addr().String())
	if err != nil {
		r.Fatal("dial fault server: %v", err)
	}
	_ = conn.SetReadDeadline(time.Now().Add(-time.Second))
	_, erto := conn.Read(make([]byte, 1))
	conn.Close()
	if erto == nil || !errors.As(erto, &ne) || !ne.Timeout() || !strings.Contains(erto.Error(), "i/o timeout") {
		r.Fatal("expected a real read i/o timeout, got %v", erto)
	}
	add("timeout/read", "timeout", kTransient, asClient(fmt.Errorf("Post %q: %w", fs.url("/mcp"), erto)))

	// open classes: the statement's "timeout" / "EOF" do not clearly cover them; observed, not judged
	hdrTO := &http.Client{Transport: &http.Transport{DisableKeepAlives: true, ResponseHeaderTimeout: 5 * time.Millisecond}}
	_, ehto := doPost(hdrTO, fs.url("/hang"))
	if ehto == nil {
		r.Fatal("expected a response-header timeout")
	}
	add("open/timeout-awaiting-headers", "timeout-awaiting-headers", 'O', asClient(ehto))
	cliTO := &http.Client{Timeout: 5 * time.Millisecond, Transport: &http.Transport{DisableKeepAlives: true}}
	_, ecto := doPost(cliTO, fs.url("/hang"))
	if ecto == nil {
		r.Fatal("expected a client timeout")
	}
	add("open/client-timeout", "client-timeout", 'O', asClient(ecto))
	resp, err := doPost(fresh(), fs.url("/short"))
	if err != nil {
		r.Fatal("short body: %v", err)
	}
	_, eshort := io.ReadAll(resp.Body)
	resp.Body.Close()
	if !errors.Is(eshort, io.ErrUnexpectedEOF) {
		r.Fatal("expected a real unexpected EOF, got %v", eshort)
	}
	add("open/unexpected-eof", "unexpected-eof", 'O', fmt.Errorf("failed to read response body: %w", eshort)) // streamable_client.go send

	// HTTP status failures, as rendered by the Streamable client and by the legacy SSE client
	streamable := func(code int) error { return fmt.Errorf("%w: status code %d", mcp.ErrHTTPRequestFailed, code) }
	legacy := func(code int, body string) error {
		return fmt.Errorf("%w: status code %d, body: %s", mcp.ErrHTTPRequestFailed, code, body)
	}
	for _, code := range []int{408, 409, 429} {
		cl := fmt.Sprintf("http-%d", code)
		add(fmt.Sprintf("%d/streamable", code), cl, kTransient, streamable(code))
		add(fmt.Sprintf("%d/legacy", code), cl, kTransient, legacy(code, http.StatusText(code)))
	}
	for _, code := range []int{500, 502, 503, 504} {
		add(fmt.Sprintf("%d/streamable", code), "http-5xx", kTransient, streamable(code))
		add(fmt.Sprintf("%d/legacy", code), "http-5xx", kTransient, legacy(code, http.StatusText(code)))
	}
	for _, code := range []int{520, 599} { // 5xx codes without an IANA registration are still 5xx
		add(fmt.Sprintf("%d/streamable", code), "http-5xx-unassigned", kTransient, streamable(code))
		add(fmt.Sprintf("%d/legacy", code), "http-5xx-unassigned", kTransient, legacy(code, "scripted"))
	}
	for _, code := range []int{400, 401, 403, 404, 405, 410, 422} {
		add(fmt.Sprintf("%d/streamable", code), "4xx", kTerminal, streamable(code))
		add(fmt.Sprintf("%d/legacy", code), "4xx", kTerminal, legacy(code, http.StatusText(code)))
	}
	// 4xx whose body mentions a retryable code (legacy client: the body is part of the error text)
	add("400/legacy/body-503", "4xx-body-mentions-retryable", kTerminal, legacy(400, "upstream said 503 Service Unavailable"))
	add("401/legacy/body-code-500", "4xx-body-mentions-retryable", kTerminal, legacy(401, "error code 500"))
	add("404/legacy/body-status-429", "4xx-body-mentions-retryable", kTerminal, legacy(404, "rate limiter answered status 429"))
	add("400/legacy/body-refused", "4xx-body-mentions-retryable", kTerminal, legacy(400, "upstream dial tcp 10.0.0.1:80: connect: connection refused"))
	add("400/legacy/body-eof", "4xx-body-mentions-retryable", kTerminal, legacy(400, "backend closed the stream: EOF"))
	return out
}

func pick(all []outcome, names ...string) []outcome {
	var out []outcome
	for _, n := range names {
		found := false
		for _, o := range all {
			if o.Name == n {
				out = append(out, o)
				found = true
			}
		}
		if !found {
			panic("no outcome named " + n)
		}
	}
	return out
}
