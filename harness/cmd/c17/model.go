package main

// Reference model of the retry loop (DESIGN.md Appendix A, "retry model (C17)"). Nothing in this file
// calls the library: the documented ranges and the loop are restated from the property text.

import (
	"fmt"
	"math"
	"math/big"
	"time"

	mcp "trpc.group/trpc-go/trpc-mcp-go"
)

type cfg = mcp.VerifRetryConfig

// Documented ranges (property text: 0-10 retries, 1ms-30s initial, factor 1-10, max between initial and 5 minutes).
const (
	docMinRetries = 0
	docMaxRetries = 10
	docMinInitial = time.Millisecond
	docMaxInitial = 30 * time.Second
	docMinFactor  = 1.0
	docMaxFactor  = 10.0
	docMaxCap     = 5 * time.Minute
)

// modelValidate clamps every field to the nearest value of its documented range;
// MaxBackoff := clamp(MaxBackoff, Initial', 5 min).
func modelValidate(c cfg) cfg {
	v := c
	if v.MaxRetries < docMinRetries {
		v.MaxRetries = docMinRetries
	}
	if v.MaxRetries > docMaxRetries {
		v.MaxRetries = docMaxRetries
	}
	if v.InitialBackoff < docMinInitial {
		v.InitialBackoff = docMinInitial
	}
	if v.InitialBackoff > docMaxInitial {
		v.InitialBackoff = docMaxInitial
	}
	if math.IsNaN(v.BackoffFactor) || v.BackoffFactor < docMinFactor {
		v.BackoffFactor = docMinFactor // NaN has no nearest value; any in-range value is accepted (see outOfRange)
	}
	if v.BackoffFactor > docMaxFactor {
		v.BackoffFactor = docMaxFactor
	}
	if v.MaxBackoff < v.InitialBackoff {
		v.MaxBackoff = v.InitialBackoff
	}
	if v.MaxBackoff > docMaxCap {
		v.MaxBackoff = docMaxCap
	}
	return v
}

// outOfRange lists the fields of c that lie outside the documented ranges.
func outOfRange(c cfg) []string {
	var out []string
	if c.MaxRetries < docMinRetries || c.MaxRetries > docMaxRetries {
		out = append(out, "MaxRetries")
	}
	if c.InitialBackoff < docMinInitial || c.InitialBackoff > docMaxInitial {
		out = append(out, "InitialBackoff")
	}
	if !(c.BackoffFactor >= docMinFactor && c.BackoffFactor <= docMaxFactor) { // also true for NaN
		out = append(out, "BackoffFactor")
	}
	if c.MaxBackoff < c.InitialBackoff || c.MaxBackoff > docMaxCap {
		out = append(out, "MaxBackoff")
	}
	return out
}

func sameFloat(a, b float64) bool { return a == b || (math.IsNaN(a) && math.IsNaN(b)) }

func sameCfg(a, b cfg) bool {
	return a.MaxRetries == b.MaxRetries && a.InitialBackoff == b.InitialBackoff &&
		sameFloat(a.BackoffFactor, b.BackoffFactor) && a.MaxBackoff == b.MaxBackoff
}

// modelWait returns the accepted values of the k-th wait (k >= 1) of a validated configuration:
// x = Initial * Factor^(k-1) computed exactly (rationals, no overflow); the wait is x capped at Max.
// A non-integral number of nanoseconds may be rounded either way (lo = floor, hi = ceil).
// beyondInt64 reports that the uncapped product does not fit a time.Duration.
func modelWait(c cfg, k int) (lo, hi time.Duration, beyondInt64 bool) {
	x := new(big.Rat).SetInt64(int64(c.InitialBackoff))
	f := new(big.Rat)
	if f.SetFloat64(c.BackoffFactor) == nil {
		panic(fmt.Sprintf("modelWait: factor %v not finite", c.BackoffFactor))
	}
	for i := 1; i < k; i++ {
		x.Mul(x, f)
	}
	floor := new(big.Int).Quo(x.Num(), x.Denom()) // x > 0
	ceil := new(big.Int).Set(floor)
	if !x.IsInt() {
		ceil.Add(ceil, big.NewInt(1))
	}
	max := big.NewInt(int64(c.MaxBackoff))
	beyondInt64 = floor.Cmp(big.NewInt(math.MaxInt64)) > 0
	capd := func(v *big.Int) time.Duration {
		if v.Cmp(max) >= 0 {
			return c.MaxBackoff
		}
		return time.Duration(v.Int64())
	}
	return capd(floor), capd(ceil), beyondInt64
}

// Outcome kinds of one attempt.
const (
	kSuccess   = 'S' // the attempt succeeded
	kTerminal  = 'N' // failed, not transient: JSON-RPC error answer, any 4xx other than 408/409/429
	kTransient = 'T' // failed, transient per the property text
)

// modelAttempts: scripts are implicitly continued with successes. The request is attempted until an
// attempt is not a transient failure or MaxRetries+1 attempts were made. Returns the number of
// attempts and whether the last one succeeded.
func modelAttempts(maxRetries int, kinds []byte) (attempts int, success bool) {
	at := func(i int) byte { // 1-based
		if i-1 < len(kinds) {
			return kinds[i-1]
		}
		return kSuccess
	}
	n := 1
	for n < maxRetries+1 && at(n) == kTransient {
		n++
	}
	return n, at(n) == kSuccess
}
