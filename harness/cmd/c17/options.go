package main

// Part (d) PUBLIC OPTIONS, end to end: every public way of configuring retries — WithSimpleRetry(n),
// WithRetry(raw configuration), no option, options given several times and at every position of the
// option list — for both HTTP clients and every request kind that goes through the retry loop. A
// scripted server answers k consecutive transient failures and then succeeds (or never does); attempts
// are counted at the wire, the computed waits are read at the back-off observer, and real gaps between
// arrivals are only ever used as lower bounds.
//
// Oracle (property text): attempts <= clamp(MaxRetries, 0..10)+1, exactly that many when the failure
// persists, never another attempt after a success / 4xx; wait k = Initial x Factor^(k-1) capped at Max
// of the clamped configuration; without a retry option exactly one attempt. Where several retry options
// are given the text does not say which one governs: the call must behave as ONE of them says.

import (
	"context"
	"fmt"
	"math"
	"strings"
	"time"

	mcp "trpc.group/trpc-go/trpc-mcp-go"

	"verifharness/lib/kit"
	"verifharness/lib/vh"
)

// Documented defaults of WithSimpleRetry ("500ms initial, 2.0 factor, 8s max").
var simpleDefaults = cfg{InitialBackoff: 500 * time.Millisecond, BackoffFactor: 2, MaxBackoff: 8 * time.Second}

// retryOpt is one retry option as the caller writes it.
type retryOpt struct {
	simple bool
	n      int             // WithSimpleRetry(n)
	raw    mcp.RetryConfig // WithRetry(raw)
}

func (o retryOpt) option() mcp.ClientOption {
	if o.simple {
		return mcp.WithSimpleRetry(o.n)
	}
	return mcp.WithRetry(o.raw)
}

func (o retryOpt) String() string {
	if o.simple {
		return fmt.Sprintf("WithSimpleRetry(%d)", o.n)
	}
	return fmt.Sprintf("WithRetry({%d,%s,%g,%s})", o.raw.MaxRetries, o.raw.InitialBackoff, o.raw.BackoffFactor, o.raw.MaxBackoff)
}

// rawCfg is the configuration the option stands for before clamping.
func (o retryOpt) rawCfg() cfg {
	if o.simple {
		c := simpleDefaults
		c.MaxRetries = o.n
		return c
	}
	return cfg{MaxRetries: o.raw.MaxRetries, InitialBackoff: o.raw.InitialBackoff, BackoffFactor: o.raw.BackoffFactor, MaxBackoff: o.raw.MaxBackoff}
}

func rangeClass(v, lo, hi float64) string {
	switch {
	case math.IsNaN(v):
		return "NaN"
	case v < lo:
		return "below"
	case v > hi:
		return "above"
	case v == lo:
		return "min"
	case v == hi:
		return "max"
	}
	return "mid"
}

// class names the input class of the option (used in signatures: never the value itself).
func (o retryOpt) class() string {
	if o.simple {
		return "WithSimpleRetry(" + rangeClass(float64(o.n), docMinRetries, docMaxRetries) + ")"
	}
	c := o.rawCfg()
	if c == (cfg{}) {
		return "WithRetry(zero)"
	}
	return "WithRetry(" + rawClassOf(c) + ")"
}

// candidate is one configuration the call may legitimately follow.
type candidate struct {
	from   string // which option it comes from
	m      *cfgModel
	waits  bool // the waits of this candidate are fully determined by the text
	anyFac bool // raw factor was NaN: any in-range factor is acceptable
}

// effective returns the clamped configuration the option must behave as.
func (o retryOpt) effective(idx int) candidate {
	raw := o.rawCfg()
	v := modelValidate(raw)
	c := candidate{from: fmt.Sprintf("#%d %s", idx+1, o), waits: true}
	if math.IsNaN(raw.BackoffFactor) {
		// "clamped into 1-10": NaN has no nearest value. With Initial == Max the factor does not matter;
		// otherwise only Initial <= wait <= Max and monotonic growth are judged.
		c.anyFac = v.InitialBackoff != v.MaxBackoff
	}
	c.m = newCfgModel(v)
	return c
}

// optSpec is one way of configuring a client.
type optSpec struct {
	name  string
	class string
	opts  []retryOpt // empty: no retry option at all
	place string     // where the retry options stand among the client's other options: first | middle | last | split
	part  string     // scenario name in signatures / counters ("" = "options")
	cands []candidate
}

func mkSpec(place string, opts ...retryOpt) optSpec {
	s := optSpec{opts: opts, place: place}
	var names, classes []string
	for i, o := range opts {
		names = append(names, o.String())
		classes = append(classes, o.class())
		s.cands = append(s.cands, o.effective(i))
	}
	switch len(opts) {
	case 0:
		s.name, s.class = "no-retry-option", "no-retry-option"
	case 1:
		s.name, s.class = names[0], classes[0]
	default:
		s.name = strings.Join(names, "+")
		s.class = "twice:" + strings.Join(classes, "+")
	}
	return s
}

func simple(n int) retryOpt { return retryOpt{simple: true, n: n} }
func with(m int, i time.Duration, f float64, b time.Duration) retryOpt {
	return retryOpt{raw: mcp.RetryConfig{MaxRetries: m, InitialBackoff: i, BackoffFactor: f, MaxBackoff: b}}
}

const (
	maxDur = time.Duration(math.MaxInt64)
	minDur = time.Duration(math.MinInt64)
)

// optionSpecs is the grid of public configurations.
func optionSpecs(r *vh.Run) []optSpec {
	var out []optSpec
	places := []string{"last", "first", "middle"}
	nth := 0
	add := func(allPlaces bool, opts ...retryOpt) {
		if allPlaces || !r.Quick() {
			for _, p := range places {
				out = append(out, mkSpec(p, opts...))
			}
			return
		}
		out = append(out, mkSpec(places[nth%len(places)], opts...)) // rotate, so every position occurs in the quick tier too
		nth++
	}
	// no option at all
	out = append(out, mkSpec("last"))
	// WithSimpleRetry(n): below, min, inside, max, above the documented range
	for _, n := range []int{math.MinInt, -1000, -1, 0, 1, 2, 3, 10, 11, 1000, math.MaxInt} {
		add(n == 0 || n == -1 || n == 2 || n == 11, simple(n))
	}
	// WithRetry: zero, negative, huge, non-finite and ordinary fields
	ms, s := time.Millisecond, time.Second
	for _, o := range []retryOpt{
		with(0, 0, 0, 0),     // the zero value
		with(-5, -s, -2, -s), // everything negative
		with(math.MinInt, minDur, math.Inf(-1), minDur),    // everything at its most negative
		with(-1, 10*ms, 2, 40*ms),                          // only the count below range
		with(0, 10*ms, 2, 40*ms),                           // explicit "no retries"
		with(1, ms, 2, 5*ms),                               //
		with(3, 2*ms, 3, s),                                //
		with(10, ms, 1.5, s),                               // top of the count range, non-integral products
		with(11, ms, 2, 5*ms),                              // count just above
		with(1000, 3*ms, 1, 3*ms),                          //
		with(math.MaxInt, ms, 2, 5*ms),                     // count huge
		with(math.MaxInt, maxDur, math.MaxFloat64, maxDur), // everything huge
		with(4, 31*s, 11, 6*time.Minute),                   // every back-off field just above
		with(3, 2*ms, math.Inf(1), time.Hour),              // +Inf factor
		with(3, 5*ms, math.NaN(), 5*ms),                    // NaN factor, irrelevant because Initial == Max
		with(3, 2*ms, math.NaN(), s),                       // NaN factor
		with(2, 3*ms, math.Inf(-1), 100*ms),                // -Inf factor
		with(2, 0, 0, 0),                                   // positive count, zero back-off fields
		with(4, -1, 3, maxDur),                             // negative initial, huge cap
		with(2, 10*ms, 2, ms),                              // cap below initial
		with(5, 30*s, 10, 5*time.Minute),                   // top of every range
	} {
		c := o.rawCfg()
		add(c == (cfg{}) || c.MaxRetries == -1 || c.MaxRetries == 3 && c.BackoffFactor == 3, o)
	}
	// several retry options, in both orders
	a, b := with(3, 2*ms, 3, s), with(1, 7*ms, 1, 7*ms)
	for _, pair := range [][]retryOpt{
		{simple(0), a}, {a, simple(0)},
		{a, b}, {b, a},
		{simple(5), simple(-1)}, {simple(-1), simple(5)},
		{with(0, 0, 0, 0), simple(1)}, {simple(1), with(0, 0, 0, 0)},
		{simple(2), simple(2)},
		{simple(3), with(0, 0, 0, 0), simple(1)},
		{with(math.MaxInt, ms, 2, 5*ms), simple(math.MinInt)},
	} {
		out = append(out, mkSpec("last", pair...))
		if !r.Quick() || len(pair) == 3 || pair[0].simple != pair[1].simple {
			out = append(out, mkSpec("split", pair...)) // other options in between
		}
	}
	return out
}

// reqKind is one request kind of the public client API that goes through transport.sendRequest.
type reqKind struct {
	name   string // JSON-RPC method
	call   func(ctx context.Context, c *mcp.Client) error
	isInit bool
}

var reqKinds = []reqKind{
	{name: "initialize", isInit: true, call: func(ctx context.Context, c *mcp.Client) error {
		_, err := c.Initialize(ctx, &mcp.InitializeRequest{})
		return err
	}},
	{name: "tools/list", call: func(ctx context.Context, c *mcp.Client) error {
		_, err := c.ListTools(ctx, &mcp.ListToolsRequest{})
		return err
	}},
	{name: "tools/call", call: func(ctx context.Context, c *mcp.Client) error {
		req := &mcp.CallToolRequest{}
		req.Params.Name = "echo"
		req.Params.Arguments = map[string]interface{}{"x": 1}
		_, err := c.CallTool(ctx, req)
		return err
	}},
	{name: "prompts/list", call: func(ctx context.Context, c *mcp.Client) error {
		_, err := c.ListPrompts(ctx, &mcp.ListPromptsRequest{})
		return err
	}},
	{name: "prompts/get", call: func(ctx context.Context, c *mcp.Client) error {
		req := &mcp.GetPromptRequest{}
		req.Params.Name = "p"
		_, err := c.GetPrompt(ctx, req)
		return err
	}},
	{name: "resources/list", call: func(ctx context.Context, c *mcp.Client) error {
		_, err := c.ListResources(ctx, &mcp.ListResourcesRequest{})
		return err
	}},
	{name: "resources/read", call: func(ctx context.Context, c *mcp.Client) error {
		req := &mcp.ReadResourceRequest{}
		req.Params.URI = "res://x"
		_, err := c.ReadResource(ctx, req)
		return err
	}},
}

// newOptClient builds a client the way a user would: the retry options stand at the given place among
// the other options. The scripted method is set before anything is sent.
func newOptClient(r *vh.Run, legacy bool, refusedAddr string, spec optSpec, method string, initialize bool) *e2eClient {
	var ro []mcp.ClientOption
	for _, o := range spec.opts {
		ro = append(ro, o.option())
	}
	e := newOptClientFrom(r, legacy, refusedAddr, spec.name, spec.place, ro, method)
	if initialize {
		initOptClient(r, e, spec.name)
	}
	return e
}

// newOptClientFrom constructs (does not initialize) a client from retry option VALUES that already exist.
func newOptClientFrom(r *vh.Run, legacy bool, refusedAddr string, specName, place string, ro []mcp.ClientOption, method string) *e2eClient {
	s := newScriptSrv(legacy, refusedAddr)
	s.setMethod(method)
	others := []mcp.ClientOption{mcp.WithClientLogger(kit.Quiet{}), mcp.WithClientGetSSEEnabled(false), mcp.WithHTTPReqHandler(&clientSide{s})}
	var all []mcp.ClientOption
	switch place {
	case "first":
		all = append(append(all, ro...), others...)
	case "middle":
		all = append(append(append(all, others[:2]...), ro...), others[2:]...)
	case "split": // one other option between consecutive retry options
		for i, o := range ro {
			all = append(all, o)
			if i < len(others) {
				all = append(all, others[i])
			}
		}
		if len(ro) < len(others) {
			all = append(all, others[len(ro):]...)
		}
	default:
		all = append(append(all, others...), ro...)
	}
	info := mcp.Implementation{Name: "c17", Version: "1"}
	var c *mcp.Client
	var err error
	name := "streamable"
	if legacy {
		name = "legacy-sse"
		c, err = mcp.NewSSEClient(s.url(), info, all...)
	} else {
		c, err = mcp.NewClient(s.url(), info, all...)
	}
	if err != nil {
		r.Fatal("new %s client (%s): %v", name, specName, err)
	}
	return &e2eClient{name: name, srv: s, c: c}
}

// initOptClient initializes a client whose scripted method is not "initialize".
func initOptClient(r *vh.Run, e *e2eClient, specName string) {
	ctx, cancel := context.WithTimeout(context.Background(), 20*time.Second)
	defer cancel()
	if _, err := e.c.Initialize(ctx, &mcp.InitializeRequest{}); err != nil {
		r.Fatal("%s client (%s): initialize against the scripted server failed: %v", e.name, specName, err)
	}
}

// waitsFollow reports whether the recorded waits are the ones candidate c prescribes for a sequence of
// the given number of attempts.
func waitsFollow(c candidate, attempts int, waits []waitRec) (bool, string) {
	if len(waits) != attempts-1 {
		return false, fmt.Sprintf("%d attempts but %d waits", attempts, len(waits))
	}
	vc := c.m.vc
	for i, w := range waits {
		k := i + 1
		if k > 12 {
			break
		}
		if c.anyFac {
			// Initial x F^(k-1) capped at Max for SOME factor F in [1,10]
			up := float64(vc.InitialBackoff) * math.Pow(docMaxFactor, float64(k-1))
			if w.D < vc.InitialBackoff || w.D > vc.MaxBackoff || (k == 1 && w.D != vc.InitialBackoff) || float64(w.D) > up+1 || (i > 0 && w.D < waits[i-1].D) {
				return false, fmt.Sprintf("wait %d is %s: not Initial x F^%d capped at Max for any factor F in 1..10", k, w.D, k-1)
			}
			continue
		}
		if w.D < c.m.lo[k] || w.D > c.m.hi[k] {
			return false, fmt.Sprintf("wait %d is %s (%d ns), want %s", k, w.D, int64(w.D), c.m.wantWaits(k)[k-1])
		}
	}
	return true, ""
}

type optStats struct {
	calls, retried, waits, realGaps int64
}

// judgeOpt judges one call. realWaits: the sequence really slept; the gaps between arrivals are then
// bounded from below by the model's waits.
func judgeOpt(r *vh.Run, client string, spec optSpec, kind reqKind, script []string, res e2eResult, realWaits bool, st *optStats) bool {
	r.Eval(1)
	st.calls++
	part := "options"
	if spec.part != "" {
		part = spec.part
	}
	r.Count(strings.SplitN(part, "/", 2)[0]+"_calls_"+client, 1)
	got := len(res.Seen)
	kinds := e2eKinds(script)
	sigBase := fmt.Sprintf("C17|%s|%s|%s", part, client, spec.class)
	wit := map[string]interface{}{"client": client, "options": spec.name, "options_position": spec.place, "request": kind.name, "script": append([]string{}, script...),
		"attempts_seen": res.Seen, "observed_waits": waitStrings(res.Waits), "returned": errText(res.Err), "real_waits": realWaits}
	if res.TimedOut {
		r.Inconclusive(fmt.Sprintf("%s %s %s %s script %v: the call did not return within the 20 s watchdog (attempts seen %d)", part, client, spec.name, kind.name, script, got))
		return false
	}
	codeAt := func(i int) string {
		if i >= 1 && i-1 < len(script) {
			return script[i-1]
		}
		return "S"
	}
	if got > 1 {
		st.retried++
		r.Count(strings.SplitN(part, "/", 2)[0]+"_retried_"+kind.name, 1)
	}

	// no retry option: exactly one attempt
	if len(spec.cands) == 0 {
		wantOK := len(script) == 0 || e2eKind(script[0]) == kSuccess
		switch {
		case got != 1:
			sym := "extra-attempt"
			if got < 1 {
				sym = "no-attempt"
			}
			r.Violation(sigBase+"|"+sym, fmt.Sprintf("%s client without a retry option, %s: %d attempts for script %v (want exactly 1)", client, kind.name, got, script), wit)
			return false
		case len(res.Waits) != 0:
			r.Violation(sigBase+"|backoff-without-option", fmt.Sprintf("%s client without a retry option, %s: %d back-off waits were computed", client, kind.name, len(res.Waits)), wit)
			return false
		case (res.Err == nil) != wantOK:
			r.Violation(sigBase+"|wrong-result", fmt.Sprintf("%s client without a retry option, %s: the only attempt was answered %s but the call returned %s", client, kind.name, codeAt(1), errText(res.Err)), wit)
			return false
		}
		r.Distinct(fmt.Sprintf("%s|%s|no-retry-option|%s|%s", part, client, kind.name, e2eClass(codeAt(1))))
		return true
	}

	// the firm bound, whichever option governs
	maxM := 0
	var models []string
	for _, c := range spec.cands {
		if c.m.vc.MaxRetries > maxM {
			maxM = c.m.vc.MaxRetries
		}
		models = append(models, c.from+" => "+c.m.class)
	}
	wit["clamped_configuration_model"] = models
	if got > maxM+1 {
		r.Violation(sigBase+"|bound|extra-attempt",
			fmt.Sprintf("%s client, %s, %s: %d attempts seen at the wire, the bound is clamp(MaxRetries)+1 = %d", client, spec.name, kind.name, got, maxM+1), wit)
		return false
	}

	// which of the given options does the call follow?
	type miss struct{ sym, what string }
	var misses []miss
	won := -1
	var wonAll []int
	for i, c := range spec.cands {
		M := c.m.vc.MaxRetries
		wantN, wantOK := modelAttempts(M, kinds)
		switch {
		case got > wantN:
			cl := e2eClass(codeAt(wantN))
			misses = append(misses, miss{cl + "|extra-attempt", fmt.Sprintf("attempt %d was answered %s (%s) and clamp(MaxRetries) = %d, yet the request was sent again (%d attempts)", wantN, codeAt(wantN), cl, M, got)})
			continue
		case got < wantN:
			cl := "none"
			if got > 0 {
				cl = e2eClass(codeAt(got))
			}
			misses = append(misses, miss{cl + "|not-retried", fmt.Sprintf("attempt %d failed with a transient %s outcome and clamp(MaxRetries) = %d leaves retries, yet only %d attempt(s) were made", got, cl, M, got)})
			continue
		case (res.Err == nil) != wantOK:
			misses = append(misses, miss{e2eClass(codeAt(wantN)) + "|wrong-result", fmt.Sprintf("last attempt was answered %s but the call returned %s", codeAt(wantN), errText(res.Err))})
			continue
		}
		if ok, why := waitsFollow(c, got, res.Waits); !ok {
			sym := "backoff|mismatch"
			if len(res.Waits) != got-1 {
				sym = "backoff|count"
			}
			misses = append(misses, miss{sym, fmt.Sprintf("configuration %s: %s", c.m.class, why)})
			continue
		}
		if realWaits {
			short := ""
			for k := 1; k < got && k <= 12; k++ {
				gap := res.Seen[k].At.Sub(res.Seen[k-1].At)
				need := c.m.lo[k]
				if c.anyFac {
					need = c.m.vc.InitialBackoff
				}
				if gap < need {
					short = fmt.Sprintf("attempts %d and %d arrived %s apart, wait %d of configuration %s is %s", k, k+1, gap, k, c.m.class, need)
					wit["gap_ns"] = int64(gap)
					break
				}
			}
			if short != "" {
				misses = append(misses, miss{"real-wait|too-short", short})
				continue
			}
		}
		if won < 0 {
			won = i
		}
		wonAll = append(wonAll, i)
	}
	if won < 0 {
		if len(spec.cands) == 1 {
			r.Violation(sigBase+"|"+misses[0].sym, fmt.Sprintf("%s client, %s, %s: %s", client, spec.name, kind.name, misses[0].what), wit)
		} else {
			var all []string
			for i, m := range misses {
				all = append(all, fmt.Sprintf("as %s: %s", spec.cands[i].from, m.what))
			}
			wit["mismatch_per_option"] = all
			r.Violation(sigBase+"|matches-no-given-option", fmt.Sprintf("%s client, %s, %s: the call follows none of the retry options given (%s)", client, spec.name, kind.name, strings.Join(all, "; ")), wit)
		}
		return false
	}
	st.waits += int64(len(res.Waits))
	if realWaits {
		st.realGaps += int64(got - 1)
	}
	if len(spec.cands) > 1 && len(wonAll) == 1 { // the script tells the options apart
		pos := "a-middle-one"
		switch won {
		case 0:
			pos = "the-first"
		case len(spec.cands) - 1:
			pos = "the-last"
		}
		r.SetAdd("options_given_several_times_governing", pos)
	}
	shape := shapeOf(spec.cands[won].m.vc.MaxRetries, kinds)
	r.Distinct(fmt.Sprintf("%s|%s|%s@%s|%s|%s>%s", part, client, spec.name, spec.place, kind.name, shape, e2eClass(codeAt(got))))
	return true
}

func repeatCode(n int, code string) []string {
	s := make([]string, n)
	for i := range s {
		s[i] = code
	}
	return s
}

// optionScripts: k consecutive transient failures of one kind, then success / a 4xx / nothing but failures.
func optionScripts(r *vh.Run, spec optSpec, codes []string) [][]string {
	ks := map[int]bool{1: true}
	top := 0
	for _, c := range spec.cands {
		M := c.m.vc.MaxRetries
		ks[M], ks[M+1] = true, true
		if M > top {
			top = M
		}
	}
	if !r.Quick() {
		for k := 1; k <= top+1; k++ {
			ks[k] = true
		}
	}
	out := [][]string{{"S"}}
	for _, code := range codes {
		out = append(out, repeatCode(13, code)) // the failure persists
		for k := 1; k <= top+1 || k == 1; k++ {
			if ks[k] {
				out = append(out, append(repeatCode(k, code), "S"))
			}
		}
		out = append(out, []string{code, "404"})
	}
	return out
}

func partOptions(r *vh.Run, refused string) {
	specs := optionSpecs(r)
	codes := []string{"503", "RST", "REF"}
	if !r.Quick() {
		codes = e2eTransient
	}
	total := &optStats{}
	sampled := map[string]bool{}
	var cases []map[string]interface{}
	for _, legacy := range []bool{false, true} {
		client := "streamable"
		if legacy {
			client = "legacy-sse"
		}
		st := &optStats{}
		for _, spec := range specs {
			scripts := optionScripts(r, spec, codes)
			var shared *e2eClient // one initialized client serves every kind but initialize
			for _, kind := range reqKinds {
				for _, script := range scripts {
					var e *e2eClient
					if kind.isInit {
						e = newOptClient(r, legacy, refused, spec, kind.name, false)
					} else {
						if shared == nil {
							shared = newOptClient(r, legacy, refused, spec, "none", true)
						}
						shared.srv.setMethod(kind.name)
						e = shared
					}
					res := e.runCall(kind.call, script, 0, false)
					ok := judgeOpt(r, client, spec, kind, script, res, false, st)
					if kind.isInit {
						e.close()
					}
					r.SetAdd("options_request_kinds", kind.name)
					r.SetAdd("options_positions", spec.place)
					if ok && len(script) == 13 && script[0] == "503" && kind.name == "tools/call" && !sampled[client+spec.name] &&
						(spec.name == "WithSimpleRetry(0)" || !legacy && (spec.name == "WithSimpleRetry(1000)" || spec.name == "WithSimpleRetry(0)+WithRetry({3,2ms,3,1s})")) {
						sampled[client+spec.name] = true
						cases = append(cases, map[string]interface{}{"client": client, "options": spec.name, "request": kind.name, "script": "13 x 503",
							"attempts_seen_at_the_wire": len(res.Seen), "observed_waits": waitStrings(res.Waits), "returned": errText(res.Err)})
					}
				}
			}
			if shared != nil {
				shared.close()
			}
			r.SetAdd("options_configurations", spec.class)
		}

		// real waits (the observer leaves them in place): arrival gaps are bounded from below
		ms := time.Millisecond
		for _, rs := range []struct {
			spec   optSpec
			script []string
		}{
			{mkSpec("last", simple(1)), []string{"503", "S"}},
			{mkSpec("last", simple(0)), repeatCode(13, "503")},
			{mkSpec("first", simple(-1)), repeatCode(13, "REF")},
			{mkSpec("last", with(3, 20*ms, 2, 50*ms)), repeatCode(13, "RST")},
			{mkSpec("middle", with(math.MaxInt, 2*ms, math.Inf(1), 40*ms)), repeatCode(13, "503")},
			{mkSpec("last", with(2, 0, 0, 0), with(2, 0, 0, 0)), repeatCode(13, "REF")},
		} {
			e := newOptClient(r, legacy, refused, rs.spec, "tools/call", true)
			res := e.runCall(reqKinds[2].call, rs.script, 0, true)
			if judgeOpt(r, client, rs.spec, reqKinds[2], rs.script, res, true, st) {
				r.Count("options_real_wait_calls", 1)
			}
			e.close()
		}

		total.calls += st.calls
		total.retried += st.retried
		total.waits += st.waits
		total.realGaps += st.realGaps
	}
	if len(cases) > 0 {
		sampleOnce(r, "options", map[string]interface{}{"part": "options", "cases": cases})
	}
	r.Count("options_sequences_with_retry", total.retried)
	r.Count("options_waits_compared", total.waits)
	r.Count("options_real_gaps_bounded_below", total.realGaps)
	r.Count("options_specs", int64(len(specs)))
	for _, k := range reqKinds {
		if r.Counter("options_retried_"+k.name) == 0 {
			r.Fatal("vacuous run: no %s request was ever re-attempted in the options part", k.name)
		}
	}
}
