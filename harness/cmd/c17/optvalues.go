package main

// Part (d') OPTION VALUES with a life of their own. partOptions builds every retry option inline in the
// NewClient call that consumes it; applications prepare their option values up front. Here a table of
// retry option values is created first, in one pass — WithSimpleRetry(n) for many n and WithRetry(cfg)
// for many cfgs interleaved, two options made from ONE cfg variable that is modified in between, a cfg
// variable modified after its option was made — and only then are clients constructed from the values:
// in creation order, in reverse order, shuffled, one value for two clients (both back-ends), values
// prepared alternately for the Streamable and the legacy client, clients constructed concurrently while
// further values are being created, values created between construction and use. Every client is then
// driven against the scripted server (failure persists / k transient failures then success / transient
// then 404 / success).
//
// Oracle (property text, the same judgeOpt as part (d)): each client's attempts, result and waits follow
// the clamped configuration ITS option value was created with — attempts = clamp(MaxRetries)+1 when the
// transient failure persists — whatever other option values were created before, after or meanwhile and
// whatever other clients did with the same or other values. RetryConfig is passed by value; should a
// client nevertheless follow what the caller's cfg VARIABLE held later, that is counted, not judged.

import (
	"fmt"
	"math"
	"sync"
	"time"

	mcp "trpc.group/trpc-go/trpc-mcp-go"

	"verifharness/lib/vh"
)

// optValue is one retry option value together with what it was created from.
type optValue struct {
	idx    int      // position in its table (creation order)
	seq    int      // process-wide creation number within this part
	spec   retryOpt // the arguments at the moment of creation
	opt    mcp.ClientOption
	legacy bool      // the back-end the value was prepared for
	how    string    // plain | one-variable,first | one-variable,second | variable-modified-afterwards
	later  *retryOpt // what the caller's cfg variable held afterwards (variable cases only)
}

func clampedRetries(o retryOpt) int { return modelValidate(o.rawCfg()).MaxRetries }

// valueLog records, in creation order, the clamped MaxRetries of every retry option value created in this part.
type valueLog struct {
	mu sync.Mutex
	m  []int
}

func (l *valueLog) add(o retryOpt) int {
	l.mu.Lock()
	defer l.mu.Unlock()
	l.m = append(l.m, clampedRetries(o))
	return len(l.m) - 1
}

// differentSince reports whether a value with another clamped MaxRetries was created after creation number seq.
func (l *valueLog) differentSince(seq int) bool {
	l.mu.Lock()
	defer l.mu.Unlock()
	for _, m := range l.m[seq+1:] {
		if m != l.m[seq] {
			return true
		}
	}
	return false
}

type valueMaker func(add func(o retryOpt, opt mcp.ClientOption, how string, later *retryOpt))

// valueMakers lists how the values of one table are created. Every maker creates its option value(s) through the
// public API the moment it runs.
func valueMakers() []valueMaker {
	ms, s := time.Millisecond, time.Second
	var out []valueMaker
	sim := func(n int) {
		out = append(out, func(add func(retryOpt, mcp.ClientOption, string, *retryOpt)) {
			add(simple(n), mcp.WithSimpleRetry(n), "plain", nil)
		})
	}
	raw := func(c mcp.RetryConfig) {
		out = append(out, func(add func(retryOpt, mcp.ClientOption, string, *retryOpt)) {
			add(retryOpt{raw: c}, mcp.WithRetry(c), "plain", nil)
		})
	}
	sim(1)
	raw(mcp.RetryConfig{MaxRetries: 3, InitialBackoff: 2 * ms, BackoffFactor: 3, MaxBackoff: s})
	sim(3)
	sim(0)
	raw(mcp.RetryConfig{MaxRetries: 1, InitialBackoff: 7 * ms, BackoffFactor: 1, MaxBackoff: 7 * ms})
	sim(5)
	// two options from ONE cfg variable that is modified in between (and another value created in between)
	out = append(out, func(add func(retryOpt, mcp.ClientOption, string, *retryOpt)) {
		v := mcp.RetryConfig{MaxRetries: 2, InitialBackoff: 2 * ms, BackoffFactor: 2, MaxBackoff: 10 * ms}
		first := v
		o1 := mcp.WithRetry(v)
		v.MaxRetries, v.InitialBackoff, v.BackoffFactor = 4, 3*ms, 1
		second := v
		add(retryOpt{raw: first}, o1, "one-variable,first", &retryOpt{raw: second})
		add(simple(8), mcp.WithSimpleRetry(8), "plain", nil)
		add(retryOpt{raw: second}, mcp.WithRetry(v), "one-variable,second", nil)
	})
	sim(2)
	sim(-1)
	raw(mcp.RetryConfig{MaxRetries: 0, InitialBackoff: 10 * ms, BackoffFactor: 2, MaxBackoff: 40 * ms})
	sim(11)
	// a cfg variable modified after its option was made
	out = append(out, func(add func(retryOpt, mcp.ClientOption, string, *retryOpt)) {
		w := mcp.RetryConfig{MaxRetries: 3, InitialBackoff: ms, BackoffFactor: 2, MaxBackoff: 5 * ms}
		made := w
		o := mcp.WithRetry(w)
		w.MaxRetries, w.InitialBackoff, w.BackoffFactor, w.MaxBackoff = 9, 20*ms, 5, time.Minute
		add(retryOpt{raw: made}, o, "variable-modified-afterwards", &retryOpt{raw: w})
	})
	out = append(out, func(add func(retryOpt, mcp.ClientOption, string, *retryOpt)) {
		w := mcp.RetryConfig{MaxRetries: 6, InitialBackoff: 4 * ms, BackoffFactor: 1.5, MaxBackoff: s}
		made := w
		o := mcp.WithRetry(w)
		w = mcp.RetryConfig{} // now "no retries"
		add(retryOpt{raw: made}, o, "variable-modified-afterwards", &retryOpt{raw: w})
	})
	sim(10)
	raw(mcp.RetryConfig{})
	sim(4)
	raw(mcp.RetryConfig{MaxRetries: math.MaxInt, InitialBackoff: ms, BackoffFactor: 2, MaxBackoff: 5 * ms})
	sim(1) // the same n as the first value, a value of its own
	sim(math.MinInt)
	raw(mcp.RetryConfig{MaxRetries: -5, InitialBackoff: -s, BackoffFactor: -2, MaxBackoff: -s})
	sim(7)
	raw(mcp.RetryConfig{MaxRetries: 10, InitialBackoff: ms, BackoffFactor: 1.5, MaxBackoff: s})
	sim(1000)
	sim(6)
	return out
}

// throwaway creates option values nobody uses (what an application preparing other clients does meanwhile).
func throwaway(r *vh.Run, log *valueLog, i int) mcp.ClientOption {
	ms := time.Millisecond
	var o retryOpt
	var opt mcp.ClientOption
	switch i % 3 {
	case 0:
		o = simple(i%13 - 1)
		opt = mcp.WithSimpleRetry(o.n)
	case 1:
		o = simple(12 - i%13)
		opt = mcp.WithSimpleRetry(o.n)
	default:
		o = with(i%12, time.Duration(1+i%5)*ms, float64(1+i%4), time.Duration(10+i%50)*ms)
		opt = mcp.WithRetry(o.raw)
	}
	log.add(o)
	r.Count("optvalues_option_values_created", 1)
	return opt
}

type builtClient struct {
	v     *optValue
	e     *e2eClient
	place string
	nth   int // construction order within the plan
}

type optValuesPart struct {
	r       *vh.Run
	refused string
	log     *valueLog
	codes   []string
	st      *optStats
	rows    []map[string]interface{} // evidence sample
}

var valuePlaces = []string{"last", "first", "middle"}

// build constructs (does not initialize) a client from the prepared value.
func (p *optValuesPart) build(v *optValue, legacy bool, method string, nth int) *builtClient {
	place := valuePlaces[(v.idx+nth)%len(valuePlaces)]
	if p.log.differentSince(v.seq) {
		p.r.Count("optvalues_clients_built_after_a_different_option_was_created", 1)
	}
	e := newOptClientFrom(p.r, legacy, p.refused, v.spec.String(), place, []mcp.ClientOption{v.opt}, method)
	p.r.Count("optvalues_clients_built", 1)
	return &builtClient{v: v, e: e, place: place, nth: nth}
}

// followsLaterValue: the variable cases. Go passes RetryConfig by value, the statement says nothing about the
// caller's variable; a client that behaves as the variable's LATER content says is counted, not judged.
func (p *optValuesPart) followsLaterValue(b *builtClient, plan string, persistent []string, res e2eResult) bool {
	if b.v.later == nil {
		return false
	}
	M, L := clampedRetries(b.v.spec), clampedRetries(*b.v.later)
	switch got := len(res.Seen); {
	case M != L && got == L+1 && !res.TimedOut:
		p.r.Count("optvalues_cfg_variable_modified_later_followed_the_later_content", 1)
		p.r.Note(fmt.Sprintf("optvalues %s: a client built from %s (%s) made %d attempts under script %v — the count the cfg variable's later content %s stands for (not judged)",
			plan, b.v.spec, b.v.how, got, persistent[:1], *b.v.later))
		return true
	case got == M+1:
		p.r.Count("optvalues_cfg_variable_modified_later_followed_the_content_at_creation", 1)
	}
	return false
}

// drive runs the scripts against one built client and judges every call with part (d)'s oracle.
func (p *optValuesPart) drive(b *builtClient, plan string, tn int, kind reqKind) bool {
	r := p.r
	spec := mkSpec(b.place, b.v.spec)
	spec.part = "optvalues/" + plan
	spec.name += fmt.Sprintf(" [value %d of table #%d, %s]", b.v.idx+1, tn, b.v.how)
	M := spec.cands[0].m.vc.MaxRetries
	code := p.codes[(b.v.idx+2*b.nth)%len(p.codes)]
	persistent := repeatCode(13, code)
	scripts := [][]string{persistent}
	if !kind.isInit {
		if M >= 1 {
			scripts = append(scripts, append(repeatCode(M, code), "S"), []string{code, "404"})
			if M >= 2 {
				scripts = append(scripts, []string{code, "S"})
			}
		}
		scripts = append(scripts, []string{"S"})
	}
	allOK := true
	for si, script := range scripts {
		res := b.e.runCall(kind.call, script, 0, false)
		if si == 0 && p.followsLaterValue(b, plan, persistent, res) {
			return false
		}
		ok := judgeOpt(r, b.e.name, spec, kind, script, res, false, p.st)
		allOK = allOK && ok
		if si == 0 {
			if ok {
				r.Count("optvalues_persistent_failure_sequences_with_exactly_clamp_plus_one_attempts", 1)
				r.SetAdd("optvalues_attempt_counts_under_persistent_failure", fmt.Sprint(len(res.Seen)))
			}
			if plan == "reverse-order" && tn == 0 && len(p.rows) < 12 {
				p.rows = append(p.rows, map[string]interface{}{"value": b.v.spec.String(), "created_nth": b.v.idx + 1, "how": b.v.how, "client_constructed_nth": b.nth + 1, "client": b.e.name,
					"script": "13 x " + code, "attempts_seen_at_the_wire": len(res.Seen), "clamped_MaxRetries_of_the_value": M, "waits_observed_and_compared": len(res.Waits), "first_wait": firstWait(res.Waits), "matches": ok})
			}
		}
	}
	r.SetAdd("optvalues_kinds_of_value", b.v.how+"/"+map[bool]string{true: "WithSimpleRetry", false: "WithRetry"}[b.v.spec.simple])
	r.SetAdd("optvalues_values", b.v.spec.String())
	return allOK
}

func (p *optValuesPart) driveAll(bs []*builtClient, plan string, tn int) {
	for _, b := range bs {
		initOptClient(p.r, b.e, b.v.spec.String())
		b.e.srv.setMethod("tools/call")
	}
	for _, b := range bs {
		p.drive(b, plan, tn, reqKinds[2])
	}
	for _, b := range bs {
		b.e.close()
	}
	p.r.SetAdd("optvalues_plans", plan)
}

func partOptionValues(r *vh.Run, refused string) {
	p := &optValuesPart{r: r, refused: refused, log: &valueLog{}, codes: []string{"503", "RST", "REF", "429"}, st: &optStats{}}
	if !r.Quick() {
		p.codes = e2eTransient
	}
	tables := r.Pick(2, 5)
	for tn := 0; tn < tables; tn++ {
		tag := fmt.Sprintf("#%d", tn)
		// ---- the table: every value is created here, before any client exists
		makers := valueMakers()
		if tn > 0 { // further tables: seeded creation order
			rng := r.Rand("optvalues-create-" + tag)
			rng.Shuffle(len(makers), func(i, j int) { makers[i], makers[j] = makers[j], makers[i] })
		}
		var table []*optValue
		for _, mk := range makers {
			mk(func(o retryOpt, opt mcp.ClientOption, how string, later *retryOpt) {
				v := &optValue{idx: len(table), spec: o, opt: opt, how: how, later: later}
				v.legacy = v.idx%2 == 1 // prepared alternately for the Streamable and the legacy client
				table = append(table, v)
			})
		}
		// the log is filled in creation order (makers that create several values report them after the fact)
		for _, v := range table {
			v.seq = p.log.add(v.spec)
			r.Count("optvalues_option_values_created", 1)
		}
		r.Count("optvalues_tables", 1)
		N := len(table)

		// ---- plan: creation order, every client constructed before the first is used
		var bs []*builtClient
		for i, v := range table {
			bs = append(bs, p.build(v, v.legacy, "none", i))
		}
		p.driveAll(bs, "creation-order", tn)

		// ---- plan: reverse order, each value on the OTHER back-end
		bs = nil
		for i := N - 1; i >= 0; i-- {
			bs = append(bs, p.build(table[i], !table[i].legacy, "none", N-1-i))
		}
		p.driveAll(bs, "reverse-order", tn)

		// ---- plan: shuffled; further values are created between construction and use
		rng := r.Rand("optvalues-shuffle-" + tag)
		perm := rng.Perm(N)
		bs = nil
		for i, j := range perm {
			bs = append(bs, p.build(table[j], rng.Intn(2) == 0, "none", i))
		}
		for i := 0; i < 13; i++ {
			_ = throwaway(r, p.log, i+tn)
		}
		p.driveAll(bs, "shuffled", tn)

		// ---- plan: one value, two clients (both back-ends; same back-end twice for every third value), used alternately
		for i, v := range table {
			a := p.build(v, false, "none", i)
			b := p.build(v, i%3 != 0, "none", i+1)
			pair := []*builtClient{a, b}
			for _, c := range pair {
				initOptClient(r, c.e, v.spec.String())
				c.e.srv.setMethod("tools/call")
			}
			okA := p.drive(a, "one-value-two-clients", tn, reqKinds[2])
			okB := p.drive(b, "one-value-two-clients", tn, reqKinds[2])
			okA2 := p.drive(a, "one-value-two-clients", tn, reqKinds[2])
			if okA && okB && okA2 {
				r.Count("optvalues_values_that_served_two_clients", 1)
			}
			a.e.close()
			b.e.close()
		}
		r.SetAdd("optvalues_plans", "one-value-two-clients")

		// ---- plan: the request under test is initialize itself (fresh, uninitialized client per value)
		for i, v := range table {
			if r.Quick() && (i+tn)%2 == 1 {
				continue
			}
			b := p.build(v, (i/2)%2 == 1, "initialize", i)
			p.drive(b, "initialize-itself", tn, reqKinds[0])
			b.e.close()
		}
		r.SetAdd("optvalues_plans", "initialize-itself")

		// ---- plan: clients constructed concurrently from the table while further values are being created
		bs = make([]*builtClient, N)
		start := make(chan struct{})
		var wg sync.WaitGroup
		for i, v := range table {
			wg.Add(1)
			go func(i int, v *optValue) {
				defer wg.Done()
				<-start
				bs[i] = p.build(v, v.legacy == (tn%2 == 0), "none", i)
			}(i, v)
		}
		wg.Add(1)
		go func() {
			defer wg.Done()
			<-start
			for i := 0; i < 64; i++ {
				_ = throwaway(r, p.log, i)
			}
		}()
		close(start)
		wg.Wait()
		r.Count("optvalues_clients_built_concurrently", int64(N))
		p.driveAll(bs, "concurrent-construction", tn)

		// ---- plan: creation of other values, construction and use interleaved
		for i, v := range table {
			_ = throwaway(r, p.log, 3*i)
			b := p.build(v, i%2 == 0, "none", i)
			_ = throwaway(r, p.log, 3*i+1)
			initOptClient(r, b.e, v.spec.String())
			b.e.srv.setMethod("tools/call")
			_ = throwaway(r, p.log, 3*i+2)
			p.drive(b, "interleaved", tn, reqKinds[2])
			b.e.close()
		}
		r.SetAdd("optvalues_plans", "interleaved")
	}
	if len(p.rows) > 0 {
		sampleOnce(r, "optvalues", map[string]interface{}{"part": "optvalues", "plan": "all values created first, clients constructed in reverse creation order on the other back-end, then driven", "clients": p.rows})
	}
	r.Count("optvalues_sequences_with_retry", p.st.retried)
	r.Count("optvalues_waits_compared", p.st.waits)
	if r.Counter("optvalues_persistent_failure_sequences_with_exactly_clamp_plus_one_attempts") == 0 {
		r.Note("optvalues: no persistent-failure sequence matched its value's configuration")
	}
}

func firstWait(w []waitRec) string {
	if len(w) == 0 {
		return "-"
	}
	return w[0].D.String()
}
