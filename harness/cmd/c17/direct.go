package main

// Parts (a) DIRECT and (b) CANCELLATION: retry.Execute (through mcp.VerifRetryExecute) driven by
// scripted operations; waits are recorded by the back-off observer (no real time passes).

import (
	"context"
	"errors"
	"fmt"
	"math"
	"math/rand"
	"strings"
	"sync"
	"sync/atomic"
	"time"

	mcp "trpc.group/trpc-go/trpc-mcp-go"

	"verifharness/lib/vh"
)

type waitRec struct {
	Attempt int           `json:"attempt"`
	D       time.Duration `json:"wait_ns"`
}

// recorder is the state the (process-wide) back-off observer writes to.
type recorder struct {
	mu           sync.Mutex
	waits        []waitRec
	cancelAtWait int // 1-based index of the wait whose computation cancels the context (0 = never)
	cancel       context.CancelFunc
	cancelReturn time.Duration // what the observer returns for the cancelling wait
	shrink       time.Duration // what it returns otherwise
	real         bool          // leave the computed wait in place (the sequence really sleeps)
}

var curRec atomic.Pointer[recorder]

// hungCases counts cancellations that were not honoured within 10 s. After three of them the
// cancelling wait is no longer stretched to 30 s (the defect is established; attempts are still judged),
// so that a broken tree does not stall the check for hours.
var hungCases atomic.Int32

func cancelWait() time.Duration {
	if hungCases.Load() >= 3 {
		return 0
	}
	return 30 * time.Second
}

var sampledKeys sync.Map

// sampleOnce keeps one evidence sample per key (the evidence file holds six).
func sampleOnce(r *vh.Run, key string, v interface{}) {
	if _, dup := sampledKeys.LoadOrStore(key, true); !dup {
		r.Sample(v)
	}
}

func installObserver() {
	mcp.VerifSetBackoffObserver(func(attempt int, d time.Duration) time.Duration {
		rec := curRec.Load()
		if rec == nil {
			return 0
		}
		rec.mu.Lock()
		defer rec.mu.Unlock()
		rec.waits = append(rec.waits, waitRec{attempt, d})
		if rec.cancelAtWait == len(rec.waits) && rec.cancel != nil {
			rec.cancel()
			return rec.cancelReturn
		}
		if rec.real {
			return d
		}
		return rec.shrink
	})
}

func (rec *recorder) snapshot() []waitRec {
	rec.mu.Lock()
	defer rec.mu.Unlock()
	return append([]waitRec{}, rec.waits...)
}

type directOpts struct {
	cancelAtWait int  // cancel from inside the observer at this wait
	cancelInOp   int  // cancel from inside this attempt (1-based), which then returns its scripted outcome
	preCancel    bool // context already cancelled when Execute is called
}

type directResult struct {
	Attempts int
	Beyond   int // attempts made after the script was exhausted (answered with success)
	Waits    []waitRec
	Err      error
	Hung     bool
}

// execDirect runs one scripted operation sequence through the library's retry loop.
func execDirect(c *cfg, script []outcome, o directOpts) directResult {
	ctx, cancel := context.WithCancel(context.Background())
	defer cancel()
	rec := &recorder{cancelAtWait: o.cancelAtWait, cancel: cancel, cancelReturn: cancelWait()}
	curRec.Store(rec)
	defer curRec.Store(nil)
	var calls, beyond atomic.Int32
	op := func() error {
		n := int(calls.Add(1))
		if o.cancelInOp == n {
			cancel()
		}
		if n-1 < len(script) {
			return script[n-1].Err
		}
		beyond.Add(1)
		return nil
	}
	if o.preCancel {
		cancel()
	}
	var err error
	hung := false
	if o.cancelAtWait == 0 {
		err = mcp.VerifRetryExecute(ctx, op, c, "c17")
	} else {
		done := make(chan error, 1)
		go func() { done <- mcp.VerifRetryExecute(ctx, op, c, "c17") }()
		select {
		case err = <-done:
		case <-time.After(10 * time.Second): // the cancelling wait is 30 s: still parked => the wait ignores the context
			hung = true
			hungCases.Add(1)
		}
	}
	return directResult{Attempts: int(calls.Load()), Beyond: int(beyond.Load()), Waits: rec.snapshot(), Err: err, Hung: hung}
}

// cfgModel caches the model's waits of one validated configuration.
type cfgModel struct {
	vc     cfg
	lo, hi [13]time.Duration
	beyond [13]bool
	class  string
}

func newCfgModel(vc cfg) *cfgModel {
	m := &cfgModel{vc: vc}
	for k := 1; k <= 12; k++ {
		m.lo[k], m.hi[k], m.beyond[k] = modelWait(vc, k)
	}
	m.class = fmt.Sprintf("M=%d|I=%s|F=%g|B=%s", vc.MaxRetries, vc.InitialBackoff, vc.BackoffFactor, vc.MaxBackoff)
	return m
}

func (m *cfgModel) wantWaits(n int) []string {
	var out []string
	for k := 1; k <= n && k <= 12; k++ {
		if m.lo[k] == m.hi[k] {
			out = append(out, m.lo[k].String())
		} else {
			out = append(out, fmt.Sprintf("%d..%dns", int64(m.lo[k]), int64(m.hi[k])))
		}
	}
	return out
}

func kindsOf(script []outcome) []byte {
	k := make([]byte, len(script))
	for i, o := range script {
		k[i] = o.Kind
	}
	return k
}

func namesOf(script []outcome) []string {
	n := make([]string, len(script))
	for i, o := range script {
		n[i] = o.Name
	}
	return n
}

// shapeOf: number of leading transient failures consumed and what ended the sequence.
func shapeOf(maxRetries int, kinds []byte) string {
	n, ok := modelAttempts(maxRetries, kinds)
	end := "success"
	switch {
	case ok:
	case n-1 < len(kinds) && kinds[n-1] == kTransient:
		end = "exhausted"
	default:
		end = "terminal"
	}
	return fmt.Sprintf("T%d>%s", n-1, end)
}

func waitStrings(w []waitRec) []string {
	out := make([]string, len(w))
	for i, x := range w {
		out[i] = fmt.Sprintf("attempt=%d:%s(%dns)", x.Attempt, x.D, int64(x.D))
	}
	return out
}

func errText(err error) string {
	if err == nil {
		return "<nil>"
	}
	s := err.Error()
	if len(s) > 300 {
		s = s[:300]
	}
	return s
}

// judgeWaits compares recorded waits with the model; part is "direct" or "e2e|<client>".
func judgeWaits(r *vh.Run, part string, m *cfgModel, attempts int, waits []waitRec, wit map[string]interface{}) bool {
	ok := true
	if len(waits) != attempts-1 {
		r.Violation(fmt.Sprintf("C17|%s|backoff|count|mismatch", part),
			fmt.Sprintf("%d attempts were made but %d waits were computed (want one wait between consecutive attempts)", attempts, len(waits)), wit)
		return false
	}
	for i, w := range waits {
		k := i + 1
		if k > 12 {
			break
		}
		if w.D >= m.lo[k] && w.D <= m.hi[k] {
			continue
		}
		ok = false
		sym := "mismatch"
		if m.beyond[k] {
			sym = "overflow"
		}
		r.Violation(fmt.Sprintf("C17|%s|backoff|attempt=%d|%s", part, k, sym),
			fmt.Sprintf("config %s: wait %d is %s (%d ns), want min(Initial*Factor^%d, Max) = %s", m.class, k, w.D, int64(w.D), k-1, m.wantWaits(k)[k-1]), wit)
	}
	return ok
}

type directStats struct {
	retried, waitsCompared, deepest int64
}

// judgeDirect compares one execution with the model. Returns true when everything matched.
func judgeDirect(r *vh.Run, m *cfgModel, script []outcome, res directResult, st *directStats) bool {
	kinds := kindsOf(script)
	M := m.vc.MaxRetries
	wantN, wantOK := modelAttempts(M, kinds)
	wit := map[string]interface{}{
		"config": m.class, "script": namesOf(script), "model_attempts": wantN, "observed_attempts": res.Attempts,
		"model_waits": m.wantWaits(wantN - 1), "observed_waits": waitStrings(res.Waits), "returned": errText(res.Err),
	}
	classAt := func(i int) (string, string) { // 1-based
		if i-1 < len(script) {
			return script[i-1].Class, script[i-1].text()
		}
		return "success", "<nil>"
	}
	ok := true
	switch {
	case res.Attempts > M+1:
		ok = false
		r.Violation(fmt.Sprintf("C17|direct|bound|MaxRetries=%d|extra-attempt", M),
			fmt.Sprintf("config %s: %d attempts, the bound is MaxRetries+1 = %d", m.class, res.Attempts, M+1), wit)
	case res.Attempts > wantN:
		ok = false
		cl, txt := classAt(wantN)
		wit["error_text"] = txt
		r.Violation(fmt.Sprintf("C17|direct|classifier|%s|extra-attempt", cl),
			fmt.Sprintf("attempt %d ended with a %s outcome (%q), which is not transient, yet attempt %d was made", wantN, cl, txt, wantN+1), wit)
	case res.Attempts < wantN:
		ok = false
		cl, txt := classAt(res.Attempts)
		wit["error_text"] = txt
		r.Violation(fmt.Sprintf("C17|direct|classifier|%s|not-retried", cl),
			fmt.Sprintf("attempt %d failed with a canonical transient %s error (%q) and %d retries were left, yet the sequence ended after %d attempt(s)", res.Attempts, cl, txt, M+1-res.Attempts, res.Attempts), wit)
	}
	if ok && (res.Err == nil) != wantOK {
		ok = false
		cl, _ := classAt(wantN)
		r.Violation(fmt.Sprintf("C17|direct|result|%s|wrong-result", cl),
			fmt.Sprintf("last attempt ended with %s but Execute returned %s", cl, errText(res.Err)), wit)
	}
	if res.Attempts <= M+1 && res.Attempts >= 1 {
		if !judgeWaits(r, "direct", m, res.Attempts, res.Waits, wit) {
			ok = false
		}
		st.waitsCompared += int64(len(res.Waits))
	}
	if res.Attempts > 1 {
		st.retried++
	}
	if int64(res.Attempts) > st.deepest {
		st.deepest = int64(res.Attempts)
	}
	return ok
}

// enumScripts calls fn with every script over alpha of length 0..maxLen. With pruned set nothing
// follows the first non-transient outcome (such a suffix is never consumed by a conforming loop).
// fn must not retain the slice.
func enumScripts(alpha []outcome, maxLen int, pruned bool, fn func([]outcome)) {
	buf := make([]outcome, 0, maxLen)
	var rec func()
	rec = func() {
		fn(buf)
		if len(buf) == maxLen {
			return
		}
		if pruned && len(buf) > 0 && buf[len(buf)-1].Kind != kTransient {
			return
		}
		for _, o := range alpha {
			buf = append(buf, o)
			rec()
			buf = buf[:len(buf)-1]
		}
	}
	rec()
}

func filterKind(all []outcome, kind byte) []outcome {
	var out []outcome
	for _, o := range all {
		if o.Kind == kind {
			out = append(out, o)
		}
	}
	return out
}

// sampleScript draws a script of length <= M+2: a random number of leading transient outcomes
// (biased towards deep sequences) followed by arbitrary outcomes.
func sampleScript(rng *rand.Rand, all, transient []outcome, M int) []outcome {
	n := rng.Intn(M + 3)
	lead := rng.Intn(n + 1)
	if rng.Intn(3) == 0 {
		lead = n
	}
	s := make([]outcome, 0, n)
	for i := 0; i < n; i++ {
		if i < lead {
			s = append(s, transient[rng.Intn(len(transient))])
		} else {
			s = append(s, all[rng.Intn(len(all))])
		}
	}
	return s
}

// gridConfigs is the boundary-value grid of raw configurations (each field at min-1, min, mid, max, max+1).
func gridConfigs() []cfg {
	var out []cfg
	for _, mr := range []int{-1, 0, 1, 3, 10, 11} {
		for _, ib := range []time.Duration{0, time.Millisecond, 500 * time.Millisecond, 30 * time.Second, 31 * time.Second} {
			for _, bf := range []float64{0.5, 1, 2, 10, 11} {
				for _, mb := range []time.Duration{0, ib, 8 * time.Second, 5 * time.Minute, 6 * time.Minute} {
					out = append(out, cfg{MaxRetries: mr, InitialBackoff: ib, BackoffFactor: bf, MaxBackoff: mb})
				}
			}
		}
	}
	return out
}

// extraConfigs: in-range values off the grid — other retry counts, factors whose powers are exact in
// binary floating point, and the two initial values around the point where Initial*10^9 leaves int64.
func extraConfigs() []cfg {
	var out []cfg
	for _, mr := range []int{2, 5, 7, 10} {
		for _, bf := range []float64{1.5, 2.5, 3, 7} {
			out = append(out, cfg{MaxRetries: mr, InitialBackoff: 7 * time.Millisecond, BackoffFactor: bf, MaxBackoff: 5 * time.Minute})
			out = append(out, cfg{MaxRetries: mr, InitialBackoff: 500 * time.Millisecond, BackoffFactor: bf, MaxBackoff: 8 * time.Second})
		}
	}
	out = append(out,
		cfg{MaxRetries: 10, InitialBackoff: 9223372036, BackoffFactor: 10, MaxBackoff: 5 * time.Minute}, // Initial*10^9 still fits int64
		cfg{MaxRetries: 10, InitialBackoff: 9223372037, BackoffFactor: 10, MaxBackoff: 5 * time.Minute}, // just beyond
		cfg{MaxRetries: 10, InitialBackoff: 30 * time.Second, BackoffFactor: 10, MaxBackoff: 30 * time.Second},
	)
	return out
}

// checkValidate judges Validate on one raw configuration and returns the validated value.
func checkValidate(r *vh.Run, raw cfg, rawClass string) (cfg, bool) {
	v := mcp.VerifRetryValidate(raw)
	vv := mcp.VerifRetryValidate(v)
	want := modelValidate(raw)
	wit := map[string]interface{}{"raw": fmt.Sprintf("%+v", raw), "validated": fmt.Sprintf("%+v", v), "validated_twice": fmt.Sprintf("%+v", vv), "model": fmt.Sprintf("%+v", want)}
	ok := true
	for _, f := range outOfRange(v) {
		ok = false
		if f == "BackoffFactor" {
			// show what the loop does with such a factor
			res := execDirect(&cfg{MaxRetries: 3, InitialBackoff: v.InitialBackoff, BackoffFactor: v.BackoffFactor, MaxBackoff: v.MaxBackoff},
				[]outcome{{Kind: kTransient, Err: errors.New("connection refused")}, {Kind: kTransient, Err: errors.New("connection refused")}, {Kind: kTransient, Err: errors.New("connection refused")}}, directOpts{})
			wit["waits_computed_with_this_config"] = waitStrings(res.Waits)
		}
		r.Violation(fmt.Sprintf("C17|validate|%s=%s|out-of-range", f, fieldClass(raw, f)),
			fmt.Sprintf("Validate(%+v) = %+v: %s is outside its documented range", raw, v, f), wit)
	}
	if !sameCfg(v, vv) {
		ok = false
		r.Violation(fmt.Sprintf("C17|validate|%s|not-idempotent", rawClass),
			fmt.Sprintf("Validate(Validate(c)) = %+v differs from Validate(c) = %+v", vv, v), wit)
	}
	if ok && !sameCfg(v, want) && !math.IsNaN(raw.BackoffFactor) {
		ok = false
		r.Violation(fmt.Sprintf("C17|validate|%s|clamp-mismatch", rawClass),
			fmt.Sprintf("Validate(%+v) = %+v, clamping to the nearest in-range values gives %+v", raw, v, want), wit)
	}
	return v, ok
}

// fieldClass is the input class of one field of a raw configuration.
func fieldClass(c cfg, field string) string {
	for _, kv := range strings.Split(rawClassOf(c), ",") {
		if p := strings.SplitN(kv, "=", 2); len(p) == 2 && strings.EqualFold(p[0], map[string]string{"MaxRetries": "retries", "InitialBackoff": "initial", "BackoffFactor": "factor", "MaxBackoff": "max"}[field]) {
			return p[1]
		}
	}
	return "?"
}

func rawClassOf(c cfg) string {
	cl := func(lo, hi, v float64) string {
		switch {
		case math.IsNaN(v):
			return "NaN"
		case v < lo:
			return "below"
		case v > hi:
			return "above"
		case v == lo:
			return "min"
		case v == hi:
			return "max"
		}
		return "mid"
	}
	mb := "in"
	switch {
	case c.MaxBackoff > docMaxCap:
		mb = "above"
	case c.MaxBackoff < c.InitialBackoff:
		mb = "below-initial"
	case c.MaxBackoff == c.InitialBackoff:
		mb = "eq-initial"
	case c.MaxBackoff == docMaxCap:
		mb = "max"
	}
	return fmt.Sprintf("retries=%s,initial=%s,factor=%s,max=%s",
		cl(docMinRetries, docMaxRetries, float64(c.MaxRetries)),
		cl(float64(docMinInitial), float64(docMaxInitial), float64(c.InitialBackoff)),
		cl(docMinFactor, docMaxFactor, c.BackoffFactor), mb)
}

func cfgKey(c cfg) string {
	return fmt.Sprintf("%d|%d|%x|%d", c.MaxRetries, int64(c.InitialBackoff), math.Float64bits(c.BackoffFactor), int64(c.MaxBackoff))
}

// cancelChecks: part (b) for one configuration and one all-transient script.
func cancelChecks(r *vh.Run, m *cfgModel, script []outcome) {
	M := m.vc.MaxRetries
	base := map[string]interface{}{"config": m.class, "script": namesOf(script)}
	witness := func(extra map[string]interface{}) map[string]interface{} {
		w := map[string]interface{}{}
		for k, v := range base {
			w[k] = v
		}
		for k, v := range extra {
			w[k] = v
		}
		return w
	}
	// (1) cancel from inside the computation of wait j: no attempt j+1, context error, at once
	for j := 1; j <= M; j++ {
		res := execDirect(&m.vc, script, directOpts{cancelAtWait: j})
		r.Eval(1)
		r.Count("cancellations_during_wait", 1)
		w := witness(map[string]interface{}{"cancel_at_wait": j, "observed_attempts": res.Attempts, "returned": errText(res.Err), "observed_waits": waitStrings(res.Waits), "still_waiting_after_10s": res.Hung})
		ok := true
		if res.Hung {
			ok = false
			r.Violation("C17|cancel|during-wait|not-prompt", fmt.Sprintf("config %s: context cancelled when wait %d began; Execute had not returned 10 s later", m.class, j), w)
		}
		if res.Attempts != j {
			ok = false
			sym := "extra-attempt"
			if res.Attempts < j {
				sym = "missing-attempt"
			}
			r.Violation("C17|cancel|during-wait|"+sym, fmt.Sprintf("config %s: cancelled at wait %d, the operation ran %d times (want %d)", m.class, j, res.Attempts, j), w)
		}
		if !res.Hung && !errors.Is(res.Err, context.Canceled) {
			ok = false
			r.Violation("C17|cancel|during-wait|wrong-error", fmt.Sprintf("config %s: cancelled at wait %d, Execute returned %s (want the context's error)", m.class, j, errText(res.Err)), w)
		}
		if ok {
			r.Distinct(fmt.Sprintf("cancel-wait|%s|j=%d", m.class, j))
			if j == M && M == 3 {
				sampleOnce(r, "cancel", map[string]interface{}{"part": "cancel-during-wait", "config": m.class, "script": namesOf(script), "cancel_at_wait": j, "observed_attempts": res.Attempts, "returned": errText(res.Err)})
			}
		}
	}
	// (2) cancel from inside attempt i (which then fails transiently): no attempt i+1
	for i := 1; i <= M; i++ {
		res := execDirect(&m.vc, script, directOpts{cancelInOp: i})
		r.Eval(1)
		r.Count("cancellations_during_attempt", 1)
		w := witness(map[string]interface{}{"cancel_in_attempt": i, "observed_attempts": res.Attempts, "returned": errText(res.Err)})
		if res.Attempts != i {
			r.Violation("C17|cancel|during-attempt|extra-attempt", fmt.Sprintf("config %s: cancelled during attempt %d, the operation ran %d times", m.class, i, res.Attempts), w)
		} else if res.Err == nil {
			r.Violation("C17|cancel|during-attempt|wrong-error", fmt.Sprintf("config %s: cancelled during failing attempt %d, Execute returned nil", m.class, i), w)
		} else {
			r.Distinct(fmt.Sprintf("cancel-attempt|%s|i=%d", m.class, i))
		}
	}
	// (3) context cancelled before the call: at most the first attempt runs, never a second
	res := execDirect(&m.vc, script, directOpts{preCancel: true})
	r.Eval(1)
	r.Count("cancellations_before_call", 1)
	w := witness(map[string]interface{}{"observed_attempts": res.Attempts, "returned": errText(res.Err)})
	switch {
	case res.Attempts > 1:
		r.Violation("C17|cancel|before-call|extra-attempt", fmt.Sprintf("config %s: context cancelled before the call, the operation ran %d times", m.class, res.Attempts), w)
	case res.Attempts == 0 && !errors.Is(res.Err, context.Canceled):
		r.Violation("C17|cancel|before-call|wrong-error", fmt.Sprintf("config %s: context cancelled before the call, nothing attempted, returned %s", m.class, errText(res.Err)), w)
	default:
		r.Distinct(fmt.Sprintf("cancel-before|M=%d|attempts=%d", M, res.Attempts))
	}
}
