// C14 — all transports answer alike (differential monitoring).
package main

import (
	"context"
	"encoding/json"
	"fmt"
	"regexp"
	"sort"
	"strings"
	"sync"
	"time"

	mcp "trpc.group/trpc-go/trpc-mcp-go"

	"verifharness/lib/gen"
	"verifharness/lib/kit"
	"verifharness/lib/vh"
)

var sessRe = regexp.MustCompile(`\\"session\\":\\"[^"\\]*\\"`)

// normalise renders an outcome in a transport-independent way: class, code, and for results the JSON with
// listed items sorted and session-specific strings blanked. Error message wording is dropped.
func normalise(o gen.Outcome, frames []string) string {
	switch o.Class {
	case "error":
		return fmt.Sprintf("error:%d", o.Code)
	case "result":
		for _, f := range frames {
			var m map[string]json.RawMessage
			if json.Unmarshal([]byte(f), &m) != nil || m["result"] == nil {
				continue
			}
			var v interface{}
			if json.Unmarshal(m["result"], &v) != nil {
				return "result:unparsable"
			}
			sortLists(v)
			b, _ := json.Marshal(v)
			return "result:" + sessRe.ReplaceAllString(string(b), `\"session\":\"S\"`)
		}
		return "result:?"
	default:
		return o.Class
	}
}

func sortLists(v interface{}) {
	m, ok := v.(map[string]interface{})
	if !ok {
		return
	}
	for _, key := range []string{"tools", "prompts", "resources"} {
		if arr, ok := m[key].([]interface{}); ok {
			sort.SliceStable(arr, func(i, j int) bool {
				a, _ := json.Marshal(arr[i])
				b, _ := json.Marshal(arr[j])
				return string(a) < string(b)
			})
		}
	}
}

type obs struct {
	norm   string
	status int
	frames []string
}

func serverDifferential(r *vh.Run, level int) {
	kinds := []kit.Kind{kit.SJSON, kit.SSSE, kit.SLJSON, kit.SNoSess, kit.LSSE, kit.Stdio, kit.SLSSE}
	results := map[kit.Kind]map[string]obs{}
	order := []string{}
	bodies := map[string]string{}
	var mu sync.Mutex
	var wg sync.WaitGroup
	for _, kind := range kinds {
		wg.Add(1)
		go func(kind kit.Kind) {
			defer wg.Done()
			in := kit.Start(kind, kit.Opts{})
			defer in.Close()
			kit.StdFixture(in)
			ctx, cancel := context.WithTimeout(context.Background(), 10*time.Minute)
			defer cancel()
			c, err := in.Dial(ctx)
			if err != nil {
				r.Fatal("dial %s: %v", kind, err)
			}
			defer c.Close()
			if err := c.Handshake(ctx); err != nil {
				r.Violation(fmt.Sprintf("C14|handshake|%s", kind), err.Error(), nil)
				return
			}
			// identical request bodies for every kind: same id generator, same seed; kit.SJSON decides the label set
			ids := gen.NewIDGen("c14", 5000)
			reqs := gen.Requests(kit.SJSON, r.Rand("c14"), ids, level)
			local := map[string]obs{}
			seen := map[string]int{}
			for _, rq := range reqs {
				if !rq.Common {
					continue
				}
				seen[rq.Label]++
				key := fmt.Sprintf("%s#%d", rq.Label, seen[rq.Label])
				body := rq.Body
				opts := rq.Opts
				if kind == kit.Stdio || kind == kit.LSSE {
					opts.WantID = rq.RawID
					opts.Wait = 15 * time.Second
				}
				ex := c.Post(ctx, body, opts)
				o := gen.Observe(kind, ex)
				local[key] = obs{norm: normalise(o, ex.Frames), status: o.Status, frames: o.Frames}
				if kind == kinds[0] {
					mu.Lock()
					order = append(order, key)
					bodies[key] = string(rq.Body)
					mu.Unlock()
				}
			}
			mu.Lock()
			results[kind] = local
			mu.Unlock()
		}(kind)
	}
	wg.Wait()
	for _, key := range order {
		ref := results[kinds[0]][key]
		agree := true
		for _, k := range kinds[1:] {
			r.Eval(1)
			got, ok := results[k][key]
			if !ok {
				continue
			}
			if got.norm != ref.norm {
				agree = false
				label := key[:strings.LastIndex(key, "#")]
				r.Violation(fmt.Sprintf("C14|server|%s|%s-vs-%s|%s", label, kinds[0], k, diffClass(ref.norm, got.norm)),
					fmt.Sprintf("request class %q: %s answers %s, %s answers %s", label, kinds[0], short(ref.norm), k, short(got.norm)),
					map[string]interface{}{"request": short(bodies[key]), string(kinds[0]): ref.frames, string(k): got.frames})
			}
		}
		if agree {
			r.Distinct("server|" + key[:strings.LastIndex(key, "#")] + "|" + classOf(ref.norm))
		}
	}
	r.Count("server_requests_compared", int64(len(order)))
	if len(order) > 0 {
		r.Sample(map[string]interface{}{"part": "server", "request": short(bodies[order[5%len(order)]]), "normalised_answer": short(results[kinds[0]][order[5%len(order)]].norm), "kinds": kinds})
	}
}

func classOf(n string) string {
	if i := strings.Index(n, ":"); i > 0 {
		if strings.HasPrefix(n, "error:") {
			return n
		}
		return n[:i]
	}
	return n
}

func diffClass(a, b string) string {
	ca, cb := classOf(a), classOf(b)
	if ca != cb {
		return ca + "-vs-" + cb
	}
	return "result-differs"
}

func short(s string) string {
	if len(s) > 400 {
		return s[:400] + "..."
	}
	return s
}

// clientDifferential: the same operations through the three client kinds against servers with the same fixture.
func clientDifferential(r *vh.Run) {
	type cl struct {
		name string
		c    *kit.LibClient
		in   *kit.Instance
	}
	ctx, cancel := context.WithTimeout(context.Background(), 2*time.Minute)
	defer cancel()
	var cls []cl
	for _, kind := range []kit.Kind{kit.SJSON, kit.SSSE, kit.SLJSON, kit.LSSE} {
		in := kit.Start(kind, kit.Opts{})
		kit.StdFixture(in)
		c, err := in.NewClient()
		if err != nil {
			r.Fatal("client: %v", err)
		}
		cls = append(cls, cl{"client@" + string(kind), c, in})
	}
	sc, err := kit.NewStdioClient("std", nil, 30*time.Second)
	if err != nil {
		r.Fatal("stdio client: %v", err)
	}
	cls = append(cls, cl{"client@stdio", sc, nil})
	defer func() {
		for _, c := range cls {
			c.c.Close()
			if c.in != nil {
				c.in.Close()
			}
		}
	}()
	for _, c := range cls {
		if _, err := c.c.Initialize(ctx, &mcp.InitializeRequest{}); err != nil {
			r.Violation("C14|client|initialize|"+c.name, err.Error(), nil)
			return
		}
	}
	type op struct {
		name string
		run  func(c mcp.Connector) (interface{}, error)
	}
	call := func(tool string, args map[string]interface{}) func(c mcp.Connector) (interface{}, error) {
		return func(c mcp.Connector) (interface{}, error) {
			rq := &mcp.CallToolRequest{}
			rq.Params.Name = tool
			rq.Params.Arguments = args
			return c.CallTool(ctx, rq)
		}
	}
	getPrompt := func(name string, args map[string]string) func(c mcp.Connector) (interface{}, error) {
		return func(c mcp.Connector) (interface{}, error) {
			rq := &mcp.GetPromptRequest{}
			rq.Params.Name = name
			rq.Params.Arguments = args
			return c.GetPrompt(ctx, rq)
		}
	}
	read := func(uri string) func(c mcp.Connector) (interface{}, error) {
		return func(c mcp.Connector) (interface{}, error) {
			rq := &mcp.ReadResourceRequest{}
			rq.Params.URI = uri
			return c.ReadResource(ctx, rq)
		}
	}
	ops := []op{
		{"ListTools", func(c mcp.Connector) (interface{}, error) { return c.ListTools(ctx, &mcp.ListToolsRequest{}) }},
		{"CallTool|echo", call("echo", map[string]interface{}{"nonce": "d", "payload": "pp"})},
		{"CallTool|echo-unicode", call("echo", map[string]interface{}{"nonce": "ü \n✓", "payload": "p\r\np"})},
		{"CallTool|iserr", call("iserr", map[string]interface{}{"nonce": "e"})},
		{"CallTool|nilcontent", call("nilcontent", map[string]interface{}{})},
		{"CallTool|handler-error", call("fail", map[string]interface{}{"nonce": "zz"})},
		{"CallTool|unencodable", call("nan", map[string]interface{}{})},
		{"CallTool|unknown-tool", call("no-such-tool", map[string]interface{}{})},
		{"CallTool|nil-arguments", call("iserr", nil)},
		{"ListPrompts", func(c mcp.Connector) (interface{}, error) { return c.ListPrompts(ctx, &mcp.ListPromptsRequest{}) }},
		{"GetPrompt|ok", getPrompt("p-ok", map[string]string{"who": "w"})},
		{"GetPrompt|handler-error", getPrompt("p-fail", nil)},
		{"GetPrompt|unknown", getPrompt("nope", nil)},
		{"ListResources", func(c mcp.Connector) (interface{}, error) { return c.ListResources(ctx, &mcp.ListResourcesRequest{}) }},
		{"ReadResource|text", read("res://ok")},
		{"ReadResource|blob", read("res://blob")},
		{"ReadResource|multi", read("res://multi")},
		{"ReadResource|handler-error", read("res://fail")},
		{"ReadResource|unknown", read("res://nope")},
	}
	codeRe := regexp.MustCompile(`code: (-?\d+)`)
	for _, o := range ops {
		var ref string
		for i, c := range cls {
			v, err := o.run(c.c)
			r.Eval(1)
			var norm string
			if err != nil {
				norm = "error"
				if m := codeRe.FindStringSubmatch(err.Error()); m != nil {
					norm += ":" + m[1]
				}
			} else {
				b, _ := json.Marshal(v)
				var gv interface{}
				_ = json.Unmarshal(b, &gv)
				sortLists(gv)
				b, _ = json.Marshal(gv)
				norm = "value:" + sessRe.ReplaceAllString(string(b), `\"session\":\"S\"`)
			}
			if i == 0 {
				ref = norm
				continue
			}
			if norm != ref {
				r.Violation(fmt.Sprintf("C14|client|%s|%s-vs-%s|%s", o.name, cls[0].name, c.name, diffClass(strings.Replace(ref, "value:", "result:", 1), strings.Replace(norm, "value:", "result:", 1))),
					fmt.Sprintf("operation %s: %s returned %s, %s returned %s", o.name, cls[0].name, short(ref), c.name, short(norm)), nil)
			} else {
				r.Distinct("client|" + o.name + "|" + c.name)
			}
		}
	}
	r.Sample(map[string]interface{}{"part": "client", "operations": len(ops), "clients": len(cls)})
}

func main() {
	kit.MaybeServeStdioChild()
	kit.Silence()
	r := vh.NewRun("C14", "exploration")
	serverDifferential(r, r.Pick(0, 1))
	generatedDifferential(r, r.Pick(12, 3000))
	historyDifferential(r, r.Pick(30, 400), r.Pick(16, 30), r.Pick(12, 40))
	clientDifferential(r)
	generatedClients(r, r.Pick(6, 150))
	historyClients(r, r.Pick(10, 120), r.Pick(12, 25), r.Pick(6, 20))
	r.Finish("history part: 30 (quick) / 400 (thorough) seeded histories of 16 / 30 registry changes out of 50 classes — first registrations; registering a tool / prompt / resource name again WITHOUT unregistering it (the same objects, an equal definition, another handler / description / schema / annotations / arguments / mime type / name / everything, twice in a row); UnregisterTools of known, unknown, already removed, empty, no and duplicate names, of all tools, followed by registering the same or a different entry; RegisterResources replacing RegisterResource for a URI and back; resource templates (first, same name again, covering a registered URI, a resource registered at a URI a template covers); empty names; 12 / 40 entries of each kind at once; everything registered again — applied through each server kind's OWN Register* / Unregister* methods (half of the operations through the kit helper, half on the concrete server object) to the seven configurations, in three layouts: an initial registry before the first handshake and the changes while serving, everything after the handshake, everything before it. Every handler says which registration (generation) it belongs to. After every change: the three lists, call / get / read of every touched name (two argument shapes), of up to 4 untouched or removed names, of unknown names, and the initialize answer of a fresh connection, compared across configurations (no prediction of what a re-registration means: replace or ignore are both accepted as long as all seven agree; the Go return values of UnregisterTools are not judged; an unanswered request is inconclusive). The client part replays 10 / 120 such histories in the stdio server child too and compares the five clients on every name ever mentioned. generated part: 12 (quick) / 3000 (thorough) registries drawn from the PRNG (0-5 tools with 0-3 arguments of every JSON type, required or not, with and without descriptions and annotations, 11 handler outcomes incl. Go error, isError, nil content, image / audio / embedded resource / mixed content, empty text, unencodable; 0-3 prompts with arguments and 6 outcomes; 0-3 resources with text / blob / empty / failing / multi-content handlers; registry #0 is empty) registered identically on the seven configurations; one scripted sequence per registry (handshake, ping, the three lists, per tool 9 argument shapes, per prompt 5, per resource 2, unknown names, then registry changes while serving — unregister, register again differently, first late entries — each followed by lists and calls, then a second handshake on a new connection) replayed on each; step i compared across configurations. Server part: the C03 request generator restricted to the 8 methods every transport serves (valid requests, params and each parameter removed / retyped to every JSON type / extra members, string and integer ids), byte-identical requests sent to Streamable {JSON, SSE, stateless JSON, stateless SSE, sessions disabled}, legacy SSE and stdio servers with identical registrations; answers normalised (listed items sorted, error wording dropped, session ids blanked) and compared against the first kind. Client part: 19 operations (values, isError, nil content, handler errors, unencodable results, unknown names) through the Streamable client (JSON, SSE, stateless), the legacy SSE client and the stdio client; returned values compared as JSON, errors by class and code. The client part is repeated over 6 / 150 generated registries (lists, every tool with typed / nil / empty arguments, every prompt, every resource). Distinct = (part, request class / operation, answer class / client) that agreed.",
		[]string{"client part compares the clients against real servers with the same fixture (whose equal answers are established by the server part) instead of replaying one scripted answer",
			"error message wording and the order of listed items are outside the statement",
			"history part: 'the same registrations' is read as the same sequence of public registry operations on each server kind; only JSON-RPC answers are compared (not the Go return value of UnregisterTools); resources/templates/list is not one of the eight methods and is not compared",
			"history part: per history, configuration and entry family only the first divergence is reported (later ones are the same diverged registry seen again)"})
}
